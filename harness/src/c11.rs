//! C11 — CA protocol XML (src/ca/publication.rs, provisioning.rs, idexchange.rs).
//!
//! op:  xml <kind> <origin> <hex of XML document>
//!   kind   = pub | prov | creq | presp | preq | rresp
//!            (publication::Message, provisioning::Message, idexchange::ChildRequest, ParentResponse,
//!             PublisherRequest, RepositoryResponse)
//!   origin = api1 | api0 | raw      (echoed only)
//!            api1: `generate` built a message msg0 through the public constructors from protocol-valid
//!                  values, wrote it, and the library parsed the document back to a value == msg0
//!            api0: as api1 but that check failed at generation time (decode error or unequal)
//!            raw:  hand-written / mutated / hostile documents, test-data files, and documents written
//!                  from values the checked constructors reject (built through `Handle::new`)
//!   result:  err                                      the library rejects the document
//!            ok <hex xml1> <same|differs|reparse-err> <idem|changed> <origin>
//!              msg1 = parse(doc); xml1 = write(msg1); msg2 = parse(xml1);
//!              same = msg2 == msg1 (all six types have a usable PartialEq; for the certificate and CSR
//!              carrying parts the library's own PartialEq compares the captured DER), idem = xml1 == doc
//!            write-err                                 write_xml into a Vec failed (cannot happen)
use crate::pki::{Kind, Pool, Res};
use crate::rng::{hex, unhex, Rng};
use crate::Ctx;
use bytes::Bytes;
use rpki::ca::csr::{Csr, RpkiCaCsr};
use rpki::ca::idcert::IdCert;
use rpki::ca::idexchange::{
    ChildRequest, Handle, ParentResponse, PublisherRequest, RepositoryResponse, ServiceUri,
};
use rpki::ca::provisioning as prov;
use rpki::ca::publication as publ;
use rpki::ca::sigmsg::SignedMessage;
use rpki::crypto::KeyIdentifier;
use rpki::repository::resources::{AsBlocks, Ipv4Blocks, Ipv6Blocks, ResourceSet};
use rpki::repository::x509::{Time, Validity};
use rpki::repository::Cert;
use rpki::rrdp::Hash;
use rpki::uri;
use std::str::FromStr;

//------------ the six message types behind one interface ----------------------

trait Msg: PartialEq + Sized + std::fmt::Debug {
    const KIND: &'static str;
    fn parse(doc: &[u8]) -> Option<Self>;
    fn write(&self) -> Option<Vec<u8>>;
}

macro_rules! impl_msg {
    ($t:ty, $kind:expr, $parse:path) => {
        impl Msg for $t {
            const KIND: &'static str = $kind;
            fn parse(doc: &[u8]) -> Option<Self> { $parse(doc).ok() }
            fn write(&self) -> Option<Vec<u8>> {
                let mut v = Vec::new();
                self.write_xml(&mut v).ok()?;
                Some(v)
            }
        }
    };
}

impl_msg!(publ::Message, "pub", publ::Message::decode);
impl_msg!(prov::Message, "prov", prov::Message::decode);
impl_msg!(ChildRequest, "creq", ChildRequest::parse);
impl_msg!(ParentResponse, "presp", ParentResponse::parse);
impl_msg!(PublisherRequest, "preq", PublisherRequest::parse);
impl_msg!(RepositoryResponse, "rresp", RepositoryResponse::parse);

const KINDS: [&str; 6] = ["pub", "prov", "creq", "presp", "preq", "rresp"];

fn round<T: Msg>(doc: &[u8], origin: &str) -> String {
    let Some(m1) = T::parse(doc) else { return "err".into() };
    let Some(x1) = m1.write() else { return "write-err".into() };
    let verdict = match T::parse(&x1) {
        Some(m2) => if m2 == m1 { "same" } else { "differs" },
        None => "reparse-err",
    };
    format!("ok {} {} {} {}", hex(&x1), verdict, if x1 == doc { "idem" } else { "changed" }, origin)
}

pub fn exec(toks: &[&str]) -> String {
    match toks {
        ["xml", kind, origin, h] => {
            if !matches!(*origin, "api1" | "api0" | "raw") { return "bad-op".into() }
            let Some(doc) = unhex(h) else { return "bad-op".into() };
            match *kind {
                "pub" => round::<publ::Message>(&doc, origin),
                "prov" => round::<prov::Message>(&doc, origin),
                "creq" => round::<ChildRequest>(&doc, origin),
                "presp" => round::<ParentResponse>(&doc, origin),
                "preq" => round::<PublisherRequest>(&doc, origin),
                "rresp" => round::<RepositoryResponse>(&doc, origin),
                _ => "bad-op".into(),
            }
        }
        _ => "bad-op".into(),
    }
}

//------------ generation: emitting ---------------------------------------------

/// Documents kept as seeds for the mutation stage.
struct Seeds {
    docs: Vec<(&'static str, Vec<u8>)>,
    per_kind: [usize; 6],
}

impl Seeds {
    fn keep(&mut self, kind: &'static str, doc: &[u8]) {
        let k = KINDS.iter().position(|x| *x == kind).unwrap();
        // small documents only: a mutated seed is printed twice (input and rewritten)
        if doc.len() <= 6000 && self.per_kind[k] < 3000 {
            self.per_kind[k] += 1;
            self.docs.push((kind, doc.to_vec()));
        }
    }
}

/// Writes an API-made message, classifies it and runs the case.  `valid` is false when some field
/// value was rejected by its checked constructor and forced in through an unchecked one.
fn emit<T: Msg>(ctx: &mut Ctx, seeds: &mut Seeds, m0: &T, valid: bool) {
    let Some(x0) = m0.write() else { return };
    if x0.len() > 72_000 { return }   // keeps the line below ~300 kB
    let origin = if !valid { "raw" } else {
        match T::parse(&x0) { Some(m) if m == *m0 => "api1", _ => "api0" }
    };
    if origin == "api1" { seeds.keep(T::KIND, &x0); }
    if origin == "api0" && std::env::var_os("C11_DEBUG").is_some() {
        // for the analysis of findings: what went in and what came back
        eprintln!("--- api0 {}\n{:?}\n=>\n{:?}", T::KIND, m0, T::parse(&x0));
    }
    ctx.case(&format!("xml {} {} {}", T::KIND, origin, hex(&x0)));
}

fn raw(ctx: &mut Ctx, kind: &str, doc: &[u8]) {
    ctx.case(&format!("xml {} raw {}", kind, hex(doc)));
}

//------------ generation: field values -----------------------------------------

const HANDLE_CHARS: &[u8] = b"-_/ABCDEFGHIJKLMNOPQRSTUVWXYZabcdefghijklmnopqrstuvwxyz0123456789";
/// every octet `uri::check_uri_ascii` admits
const URI_CHARS: &[u8] = b"!$%&'()*+,-.0123456789:;=ABCDEFGHIJKLMNOPQRSTUVWXYZ_abcdefghijklmnopqrstuvwxyz~";

fn printable(rng: &mut Rng, n: usize) -> String {
    const SPECIAL: &[u8] = b"<>&\"' \t;#=/]";
    (0..n).map(|_| if rng.chance(1, 3) { *rng.pick(SPECIAL) } else { rng.range(32, 126) as u8 } as char).collect()
}

/// A free ASCII string (tags, class names).
fn free_string(rng: &mut Rng) -> String {
    match rng.below(16) {
        0 => String::new(),
        1 => " ".into(),
        2 => (*rng.pick(b"<>&\"' \t") as char).to_string(),
        3 => "<>&\"'".into(),
        4 => format!(" {}", printable(rng, 5)),
        5 => format!("{} ", printable(rng, 5)),
        6 => "\ttab\tbed\t".into(),
        7 => { let n = rng.range(300, 2000) as usize; printable(rng, n) }
        8 => (*rng.pick(&["&amp;", "&#65;", "&bogus;", "]]>", "<!-- c -->", "<![CDATA[x]]>", "a=\"b\"", "</msg>", "&", "&#x;"])).to_string(),
        9 => (*rng.pick(&["a\nb", "a\r\nb", "\n", "a  b", "\r"])).to_string(),
        10 => (*rng.pick(&["\u{1}", "a\u{7f}b", "\u{0}", "\u{1b}[0m"])).to_string(),
        11 => "all".into(),
        _ => { let n = rng.range(1, 30) as usize; printable(rng, n) }
    }
}

/// `plain` messages avoid the value shapes already known not to survive (absent tags on publication
/// elements, zero-length objects, sub-second times, IPv4-mapped IPv6 blocks) so that these do not
/// mask anything else in the same document.
fn opt_tag(rng: &mut Rng, plain: bool) -> Option<String> {
    if !plain && rng.chance(1, 3) { None } else { Some(free_string(rng)) }
}

fn handle_string(rng: &mut Rng) -> String {
    let from = |rng: &mut Rng, n: usize| -> String { (0..n).map(|_| *rng.pick(HANDLE_CHARS) as char).collect() };
    match rng.below(14) {
        0 => (*rng.pick(HANDLE_CHARS) as char).to_string(),
        1 => from(rng, 255),
        2 => from(rng, 256),                                   // too long
        3 => String::new(),                                    // empty
        4 => {                                                 // one character outside the set
            let mut s = from(rng, 6);
            s.insert(rng.below(7) as usize, *rng.pick(&['\\', ' ', '.', '<', '&', '"', '\'', '>', '+', '=', ':', '@', '\u{e9}', '\t', '~', '%']));
            s
        }
        5 => (*rng.pick(&["-", "_", "/", "//", "-/_", "/a/", "a/b/c", "--", "__", "0", "-_-/"])).to_string(),
        6 => from(rng, 254),
        _ => { let n = rng.range(1, 40) as usize; from(rng, n) }
    }
}

/// A handle through the checked constructor; if that rejects the name, through `Handle::new`
/// (the document then counts as `raw`).
fn handle<T>(rng: &mut Rng, valid: &mut bool) -> Handle<T> {
    let s = handle_string(rng);
    match Handle::<T>::from_str(&s) {
        Ok(h) => h,
        Err(_) => { *valid = false; Handle::new(s.into()) }
    }
}

fn uri_segment(rng: &mut Rng) -> String {
    match rng.below(6) {
        0 => (*rng.pick(&["a&b", "q'r", "(1)*!$,;=", "%20", "x:y", "~u", "a.b.c", "...", "&amp;", "&lt;", "'", "&"])).to_string(),
        1 => { let n = rng.range(1, 12) as usize; (0..n).map(|_| *rng.pick(URI_CHARS) as char).collect() }
        _ => { let n = rng.range(1, 8) as usize; (0..n).map(|_| rng.range(b'a' as u64, b'z' as u64) as u8 as char).collect() }
    }
}

fn uri_path(rng: &mut Rng, ext: &str) -> String {
    let mut p = String::new();
    for _ in 0..rng.below(4) { p.push_str(&uri_segment(rng)); p.push('/'); }
    match rng.below(4) { 0 => {}, 1 => p.push_str(&uri_segment(rng)), _ => { p.push_str(&uri_segment(rng)); p.push_str(ext); } }
    p
}

fn rsync(rng: &mut Rng, ext: &str) -> uri::Rsync {
    let scheme = if rng.chance(1, 10) { "RSYNC" } else { "rsync" };
    let host = *rng.pick(&["h", "localhost:873", "[2001:db8::1]", "RSYNC.Example.NET", "a&b.example", "h'"]);
    let module = if rng.chance(1, 4) { uri_segment(rng) } else { "repo".to_string() };
    let s = format!("{}://{}/{}/{}", scheme, host, module, uri_path(rng, ext));
    uri::Rsync::from_str(&s).unwrap_or_else(|_| uri::Rsync::from_str("rsync://h/m/fallback.cer").unwrap())
}

/// An rsync URI whose path ends in a slash.  (`Csr::construct_rpki_ca` panics on a `ca_repository`
/// without trailing slash: its `join(b"/")` fix-up always fails with `EmptySegments` and is unwrapped.)
fn rsync_dir(rng: &mut Rng) -> uri::Rsync {
    let u = rsync(rng, "");
    if u.path_is_dir() { u } else { uri::Rsync::from_string(format!("{}/", u)).unwrap_or(u) }
}

fn https(rng: &mut Rng, ext: &str) -> uri::Https {
    let scheme = if rng.chance(1, 10) { "HTTPS" } else { "https" };
    let host = *rng.pick(&["h", "localhost:8443", "[2001:db8::1]", "RRDP.Example.NET", "a&b.example"]);
    let s = format!("{}://{}/{}", scheme, host, uri_path(rng, ext));
    uri::Https::from_str(&s).unwrap_or_else(|_| uri::Https::from_str("https://h/fallback.xml").unwrap())
}

fn service_uri(rng: &mut Rng) -> ServiceUri {
    if rng.bool() {
        ServiceUri::Https(https(rng, ""))
    } else {
        let scheme = *rng.pick(&["http", "HTTP", "Http"]);
        let s = format!("{}://{}/{}", scheme, rng.pick(&["h", "localhost:3000", "a&b.example", "RPKI.Example.NET"]), uri_path(rng, ""));
        // the variant is public: the value is made without going through the parser under test
        ServiceUri::Http(s)
    }
}

fn hash(rng: &mut Rng) -> Hash {
    let mut a = [0u8; 32];
    a.copy_from_slice(&rng.bytes(32));
    Hash::from(a)
}

fn content(rng: &mut Rng, budget: &mut usize, plain: bool) -> Vec<u8> {
    let n = match rng.below(8) {
        0 => if plain { 1 } else { 0 },
        1 => rng.range(1, 3),
        2 => rng.range(1000, 4096),
        3 => 4096,
        4 => 256,
        _ => rng.range(3, 200),
    } as usize;
    let n = n.min(*budget).max(if plain { 1 } else { 0 });
    *budget = budget.saturating_sub(n);
    if n == 256 { (0..=255u8).collect() } else { rng.bytes(n) }
}

fn as_text(rng: &mut Rng) -> String {
    let one = |rng: &mut Rng| -> String {
        let a = match rng.below(5) { 0 => 0, 1 => u32::MAX as u64, 2 => rng.below(70000), _ => rng.below(1 << 32) };
        let pre = *rng.pick(&["AS", "AS", "as", ""]);
        if rng.chance(1, 3) {
            let b = a + rng.below(((u32::MAX as u64) - a).min(1000) + 1);
            format!("{}{}-{}{}", pre, a, pre, b)
        } else { format!("{}{}", pre, a) }
    };
    match rng.below(6) {
        0 => String::new(),
        1 => "AS0-AS4294967295".into(),
        2 => "AS1, AS2, AS3-AS4, AS5-AS9".into(),       // adjacent: merged
        3 => "AS10-AS20,AS15-AS30 , AS12".into(),        // overlapping
        _ => { let n = rng.range(1, 5); (0..n).map(|_| one(rng)).collect::<Vec<_>>().join(*rng.pick(&[",", ", "])) }
    }
}

fn v4_text(rng: &mut Rng) -> String {
    let one = |rng: &mut Rng| -> String {
        let a = rng.next() as u32;
        match rng.below(4) {
            0 => { let l = rng.range(0, 32) as u32; let m = if l == 0 { 0 } else { a & (!0u32 << (32 - l)) }; format!("{}/{}", std::net::Ipv4Addr::from(m), l) }
            1 => { let b = a.saturating_add(rng.below(5000) as u32); format!("{}-{}", std::net::Ipv4Addr::from(a), std::net::Ipv4Addr::from(b)) }
            2 => format!("{}", std::net::Ipv4Addr::from(a)),
            _ => { let m = a & 0xffff_ff00; format!("{}-{}", std::net::Ipv4Addr::from(m), std::net::Ipv4Addr::from(m | 0xff)) }  // a range that is a prefix
        }
    };
    match rng.below(6) {
        0 => String::new(),
        1 => "0.0.0.0/0".into(),
        2 => "10.0.0.0/8, 11.0.0.0/8, 192.168.0.0-192.168.1.255".into(),
        3 => "0.0.0.0-255.255.255.255".into(),
        _ => { let n = rng.range(1, 5); (0..n).map(|_| one(rng)).collect::<Vec<_>>().join(", ") }
    }
}

fn v6_text(rng: &mut Rng, plain: bool) -> String {
    let one = |rng: &mut Rng| -> String {
        // (random addresses start with a non-zero group: never IPv4-mapped or IPv4-compatible)
        let a = (rng.u128() & !((1u128 << rng.below(112)) - 1)) | (1u128 << 125);
        match rng.below(3) {
            0 => { let l = rng.range(0, 128) as u32; let m = if l == 0 { 0 } else { a & (!0u128 << (128 - l)) }; format!("{}/{}", std::net::Ipv6Addr::from(m), l) }
            1 => { let b = a.saturating_add(rng.next() as u128); format!("{}-{}", std::net::Ipv6Addr::from(a), std::net::Ipv6Addr::from(b)) }
            _ => format!("{}", std::net::Ipv6Addr::from(a)),
        }
    };
    match rng.below(6) {
        0 => String::new(),
        1 => "::/0".into(),
        2 => "2001:db8::/32, 2001:db9::/32, ::1-::5".into(),
        3 => if plain { "2001:db8::/48".into() } else { (*rng.pick(&["::ffff:0:0/96", "::ffff:10.0.0.0/104", "::ffff:0:0-::ffff:ffff:ffff", "::10.0.0.1/128", "64:ff9b::/96"])).into() },
        _ => { let n = rng.range(1, 4); (0..n).map(|_| one(rng)).collect::<Vec<_>>().join(", ") }
    }
}

fn resource_set(rng: &mut Rng, plain: bool) -> ResourceSet {
    match rng.below(8) {
        0 => ResourceSet::empty(),
        1 => ResourceSet::all(),
        _ => ResourceSet::new(
            AsBlocks::from_str(&as_text(rng)).unwrap_or_default(),
            Ipv4Blocks::from_str(&v4_text(rng)).unwrap_or_default(),
            Ipv6Blocks::from_str(&v6_text(rng, plain)).unwrap_or_default(),
        ),
    }
}

fn limit(rng: &mut Rng, plain: bool) -> prov::RequestResourceLimit {
    let mut l = prov::RequestResourceLimit::new();
    if rng.chance(1, 3) { return l }
    if rng.bool() { l.with_asn(AsBlocks::from_str(&as_text(rng)).unwrap_or_default()); }
    if rng.bool() { l.with_ipv4(Ipv4Blocks::from_str(&v4_text(rng)).unwrap_or_default()); }
    if rng.bool() { l.with_ipv6(Ipv6Blocks::from_str(&v6_text(rng, plain)).unwrap_or_default()); }
    l
}

/// (time, protocol-plain): whole seconds in the four-digit years are what every producer sends;
/// sub-second values (what `Time::now()` gives) and years outside 0001..9999 are kept apart in the
/// case mix but are still values the constructor takes.
fn not_after(rng: &mut Rng, plain: bool) -> Time {
    use chrono::{TimeZone, Utc};
    match if plain { rng.range(1, 11) } else { rng.below(3) * rng.below(6) } {
        // (sub-second instants are not protocol values: resource_set_notafter carries whole seconds)
        0 => Time::new(Utc.timestamp_opt(rng.below(4_000_000_000) as i64, 0).unwrap()),
        1 => Time::utc(9999, 12, 31, 23, 59, 59),
        2 => Time::utc(1970, 1, 1, 0, 0, 0),
        3 => Time::utc(2016, 12, 31, 23, 59, 59),
        4 => Time::new(Utc.timestamp_opt(-(rng.below(60_000_000_000) as i64), 0).unwrap()),   // before 1970, down to year ~69
        5 => Time::new(Utc.timestamp_opt(253_402_300_800 + rng.below(1_000_000_000) as i64, 0).unwrap()),  // year 10000+
        _ => Time::new(Utc.timestamp_opt(rng.below(4_000_000_000) as i64, 0).unwrap()),
    }
}

fn key_id(rng: &mut Rng) -> KeyIdentifier {
    let mut a = [0u8; 20];
    match rng.below(4) {
        0 => {}
        1 => a = [0xff; 20],
        2 => a = [0xfb; 20],     // base64url: many '-' and '_'
        _ => a.copy_from_slice(&rng.bytes(20)),
    }
    KeyIdentifier::from(a)
}

//------------ generation: fixtures ---------------------------------------------

pub struct Fix {
    pub certs: Vec<Cert>,
    pub csrs: Vec<RpkiCaCsr>,
    pub idcerts: Vec<Vec<u8>>,
}

pub fn fixtures(rng: &mut Rng) -> Fix {
    let pool = Pool::new(3);
    let mut certs = Vec::new();
    let mut ta = pool.spec(0, 0, Kind::Ta);
    ta.v4 = Res::Blocks(vec![(0, u32::MAX as u128)]);
    ta.v6 = Res::Blocks(vec![(0, u128::MAX)]);
    ta.asn = Res::Blocks(vec![(0, u32::MAX as u128)]);
    certs.push(pool.issue(&ta, 0));
    let mut ca = pool.spec(1, 0, Kind::Ca);
    ca.v4 = Res::Blocks(vec![(0x0a00_0000, 0x0aff_ffff)]);
    ca.asn = Res::Blocks(vec![(64496, 64511)]);
    ca.rpki_notify = Some("https://h/notify.xml".into());
    certs.push(pool.issue(&ca, 0));
    let mut ca2 = pool.spec(2, 1, Kind::Ca);
    ca2.v4 = Res::Inherit;
    ca2.v6 = Res::Inherit;
    ca2.asn = Res::Inherit;
    certs.push(pool.issue(&ca2, 1));
    let mut ee = pool.spec(2, 1, Kind::Ee);
    ee.v6 = Res::Blocks(vec![(0x2001_0db8u128 << 96, (0x2001_0db8u128 << 96) | ((1u128 << 96) - 1))]);
    certs.push(pool.issue(&ee, 1));
    let certs: Vec<Cert> = certs.into_iter().filter_map(|d| Cert::decode(Bytes::from(d)).ok()).collect();

    let mut csrs = Vec::new();
    for i in 0..3usize {
        let repo = rsync_dir(rng);
        let mft = rsync(rng, ".mft");
        let notify = if i == 1 { None } else { Some(https(rng, ".xml")) };
        let made = std::panic::catch_unwind(std::panic::AssertUnwindSafe(||
            Csr::construct_rpki_ca(&pool.signer, &pool.keys[i].id, &repo, &mft, notify.as_ref())));
        if let Ok(Ok(c)) = made {
            if let Ok(c) = RpkiCaCsr::decode(c.as_slice()) { csrs.push(c); }
        }
    }
    let mut idcerts = Vec::new();
    for i in 0..2usize {
        if let Ok(c) = IdCert::new_ta(Validity::from_secs(60 + 1000 * i as i64), &pool.keys[i].id, &pool.signer) {
            idcerts.push(c.to_bytes().to_vec());
        }
    }
    Fix { certs, csrs, idcerts }
}

//------------ generation: publication ------------------------------------------

const ERROR_CODES: [publ::ReportErrorCode; 8] = [
    publ::ReportErrorCode::XmlError, publ::ReportErrorCode::PermissionFailure, publ::ReportErrorCode::BadCmsSignature,
    publ::ReportErrorCode::ObjectAlreadyPresent, publ::ReportErrorCode::NoObjectPresent,
    publ::ReportErrorCode::NoObjectMatchingHash, publ::ReportErrorCode::ConsistencyProblem, publ::ReportErrorCode::OtherError,
];

fn delta_element(rng: &mut Rng, d: &mut publ::PublishDelta, budget: &mut usize, plain: bool) {
    let ext = *rng.pick(&[".cer", ".roa", ".mft", ".crl", ".asa", ""]);
    match rng.below(6) {
        0 => d.add_publish(publ::Publish::new(opt_tag(rng, plain), rsync(rng, ext), publ::Base64::from_content(&content(rng, budget, plain)))),
        1 => d.add_update(publ::Update::new(opt_tag(rng, plain), rsync(rng, ext), publ::Base64::from_content(&content(rng, budget, plain)), hash(rng))),
        2 => d.add_withdraw(publ::Withdraw::new(opt_tag(rng, plain), rsync(rng, ext), hash(rng))),
        3 => d.add_publish(publ::Publish::with_hash_tag(rsync(rng, ext), publ::Base64::from_content(&content(rng, budget, plain)))),
        4 => d.add_update(publ::Update::with_hash_tag(rsync(rng, ext), publ::Base64::from_content(&content(rng, budget, plain)), hash(rng))),
        _ => d.add_withdraw(publ::Withdraw::with_hash_tag(rsync(rng, ext), hash(rng))),
    }
}

fn gen_publication(ctx: &mut Ctx, rng: &mut Rng, seeds: &mut Seeds, n: usize) {
    emit(ctx, seeds, &publ::Message::list_query(), true);
    emit(ctx, seeds, &publ::Message::success(), true);
    emit(ctx, seeds, &publ::Message::list_reply(publ::ListReply::empty()), true);
    emit(ctx, seeds, &publ::Message::delta(publ::PublishDelta::empty()), true);
    // an error reply without any report_error is not a protocol message (RFC 8181: one or more)
    emit(ctx, seeds, &publ::Message::error(publ::ErrorReply::empty()), false);
    for c in ERROR_CODES.iter() {
        emit(ctx, seeds, &publ::Message::error(publ::ErrorReply::for_error(publ::ReportError::with_code(c.clone()))), true);
    }
    // one element of each sort with each tag shape that matters on its own
    for tag in [None, Some(String::new()), Some("t".to_string()), Some("<>&\"'".to_string()), Some(" t ".to_string()), Some("\t".to_string())] {
        for sort in 0..3 {
            let mut d = publ::PublishDelta::empty();
            let u = uri::Rsync::from_str("rsync://h/m/a&b/c'd.cer").unwrap();
            match sort {
                0 => d.add_publish(publ::Publish::new(tag.clone(), u, publ::Base64::from_content(b"abc"))),
                1 => d.add_update(publ::Update::new(tag.clone(), u, publ::Base64::from_content(b"abc"), Hash::from([7u8; 32]))),
                _ => d.add_withdraw(publ::Withdraw::new(tag.clone(), u, Hash::from([7u8; 32]))),
            }
            emit(ctx, seeds, &publ::Message::delta(d), true);
        }
    }
    // object sizes 0..=64 and the block boundaries of base64
    for len in (0..=64usize).chain([255, 256, 257, 1023, 1024, 4095, 4096]) {
        let mut d = publ::PublishDelta::empty();
        d.add_publish(publ::Publish::new(Some("s".into()), uri::Rsync::from_str("rsync://h/m/o.roa").unwrap(),
            publ::Base64::from_content(&rng.bytes(len))));
        emit(ctx, seeds, &publ::Message::delta(d), true);
    }
    for i in 0..n {
        match i % 3 {
            0 => {
                let k = match rng.below(6) { 0 => 0, 1 => 1, 2 => 200, 3 => rng.range(100, 200), _ => rng.range(2, 20) };
                let mut l = publ::ListReply::empty();
                for _ in 0..k { l.add_element(publ::ListElement::new(rsync(rng, ".cer"), hash(rng))); }
                emit(ctx, seeds, &publ::Message::list_reply(l), true);
            }
            1 => {
                let k = match rng.below(6) { 0 => 1, 1 => rng.range(20, 60), _ => rng.range(1, 8) };
                let mut budget = 20_000usize;
                let mut d = publ::PublishDelta::empty();
                let plain = rng.chance(3, 4);
                for _ in 0..k { delta_element(rng, &mut d, &mut budget, plain); }
                emit(ctx, seeds, &publ::Message::delta(d), true);
            }
            _ => {
                let k = match rng.below(12) { 0 => 0, 1 => rng.range(10, 40), _ => rng.range(1, 5) };
                let mut e = publ::ErrorReply::empty();
                for _ in 0..k { e.add_error(publ::ReportError::with_code(rng.pick(&ERROR_CODES).clone())); }
                emit(ctx, seeds, &publ::Message::error(e), k > 0);
            }
        }
    }
}

//------------ generation: provisioning -----------------------------------------

fn class_name(rng: &mut Rng) -> prov::ResourceClassName {
    match rng.below(4) {
        0 => prov::ResourceClassName::from(rng.next() as u32),
        1 => prov::ResourceClassName::default(),
        _ => prov::ResourceClassName::from(free_string(rng)),
    }
}

fn issued(rng: &mut Rng, fix: &Fix, plain: bool) -> prov::IssuedCert {
    prov::IssuedCert::new(rsync(rng, ".cer"), limit(rng, plain), rng.pick(&fix.certs).clone())
}

fn entitlements(rng: &mut Rng, fix: &Fix, plain: bool) -> prov::ResourceClassEntitlements {
    let k = rng.below(4);
    prov::ResourceClassEntitlements::new(
        class_name(rng), resource_set(rng, plain), not_after(rng, plain),
        (0..k).map(|_| issued(rng, fix, plain)).collect(),
        prov::SigningCert::new(rsync(rng, ".cer"), rng.pick(&fix.certs).clone()),
    )
}

fn not_performed(i: u64) -> prov::NotPerformedResponse {
    use prov::NotPerformedResponse as N;
    match i % 11 {
        0 => N::err_1101(), 1 => N::err_1102(), 2 => N::err_1103(), 3 => N::err_1104(), 4 => N::err_1201(),
        5 => N::err_1202(), 6 => N::err_1203(), 7 => N::err_1204(), 8 => N::err_1301(), 9 => N::err_1302(),
        _ => N::err_2001(),
    }
}

fn gen_provisioning(ctx: &mut Ctx, rng: &mut Rng, seeds: &mut Seeds, fix: &Fix, n: usize) {
    if fix.certs.is_empty() || fix.csrs.is_empty() { return }
    // every admitted handle character on its own, as sender and as recipient
    for c in HANDLE_CHARS {
        let s = (*c as char).to_string();
        if let (Ok(a), Ok(b)) = (Handle::from_str(&s), Handle::from_str("peer")) { emit(ctx, seeds, &prov::Message::list(a, b), true); }
        if let (Ok(a), Ok(b)) = (Handle::from_str("peer"), Handle::from_str(&s)) { emit(ctx, seeds, &prov::Message::list(a, b), true); }
    }
    for i in 0..11 {
        if let Ok(m) = prov::Message::not_performed_response(Handle::from_str("p").unwrap(), Handle::from_str("c").unwrap(), not_performed(i)) {
            emit(ctx, seeds, &m, true);
        }
    }
    for i in 0..n {
        let mut valid = true;
        let s = handle(rng, &mut valid);
        let r = handle(rng, &mut valid);
        let plain = rng.chance(3, 4);
        let m = match i % 7 {
            0 => prov::Message::list(s, r),
            1 => {
                let k = rng.below(6);
                prov::Message::list_response(s, r, prov::ResourceClassListResponse::new((0..k).map(|_| entitlements(rng, fix, plain)).collect()))
            }
            2 => prov::Message::issue(s, r, prov::IssuanceRequest::new(class_name(rng), limit(rng, plain), rng.pick(&fix.csrs).clone())),
            3 => prov::Message::issue_response(s, r, prov::IssuanceResponse::new(
                class_name(rng), resource_set(rng, plain), not_after(rng, plain), issued(rng, fix, plain),
                prov::SigningCert::new(rsync(rng, ".cer"), rng.pick(&fix.certs).clone()))),
            4 => prov::Message::revoke(s, r, prov::RevocationRequest::new(class_name(rng), key_id(rng))),
            5 => prov::Message::revoke_response(s, r, prov::RevocationResponse::from(&prov::RevocationRequest::new(class_name(rng), key_id(rng)))),
            _ => match prov::Message::not_performed_response(s, r, not_performed(rng.next())) { Ok(m) => m, Err(_) => continue },
        };
        emit(ctx, seeds, &m, valid);
    }
}

//------------ generation: identity exchange ------------------------------------

fn id_cert(rng: &mut Rng, fix: &Fix) -> publ::Base64 {
    if fix.idcerts.is_empty() || rng.chance(1, 8) {
        // not a certificate at all: the exchange types only promise to carry the bytes
        let n = rng.range(1, 120) as usize;
        publ::Base64::from_content(&rng.bytes(n))
    } else {
        publ::Base64::from_content(rng.pick(&fix.idcerts[..]).as_slice())
    }
}

fn gen_idexchange(ctx: &mut Ctx, rng: &mut Rng, seeds: &mut Seeds, fix: &Fix, n: usize) {
    for i in 0..n {
        let mut valid = true;
        match i % 4 {
            0 => emit(ctx, seeds, &ChildRequest::new(id_cert(rng, fix), handle(rng, &mut valid)), valid),
            1 => {
                let m = ParentResponse::new(id_cert(rng, fix), handle(rng, &mut valid), handle(rng, &mut valid), service_uri(rng), opt_tag(rng, false));
                emit(ctx, seeds, &m, valid)
            }
            2 => emit(ctx, seeds, &PublisherRequest::new(id_cert(rng, fix), handle(rng, &mut valid), opt_tag(rng, false)), valid),
            _ => {
                let notify = if rng.chance(1, 3) { None } else { Some(https(rng, ".xml")) };
                let m = RepositoryResponse::new(id_cert(rng, fix), handle(rng, &mut valid), service_uri(rng), rsync_dir(rng), notify, opt_tag(rng, false));
                emit(ctx, seeds, &m, valid)
            }
        }
    }
}

//------------ generation: raw documents ----------------------------------------

fn splice(doc: &[u8], at: usize, del: usize, ins: &[u8]) -> Vec<u8> {
    let at = at.min(doc.len());
    let end = (at + del).min(doc.len());
    let mut v = doc[..at].to_vec();
    v.extend_from_slice(ins);
    v.extend_from_slice(&doc[end..]);
    v
}

fn find_all(doc: &[u8], pat: &[u8]) -> Vec<usize> {
    if pat.is_empty() || doc.len() < pat.len() { return vec![] }
    (0..=doc.len() - pat.len()).filter(|i| &doc[*i..*i + pat.len()] == pat).collect()
}

/// The `name="value"` attributes of the first start tag: (start, end) byte ranges.
fn root_attrs(doc: &[u8]) -> Vec<(usize, usize)> {
    let Some(gt) = doc.iter().position(|c| *c == b'>') else { return vec![] };
    let mut out = Vec::new();
    let mut i = 0;
    while i < gt {
        if doc[i] == b' ' {
            let s = i + 1;
            let Some(q1) = doc[s..gt].iter().position(|c| *c == b'"') else { break };
            let Some(q2) = doc[s + q1 + 1..gt].iter().position(|c| *c == b'"') else { break };
            let e = s + q1 + 1 + q2 + 1;
            out.push((s, e));
            i = e;
        } else { i += 1; }
    }
    out
}

fn mutate(rng: &mut Rng, doc: &[u8], m: u64) -> Vec<u8> {
    let n = doc.len().max(1);
    let pos = rng.below(n as u64) as usize;
    let gts = find_all(doc, b">");
    let lts = find_all(doc, b"<");
    let quotes = find_all(doc, b"=\"");
    let boundary = |rng: &mut Rng| -> usize {
        if rng.bool() && !gts.is_empty() { *rng.pick(&gts) + 1 } else if !lts.is_empty() { *rng.pick(&lts) } else { 0 }
    };
    // a position inside text content: right after a '>' that is not followed by '<' or newline-then-'<'
    let texts: Vec<usize> = gts.iter().map(|g| g + 1).filter(|p| {
        let rest: Vec<u8> = doc[*p..].iter().copied().skip_while(|c| c.is_ascii_whitespace()).take(1).collect();
        !rest.is_empty() && rest[0] != b'<'
    }).collect();
    let in_text = |rng: &mut Rng| -> usize {
        if texts.is_empty() { doc.len() / 2 } else {
            let p = *rng.pick(&texts);
            let len = doc[p..].iter().position(|c| *c == b'<').unwrap_or(0);
            p + rng.below(len as u64 + 1) as usize
        }
    };
    let in_attr = |rng: &mut Rng| -> usize { if quotes.is_empty() { 0 } else { *rng.pick(&quotes) + 2 } };
    match m {
        0 => splice(doc, pos, 1, b""),
        1 => splice(doc, pos, 0, &[doc.get(pos).copied().unwrap_or(b'x')]),
        2 => splice(doc, pos, 1, &[rng.next() as u8]),
        3 => splice(doc, pos, 1, &[*rng.pick(b"<>&\"'/= \t\n;")]),
        4 => {   // swap two attributes of the root element
            let a = root_attrs(doc);
            if a.len() < 2 { return doc.to_vec() }
            let i = rng.below(a.len() as u64 - 1) as usize;
            let j = rng.range(i as u64 + 1, a.len() as u64 - 1) as usize;
            let mut v = doc[..a[i].0].to_vec();
            v.extend_from_slice(&doc[a[j].0..a[j].1]);
            v.extend_from_slice(&doc[a[i].1..a[j].0]);
            v.extend_from_slice(&doc[a[i].0..a[i].1]);
            v.extend_from_slice(&doc[a[j].1..]);
            v
        }
        5 => splice(doc, boundary(rng), 0, b"<!-- c -->"),
        6 => splice(doc, in_text(rng), 0, b"<!-- c -->"),
        7 => splice(doc, in_text(rng), 0, b"<![CDATA[x]]>"),
        8 => splice(doc, in_text(rng), 0, *rng.pick(&[&b"&amp;"[..], b"&#65;", b"&bogus;", b"&lt;", b"&#x41;", b"&", b"&#0;"])),
        9 => splice(doc, in_attr(rng), 0, *rng.pick(&[&b"&amp;"[..], b"&#65;", b"&bogus;", b"&lt;", b"&quot;", b"&", b"&#9;", b"<", b">"])),
        10 => {  // an unknown attribute on some start tag
            let cands: Vec<usize> = gts.iter().copied().filter(|g| {
                let lt = doc[..*g].iter().rposition(|c| *c == b'<').unwrap_or(0);
                doc.get(lt + 1) != Some(&b'/') && doc.get(lt + 1) != Some(&b'!') && doc.get(lt + 1) != Some(&b'?')
            }).collect();
            if cands.is_empty() { return doc.to_vec() }
            let g = *rng.pick(&cands);
            let at = if g > 0 && doc[g - 1] == b'/' { g - 1 } else { g };
            splice(doc, at, 0, *rng.pick(&[&b" bogus=\"1\""[..], b" xml:lang=\"en-US\"", b" xmlns:x=\"urn:x\"", b" x:y=\"1\"", b" tag=\"dup\" tag=\"dup\"", b" bogus", b" bogus='1'"]))
        }
        11 => splice(doc, boundary(rng), 0, *rng.pick(&[&b"<bogus/>"[..], b"<bogus>x</bogus>", b"<bogus a=\"b\"><c/></bogus>", b"x", b"<?pi x?>", b"<list/>", b"<success/>"])),
        12 => {  // namespace
            let Some(p) = find_all(doc, b"xmlns=\"").first().copied() else { return doc.to_vec() };
            let s = p + 7;
            let e = s + doc[s..].iter().position(|c| *c == b'"').unwrap_or(0);
            match rng.below(5) {
                0 => splice(doc, s, e - s, b"urn:wrong"),
                1 => splice(doc, p, e + 2 - p, b""),                      // no namespace at all
                2 => splice(doc, e - 1, 1, b""),                           // last character dropped (the Krill < 0.10 form for RFC 8183)
                3 => splice(doc, s, e - s, b""),
                _ => splice(doc, e, 0, b"x"),
            }
        }
        13 => {  // version
            let Some(p) = find_all(doc, b"version=\"").first().copied() else { return doc.to_vec() };
            let s = p + 9;
            let e = s + doc[s..].iter().position(|c| *c == b'"').unwrap_or(0);
            match rng.below(5) {
                0 => splice(doc, s, e - s, b"0"),
                1 => splice(doc, s, e - s, b"2"),
                2 => splice(doc, s, e - s, b" 1"),
                3 => splice(doc, p, e + 2 - p, b""),
                _ => splice(doc, s, e - s, b"01"),
            }
        }
        14 => doc[..boundary(rng)].to_vec(),
        15 => {  // prolog / epilog
            match rng.below(9) {
                0 => splice(doc, 0, 0, b"<?xml version=\"1.0\" encoding=\"UTF-8\"?>\n"),
                1 => splice(doc, 0, 0, b"<!DOCTYPE msg [<!ENTITY e \"v\">]>\n"),
                2 => splice(doc, 0, 0, b"\xef\xbb\xbf"),
                3 => splice(doc, doc.len(), 0, b"\n<!-- bye -->\n"),
                4 => splice(doc, doc.len(), 0, b"<extra/>"),
                5 => splice(doc, doc.len(), 0, b"garbage"),
                6 => splice(doc, 0, 0, b"  \n\t"),
                7 => splice(doc, 0, 0, b"<?xml version=\"1.0\" encoding=\"UTF-16\"?>"),
                _ => splice(doc, doc.len(), 0, b"\n\n  "),
            }
        }
        16 => {  // a prefix on every element name
            let mut v = Vec::new();
            let mut first = true;
            let mut i = 0;
            while i < doc.len() {
                v.push(doc[i]);
                if doc[i] == b'<' && doc.get(i + 1).is_some_and(|c| c.is_ascii_alphabetic() || *c == b'/') {
                    if doc[i + 1] == b'/' { v.push(b'/'); i += 1; }
                    v.extend_from_slice(b"p:");
                    let _ = first; first = false;
                }
                i += 1;
            }
            let s = String::from_utf8_lossy(&v).replacen("xmlns=\"", "xmlns:p=\"", 1);
            s.into_bytes()
        }
        17 => {  // single-quoted attribute values
            let Some(gt) = gts.first().copied() else { return doc.to_vec() };
            let mut v = doc.to_vec();
            for c in v[..gt].iter_mut() { if *c == b'"' { *c = b'\''; } }
            v
        }
        18 => {  // whitespace variations inside tags and base64 text
            match rng.below(3) {
                0 => splice(doc, in_attr(rng).saturating_sub(2), 0, b" "),
                1 => splice(doc, in_text(rng), 0, b" \n\t "),
                _ => { let g = if gts.is_empty() { 0 } else { *rng.pick(&gts) }; splice(doc, g, 0, b"  \n") }
            }
        }
        _ => {   // a non-ASCII / non-UTF-8 octet in text or attribute
            let at = if rng.bool() { in_attr(rng) } else { in_text(rng) };
            splice(doc, at, 0, *rng.pick(&[&b"\xc3\xa9"[..], b"\xff", b"\xe2\x80\xa8", b"\x00", b"\xc0\xaf"]))
        }
    }
}

const MUTATIONS: u64 = 20;

fn root_head(kind: &str) -> (&'static str, &'static str) {
    match kind {
        "pub" => ("msg", "xmlns=\"http://www.hactrn.net/uris/rpki/publication-spec/\" version=\"4\" type=\"query\""),
        "prov" => ("message", "xmlns=\"http://www.apnic.net/specs/rescerts/up-down/\" version=\"1\" sender=\"s\" recipient=\"r\" type=\"list\""),
        "creq" => ("child_request", "xmlns=\"http://www.hactrn.net/uris/rpki/rpki-setup/\" version=\"1\" child_handle=\"c\""),
        "presp" => ("parent_response", "xmlns=\"http://www.hactrn.net/uris/rpki/rpki-setup/\" version=\"1\" parent_handle=\"p\" child_handle=\"c\" service_uri=\"https://h/s\""),
        "preq" => ("publisher_request", "xmlns=\"http://www.hactrn.net/uris/rpki/rpki-setup/\" version=\"1\" publisher_handle=\"p\""),
        _ => ("repository_response", "xmlns=\"http://www.hactrn.net/uris/rpki/rpki-setup/\" version=\"1\" publisher_handle=\"p\" service_uri=\"https://h/s\" sia_base=\"rsync://h/m/\""),
    }
}

fn inner_ta(kind: &str) -> &'static str {
    match kind { "creq" => "child_bpki_ta", "presp" => "parent_bpki_ta", "preq" => "publisher_bpki_ta", _ => "repository_bpki_ta" }
}

fn hostile(ctx: &mut Ctx, rng: &mut Rng, thorough: bool) {
    for kind in KINDS {
        let (root, attrs) = root_head(kind);
        raw(ctx, kind, b"");
        raw(ctx, kind, b" ");
        raw(ctx, kind, b"<");
        raw(ctx, kind, b"<>");
        raw(ctx, kind, b"</a>");
        raw(ctx, kind, b"<!---->");
        raw(ctx, kind, b"<?xml version=\"1.0\"?>");
        raw(ctx, kind, format!("<{}/>", root).as_bytes());
        raw(ctx, kind, format!("<{} {}/>", root, attrs).as_bytes());
        raw(ctx, kind, format!("<{} {}></{}>", root, attrs, root).as_bytes());
        raw(ctx, kind, format!("<{} {}></wrong>", root, attrs).as_bytes());
        raw(ctx, kind, format!("<{} {}>", root, attrs).as_bytes());
        raw(ctx, kind, format!("<{} {}>text</{}>", root, attrs, root).as_bytes());
        raw(ctx, kind, format!("<{} {} {}/>", root, attrs, attrs).as_bytes());
        for l in 0..=64usize {
            if l % 4 == 0 || thorough { let b = rng.bytes(l); raw(ctx, kind, &b); }
        }
        for _ in 0..(if thorough { 200 } else { 20 }) {
            // random bytes over the XML alphabet
            let l = rng.range(1, 64) as usize;
            let b: Vec<u8> = (0..l).map(|_| *rng.pick(b"<>/=\"' &;#!-[]?axms:\n")).collect();
            raw(ctx, kind, &b);
        }
        // very deep nesting: as the document, and inside the proper root
        for depth in [10usize, 1000, 40_000] {
            raw(ctx, kind, "<a>".repeat(depth).as_bytes());
            let d2 = depth.min(15_000);
            raw(ctx, kind, format!("{}{}", "<a>".repeat(d2), "</a>".repeat(d2)).as_bytes());
            raw(ctx, kind, format!("<{} {}>{}", root, attrs, "<a>".repeat(depth)).as_bytes());
        }
        if kind == "pub" {
            // the one place where the reader recurses into a nested PDU
            let reply = "xmlns=\"http://www.hactrn.net/uris/rpki/publication-spec/\" version=\"4\" type=\"reply\"";
            for depth in [1usize, 2, 1000] {
                let open = "<report_error error_code=\"other_error\"><failed_pdu>".repeat(depth);
                let close = "</failed_pdu></report_error>".repeat(depth);
                raw(ctx, kind, format!("<msg {}>{}<list/>{}</msg>", reply, open, close).as_bytes());
                raw(ctx, kind, format!("<msg {}>{}", reply, open).as_bytes());
            }
            for body in [
                "<report_error error_code=\"other_error\"/>",
                "<report_error error_code=\"other_error\"><error_text>a &lt; b</error_text></report_error>",
                "<report_error error_code=\"other_error\"><error_text>a &amp; b</error_text></report_error>",
                "<report_error error_code=\"other_error\"><error_text>a > b \" '</error_text></report_error>",
                "<report_error error_code=\"other_error\"><error_text></error_text></report_error>",
                "<report_error error_code=\"other_error\"><error_text/></report_error>",
                "<report_error error_code=\"other_error\" tag=\"&lt;t&gt;\"><error_text>x</error_text><failed_pdu><withdraw tag=\"\" uri=\"rsync://h/m/a.cer\" hash=\"0000000000000000000000000000000000000000000000000000000000000000\"/></failed_pdu></report_error>",
                "<report_error error_code=\"other_error\"><failed_pdu><publish uri=\"rsync://h/m/a.cer\">YWJj</publish></failed_pdu></report_error>",
                "<report_error error_code=\"other_error\"><failed_pdu><list/></failed_pdu></report_error>",
                "<report_error error_code=\"other_error\"><failed_pdu/></report_error>",
                "<report_error error_code=\"other_error\"><failed_pdu><list/><list/></failed_pdu></report_error>",
                "<report_error error_code=\"nope\"/>",
                "<report_error/>",
                "<success/><success/>",
                "<success/><list uri=\"rsync://h/m/a.cer\" hash=\"0000000000000000000000000000000000000000000000000000000000000000\"/>",
                "<list uri=\"rsync://h/m/a.cer\" hash=\"0000000000000000000000000000000000000000000000000000000000000000\"/><success/>",
                "<list uri=\"rsync://h/m/a.cer\" hash=\"00\"/>",
                "<list/>",
            ] {
                raw(ctx, kind, format!("<msg {}>{}</msg>", reply, body).as_bytes());
            }
            for body in [
                "<list/>", "<list/><list/>", "<list></list>", "<list>x</list>", "<list uri=\"rsync://h/m/a.cer\"/>",
                "<publish uri=\"rsync://h/m/a.cer\"/>", "<publish uri=\"rsync://h/m/a.cer\"></publish>",
                "<publish uri=\"rsync://h/m/a.cer\"> </publish>", "<publish uri=\"rsync://h/m/a.cer\">====</publish>",
                "<publish uri=\"rsync://h/m/a.cer\">YW Jj\n</publish>", "<publish uri=\"rsync://h/m/a.cer\">YWJj<!-- c -->YWJj</publish>",
                "<publish uri=\"rsync://h/m/a.cer\">YWJ</publish>", "<publish uri=\"https://h/m/a.cer\">YWJj</publish>",
                "<publish>YWJj</publish>", "<publish tag=\"a\" tag=\"b\" uri=\"rsync://h/m/a.cer\">YWJj</publish>",
                "<withdraw uri=\"rsync://h/m/a.cer\"/>", "<withdraw hash=\"0000000000000000000000000000000000000000000000000000000000000000\"/>",
                "<withdraw uri=\"rsync://h/m/a.cer\" hash=\"0000000000000000000000000000000000000000000000000000000000000000\">x</withdraw>",
                "<withdraw uri=\"rsync://h/m/a.cer\" hash=\"ABCDEF0000000000000000000000000000000000000000000000000000000000\"/>",
                "<publish uri=\"rsync://h/m/a.cer\">YWJj</publish><list/>", "<list/><publish uri=\"rsync://h/m/a.cer\">YWJj</publish>",
                "<success/>",
            ] {
                raw(ctx, kind, format!("<msg {}>{}</msg>", attrs, body).as_bytes());
            }
        }
        if kind == "prov" {
            let head = |t: &str| format!("<message xmlns=\"http://www.apnic.net/specs/rescerts/up-down/\" version=\"1\" sender=\"s\" recipient=\"r\" type=\"{}\">", t);
            for (t, body) in [
                ("list", "<bogus/>"), ("list", "text"), ("list_response", ""), ("list_response", "<class/>"),
                ("issue", ""), ("issue", "<request class_name=\"c\"/>"), ("issue", "<request class_name=\"c\">AAAA</request>"),
                ("issue_response", ""), ("revoke", ""), ("revoke", "<key class_name=\"c\" ski=\"AAAA\"/>"),
                ("revoke", "<key class_name=\"c\" ski=\"AAAAAAAAAAAAAAAAAAAAAAAAAAA\"/>"),
                ("revoke", "<key class_name=\"c\" ski=\"AAAAAAAAAAAAAAAAAAAAAAAAAAA=\"/>"),
                ("revoke", "<key class_name=\"c\" ski=\"AAAAAAAAAAAAAAAAAAAAAAAAAAA\"/><key class_name=\"c\" ski=\"AAAAAAAAAAAAAAAAAAAAAAAAAAA\"/>"),
                ("revoke", "<key class_name=\"c\" ski=\"AAAAAAAAAAAAAAAAAAAAAAAAAAA\">x</key>"),
                ("revoke_response", "<key ski=\"AAAAAAAAAAAAAAAAAAAAAAAAAAA\"/>"),
                ("error_response", ""), ("error_response", "<status>1101</status>"), ("error_response", "<status/>"),
                ("error_response", "<status>-1</status>"), ("error_response", "<status>18446744073709551616</status>"),
                ("error_response", "<status>18446744073709551615</status>"), ("error_response", "<status> 12 </status>"),
                ("error_response", "<status>1101</status><description xml:lang=\"en-US\">a &lt; b</description>"),
                ("error_response", "<status>1101</status><description xml:lang=\"en-US\">a &amp; b</description>"),
                ("error_response", "<status>1101</status><description xml:lang=\"en-US\">a > b</description>"),
                ("error_response", "<status>1101</status><description xml:lang=\"en-US\"></description>"),
                ("error_response", "<status>1101</status><description/>"),
                ("error_response", "<status>1101</status><description xml:lang=\"de\">Fehler</description>"),
                ("error_response", "<status>1101</status><description>x</description><description>y</description>"),
                ("error_response", "<description>x</description><status>1101</status>"),
                ("bogus", ""), ("LIST", ""), ("", ""),
            ] {
                raw(ctx, kind, format!("{}{}</message>", head(t), body).as_bytes());
            }
        }
        if !matches!(kind, "pub" | "prov") {
            let ta = inner_ta(kind);
            for body in [
                String::new(), format!("<{}/>", ta), format!("<{}></{}>", ta, ta), format!("<{}>YWJj</{}>", ta, ta),
                format!("<{}>YWJj</{}><{}>YWJj</{}>", ta, ta, ta, ta), format!("<{}>!!!</{}>", ta, ta),
                format!("<{} x=\"y\">YWJj</{}>", ta, ta), format!("<{}>YWJj</{}>trailing", ta, ta),
                format!("<{}>YWJj<x/></{}>", ta, ta), format!("<offer/><{}>YWJj</{}>", ta, ta),
                format!("<{}>YWJj</{}><referral referrer=\"a\">YWJj</referral>", ta, ta),
                format!("<{}>YWJj</{}><offer/><offer/>", ta, ta), "<offer/>".to_string(),
                format!("<referral><{}>YWJj</{}></referral>", ta, ta),
            ] {
                raw(ctx, kind, format!("<{} {}>{}</{}>", root, attrs, body, root).as_bytes());
            }
        }
        // a 100 kB attribute value: unknown attribute, version; 60 kB in a value the message keeps
        let big = "a".repeat(100_000);
        raw(ctx, kind, format!("<{} {} bogus=\"{}\"/>", root, attrs, big).as_bytes());
        raw(ctx, kind, format!("<{} {}/>", root, attrs.replacen("version=\"", &format!("version=\"{}", big), 1)).as_bytes());
        let keep = "k".repeat(60_000);
        match kind {
            "pub" => raw(ctx, kind, format!("<{} {}><withdraw tag=\"{}\" uri=\"rsync://h/m/a.cer\" hash=\"{}\"/></{}>", root, attrs, keep, "0".repeat(64), root).as_bytes()),
            "prov" => raw(ctx, kind, format!("<{} {}/>", root, attrs.replacen("sender=\"s", &format!("sender=\"{}", keep), 1)).as_bytes()),
            _ => raw(ctx, kind, format!("<{} {} tag=\"{}\"><{}>YWJj</{}></{}>", root, attrs, keep, inner_ta(kind), inner_ta(kind), root).as_bytes()),
        }
    }
}

fn test_data(ctx: &mut Ctx) {
    let mut files: Vec<(String, Vec<u8>)> = Vec::new();
    for dir in ["rfc8181", "rfc8183", "rfc6492"] {
        let Ok(rd) = std::fs::read_dir(format!("/repo/test-data/ca/{}", dir)) else { continue };
        let mut names: Vec<std::path::PathBuf> = rd.filter_map(|e| e.ok().map(|e| e.path())).collect();
        names.sort();
        for p in names {
            let Ok(data) = std::fs::read(&p) else { continue };
            let name = p.to_string_lossy().to_string();
            if name.ends_with(".xml") {
                files.push((dir.to_string(), data));
            } else if name.ends_with(".der") || name.ends_with(".ber") {
                // RFC 6492 messages caught in the wild: the XML is the CMS content
                if let Ok(m) = SignedMessage::decode(data.as_slice(), false) {
                    files.push((dir.to_string(), m.content().to_bytes().to_vec()));
                }
            }
        }
    }
    for (dir, data) in &files {
        if data.len() > 140_000 { continue }
        let own: &[&str] = match dir.as_str() { "rfc8181" => &["pub"], "rfc6492" => &["prov"], _ => &["creq", "presp", "preq", "rresp"] };
        for kind in KINDS {
            // every file against its own kind(s); small files also against the others
            if own.contains(&kind) || data.len() < 3000 { raw(ctx, kind, data); }
        }
    }
}

pub fn generate(ctx: &mut Ctx) {
    // `Rng::new(s + 1)` is `Rng::new(s)` advanced by one step (the seed is multiplied by the very
    // constant the state is incremented by), so neighbouring seeds give the same stream shifted by one
    // and re-synchronise after the first variable-length draw.  Re-seed from a mixed output instead.
    let mut rng = Rng::new(Rng::new(ctx.seed ^ 0xC11).next());
    let n = if ctx.tier_thorough { 7000 } else { 700 };
    let fix = fixtures(&mut rng);
    let mut seeds = Seeds { docs: Vec::new(), per_kind: [0; 6] };
    gen_publication(ctx, &mut rng, &mut seeds, n);
    gen_provisioning(ctx, &mut rng, &mut seeds, &fix, n);
    gen_idexchange(ctx, &mut rng, &mut seeds, &fix, n);
    // raw: every kept API document with one mutation of each sort (thorough: several draws)
    test_data(ctx);
    hostile(ctx, &mut rng, ctx.tier_thorough);
    let reps = if ctx.tier_thorough { 6 } else { 1 };
    let docs = std::mem::take(&mut seeds.docs);
    // spread the mutation budget evenly over the kinds, and over each kind's documents
    let per_kind = if ctx.tier_thorough { 40 } else { 6 };
    let mut chosen: Vec<(&'static str, Vec<u8>)> = Vec::new();
    for kind in KINDS {
        let mine: Vec<&(&'static str, Vec<u8>)> = docs.iter().filter(|(k, _)| *k == kind).collect();
        if mine.is_empty() { continue }
        for j in 0..per_kind {
            let d = mine[(j * mine.len() / per_kind + (rng.below(mine.len() as u64 / per_kind as u64 + 1) as usize)).min(mine.len() - 1)];
            chosen.push((d.0, d.1.clone()));
        }
    }
    for (kind, doc) in &chosen {
        for m in 0..MUTATIONS {
            for _ in 0..reps {
                let d = mutate(&mut rng, doc, m);
                raw(ctx, kind, &d);
            }
        }
        // truncation at every tag boundary (a sample for larger documents)
        let cuts = find_all(doc, b"<");
        let step = (cuts.len() / 12).max(1);
        for c in cuts.iter().step_by(step) { raw(ctx, kind, &doc[..*c]); }
        // the document against every other kind's parser
        for other in KINDS { if other != *kind { raw(ctx, other, doc); } }
    }
}
