//! C11 (second part) — RFC 8181 messages described field by field, tied to `Model/PubMsg.lean`.
//!
//! op:  pubx lq | pubx ok | pubx delta <elems|-> | pubx lr <elems|-> | pubx er <codes|->
//!   delta elems (`;`-separated):  P,<tag>,<uri>,<content>   U,<tag>,<uri>,<content>,<hash>   W,<tag>,<uri>,<hash>
//!       tag = hex of the UTF-8 string, `~` = None, `e` = the empty string; uri, content, hash in hex (`e` empty)
//!   lr elems:  <uri>,<hash>      er codes: index 0..7 into the RFC's table
//!   The message is made with the public constructors only (never by parsing), written with
//!   `Message::write_xml`, and the written document is parsed back with `Message::decode`.
//!   => <hex of the document> <description of the parsed-back message in the same grammar | err>
use crate::rng::{hex, unhex, Rng};
use crate::Ctx;
use rpki::ca::idexchange::{ChildRequest, Handle, ParentResponse, PublisherRequest, RepositoryResponse, ServiceUri};
use rpki::ca::provisioning as prov;
use rpki::ca::publication as publ;
use rpki::repository::resources::{Addr, AsBlock, AsBlocks, IpBlock, IpBlocks, Ipv4Blocks, Ipv6Blocks, ResourceSet};
use rpki::resources::Asn;
use std::str::FromStr;
use rpki::rrdp::Hash;
use rpki::uri;

fn hx(b: &[u8]) -> String { if b.is_empty() { "e".into() } else { hex(b) } }
fn unhx(s: &str) -> Option<Vec<u8>> { if s == "e" { Some(vec![]) } else { unhex(s) } }

fn p_tag(s: &str) -> Option<Option<String>> {
    if s == "~" { return Some(None) }
    String::from_utf8(unhx(s)?).ok().map(Some)
}
fn p_uri(s: &str) -> Option<uri::Rsync> { uri::Rsync::from_slice(&unhx(s)?).ok() }
fn p_hash(s: &str) -> Option<Hash> { let b = unhx(s)?; let a: [u8; 32] = b.try_into().ok()?; Some(Hash::from(a)) }

const CODES: [publ::ReportErrorCode; 8] = [
    publ::ReportErrorCode::XmlError, publ::ReportErrorCode::PermissionFailure, publ::ReportErrorCode::BadCmsSignature,
    publ::ReportErrorCode::ObjectAlreadyPresent, publ::ReportErrorCode::NoObjectPresent,
    publ::ReportErrorCode::NoObjectMatchingHash, publ::ReportErrorCode::ConsistencyProblem, publ::ReportErrorCode::OtherError,
];

fn build(toks: &[&str]) -> Option<publ::Message> {
    match toks {
        ["lq"] => Some(publ::Message::list_query()),
        ["ok"] => Some(publ::Message::success()),
        ["delta", es] => {
            let mut d = publ::PublishDelta::empty();
            if *es != "-" {
                for e in es.split(';') {
                    let f: Vec<&str> = e.split(',').collect();
                    match f.as_slice() {
                        ["P", t, u, c] => d.add_publish(publ::Publish::new(p_tag(t)?, p_uri(u)?, publ::Base64::from_content(&unhx(c)?))),
                        ["U", t, u, c, h] => d.add_update(publ::Update::new(p_tag(t)?, p_uri(u)?, publ::Base64::from_content(&unhx(c)?), p_hash(h)?)),
                        ["W", t, u, h] => d.add_withdraw(publ::Withdraw::new(p_tag(t)?, p_uri(u)?, p_hash(h)?)),
                        _ => return None,
                    }
                }
            }
            Some(publ::Message::delta(d))
        }
        ["lr", es] => {
            let mut l = publ::ListReply::empty();
            if *es != "-" {
                for e in es.split(';') {
                    let (u, h) = e.split_once(',')?;
                    l.add_element(publ::ListElement::new(p_uri(u)?, p_hash(h)?));
                }
            }
            Some(publ::Message::list_reply(l))
        }
        ["er", cs] => {
            let mut r = publ::ErrorReply::empty();
            if *cs != "-" {
                for c in cs.split(';') { r.add_error(publ::ReportError::with_code(CODES.get(c.parse::<usize>().ok()?)?.clone())); }
            }
            Some(publ::Message::error(r))
        }
        _ => None,
    }
}

fn show_tag(t: Option<&String>) -> String { match t { None => "~".into(), Some(s) => hx(s.as_bytes()) } }

fn describe(m: publ::Message) -> String {
    match m {
        publ::Message::Query(publ::Query::List) => "lq".into(),
        publ::Message::Query(publ::Query::Delta(d)) => {
            let v: Vec<String> = d.into_elements().into_iter().map(|e| match e {
                publ::PublishDeltaElement::Publish(p) => format!("P,{},{},{}", show_tag(p.tag()), hx(p.uri().as_slice()), hx(&p.content().to_bytes())),
                publ::PublishDeltaElement::Update(u) => format!("U,{},{},{},{}", show_tag(u.tag()), hx(u.uri().as_slice()), hx(&u.content().to_bytes()), hx(u.hash().as_slice())),
                publ::PublishDeltaElement::Withdraw(w) => format!("W,{},{},{}", show_tag(w.tag()), hx(w.uri().as_slice()), hx(w.hash().as_slice())),
            }).collect();
            format!("delta {}", if v.is_empty() { "-".into() } else { v.join(";") })
        }
        publ::Message::Reply(publ::Reply::Success) => "ok".into(),
        publ::Message::Reply(publ::Reply::List(l)) => {
            let v: Vec<String> = l.elements().iter().map(|e| format!("{},{}", hx(e.uri().as_slice()), hx(e.hash().as_slice()))).collect();
            format!("lr {}", if v.is_empty() { "-".into() } else { v.join(";") })
        }
        publ::Message::Reply(publ::Reply::ErrorReply(r)) => {
            let v: Vec<String> = r.errors().iter().map(|e| match CODES.iter().position(|c| publ::ReportError::with_code(c.clone()) == *e) {
                Some(i) => i.to_string(), None => "?".into() }).collect();
            format!("er {}", if v.is_empty() { "-".into() } else { v.join(";") })
        }
    }
}

//------------ RFC 8183 -------------------------------------------------------------------------------
//
// op:  idx creq <handle> <tag> <cert> | idx presp <parent> <child> <service_uri> <tag> <cert>
//      idx preq <handle> <tag> <cert> | idx rresp <handle> <service_uri> <sia_base> <notify> <tag> <cert>
//   all fields hex (`e` empty); tag and notify may be `~` (absent).  Handles go through the checked
//   constructor `Handle::from_str`, URIs through `from_slice`, an `http://` service URI through the public
//   variant `ServiceUri::Http`.   => <hex of the document> <the parsed-back message in the same grammar | err>

fn p_str(s: &str) -> Option<String> { String::from_utf8(unhx(s)?).ok() }
fn p_handle<T>(s: &str) -> Option<Handle<T>> { Handle::from_str(&p_str(s)?).ok() }
fn p_suri(s: &str) -> Option<ServiceUri> {
    let t = p_str(s)?;
    if t.len() >= 7 && t[..7].eq_ignore_ascii_case("http://") { Some(ServiceUri::Http(t)) }
    else { uri::Https::from_string(t).ok().map(ServiceUri::Https) }
}
fn p_opt<T>(s: &str, f: impl Fn(&str) -> Option<T>) -> Option<Option<T>> { if s == "~" { Some(None) } else { f(s).map(Some) } }
fn sh_opt(t: Option<String>) -> String { match t { None => "~".into(), Some(s) => hx(s.as_bytes()) } }

fn exec_idx(toks: &[&str]) -> String {
    fn finish(doc: Vec<u8>, back: Option<String>) -> String { format!("{} {}", hex(&doc), back.unwrap_or_else(|| "err".into())) }
    (|| -> Option<String> {
        Some(match toks {
            ["creq", h, t, c] => {
                if *t != "~" { return None }      // ChildRequest::new takes no tag
                let m = ChildRequest::new(publ::Base64::from_content(&unhx(c)?), p_handle(h)?);
                let mut doc = Vec::new(); m.write_xml(&mut doc).ok()?;
                let back = ChildRequest::parse(doc.as_slice()).ok().map(|b| format!("creq:{}:{}:{}", hx(b.child_handle().as_str().as_bytes()),
                    sh_opt(b.tag().cloned()), hx(&b.id_cert().to_bytes())));
                finish(doc, back)
            }
            ["presp", p, ch, u, t, c] => {
                let m = ParentResponse::new(publ::Base64::from_content(&unhx(c)?), p_handle(p)?, p_handle(ch)?, p_suri(u)?, p_opt(t, p_str)?);
                let mut doc = Vec::new(); m.write_xml(&mut doc).ok()?;
                let back = ParentResponse::parse(doc.as_slice()).ok().map(|b| format!("presp:{}:{}:{}:{}:{}", hx(b.parent_handle().as_str().as_bytes()),
                    hx(b.child_handle().as_str().as_bytes()), hx(b.service_uri().to_string().as_bytes()), sh_opt(b.tag().cloned()), hx(&b.id_cert().to_bytes())));
                finish(doc, back)
            }
            ["preq", h, t, c] => {
                let m = PublisherRequest::new(publ::Base64::from_content(&unhx(c)?), p_handle(h)?, p_opt(t, p_str)?);
                let mut doc = Vec::new(); m.write_xml(&mut doc).ok()?;
                let back = PublisherRequest::parse(doc.as_slice()).ok().map(|b| format!("preq:{}:{}:{}", hx(b.publisher_handle().as_str().as_bytes()),
                    sh_opt(b.tag().cloned()), hx(&b.id_cert().to_bytes())));
                finish(doc, back)
            }
            ["rresp", h, u, b, n, t, c] => {
                let m = RepositoryResponse::new(publ::Base64::from_content(&unhx(c)?), p_handle(h)?, p_suri(u)?,
                    uri::Rsync::from_slice(&unhx(b)?).ok()?, p_opt(n, |x| uri::Https::from_slice(&unhx(x)?).ok())?, p_opt(t, p_str)?);
                let mut doc = Vec::new(); m.write_xml(&mut doc).ok()?;
                let back = RepositoryResponse::parse(doc.as_slice()).ok().map(|r| format!("rresp:{}:{}:{}:{}:{}:{}", hx(r.publisher_handle().as_str().as_bytes()),
                    hx(r.service_uri().to_string().as_bytes()), hx(r.sia_base().as_slice()),
                    match r.rrdp_notification_uri() { None => "~".into(), Some(x) => hx(x.as_slice()) }, sh_opt(r.tag().cloned()), hx(&r.id_cert().to_bytes())));
                finish(doc, back)
            }
            _ => return None,
        })
    })().unwrap_or_else(|| "bad-op".into())
}


//------------ RFC 6492 -------------------------------------------------------------------------------
//
// op:  prvx <sender> <recipient> list
//      prvx <s> <r> listr <class;class;…|->       prvx <s> <r> issuer <class>     (exactly one issued certificate)
//      prvx <s> <r> issue <name>,<las>,<lv4>,<lv6>,<csr>
//      prvx <s> <r> revoke|revoker <name>,<ski>    prvx <s> <r> err <status>
//   class  = <name>,<cert_url>,<as>,<v4>,<v6>,<notafter unix>,<issued+issued…|->,<issuer cert>
//   issued = <cert_url>~<las>~<lv4>~<lv6>~<cert>
//   resource set = `-` (empty) or lo-hi/lo-hi/… (decimal; IPv4 as 32-bit numbers); in a limit `*` = not given
//   names, handles, URLs, certificates and requests in hex (`e` empty).  Built with the public constructors,
//   resource sets through `from_iter`.   => <hex of the document> <same|differs|err>   (parsed back == built)

fn p_blocks(s: &str) -> Option<Vec<(u128, u128)>> {
    if s == "-" { return Some(vec![]) }
    s.split('/').map(|b| { let (l, h) = b.split_once('-')?; Some((l.parse().ok()?, h.parse().ok()?)) }).collect()
}
fn as_of(s: &str) -> Option<AsBlocks> {
    Some(p_blocks(s)?.into_iter().map(|(a, b)| AsBlock::from((Asn::from_u32(a as u32), Asn::from_u32(b as u32)))).collect())
}
fn v4_of(s: &str) -> Option<Ipv4Blocks> {
    let c: IpBlocks = p_blocks(s)?.into_iter().map(|(a, b)| IpBlock::from((Addr::from_bits(a << 96), Addr::from_bits((b << 96) | ((1u128 << 96) - 1))))).collect();
    Some(Ipv4Blocks::from(c))
}
fn v6_of(s: &str) -> Option<Ipv6Blocks> {
    let c: IpBlocks = p_blocks(s)?.into_iter().map(|(a, b)| IpBlock::from((Addr::from_bits(a), Addr::from_bits(b)))).collect();
    Some(Ipv6Blocks::from(c))
}
fn limit_of(a: &str, v4: &str, v6: &str) -> Option<prov::RequestResourceLimit> {
    let mut l = prov::RequestResourceLimit::new();
    if a != "*" { l.with_asn(as_of(a)?); }
    if v4 != "*" { l.with_ipv4(v4_of(v4)?); }
    if v6 != "*" { l.with_ipv6(v6_of(v6)?); }
    Some(l)
}
fn cert_of(s: &str) -> Option<rpki::repository::Cert> { rpki::repository::Cert::decode(bytes::Bytes::from(unhx(s)?)).ok() }
fn rsync_of(s: &str) -> Option<uri::Rsync> { uri::Rsync::from_slice(&unhx(s)?).ok() }
fn class_name_of(s: &str) -> Option<prov::ResourceClassName> { Some(prov::ResourceClassName::from(p_str(s)?)) }
fn time_of(s: &str) -> Option<rpki::repository::x509::Time> {
    use chrono::TimeZone;
    chrono::Utc.timestamp_opt(s.parse().ok()?, 0).single().map(rpki::repository::x509::Time::new)
}
fn issued_of(s: &str) -> Option<prov::IssuedCert> {
    let f: Vec<&str> = s.split('~').collect();
    let [u, a, v4, v6, c] = f.as_slice() else { return None };
    Some(prov::IssuedCert::new(rsync_of(u)?, limit_of(a, v4, v6)?, cert_of(c)?))
}
struct ClassParts { name: prov::ResourceClassName, set: ResourceSet, na: rpki::repository::x509::Time, issued: Vec<prov::IssuedCert>, signing: prov::SigningCert }
fn class_of(s: &str) -> Option<ClassParts> {
    let f: Vec<&str> = s.split(',').collect();
    let [name, url, a, v4, v6, na, issued, issuer] = f.as_slice() else { return None };
    let issued: Vec<prov::IssuedCert> = if *issued == "-" { vec![] } else { issued.split('+').map(issued_of).collect::<Option<_>>()? };
    Some(ClassParts { name: class_name_of(name)?, set: ResourceSet::new(as_of(a)?, v4_of(v4)?, v6_of(v6)?), na: time_of(na)?, issued,
        signing: prov::SigningCert::new(rsync_of(url)?, cert_of(issuer)?) })
}

fn exec_prvx(toks: &[&str]) -> String {
    (|| -> Option<String> {
        let [s, r, kind, rest @ ..] = toks else { return None };
        let (s, r) = (p_handle(s)?, p_handle(r)?);
        let m = match (*kind, rest) {
            ("list", []) => prov::Message::list(s, r),
            ("listr", [cs]) => {
                let classes: Vec<prov::ResourceClassEntitlements> = if *cs == "-" { vec![] } else {
                    cs.split(';').map(|c| class_of(c).map(|p| prov::ResourceClassEntitlements::new(p.name, p.set, p.na, p.issued, p.signing))).collect::<Option<_>>()? };
                prov::Message::list_response(s, r, prov::ResourceClassListResponse::new(classes))
            }
            ("issuer", [c]) => {
                let mut p = class_of(c)?;
                if p.issued.len() != 1 { return None }
                prov::Message::issue_response(s, r, prov::IssuanceResponse::new(p.name, p.set, p.na, p.issued.remove(0), p.signing))
            }
            ("issue", [q]) => {
                let f: Vec<&str> = q.split(',').collect();
                let [name, a, v4, v6, csr] = f.as_slice() else { return None };
                let csr = rpki::ca::csr::RpkiCaCsr::decode(unhx(csr)?.as_slice()).ok()?;
                prov::Message::issue(s, r, prov::IssuanceRequest::new(class_name_of(name)?, limit_of(a, v4, v6)?, csr))
            }
            ("revoke", [q]) | ("revoker", [q]) => {
                let (name, ski) = q.split_once(',')?;
                let k = rpki::crypto::KeyIdentifier::try_from(unhx(ski)?.as_slice()).ok()?;
                let req = prov::RevocationRequest::new(class_name_of(name)?, k);
                if *kind == "revoke" { prov::Message::revoke(s, r, req) } else { prov::Message::revoke_response(s, r, prov::RevocationResponse::from(&req)) }
            }
            ("err", [st]) => {
                use prov::NotPerformedResponse as N;
                let n = match *st { "1101" => N::err_1101(), "1102" => N::err_1102(), "1103" => N::err_1103(), "1104" => N::err_1104(), "1201" => N::err_1201(),
                    "1202" => N::err_1202(), "1203" => N::err_1203(), "1204" => N::err_1204(), "1301" => N::err_1301(), "1302" => N::err_1302(), "2001" => N::err_2001(), _ => return None };
                prov::Message::not_performed_response(s, r, n).ok()?
            }
            _ => return None,
        };
        let mut doc = Vec::new();
        m.write_xml(&mut doc).ok()?;
        let back = match prov::Message::decode(doc.as_slice()) { Ok(b) => if b == m { "same" } else { "differs" }, Err(_) => "err" };
        Some(format!("{} {}", hex(&doc), back))
    })().unwrap_or_else(|| "bad-op".into())
}

pub fn exec(toks: &[&str]) -> String {
    if toks.first() == Some(&"idx") { return exec_idx(&toks[1..]) }
    if toks.first() == Some(&"prvx") { return exec_prvx(&toks[1..]) }
    let Some(m) = build(&toks[1..]) else { return "bad-op".into() };
    let mut doc = Vec::new();
    if m.write_xml(&mut doc).is_err() { return "write-err".into() }
    let back = match publ::Message::decode(doc.as_slice()) { Ok(b) => describe(b).replace(' ', ":"), Err(_) => "err".into() };
    format!("{} {}", hex(&doc), back)
}

fn uri_of(rng: &mut Rng) -> Vec<u8> {
    let host = *rng.pick(&["h", "localhost:873", "RSYNC.Example.NET", "a&b.example", "h'"]);
    let seg = |rng: &mut Rng| -> String { match rng.below(6) { 0 => "a&b".into(), 1 => "c'd".into(), 3 => "A_Z-0.9".into(), 4 => "%3C".into(), _ => format!("f{}", rng.below(1000)) } };
    let mut p = String::new();
    for _ in 0..rng.below(3) { p.push_str(&seg(rng)); p.push('/'); }
    p.push_str(&seg(rng)); p.push_str(*rng.pick(&[".cer", ".roa", ".mft", ""]));
    format!("{}://{}/m/{}", if rng.chance(1, 10) { "RSYNC" } else { "rsync" }, host, p).into_bytes()
}

fn tag_of(rng: &mut Rng) -> String {
    match rng.below(8) {
        // (an absent tag `~` is left to the `xml` op: it comes back as the empty tag, a listed finding; tags are
        // ASCII as the property quantifies: non-ASCII tags are written as UTF-8 and refused by `ascii_into`)
        0 | 1 => "e".into(), 2 => hx(b"<>&\"'"), 3 => hx(" t ".as_bytes()), 4 => hx(b"\ttab\t"),
        5 => hx(b"a=b c"), _ => hx(format!("t{}", rng.below(100000)).as_bytes()),
    }
}

fn handle_of(rng: &mut Rng) -> String {
    const CH: &[u8] = b"abcdefghijklmnopqrstuvwxyzABCDEFGHIJKLMNOPQRSTUVWXYZ0123456789-_/";
    match rng.below(6) {
        0 => (*rng.pick(CH) as char).to_string(),
        1 => (0..255).map(|_| *rng.pick(CH) as char).collect(),
        2 => (*rng.pick(&["-", "_", "/", "a/b/c", "Alice", "0", "CA-1_x/y"])).to_string(),
        _ => { let n = rng.range(1, 20); (0..n).map(|_| *rng.pick(CH) as char).collect() }
    }
}

fn https_of(rng: &mut Rng) -> String {
    format!("{}://{}/{}{}", if rng.chance(1, 8) { "HTTPS" } else { "https" }, rng.pick(&["h", "localhost:8443", "RRDP.Example.NET", "a&b.example"]),
        rng.pick(&["", "rrdp/", "a&b/c'd/", "Up/Down/"]), rng.pick(&["", "notification.xml", "X.xml", "svc"]))
}

fn gen_idx(ctx: &mut Ctx, rng: &mut Rng, n: usize) {
    for _ in 0..n {
        let cl = match rng.below(6) { 0 => 1, 1 => 2, 2 => 3, 3 => rng.range(300, 900), _ => rng.range(4, 120) } as usize;
        let cert = hx(&rng.bytes(cl));
        let tag = |rng: &mut Rng| match rng.below(6) { 0 | 1 => "~".to_string(), 2 => "e".into(), 3 => hx(b"<>&\"'"), 4 => hx(b" a  b "), _ => hx(format!("t{}", rng.below(1000)).as_bytes()) };
        let suri = |rng: &mut Rng| if rng.bool() { hx(https_of(rng).as_bytes()) } else {
            hx(format!("{}://{}/{}", rng.pick(&["http", "HTTP", "Http"]), rng.pick(&["h", "localhost:3000", "RPKI.Example.NET", "a&b.example"]), rng.pick(&["", "rfc6492/Alice", "Pub/&<'"])).as_bytes()) };
        match rng.below(4) {
            0 => ctx.case(&format!("idx creq {} ~ {}", hx(handle_of(rng).as_bytes()), cert)),
            1 => ctx.case(&format!("idx presp {} {} {} {} {}", hx(handle_of(rng).as_bytes()), hx(handle_of(rng).as_bytes()), suri(rng), tag(rng), cert)),
            2 => ctx.case(&format!("idx preq {} {} {}", hx(handle_of(rng).as_bytes()), tag(rng), cert)),
            _ => {
                let base = { let mut u = uri_of(rng); if u.last() != Some(&b'/') { u.push(b'/'); } u };
                let notify = if rng.chance(1, 3) { "~".to_string() } else { hx(https_of(rng).as_bytes()) };
                ctx.case(&format!("idx rresp {} {} {} {} {} {}", hx(handle_of(rng).as_bytes()), suri(rng), hx(&base), notify, tag(rng), cert))
            }
        }
    }
}

fn res_text(rng: &mut Rng, width: u32) -> String {
    // a few blocks in any order, overlapping or adjacent now and then: `from_iter` makes the set
    let k = match rng.below(6) { 0 => 0, 1 => 1, _ => rng.range(1, 5) };
    let full: u128 = if width == 32 { u32::MAX as u128 } else { u128::MAX };
    let mut v = Vec::new();
    for _ in 0..k {
        let a = match rng.below(6) { 0 => 0, 1 => full, 2 => rng.below(70000) as u128, _ => rng.u128() & full };
        let a = if width != 32 && rng.chance(1, 6) { (0xffffu128 << 32) | (rng.next() as u32 as u128) } else { a };
        let b = match rng.below(4) { 0 => a, 1 => a | ((1u128 << rng.below(width as u64)) - 1) & full, 2 => a.saturating_add(rng.below(1000) as u128).min(full), _ => a.saturating_add(rng.next() as u128).min(full) };
        let a = if rng.chance(1, 3) { a & !((1u128 << rng.below(width as u64)) - 1) } else { a };
        v.push(format!("{}-{}", a.min(b), a.max(b)));
    }
    if v.is_empty() { "-".into() } else { v.join("/") }
}

fn gen_prvx(ctx: &mut Ctx, rng: &mut Rng, n: usize) {
    let fix = crate::c11::fixtures(rng);
    if fix.certs.is_empty() || fix.csrs.is_empty() { return }
    let certs: Vec<String> = fix.certs.iter().map(|c| hx(c.to_captured().as_slice())).collect();
    let csrs: Vec<String> = fix.csrs.iter().map(|c| hx(c.to_captured().as_slice())).collect();
    let name = |rng: &mut Rng| match rng.below(5) { 0 => hx(b"all"), 1 => hx(b"0"), 2 => hx(b"a&b <c>"), 3 => hx(rng.next().to_string().as_bytes()), _ => hx(format!("class-{}", rng.below(100)).as_bytes()) };
    let lim = |rng: &mut Rng, w: u32| if rng.bool() { "*".to_string() } else { res_text(rng, w) };
    let url = |rng: &mut Rng| hx(&uri_of(rng));
    let na = |rng: &mut Rng| match rng.below(5) { 0 => 0i64, 1 => 253_402_300_799, 2 => -62_135_596_800 + rng.below(1000) as i64 * 86_400 + 31_622_400, 3 => 2_524_608_000 - rng.below(3) as i64, _ => rng.below(4_000_000_000) as i64 };
    let issued = |rng: &mut Rng| format!("{}~{}~{}~{}~{}", url(rng), lim(rng, 32), lim(rng, 32), lim(rng, 128), rng.pick(&certs));
    let class = |rng: &mut Rng, k: usize| format!("{},{},{},{},{},{},{},{}", name(rng), url(rng), res_text(rng, 32), res_text(rng, 32), res_text(rng, 128), na(rng),
        if k == 0 { "-".to_string() } else { (0..k).map(|_| issued(rng)).collect::<Vec<_>>().join("+") }, rng.pick(&certs));
    for _ in 0..n {
        let (s, r) = (hx(handle_of(rng).as_bytes()), hx(handle_of(rng).as_bytes()));
        match rng.below(8) {
            0 => ctx.case(&format!("prvx {} {} list", s, r)),
            1 | 2 => { let k = rng.below(4) as usize; let cs: Vec<String> = (0..k).map(|_| { let j = rng.below(3) as usize; class(rng, j) }).collect();
                       ctx.case(&format!("prvx {} {} listr {}", s, r, if cs.is_empty() { "-".into() } else { cs.join(";") })) }
            3 => ctx.case(&format!("prvx {} {} issuer {}", s, r, class(rng, 1))),
            4 => ctx.case(&format!("prvx {} {} issue {},{},{},{},{}", s, r, name(rng), lim(rng, 32), lim(rng, 32), lim(rng, 128), rng.pick(&csrs))),
            5 => ctx.case(&format!("prvx {} {} revoke {},{}", s, r, name(rng), hx(&match rng.below(4) { 0 => vec![0u8; 20], 1 => vec![0xff; 20], 2 => vec![0xfb; 20], _ => rng.bytes(20) }))),
            6 => ctx.case(&format!("prvx {} {} revoker {},{}", s, r, name(rng), hx(&rng.bytes(20)))),
            _ => ctx.case(&format!("prvx {} {} err {}", s, r, rng.pick(&[1101, 1102, 1103, 1104, 1201, 1202, 1203, 1204, 1301, 1302, 2001]))),
        }
    }
}

pub fn generate_into(ctx: &mut Ctx) {
    let mut rng = Rng::new(Rng::new(ctx.seed ^ 0xC11B).next());
    let n = if ctx.tier_thorough { 4000 } else { 400 };
    gen_idx(ctx, &mut rng, n);
    gen_prvx(ctx, &mut rng, n / 2);
    ctx.case("pubx lq");
    ctx.case("pubx ok");
    ctx.case("pubx delta -");
    ctx.case("pubx lr -");
    for i in 0..8 { ctx.case(&format!("pubx er {}", i)); }
    for len in (0..=10usize).chain([47, 48, 49, 57, 255, 256, 1023, 8193, 65537, 131073]) {
        ctx.case(&format!("pubx delta P,{},{},{}", hx(b"s"), hx(b"rsync://h/m/o.roa"), hx(&rng.bytes(len))));
    }
    for _ in 0..n {
        match rng.below(3) {
            0 => {
                let k = match rng.below(5) { 0 => 1, 1 => rng.range(10, 30), _ => rng.range(1, 5) };
                let v: Vec<String> = (0..k).map(|_| {
                    let clen = match rng.below(6) { 0 => 0, 1 => 1, 2 => 2, 3 => rng.range(100, 400), _ => rng.range(3, 60) } as usize;
                    match rng.below(3) {
                        0 => format!("P,{},{},{}", tag_of(&mut rng), hx(&uri_of(&mut rng)), hx(&rng.bytes(clen))),
                        1 => format!("U,{},{},{},{}", tag_of(&mut rng), hx(&uri_of(&mut rng)), hx(&rng.bytes(clen)), hx(&rng.bytes(32))),
                        _ => format!("W,{},{},{}", tag_of(&mut rng), hx(&uri_of(&mut rng)), hx(&rng.bytes(32))),
                    } }).collect();
                ctx.case(&format!("pubx delta {}", v.join(";")));
            }
            1 => {
                let k = match rng.below(5) { 0 => 1, 1 => rng.range(20, 80), _ => rng.range(1, 6) };
                let v: Vec<String> = (0..k).map(|_| format!("{},{}", hx(&uri_of(&mut rng)), hx(&match rng.below(4) { 0 => vec![0u8; 32], 1 => vec![0xff; 32], _ => rng.bytes(32) }))).collect();
                ctx.case(&format!("pubx lr {}", v.join(";")));
            }
            _ => {
                let k = rng.range(1, 5);
                let v: Vec<String> = (0..k).map(|_| rng.below(8).to_string()).collect();
                ctx.case(&format!("pubx er {}", v.join(";")));
            }
        }
    }
}
