//! Resource tagged attestations through the library (`rtad <hex>`), one line per input, for the comparison with
//! the Lean model `RtaDer.decodeRta`; seeds built with the library's own builder (certificates, CRLs, one to three
//! signers) and hand-made variations aimed at each branch of `MultiSignedObject::take_from` and
//! `ResourceTaggedAttestation::take_from`.

use bytes::Bytes;
use rpki::crypto::{DigestAlgorithm, KeyIdentifier};
use rpki::repository::cert::Cert;
use rpki::repository::crl::Crl;
use rpki::repository::resources::{AsBlock, IpBlock, Prefix};
use rpki::repository::rta::{AttestationBuilder, Rta, RtaBuilder};
use rpki::repository::sigobj::MessageDigest;
use bcder::OctetString;
use crate::c01::{show_as, show_ip};
use crate::rng::{hex, unhex, Rng};
use crate::Ctx;
use crate::{der, pki};

pub const CT_RTA: &[u64] = &[1, 2, 840, 113549, 1, 9, 16, 1, 36];

pub fn exec_rta(toks: &[&str]) -> String {
    if toks.len() != 2 { return "bad-op".into() }
    let Some(data) = unhex(toks[1]) else { return "bad-op".into() };
    // the flag is not looked at by the decoder: both values must give the same answer
    let strict = Rta::decode(Bytes::from(data.clone()), true);
    let relaxed_ok = Rta::decode(Bytes::from(data), false).is_ok();
    match strict {
        Ok(r) => {
            if !relaxed_ok { return "strict-ok-relaxed-err".into() }
            let c = r.content();
            let keys: Vec<String> = c.subject_keys().iter().map(|k| hex(k.as_slice())).collect();
            let head = format!("ok {} {} {} {} {}", if keys.is_empty() { "-".into() } else { keys.join(",") },
                show_ip(c.v4_resources(), true), show_ip(c.v6_resources(), false), show_as(c.as_resources()),
                hex(c.message_digest().as_ref()));
            let b = RtaBuilder::from_rta(r);
            format!("{} {} {} {}", head, b.certificates().len(), b.crls().len(), b.signer_infos().len())
        }
        Err(_) => if relaxed_ok { "strict-err-relaxed-ok".into() } else { "err".into() },
    }
}

/// attestations made by the library: resources of every kind, one to three signers, with and without
/// certificates and CRLs
pub fn seeds(pool: &pki::Pool, certs: &[Vec<u8>], crls: &[Vec<u8>]) -> Vec<Vec<u8>> {
    let mut out = Vec::new();
    let kid = |i: usize| KeyIdentifier::try_from(&pool.keys[i % pool.keys.len()].ski[..]).unwrap();
    for variant in 0..5 {
        let mut b = AttestationBuilder::new(DigestAlgorithm::sha256(), MessageDigest::from(OctetString::new(Bytes::from(vec![variant as u8; 32]))));
        match variant {
            0 => { b.push_key(kid(0)); b.push_as(AsBlock::from(rpki::resources::Asn::from_u32(64496))); }
            1 => { b.push_key(kid(0)); b.push_key(kid(1));
                   b.push_v4(IpBlock::from(Prefix::new(std::net::Ipv4Addr::new(10, 0, 0, 0), 8)));
                   b.push_v6(IpBlock::from(Prefix::new(std::net::Ipv6Addr::new(0x2001, 0xdb8, 0, 0, 0, 0, 0, 0), 32))); }
            2 => { b.push_key(kid(1));
                   b.push_v4(IpBlock::from(Prefix::new(std::net::Ipv4Addr::new(192, 0, 2, 0), 24)));
                   b.push_v4(IpBlock::from(Prefix::new(std::net::Ipv4Addr::new(10, 0, 0, 0), 8)));
                   b.push_as(AsBlock::from((rpki::resources::Asn::from_u32(1), rpki::resources::Asn::from_u32(100))));
                   b.push_as(AsBlock::from(rpki::resources::Asn::from_u32(4_200_000_000))); }
            3 => { b.push_v6(IpBlock::from(Prefix::new(std::net::Ipv6Addr::new(0, 0, 0, 0, 0, 0, 0, 0), 0))); }
            _ => { b.push_key(kid(0)); b.push_key(kid(1)); b.push_key(kid(2));
                   b.push_as(AsBlock::from(rpki::resources::Asn::from_u32(0))); }
        }
        let mut rb = b.into_rta_builder();
        if variant != 3 { for c in certs.iter().take(variant.min(2) + 1) { if let Ok(c) = Cert::decode(Bytes::from(c.clone())) { rb.push_cert(c); } } }
        if variant % 2 == 1 { for c in crls.iter().take(2) { if let Ok(c) = Crl::decode(Bytes::from(c.clone())) { rb.push_crl(c); } } }
        for k in 0..(variant % 3 + 1) {
            let _ = rb.sign(&pool.signer, &pool.keys[k % pool.keys.len()].id, crate::c01::time(1_700_000_000 + k as i64));
        }
        out.push(rb.finalize().to_captured().into_bytes().to_vec());
    }
    out
}

fn split_all(b: &[u8]) -> Option<Vec<Vec<u8>>> {
    let mut v = Vec::new();
    let mut off = 0;
    while off < b.len() { let (h, n) = der::split_tlv(&b[off..])?; v.push(b[off..off + h + n].to_vec()); off += h + n; }
    Some(v)
}
fn content_of(b: &[u8]) -> Option<&[u8]> { let (h, n) = der::split_tlv(b)?; Some(&b[h..h + n]) }

/// [version, digestAlgorithms, encapContentInfo, [0] certificates, ([1] crls,) signerInfos] of an attestation
fn sd_parts(orig: &[u8]) -> Option<Vec<Vec<u8>>> {
    let top = split_all(content_of(orig)?)?;
    if top.len() != 2 { return None }
    let sd = content_of(content_of(&top[1])?)?;
    split_all(sd)
}

fn wrap(parts: &[Vec<u8>]) -> Vec<u8> {
    der::seq(&[der::oid(pki::SIGNED_DATA), der::ctx(0, true, &der::seq(parts))])
}

pub fn structured_rta(orig: &[u8]) -> Vec<Vec<u8>> {
    let mut out = Vec::new();
    let Some(parts) = sd_parts(orig) else { return out };
    if parts.len() < 5 { return out }
    let n = parts.len();
    let has_crls = n == 6;
    let econtent = (|| { let e = split_all(content_of(&parts[2])?)?; let oc = content_of(e.get(1)?)?; Some(content_of(oc)?.to_vec()) })();
    let Some(att) = econtent else { return out };
    let encap = |ct: &[u64], content: &[u8]| der::seq(&[der::oid(ct), der::ctx(0, true, &der::octets(content))]);
    let with = |i: usize, v: Vec<u8>| { let mut p = parts.clone(); p[i] = v; wrap(&p) };
    // --- the attestation itself
    let Some(att_parts) = content_of(&att).and_then(split_all) else { return out };
    let kid = |b: u8| der::octets(&[b; 20]);
    let as_seq = |items: Vec<Vec<u8>>| der::ctx(0, true, &der::seq(&items));
    let fam = |afi: &[u8], items: Vec<Vec<u8>>| der::seq(&[der::octets(afi), der::seq(&items)]);
    let ip_seq = |fams: Vec<Vec<u8>>| der::ctx(1, true, &der::seq(&fams));
    let p4 = der::bits(0, &[10]);
    let p6 = der::bits(0, &[0x20, 0x01, 0x0d, 0xb8]);
    let dalg = der::seq(&[der::oid(pki::SHA256)]);
    let md = der::octets(&[7u8; 32]);
    let mk_att = |ver: Option<Vec<u8>>, keys: Vec<u8>, res: Vec<u8>, alg: Vec<u8>, md: Vec<u8>| {
        let mut p = Vec::new(); if let Some(v) = ver { p.push(v); } p.extend([keys, res, alg, md]); der::seq(&p) };
    let keys1 = der::set_raw(&[kid(1)]);
    let res_as = der::seq(&[as_seq(vec![der::uint_u64(64496)])]);
    let atts: Vec<Vec<u8>> = vec![
        mk_att(None, keys1.clone(), res_as.clone(), dalg.clone(), md.clone()),
        mk_att(Some(der::ctx(0, true, &der::uint_u64(0))), keys1.clone(), res_as.clone(), dalg.clone(), md.clone()),
        mk_att(Some(der::ctx(0, true, &der::uint_u64(1))), keys1.clone(), res_as.clone(), dalg.clone(), md.clone()),
        mk_att(Some(der::ctx(0, true, &der::cat(&[der::uint_u64(0), der::null()]))), keys1.clone(), res_as.clone(), dalg.clone(), md.clone()),
        mk_att(Some(der::ctx(0, true, &[])), keys1.clone(), res_as.clone(), dalg.clone(), md.clone()),
        mk_att(Some(der::uint_u64(0)), keys1.clone(), res_as.clone(), dalg.clone(), md.clone()),
        // subject keys
        mk_att(None, der::set_raw(&[]), res_as.clone(), dalg.clone(), md.clone()),
        mk_att(None, der::set_raw(&[kid(2), kid(1), kid(2)]), res_as.clone(), dalg.clone(), md.clone()),
        mk_att(None, der::set_raw(&[der::octets(&[1u8; 19])]), res_as.clone(), dalg.clone(), md.clone()),
        mk_att(None, der::set_raw(&[der::octets(&[1u8; 21])]), res_as.clone(), dalg.clone(), md.clone()),
        mk_att(None, der::set_raw(&[kid(1), der::null()]), res_as.clone(), dalg.clone(), md.clone()),
        mk_att(None, der::set_raw(&[der::tlv(0x24, &kid(1))]), res_as.clone(), dalg.clone(), md.clone()),
        mk_att(None, der::seq(&[kid(1)]), res_as.clone(), dalg.clone(), md.clone()),
        // resources
        mk_att(None, keys1.clone(), der::seq(&[]), dalg.clone(), md.clone()),
        mk_att(None, keys1.clone(), der::seq(&[as_seq(vec![])]), dalg.clone(), md.clone()),
        mk_att(None, keys1.clone(), der::seq(&[ip_seq(vec![])]), dalg.clone(), md.clone()),
        mk_att(None, keys1.clone(), der::seq(&[ip_seq(vec![fam(&[0, 1], vec![])])]), dalg.clone(), md.clone()),
        mk_att(None, keys1.clone(), der::seq(&[ip_seq(vec![fam(&[0, 1], vec![p4.clone()])])]), dalg.clone(), md.clone()),
        mk_att(None, keys1.clone(), der::seq(&[ip_seq(vec![fam(&[0, 2], vec![p6.clone()]), fam(&[0, 1], vec![p4.clone()])])]), dalg.clone(), md.clone()),
        mk_att(None, keys1.clone(), der::seq(&[ip_seq(vec![fam(&[0, 1], vec![p4.clone()]), fam(&[0, 1], vec![p4.clone()])])]), dalg.clone(), md.clone()),
        mk_att(None, keys1.clone(), der::seq(&[ip_seq(vec![fam(&[0, 2], vec![p6.clone()]), fam(&[0, 2], vec![])])]), dalg.clone(), md.clone()),
        mk_att(None, keys1.clone(), der::seq(&[ip_seq(vec![fam(&[0, 3], vec![p4.clone()])])]), dalg.clone(), md.clone()),
        mk_att(None, keys1.clone(), der::seq(&[ip_seq(vec![fam(&[0, 1, 1], vec![p4.clone()])])]), dalg.clone(), md.clone()),
        mk_att(None, keys1.clone(), der::seq(&[ip_seq(vec![fam(&[1], vec![p4.clone()])])]), dalg.clone(), md.clone()),
        mk_att(None, keys1.clone(), der::seq(&[ip_seq(vec![fam(&[0, 1], vec![der::bits(7, &[10, 0, 0, 0, 0x80])])])]), dalg.clone(), md.clone()),
        mk_att(None, keys1.clone(), der::seq(&[ip_seq(vec![fam(&[0, 2], vec![der::bits(7, &[10, 0, 0, 0, 0x80])])])]), dalg.clone(), md.clone()),
        mk_att(None, keys1.clone(), der::seq(&[ip_seq(vec![fam(&[0, 1], vec![der::seq(&[der::bits(0, &[10]), der::bits(0, &[11])]), der::bits(0, &[10, 5]), der::bits(0, &[12])])])]), dalg.clone(), md.clone()),
        mk_att(None, keys1.clone(), der::seq(&[ip_seq(vec![fam(&[0, 1], vec![der::seq(&[der::bits(0, &[11]), der::bits(0, &[10])])])])]), dalg.clone(), md.clone()),
        mk_att(None, keys1.clone(), der::seq(&[ip_seq(vec![fam(&[0, 1], vec![der::null()])])]), dalg.clone(), md.clone()),
        mk_att(None, keys1.clone(), der::seq(&[ip_seq(vec![der::seq(&[der::octets(&[0, 1]), der::null()])])]), dalg.clone(), md.clone()),
        mk_att(None, keys1.clone(), der::seq(&[ip_seq(vec![der::seq(&[der::octets(&[0, 1]), der::seq(&[p4.clone()]), der::null()])])]), dalg.clone(), md.clone()),
        mk_att(None, keys1.clone(), der::seq(&[der::ctx(1, true, &der::cat(&[der::seq(&[fam(&[0, 1], vec![p4.clone()])]), der::null()]))]), dalg.clone(), md.clone()),
        mk_att(None, keys1.clone(), der::seq(&[as_seq(vec![der::uint_u64(5), der::seq(&[der::uint_u64(3), der::uint_u64(9)]), der::uint_u64(10)])]), dalg.clone(), md.clone()),
        mk_att(None, keys1.clone(), der::seq(&[as_seq(vec![der::seq(&[der::uint_u64(9), der::uint_u64(3)])])]), dalg.clone(), md.clone()),
        mk_att(None, keys1.clone(), der::seq(&[as_seq(vec![der::uint_u64(1u64 << 32)])]), dalg.clone(), md.clone()),
        mk_att(None, keys1.clone(), der::seq(&[as_seq(vec![der::null()])]), dalg.clone(), md.clone()),
        mk_att(None, keys1.clone(), der::seq(&[der::ctx(0, true, &der::null())]), dalg.clone(), md.clone()),
        mk_att(None, keys1.clone(), der::seq(&[der::ctx(0, true, &der::cat(&[der::seq(&[der::uint_u64(1)]), der::null()]))]), dalg.clone(), md.clone()),
        mk_att(None, keys1.clone(), der::seq(&[ip_seq(vec![fam(&[0, 1], vec![p4.clone()])]), as_seq(vec![der::uint_u64(1)])]), dalg.clone(), md.clone()),
        mk_att(None, keys1.clone(), der::seq(&[as_seq(vec![der::uint_u64(1)]), ip_seq(vec![fam(&[0, 1], vec![p4.clone()])])]), dalg.clone(), md.clone()),
        mk_att(None, keys1.clone(), der::seq(&[as_seq(vec![der::uint_u64(1)]), der::null()]), dalg.clone(), md.clone()),
        mk_att(None, keys1.clone(), der::seq(&[der::ctx(2, true, &der::null())]), dalg.clone(), md.clone()),
        // digest algorithm and digest
        mk_att(None, keys1.clone(), res_as.clone(), der::seq(&[der::oid(pki::SHA256), der::null()]), md.clone()),
        mk_att(None, keys1.clone(), res_as.clone(), der::seq(&[der::oid(pki::SHA256_RSA)]), md.clone()),
        mk_att(None, keys1.clone(), res_as.clone(), der::seq(&[der::oid(pki::SHA256), der::null(), der::null()]), md.clone()),
        mk_att(None, keys1.clone(), res_as.clone(), dalg.clone(), der::octets(&[])),
        mk_att(None, keys1.clone(), res_as.clone(), dalg.clone(), der::octets(&[1u8; 70])),
        mk_att(None, keys1.clone(), res_as.clone(), dalg.clone(), der::tlv(0x24, &md)),
        mk_att(None, keys1.clone(), res_as.clone(), dalg.clone(), der::null()),
        der::seq(&[keys1.clone(), res_as.clone(), dalg.clone()]),
        der::seq(&[keys1.clone(), res_as.clone(), dalg.clone(), md.clone(), der::null()]),
        der::seq(&[res_as.clone(), keys1.clone(), dalg.clone(), md.clone()]),
        der::cat(&[mk_att(None, keys1.clone(), res_as.clone(), dalg.clone(), md.clone()), vec![0xde, 0xad]]),
        der::seq(&[]),
        vec![],
    ];
    for a in &atts { out.push(with(2, encap(CT_RTA, a))); }
    let _ = att_parts;
    // --- the envelope
    out.push(with(0, der::uint_u64(1)));
    out.push(with(0, der::uint_u64(4)));
    out.push(with(1, der::set_raw(&[])));
    out.push(with(1, der::set_raw(&[dalg.clone(), dalg.clone()])));
    out.push(with(1, der::set_raw(&[der::seq(&[der::oid(pki::SHA256), der::null()])])));
    out.push(with(1, dalg.clone()));
    out.push(with(2, encap(pki::CT_ROA, &att)));
    out.push(with(2, der::seq(&[der::oid(CT_RTA)])));
    out.push(with(2, der::seq(&[der::oid(CT_RTA), der::ctx(0, true, &der::tlv(0x24, &der::octets(&att)))])));
    out.push(with(2, der::seq(&[der::oid(CT_RTA), der::ctx(0, true, &der::cat(&[der::octets(&att), der::null()]))])));
    out.push(with(2, der::seq(&[der::oid(CT_RTA), der::ctx(0, true, &der::octets(&att)), der::null()])));
    // certificates: none, one twice, something that is not a certificate
    out.push(with(3, der::ctx(0, true, &[])));
    let certs = content_of(&parts[3]).and_then(split_all).unwrap_or_default();
    if let Some(c) = certs.first() {
        out.push(with(3, der::ctx(0, true, &der::cat(&[c.clone(), c.clone(), c.clone()]))));
        out.push(with(3, der::ctx(0, true, &der::cat(&[c.clone(), der::null()]))));
        out.push(with(3, der::ctx(0, true, &der::cat(&[c.clone(), der::seq(&[])]))));
        out.push(with(3, der::ctx(0, true, &der::tlv(0x31, content_of(c).unwrap_or(&[])))));
        let mut broken = c.clone(); let at = broken.len() / 2; broken[at] ^= 0x40;
        out.push(with(3, der::ctx(0, true, &broken)));
    }
    out.push(with(3, der::ctx(1, true, &[])));
    { let mut p = parts.clone(); p.remove(3); out.push(wrap(&p)); }
    // CRLs
    if has_crls {
        out.push(with(4, der::ctx(1, true, &[])));
        { let mut p = parts.clone(); p.remove(4); out.push(wrap(&p)); }
        let crls = content_of(&parts[4]).and_then(split_all).unwrap_or_default();
        if let Some(c) = crls.first() {
            out.push(with(4, der::ctx(1, true, &der::cat(&[c.clone(), c.clone(), c.clone()]))));
            out.push(with(4, der::ctx(1, true, &der::cat(&[c.clone(), der::null()]))));
            if let Some(cert) = certs.first() { out.push(with(4, der::ctx(1, true, cert))); }
        }
        { let mut p = parts.clone(); p.swap(3, 4); out.push(wrap(&p)); }
        { let mut p = parts.clone(); let c = p[4].clone(); p.insert(4, c); out.push(wrap(&p)); }
    } else {
        { let mut p = parts.clone(); p.insert(4, der::ctx(1, true, &[])); out.push(wrap(&p)); }
        { let mut p = parts.clone(); p.insert(4, der::ctx(2, true, &[])); out.push(wrap(&p)); }
    }
    // signer infos
    let si_at = n - 1;
    let infos = content_of(&parts[si_at]).and_then(split_all).unwrap_or_default();
    out.push(with(si_at, der::set_raw(&[])));
    if let Some(si) = infos.first() {
        out.push(with(si_at, der::set_raw(&[si.clone(), si.clone(), si.clone(), si.clone()])));
        out.push(with(si_at, der::set_raw(&[si.clone(), der::null()])));
        out.push(with(si_at, der::seq(&[si.clone()])));
        if let Some(f) = content_of(si).and_then(split_all) {
            if f.len() == 6 {
                let re = |i: usize, v: Vec<u8>| { let mut g = f.clone(); g[i] = v; with(si_at, der::set_raw(&[der::seq(&g)])) };
                out.push(re(0, der::uint_u64(1)));
                out.push(re(1, der::ctx(0, false, &[1u8; 19])));
                out.push(re(1, der::ctx(0, true, &der::octets(&[1u8; 20]))));
                out.push(re(1, der::octets(&[1u8; 20])));
                out.push(re(2, der::seq(&[der::oid(pki::SHA256), der::null()])));
                out.push(re(2, der::seq(&[der::oid(pki::SHA256_RSA)])));
                out.push(re(4, der::seq(&[der::oid(pki::SHA256_RSA), der::null()])));
                out.push(re(4, der::seq(&[der::oid(pki::RSA)])));
                out.push(re(4, der::seq(&[der::oid(pki::SHA256)])));
                out.push(re(5, der::tlv(0x24, &der::octets(&[1, 2, 3]))));
                out.push(re(5, der::octets(&[])));
                // signed attributes: the content type of another object, a missing / duplicated / foreign attribute
                let attrs = content_of(&f[3]).and_then(split_all).unwrap_or_default();
                let ct_other = pki::attr(pki::AT_CONTENT_TYPE, der::oid(pki::CT_ROA));
                let mut sets: Vec<Vec<Vec<u8>>> = Vec::new();
                for i in 0..attrs.len() { let mut a = attrs.clone(); a.remove(i); sets.push(a); let mut a = attrs.clone(); let x = a[i].clone(); a.push(x); sets.push(a); }
                { let mut a: Vec<Vec<u8>> = attrs.iter().filter(|x| !x.windows(11).any(|w| w == &der::oid(pki::AT_CONTENT_TYPE)[..])).cloned().collect(); a.push(ct_other); sets.push(a); }
                { let mut a = attrs.clone(); a.push(pki::attr(&[1, 2, 3, 4], der::null())); sets.push(a); }
                { let mut a = attrs.clone(); a.push(pki::attr(pki::AT_BINARY_SIGNING_TIME, der::uint_u64(1_700_000_000))); sets.push(a); }
                { let mut a = attrs.clone(); a.reverse(); sets.push(a); }
                for s in sets { out.push(re(3, der::ctx(0, true, &der::cat(&s)))); }
                { let mut g = f.clone(); g.push(der::ctx(1, true, &[])); out.push(with(si_at, der::set_raw(&[der::seq(&g)]))); }
                { let mut g = f.clone(); g.remove(3); out.push(with(si_at, der::set_raw(&[der::seq(&g)]))); }
            }
        }
    }
    { let mut p = parts.clone(); p.push(der::null()); out.push(wrap(&p)); }
    { let mut p = parts.clone(); p.pop(); out.push(wrap(&p)); }
    out.push(der::seq(&[der::oid(pki::CT_ROA), der::ctx(0, true, &der::seq(&parts))]));
    out.push(der::seq(&[der::oid(pki::SIGNED_DATA), der::ctx(0, true, &der::cat(&[der::seq(&parts), der::null()]))]));
    out.push(der::seq(&[der::oid(pki::SIGNED_DATA), der::ctx(0, true, &der::seq(&parts)), der::null()]));
    out.push(der::cat(&[wrap(&parts), vec![0xde, 0xad]]));
    out
}

pub fn generate_rta_into(ctx: &mut Ctx, c04_seeds: &[(&'static str, Vec<u8>)], mutate: &dyn Fn(&mut Rng, &[u8], &[Vec<u8>]) -> Vec<u8>,
                         systematic: &dyn Fn(&[u8]) -> Vec<Vec<u8>>) {
    let mut rng = Rng::new(ctx.seed ^ 0x27A0);
    let pool = pki::Pool::new(3);
    let certs: Vec<Vec<u8>> = c04_seeds.iter().filter(|s| s.0 == "cert").map(|s| s.1.clone()).collect();
    let crls: Vec<Vec<u8>> = c04_seeds.iter().filter(|s| s.0 == "crl").map(|s| s.1.clone()).collect();
    let seeds = seeds(&pool, &certs, &crls);
    let all: Vec<Vec<u8>> = c04_seeds.iter().map(|s| s.1.clone()).chain(seeds.iter().cloned()).collect();
    let per = if ctx.tier_thorough { 800 } else { 80 };
    for (i, data) in seeds.iter().enumerate() {
        ctx.case(&format!("rtad {}", hex(data)));
        for d in structured_rta(data) { ctx.case(&format!("rtad {}", hex(&d))); }
        if i == 0 { for d in systematic(data) { ctx.case(&format!("rtad {}", hex(&d))); } }
        for _ in 0..per {
            let mut d = mutate(&mut rng, data, &all);
            if rng.chance(1, 5) { d = mutate(&mut rng, &d, &all); }
            if d.len() > 80_000 { d.truncate(80_000); }
            ctx.case(&format!("rtad {}", hex(&d)));
        }
    }
    // other signed objects read as attestations
    for (entry, data) in c04_seeds { if matches!(*entry, "roa" | "mft" | "so") { ctx.case(&format!("rtad {}", hex(data))); } }
}
