//! C10 — CA-protocol CMS (src/ca/sigmsg.rs, idcert.rs).
//!
//! op:  msg <when> <facts> | <peer-spki> <message>
//!   SignedMessage::decode(strict) + validate_at(peer key, when)   => ok | err
//!   facts = dec:ctype:content:attrs:sid:sigkey:siginput:peerkid:
//!           eesig,nb,na,ski,kid,aki,bc,serial:crlalg,crlsig,this,next,aki,revoked(;-joined)
//! op:  pcms|qcms <when> <facts> | <peer-spki> <message>   the same through ProvisioningCms /
//!   PublicationCms::decode + validate_at (content must be a protocol message; used with library-made messages)
use crate::c01;
use crate::der;
use crate::pki::{self, Pool};
use crate::rng::{hex, unhex, Rng};
use crate::Ctx;
use bytes::Bytes;
use rpki::ca::sigmsg::SignedMessage;
use rpki::crypto::signer::Signer;
use rpki::crypto::PublicKey;
use rpki::repository::x509::Validity;

pub fn exec(toks: &[&str]) -> String {
    if toks.len() < 6 { return "bad-op".into() }
    let Ok(when) = toks[1].parse::<i64>() else { return "bad-op".into() };
    let Some(bar) = toks.iter().position(|t| *t == "|") else { return "bad-op".into() };
    if toks.len() != bar + 3 { return "bad-op".into() }
    let (Some(spki), Some(msg)) = (unhex(toks[bar + 1]), unhex(toks[bar + 2])) else { return "bad-op".into() };
    let Ok(key) = PublicKey::decode(Bytes::from(spki)) else { return "bad-op".into() };
    match toks[0] {
        "msg" | "msgr" => {
            let main = match SignedMessage::decode(Bytes::from(msg.clone()), toks[0] == "msg") {
                Ok(m) => m.validate_at(&key, c01::time(when)).is_ok(),
                Err(_) => false,
            };
            // the protocol wrappers decide the same question for messages whose content is a protocol document
            let mut alt = String::new();
            if let Ok(c) = rpki::ca::publication::PublicationCms::decode(&msg) {
                if c.validate_at(&key, c01::time(when)).is_ok() != main { alt.push_str(" ALT=PublicationCms"); }
            }
            if let Ok(c) = rpki::ca::provisioning::ProvisioningCms::decode(&msg) {
                if c.validate_at(&key, c01::time(when)).is_ok() != main { alt.push_str(" ALT=ProvisioningCms"); }
            }
            format!("{}{}", if main { "ok" } else { "err" }, alt)
        }
        _ => "bad-op".into(),
    }
}

//------------ generation ----------------------------------------------------

/// the same message through the relaxed entry point (the mode `ProvisioningCms` / `PublicationCms` decode in): as it
/// is, and re-encoded with BER's liberties outside the signed octets - the verdict must be the one of the facts
fn relaxed_twin(ctx: &mut Ctx, rng: &mut Rng, when: i64, facts: &str, spki: &[u8], msg: &[u8]) {
    if rng.chance(1, 3) {
        ctx.case(&format!("msgr {} {} | {} {}", when, facts, hex(spki), hex(msg)));
    } else if rng.chance(1, 2) {
        let rate = *rng.pick(&[1u64, 4, 16]);
        if let Some(b) = crate::berd::ber_encode_safe(msg, rng, rate) {
            ctx.case(&format!("msgr {} {} | {} {}", when, facts, hex(spki), hex(&b)));
        }
    }
}

#[derive(Clone)]
pub struct IdSpec {
    pub serial: Vec<u8>,
    pub nb: i64,
    pub na: i64,
    pub spki: Vec<u8>,
    pub ski: Vec<u8>,
    pub aki: Option<Vec<u8>>,
    pub bc: Option<bool>,
    pub path_len: bool,
    pub key_usage: bool,
}

pub fn encode_id_tbs(s: &IdSpec, issuer: &str, subject: &str) -> Vec<u8> {
    let mut exts = Vec::new();
    if let Some(ca) = s.bc {
        let mut c = Vec::new();
        if ca { c.push(der::boolean(true)); }
        if s.path_len { c.push(der::uint_u64(0)); }
        exts.push(pki::ext(pki::CE_BC, true, &der::seq(&c)));
    }
    exts.push(pki::ext(pki::CE_SKI, false, &der::octets(&s.ski)));
    if let Some(a) = &s.aki {
        exts.push(pki::ext(pki::CE_AKI, false, &der::seq(&[der::ctx(0, false, a)])));
    }
    if s.key_usage {
        exts.push(pki::ext(pki::CE_KU, true, &der::bits(7, &[0x80])));
    }
    der::seq(&[
        der::ctx(0, true, &der::uint_u64(2)),
        der::uint(&s.serial),
        pki::alg_id(pki::SHA256_RSA),
        pki::name(issuer),
        der::seq(&[pki::time_of(s.nb), pki::time_of(s.na)]),
        pki::name(subject),
        s.spki.clone(),
        der::ctx(3, true, &der::seq(&exts)),
    ])
}

fn opt_hex(o: &Option<Vec<u8>>) -> String { match o { Some(a) => hex(a), None => "N".into() } }

pub fn generate(ctx: &mut Ctx) {
    let mut rng = Rng::new(ctx.seed ^ 0xC10);
    let pool = Pool::new(4);     // 0: peer identity key, 1: EE key, 2: another identity, 3: another EE
    let n = if ctx.tier_thorough { 6000 } else { 900 };
    let peer = 0usize;
    // --- messages made by the library itself
    for i in 0..(n / 18) {
        // validity windows in the 2020s and around the UTCTime / GeneralizedTime switch (2049 | 2050)
        const Y2050: i64 = 2_524_608_000;
        let (nb, na) = match i % 6 {
            0 => (Y2050 - 86_400 - rng.below(1000) as i64, Y2050 + 86_400 + rng.below(1000) as i64),
            1 => (Y2050 + rng.below(1000) as i64, Y2050 + 200_000_000),
            2 => (1_780_000_000, Y2050 + 200_000_000),
            3 => (Y2050 - 200_000 - rng.below(1000) as i64, Y2050 - 1),
            _ => { let nb = 1_700_000_000 + rng.below(1000) as i64; (nb, nb + 1 + rng.below(100_000) as i64) }
        };
        let dlen = rng.range(0, 300) as usize;
        let data = match i % 3 {
            0 => b"<msg xmlns=\"http://www.hactrn.net/uris/rpki/publication-spec/\" version=\"4\" type=\"reply\">\n  <success/>\n</msg>".to_vec(),
            1 => b"<message xmlns=\"http://www.apnic.net/specs/rescerts/up-down/\" version=\"1\" sender=\"c\" recipient=\"p\" type=\"list\">\n</message>".to_vec(),
            _ => rng.bytes(dlen),
        };
        let issuer = if i % 5 == 4 { 2 } else { peer };
        let m = SignedMessage::create(Bytes::from(data.clone()),
            Validity::new(c01::time(nb), c01::time(na)), &pool.keys[issuer].id, &pool.signer).unwrap();
        let der_m = m.to_captured().into_bytes().to_vec();
        for when in [nb - 1, nb, nb + (na - nb) / 2, na, na + 1] {
            // facts for a library-made message: the model is told what create() promises
            let f = format!("lib:{}:{}:{}:{}:{}", hex(&data), nb, na, hex(&pool.keys[issuer].ski), hex(&pool.keys[peer].ski));
            ctx.case(&format!("msg {} {} | {} {}", when, f, hex(&pool.keys[peer].spki), hex(&der_m)));
            relaxed_twin(ctx, &mut rng, when, &f, &pool.keys[peer].spki, &der_m);
        }
    }
    // --- foreign messages
    for _ in 0..n {
        let nb = 1_700_000_000i64;
        let na = 1_800_000_000i64;
        let mut when = *rng.pick(&[c01::T0, nb + 7, na - 7]);
        let dlen = rng.range(0, 200) as usize;
        let content = match rng.below(3) {
            0 => b"<msg xmlns=\"http://www.hactrn.net/uris/rpki/publication-spec/\" version=\"4\" type=\"query\">\n  <list/>\n</msg>".to_vec(),
            1 => b"<message xmlns=\"http://www.apnic.net/specs/rescerts/up-down/\" version=\"1\" sender=\"c\" recipient=\"p\" type=\"list\">\n</message>".to_vec(),
            _ => rng.bytes(dlen),
        };
        let mut content_type = pki::CT_PROTOCOL.to_vec();
        let mut ee = IdSpec {
            serial: vec![rng.range(1, 127) as u8, rng.next() as u8, rng.next() as u8],
            nb, na, spki: pool.keys[1].spki.clone(), ski: pool.keys[1].ski.clone(),
            aki: if rng.bool() { Some(pool.keys[peer].ski.clone()) } else { None },
            bc: match rng.below(4) { 0 => Some(false), _ => None },
            path_len: false, key_usage: rng.chance(1, 4),
        };
        let mut ee_signer = peer;
        let mut crl_signer = peer;
        let mut crl_this = nb;
        let mut crl_next = na;
        let mut crl_aki = if rng.bool() { Some(pool.keys[peer].ski.clone()) } else { None };
        let nrev = if rng.chance(1, 4) { rng.range(1, 50) } else { 0 } as usize;
        let mut revoked: Vec<Vec<u8>> = (0..nrev).map(|_| vec![rng.range(1, 127) as u8, rng.next() as u8, rng.next() as u8, 1]).collect();
        let mut sid = ee.ski.clone();
        let mut sig_key = 1usize;
        let mut flip_sig = false;
        let mut dec = true;
        let mut sig_over = 0u64;
        let st = c01::T0 - rng.below(100_000) as i64;
        let mut attrs = pki::std_attrs(&content_type, &content, Some(st));
        // extra signed attributes (0..6), unknown OIDs and binary-signing-time
        let nextra = match rng.below(4) { 0 => 0, 1 => 1, _ => rng.range(0, 6) };
        for k in 0..nextra {
            let vlen = *rng.pick(&[1usize, 10, 40, 100, 300]);
            if rng.chance(1, 3) {
                attrs.push(pki::attr(pki::AT_BINARY_SIGNING_TIME, der::uint_u64(st as u64)));
            } else {
                let v = rng.bytes(vlen);
                attrs.push(pki::attr(&[1, 3, 6, 1, 4, 1, 99999, k as u64 + 1], der::octets(&v)));
            }
        }
        // duplicate unknown attributes are fine; dedup identical binary-signing-time entries for DER SET OF
        attrs.sort(); attrs.dedup();
        let mut second_crl = false;
        match rng.below(36) {
            0 => when = nb - 1,
            1 => when = nb,
            2 => when = na,
            3 => when = na + 1,
            4 => { ee_signer = 2; }
            5 => { crl_signer = 2; }
            6 => { ee.bc = Some(true); }
            7 => { ee.bc = Some(true); ee.path_len = true; }
            8 => { ee.nb = c01::T0 + 10; }
            9 => { ee.na = c01::T0 - 10; }
            10 => { crl_this = c01::T0 + 10; }
            11 => { crl_next = c01::T0 - 10; }
            12 => { // revoked: first / middle / last position
                let pos = match rng.below(3) { 0 => 0, 1 => revoked.len() / 2, _ => revoked.len() };
                revoked.insert(pos.min(revoked.len()), ee.serial.clone()); }
            13 => { ee.aki = Some(pool.keys[2].ski.clone()); }
            14 => { crl_aki = Some(pool.keys[2].ski.clone()); }
            15 => { sid[rng.below(20) as usize] ^= 1 << rng.below(8); }
            16 => { sig_key = 3; }
            17 => { flip_sig = true; }
            18 => { sig_over = 1; }
            19 => { sig_over = 2; }
            20 => { let i = attrs.iter().position(|a| a.windows(11).any(|w| w == [0x06, 0x09, 0x2a, 0x86, 0x48, 0x86, 0xf7, 0x0d, 0x01, 0x09, 0x04])).unwrap();
                    attrs[i] = pki::attr(pki::AT_MESSAGE_DIGEST, der::octets(&rng.bytes(32))); attrs.sort(); }
            21 => { ee.ski[3] ^= 4; sid = ee.ski.clone(); }
            22 => { content_type = pki::CT_GBR.to_vec(); attrs = pki::std_attrs(&content_type, &content, Some(st)); attrs.sort(); dec = false; }
            23 => { // crl period equal to the instant
                crl_this = when; crl_next = when; }
            24 => { ee.nb = when; ee.na = when; }
            25 | 26 | 27 => { // a digest attribute of another length: a prefix of the digest, nothing, the digest and more
                let i = attrs.iter().position(|a| a.windows(11).any(|w| w == [0x06, 0x09, 0x2a, 0x86, 0x48, 0x86, 0xf7, 0x0d, 0x01, 0x09, 0x04])).unwrap();
                let d = pki::sha256(&content);
                let v: Vec<u8> = match rng.below(4) { 0 => d[..31].to_vec(), 1 => vec![], 2 => { let mut x = d.clone(); x.push(0); x }, _ => d[..rng.below(32) as usize].to_vec() };
                attrs[i] = pki::attr(pki::AT_MESSAGE_DIGEST, der::octets(&v)); attrs.sort(); }
            // a second CRL in the set, after a clean one, that lists the EE certificate: whether an implementation reads
            // one CRL or all of them, the message must not validate
            28 | 29 => { second_crl = true; }
            _ => {}
        }
        let set = der::set_of(&attrs);
        let (h, nlen) = der::split_tlv(&set).unwrap();
        let written = set[h..h + nlen].to_vec();
        let sig_input = match sig_over {
            0 => der::tlv(0x31, &written),
            1 => der::tlv(0xA0, &written),
            _ => { let mut v = vec![0x31, 2, (written.len() >> 8) as u8, written.len() as u8]; v.extend_from_slice(&written); v }
        };
        let ee_tbs = encode_id_tbs(&ee, &pki::hex_name(&pool.keys[ee_signer].ski), &pki::hex_name(&ee.ski));
        let ee_cert = pki::signed(&ee_tbs, &pool.sign(ee_signer, &ee_tbs));
        // revocation dates before, at and after the evaluation time (round 17, C10-17): the statement says "does not
        // list the EE certificate", whatever the entry's date
        let rev: Vec<(Vec<u8>, i64)> = revoked.iter().map(|s| (s.clone(), match rng.below(6) {
            0 => nb, 1 => when - 1, 2 => when, 3 => when + 1, 4 => na, _ => when + 31_536_000 })).collect();
        let crl_tbs = pki::encode_crl_tbs(&pki::hex_name(&pool.keys[crl_signer].ski), crl_this, crl_next, &rev,
            crl_aki.as_deref(), Some(&[1, 2, 3]));
        let mut crl = pki::signed(&crl_tbs, &pool.sign(crl_signer, &crl_tbs));
        if second_crl {
            let rev2 = vec![(ee.serial.clone(), if rng.bool() { nb } else { when + 1 + rng.below(100_000) as i64 })];
            let tbs2 = pki::encode_crl_tbs(&pki::hex_name(&pool.keys[peer].ski), nb, na, &rev2, crl_aki.as_deref(), Some(&[1, 2, 4]));
            crl.extend_from_slice(&pki::signed(&tbs2, &pool.sign(peer, &tbs2)));
            revoked.push(ee.serial.clone());
        }
        let mut sig = pool.sign(sig_key, &sig_input);
        if flip_sig { let l = sig.len(); sig[l / 3] ^= 0x20; }
        let spec = pki::CmsSpec {
            content_type: content_type.clone(), content: content.clone(), attrs: attrs.clone(), sid: sid.clone(),
            cert: ee_cert, crl: Some(crl), version: 3, si_version: 3,
        };
        let msg = pki::encode_cms(&spec, &sig, true);
        let ct = der::oid(&content_type);
        let (ch, cn) = der::split_tlv(&ct).unwrap();
        let facts = format!("{}:{}:{}:{}:{}:{}:{}:{}:{},{},{},{},{},{},{},{}:{},{},{},{},{},{}",
            if dec { "1" } else { "0" }, hex(&ct[ch..ch + cn]), hex(&content), hex(&written), hex(&sid),
            if sig_key == 1 && !flip_sig { "1" } else { "0" }, hex(&sig_input), hex(&pool.keys[peer].ski),
            if ee_signer == peer { "1" } else { "0" }, ee.nb, ee.na, hex(&ee.ski), hex(&pool.keys[1].ski), opt_hex(&ee.aki),
            match ee.bc { Some(true) => "T", Some(false) => "F", None => "N" }, hex(&ee.serial),
            "1", if crl_signer == peer { "1" } else { "0" }, crl_this, crl_next, opt_hex(&crl_aki),
            if revoked.is_empty() { "-".to_string() } else { revoked.iter().map(|s| hex(s)).collect::<Vec<_>>().join(";") });
        ctx.case(&format!("msg {} {} | {} {}", when, facts, hex(&pool.keys[peer].spki), hex(&msg)));
        relaxed_twin(ctx, &mut rng, when, &facts, &pool.keys[peer].spki, &msg);
    }
}
