//! C09 — RRDP files and hostile XML (src/rrdp.rs, src/xml/*, src/util/base64.rs).
//!
//! ops:
//!   esc <attr|pcdata> <hex>          Text::write_escaped => <hex> <rt>   (rt: what quick-xml's unescape gives back: same|differs|err)
//!   b64 enc <hex>                    base64::Xml.encode => <hex of text>
//!   b64 dec <hex of text>            base64::Xml.decode => ok <hex> | err
//!   notif <session>:<serial>:<snapuri>:<snaphash>:<d;d;…>   d = serial,uri,hash   (all hex except numbers)
//!        write_xml, then parse => <xml hex> <same|differs|err>
//!   snap|delta <session>:<serial>:<e;e;…>   e = P,uri,data | U,uri,hash,data | W,uri,hash
//!        write_xml, then parse => <xml hex> <same|differs|err>
//!   chain <limit|-> <serials,…>      sort_and_verify_deltas => true|false|panic  <retained serials>
//!   origins <base> <snapshot> <d,d,…>   has_matching_origins => true|false
//!   bomb <file> <kind> <prefixlen-hint>  parse an endless stream through a counting reader
//!        => <ok|err|panic> <consumed> <prefix> <limit: h|f>
use crate::rng::{hex, unhex, Rng};
use crate::Ctx;
use bytes::Bytes;
use rpki::rrdp::{
    Delta, DeltaElement, DeltaInfo, Hash, NotificationFile, PublishElement, Snapshot, UpdateElement,
    UriAndHash, WithdrawElement,
};
use rpki::uri;
use rpki::xml::encode::{Text, TextEscape};
use std::io::{self, BufRead, Read};
use std::str::FromStr;
use uuid::Uuid;

fn hash32(h: &[u8]) -> Option<Hash> { Hash::try_from(h).ok() }

fn parse_notif(spec: &str) -> Option<NotificationFile> {
    let p: Vec<&str> = spec.split(':').collect();
    if p.len() != 5 { return None }
    let session = Uuid::from_slice(&unhex(p[0])?).ok()?;
    let serial: u64 = p[1].parse().ok()?;
    let snap = UriAndHash::new(uri::Https::from_slice(&unhex(p[2])?).ok()?, hash32(&unhex(p[3])?)?);
    let mut deltas = Vec::new();
    if p[4] != "-" {
        for d in p[4].split(';') {
            let f: Vec<&str> = d.split(',').collect();
            if f.len() != 3 { return None }
            deltas.push(DeltaInfo::new(f[0].parse().ok()?, uri::Https::from_slice(&unhex(f[1])?).ok()?, hash32(&unhex(f[2])?)?));
        }
    }
    Some(NotificationFile::new(session, serial, snap, deltas))
}

fn parse_elems(s: &str, snapshot: bool) -> Option<(Vec<PublishElement>, Vec<DeltaElement>)> {
    let mut ps = Vec::new();
    let mut ds = Vec::new();
    if s == "-" { return Some((ps, ds)) }
    for e in s.split(';') {
        let f: Vec<&str> = e.split(',').collect();
        match f[0] {
            "P" if f.len() == 3 => {
                let el = PublishElement::new(uri::Rsync::from_slice(&unhex(f[1])?).ok()?, Bytes::from(unhex(f[2])?));
                if snapshot { ps.push(el) } else { ds.push(el.into()) }
            }
            "U" if f.len() == 4 && !snapshot => ds.push(UpdateElement::new(
                uri::Rsync::from_slice(&unhex(f[1])?).ok()?, hash32(&unhex(f[2])?)?, Bytes::from(unhex(f[3])?)).into()),
            "W" if f.len() == 3 && !snapshot => ds.push(WithdrawElement::new(
                uri::Rsync::from_slice(&unhex(f[1])?).ok()?, hash32(&unhex(f[2])?)?).into()),
            _ => return None,
        }
    }
    Some((ps, ds))
}

//------------ endless streams ------------------------------------------------

const CHUNK: usize = 8192;

/// A BufRead serving `prefix` and then `filler` forever, in chunks of CHUNK, counting consumption.
struct Endless {
    prefix: Vec<u8>,
    filler: Vec<u8>,
    pos: usize,           // absolute position
    buf: Vec<u8>,
    pub consumed: usize,
    cap: usize,           // hard stop (the stream ends) so that a missing limit cannot hang the run
}

impl Endless {
    fn byte_at(&self, i: usize) -> u8 {
        if i < self.prefix.len() { self.prefix[i] } else { self.filler[(i - self.prefix.len()) % self.filler.len()] }
    }
}

impl Read for Endless {
    fn read(&mut self, out: &mut [u8]) -> io::Result<usize> {
        let b = self.fill_buf()?;
        let n = b.len().min(out.len());
        out[..n].copy_from_slice(&b[..n]);
        self.consume(n);
        Ok(n)
    }
}

impl BufRead for Endless {
    fn fill_buf(&mut self) -> io::Result<&[u8]> {
        if self.buf.is_empty() && self.pos < self.cap {
            let n = CHUNK.min(self.cap - self.pos);
            self.buf = (0..n).map(|k| self.byte_at(self.pos + k)).collect();
        }
        Ok(&self.buf)
    }
    fn consume(&mut self, amt: usize) {
        let amt = amt.min(self.buf.len());
        self.buf.drain(..amt);
        self.pos += amt;
        self.consumed += amt;
    }
}

const NOTIF_HEAD: &str = "<notification xmlns=\"http://www.ripe.net/rpki/rrdp\" version=\"1\" session_id=\"9df4b597-af9e-4dca-bdda-719cce2c4e28\" serial=\"3\">";
const SNAP_HEAD: &str = "<snapshot xmlns=\"http://www.ripe.net/rpki/rrdp\" version=\"1\" session_id=\"9df4b597-af9e-4dca-bdda-719cce2c4e28\" serial=\"3\">";
const DELTA_HEAD: &str = "<delta xmlns=\"http://www.ripe.net/rpki/rrdp\" version=\"1\" session_id=\"9df4b597-af9e-4dca-bdda-719cce2c4e28\" serial=\"3\">";

/// (prefix, filler, limit kind) for a bomb of the given kind in the given file type
fn bomb(file: &str, kind: &str) -> Option<(Vec<u8>, Vec<u8>, char)> {
    let head = match file { "notif" => NOTIF_HEAD, "snap" => SNAP_HEAD, "delta" => DELTA_HEAD, _ => return None };
    let root = match file { "notif" => "notification", "snap" => "snapshot", _ => "delta" };
    let inner = match file { "notif" => "<snapshot uri=\"https://h/s.xml\" hash=\"", _ => "<publish uri=\"rsync://h/m/a.cer\">" };
    let inner_limit = if file == "notif" { 'h' } else { 'f' };
    Some(match kind {
        // in the root element: header limit
        "root-attr-value" => (format!("<{} xmlns=\"", root).into_bytes(), b"a".to_vec(), 'h'),
        "root-attr-name" => (format!("<{} ", root).into_bytes(), b"a".to_vec(), 'h'),
        "root-name" => (b"<".to_vec(), b"n".to_vec(), 'h'),
        "root-ws-in-tag" => (format!("<{} ", root).into_bytes(), b" ".to_vec(), 'h'),
        "leading-ws" => (b"".to_vec(), b" \n".to_vec(), 'h'),
        "leading-comment" => (b"<!--".to_vec(), b"c".to_vec(), 'h'),
        "leading-doctype" => (b"<!DOCTYPE a [".to_vec(), b"<!ENTITY a \"aaaaaaaaaa\">".to_vec(), 'h'),
        // after the root start: the limit of the next element
        "ws-after-root" => (head.as_bytes().to_vec(), b" \t\n".to_vec(), inner_limit),
        "comment-after-root" => (format!("{}<!--", head).into_bytes(), b"-c".to_vec(), inner_limit),
        "text-after-root" => (head.as_bytes().to_vec(), b"x".to_vec(), inner_limit),
        "entity-after-root" => (head.as_bytes().to_vec(), b"&amp;".to_vec(), inner_limit),
        "inner-attr-value" => (format!("{}{}", head, inner.trim_end_matches('>')).into_bytes(), b"a".to_vec(), inner_limit),
        "inner-name" => (format!("{}<", head).into_bytes(), b"p".to_vec(), inner_limit),
        "nested" => (head.as_bytes().to_vec(), b"<a>".to_vec(), inner_limit),
        // endless runs of small *complete* items that are not elements: each one must count towards the limit
        "comments-after-root" => (head.as_bytes().to_vec(), b"<!--x-->".to_vec(), inner_limit),
        "pis-after-root" => (head.as_bytes().to_vec(), b"<?x y?>".to_vec(), inner_limit),
        "cdata-after-root" => (head.as_bytes().to_vec(), b"<![CDATA[]]>".to_vec(), inner_limit),
        "leading-comments" => (b"".to_vec(), b"<!--x-->".to_vec(), 'h'),
        "comments-between" => (match file {
            "notif" => format!("{}<snapshot uri=\"https://h/s.xml\" hash=\"{}\"/>", head, "00".repeat(32)),
            _ => format!("{}<publish uri=\"rsync://h/m/a.cer\">QUJD</publish>", head) }.into_bytes(), b"<!--x-->".to_vec(), inner_limit),
        "comments-ws-between" => (match file {
            "notif" => format!("{}<snapshot uri=\"https://h/s.xml\" hash=\"{}\"/>", head, "00".repeat(32)),
            _ => format!("{}<withdraw uri=\"rsync://h/m/a.cer\" hash=\"{}\"/>", head, "00".repeat(32)) }.into_bytes(), b" <!-- -->\n".to_vec(), inner_limit),
        // inside a publish element: text content under the file limit
        "publish-text" if file != "notif" => (format!("{}{}", head, inner).into_bytes(), b"QUJD".to_vec(), 'f'),
        "publish-ws" if file != "notif" => (format!("{}{}", head, inner).into_bytes(), b" ".to_vec(), 'f'),
        "publish-entity" if file != "notif" => (format!("{}{}", head, inner).into_bytes(), b"&#65;".to_vec(), 'f'),
        // after the end of the document
        "trailing-ws" if file == "notif" => (format!("{}<snapshot uri=\"https://h/s.xml\" hash=\"{}\"/></notification>", head, "00".repeat(32)).into_bytes(), b"\n".to_vec(), 'h'),
        "trailing-comment" if file == "notif" => (format!("{}<snapshot uri=\"https://h/s.xml\" hash=\"{}\"/></notification><!--", head, "00".repeat(32)).into_bytes(), b"c".to_vec(), 'h'),
        _ => return None,
    })
}

pub fn exec(toks: &[&str]) -> String {
    match toks {
        ["esc", mode, h] => {
            let Some(b) = unhex(h) else { return "bad-op".into() };
            let mode = match *mode { "attr" => TextEscape::Attr, "pcdata" => TextEscape::Pcdata, _ => return "bad-op".into() };
            let mut out = Vec::new();
            if b.as_slice().write_escaped(mode, &mut out).is_err() { return "io-err".into() }
            // what an XML parser makes of it
            let rt = match std::str::from_utf8(&out) {
                Ok(s) => match quick_xml::escape::unescape(s) {
                    Ok(u) => if u.as_bytes() == b.as_slice() { "same" } else { "differs" },
                    Err(_) => "err",
                },
                Err(_) => "nonutf8",
            };
            format!("{} {}", hex(&out), rt)
        }
        ["b64", "enc", h] => {
            let Some(b) = unhex(h) else { return "bad-op".into() };
            hex(rpki::util::base64::Xml.encode(&b).as_bytes())
        }
        ["b64", "dec", h] => {
            let Some(b) = unhex(h) else { return "bad-op".into() };
            match rpki::util::base64::Xml.decode_bytes(&b) { Ok(v) => format!("ok {}", hex(&v)), Err(_) => "err".into() }
        }
        ["notif", spec] => {
            let Some(n) = parse_notif(spec) else { return "bad-op".into() };
            let mut out = Vec::new();
            if n.write_xml(&mut out).is_err() { return "io-err".into() }
            let rt = match NotificationFile::parse(out.as_slice()) {
                Ok(m) => if m == n { "same" } else { "differs" },
                Err(_) => "err",
            };
            format!("{} {}", hex(&out), rt)
        }
        // a large notification file (many retained deltas, or long URIs): every element is small, the file as a
        // whole exceeds any per-element limit
        ["notifbig", nd, ulen] => {
            let (Ok(nd), Ok(ulen)) = (nd.parse::<u64>(), ulen.parse::<usize>()) else { return "bad-op".into() };
            let pad = "a".repeat(ulen);
            let mk = |i: u64| uri::Https::from_str(&format!("https://h/{}/{}.xml", pad, i)).unwrap();
            let deltas: Vec<DeltaInfo> = (0..nd).map(|i| DeltaInfo::new(1_000_000 + nd - i, mk(i), Hash::from([(i % 251) as u8; 32]))).collect();
            let n = NotificationFile::new(Uuid::nil(), 1_000_000 + nd, UriAndHash::new(mk(nd), Hash::from([7u8; 32])), deltas);
            let mut out = Vec::new();
            if n.write_xml(&mut out).is_err() { return "io-err".into() }
            let rt = match NotificationFile::parse(out.as_slice()) {
                Ok(m) => if m == n { "same" } else { "differs" },
                Err(_) => "err",
            };
            format!("{} {}", out.len(), rt)
        }
        ["snap", spec] => {
            let p: Vec<&str> = spec.split(':').collect();
            if p.len() != 3 { return "bad-op".into() }
            let (Some(sid), Ok(serial)) = (unhex(p[0]).and_then(|b| Uuid::from_slice(&b).ok()), p[1].parse::<u64>()) else { return "bad-op".into() };
            let Some((ps, _)) = parse_elems(p[2], true) else { return "bad-op".into() };
            let s = Snapshot::new(sid, serial, ps);
            let mut out = Vec::new();
            if s.write_xml(&mut out).is_err() { return "io-err".into() }
            let rt = match Snapshot::parse(out.as_slice()) {
                Ok(m) => if m == s { "same" } else { "differs" },
                Err(_) => "err",
            };
            format!("{} {}", hex(&out), rt)
        }
        ["delta", spec] => {
            let p: Vec<&str> = spec.split(':').collect();
            if p.len() != 3 { return "bad-op".into() }
            let (Some(sid), Ok(serial)) = (unhex(p[0]).and_then(|b| Uuid::from_slice(&b).ok()), p[1].parse::<u64>()) else { return "bad-op".into() };
            let Some((_, ds)) = parse_elems(p[2], false) else { return "bad-op".into() };
            let d = Delta::new(sid, serial, ds);
            let mut out = Vec::new();
            if d.write_xml(&mut out).is_err() { return "io-err".into() }
            let rt = match Delta::parse(out.as_slice()) {
                Ok(m) => if m == d { "same" } else { "differs" },
                Err(_) => "err",
            };
            format!("{} {}", hex(&out), rt)
        }
        ["chain", limit, serials] => {
            let limit: Option<usize> = if *limit == "-" { None } else { limit.parse().ok() };
            let ss: Vec<u64> = if *serials == "-" { vec![] } else { serials.split(',').filter_map(|s| s.parse().ok()).collect() };
            let u = uri::Https::from_str("https://h/d.xml").unwrap();
            let deltas: Vec<DeltaInfo> = ss.iter().map(|s| DeltaInfo::new(*s, u.clone(), Hash::from([0u8; 32]))).collect();
            let mut n = NotificationFile::new(Uuid::nil(), 1, UriAndHash::new(u.clone(), Hash::from([0u8; 32])), deltas);
            let r = std::panic::catch_unwind(std::panic::AssertUnwindSafe(|| n.sort_and_verify_deltas(limit)));
            match r {
                Ok(b) => {
                    let kept: Vec<String> = n.deltas().iter().map(|d| d.serial().to_string()).collect();
                    format!("{} {}", b, if kept.is_empty() { "-".into() } else { kept.join(",") })
                }
                Err(_) => "panic".into(),
            }
        }
        ["origins", base, snap, deltas] => {
            let (Some(b), Some(s)) = (unhex(base), unhex(snap)) else { return "bad-op".into() };
            let (Ok(b), Ok(s)) = (uri::Https::from_slice(&b), uri::Https::from_slice(&s)) else { return "bad-op".into() };
            let mut ds = Vec::new();
            if *deltas != "-" {
                for d in deltas.split(',') {
                    let Some(u) = unhex(d).and_then(|u| uri::Https::from_slice(&u).ok()) else { return "bad-op".into() };
                    ds.push(DeltaInfo::new(1, u, Hash::from([0u8; 32])));
                }
            }
            let n = NotificationFile::new(Uuid::nil(), 1, UriAndHash::new(s, Hash::from([0u8; 32])), ds);
            n.has_matching_origins(&b).to_string()
        }
        // a document that is *not* what the library writes (structural mutations of written files): every parser must
        // return a value or an error; a value, written again, must parse back to an equal value
        ["rmut", file, lim, h] => {
            let Some(b) = unhex(h) else { return "bad-op".into() };
            let res = std::panic::catch_unwind(std::panic::AssertUnwindSafe(|| -> String {
                match *file {
                    "notif" => {
                        let r = if *lim == "-" { NotificationFile::parse(b.as_slice()) } else { NotificationFile::parse_limited(b.as_slice(), lim.parse().unwrap()) };
                        match r {
                            Ok(n) => {
                                // more deltas than the caller's limit: the list is replaced by an error marker, which no
                                // document can express -- nothing to write back
                                if n.delta_status().is_err() { return "ok oversized".into() }
                                let st = "deltas-ok";
                                let mut out = Vec::new();
                                if n.write_xml(&mut out).is_err() { return "ok io-err".into() }
                                match NotificationFile::parse(out.as_slice()) { Ok(m) if m == n => format!("ok rt-same {} {}", st, n.deltas().len()), Ok(_) => "ok rt-differs".into(), Err(_) => "ok rt-err".into() }
                            }
                            Err(_) => "err".into(),
                        }
                    }
                    "snap" => match Snapshot::parse(b.as_slice()) {
                        Ok(n) => {
                            let mut out = Vec::new();
                            if n.write_xml(&mut out).is_err() { return "ok io-err".into() }
                            match Snapshot::parse(out.as_slice()) { Ok(m) if m == n => format!("ok rt-same - {}", n.elements().len()), Ok(_) => "ok rt-differs".into(), Err(_) => "ok rt-err".into() }
                        }
                        Err(_) => "err".into(),
                    },
                    _ => match Delta::parse(b.as_slice()) {
                        Ok(n) => {
                            let mut out = Vec::new();
                            if n.write_xml(&mut out).is_err() { return "ok io-err".into() }
                            match Delta::parse(out.as_slice()) { Ok(m) if m == n => format!("ok rt-same - {}", n.elements().len()), Ok(_) => "ok rt-differs".into(), Err(_) => "ok rt-err".into() }
                        }
                        Err(_) => "err".into(),
                    },
                }
            }));
            match res { Ok(r) => r, Err(_) => "panic".into() }
        }
        ["bomb", file, kind] => {
            let Some((prefix, filler, lim)) = bomb(file, kind) else { return "bad-op".into() };
            let plen = prefix.len();
            // the stream ends well beyond any legitimate budget so that a missing limit shows up as
            // "consumed far more than allowed" instead of a hang
            let cap = if lim == 'h' { 40_000_000 } else { 260_000_000 };
            let mut src = Endless { prefix, filler, pos: 0, buf: Vec::new(), consumed: 0, cap };
            let res = std::panic::catch_unwind(std::panic::AssertUnwindSafe(|| {
                match *file {
                    "notif" => NotificationFile::parse(&mut src).is_ok(),
                    "snap" => Snapshot::parse(&mut src).is_ok(),
                    _ => Delta::parse(&mut src).is_ok(),
                }
            }));
            let verdict = match res { Ok(true) => "ok", Ok(false) => "err", Err(_) => "panic" };
            format!("{} {} {} {}", verdict, src.consumed, plen, lim)
        }
        _ => "bad-op".into(),
    }
}

//------------ generation ----------------------------------------------------

fn rand_text(rng: &mut Rng, n: usize) -> Vec<u8> {
    const SPECIAL: &[u8] = b"<>&\"' \t\n;#aZ09=/";
    (0..n).map(|_| if rng.chance(1, 3) { *rng.pick(SPECIAL) } else { rng.range(32, 126) as u8 }).collect()
}

fn https(rng: &mut Rng) -> Vec<u8> {
    let host = *rng.pick(&["h", "H", "rrdp.example.net", "RRDP.example.net", "other.example", "h:8443"]);
    let path = *rng.pick(&["/", "/n.xml", "/a/b/s.xml", "/d/1.xml", "/a&b/c'd.xml", "/x%20y/z.xml", "/~u/(1)*!$,;=.xml"]);
    format!("https://{}{}", host, path).into_bytes()
}

fn rsync(rng: &mut Rng) -> Vec<u8> {
    let path = *rng.pick(&["a.cer", "d/b.roa", "x/y/z.mft", "a&b.crl", "q'r.cer", "(1)*!$,;=.gbr", "dir/"]);
    format!("rsync://h.example/mod/{}", path).into_bytes()
}

pub fn generate(ctx: &mut Ctx) {
    let mut rng = Rng::new(ctx.seed ^ 0xC09);
    let n = if ctx.tier_thorough { 20000 } else { 2500 };
    // --- escaping: every single octet, every pair over the specials, random strings
    for c in 0u16..256 {
        ctx.case(&format!("esc attr {}", hex(&[c as u8])));
        ctx.case(&format!("esc pcdata {}", hex(&[c as u8])));
    }
    for a in b"<>&\"';#ax" { for b in b"<>&\"';#ax" {
        ctx.case(&format!("esc attr {}", hex(&[*a, *b])));
        ctx.case(&format!("esc pcdata {}", hex(&[*a, *b])));
    } }
    for _ in 0..n / 5 {
        let l = rng.range(0, 40) as usize;
        let t = rand_text(&mut rng, l);
        ctx.case(&format!("esc {} {}", if rng.bool() { "attr" } else { "pcdata" }, hex(&t)));
    }
    // --- base64
    for l in 0..40usize {
        let d = rng.bytes(l);
        ctx.case(&format!("b64 enc {}", hex(&d)));
        let e = rpki::util::base64::Xml.encode(&d).into_bytes();
        ctx.case(&format!("b64 dec {}", hex(&e)));
        // with whitespace sprinkled in
        let mut w = Vec::new();
        for ch in &e { if rng.chance(1, 4) { w.push(*rng.pick(b" \t\n\r")); } w.push(*ch); }
        ctx.case(&format!("b64 dec {}", hex(&w)));
    }
    // long objects, line-wrapped at various widths (foreign files wrap their Base64)
    for l in [765usize, 766, 767, 768, 769, 1000, 1535, 1536, 3000, 4096] {
        let d = rng.bytes(l);
        let e = rpki::util::base64::Xml.encode(&d).into_bytes();
        for width in [1usize, 3, 64, 76, 1023, 1024, 1025] {
            let mut w = Vec::new();
            for (i, ch) in e.iter().enumerate() {
                if i > 0 && i % width == 0 { w.extend_from_slice(if rng.bool() { b"\n" } else { b"\r\n    " }); }
                w.push(*ch);
            }
            ctx.case(&format!("b64 dec {}", hex(&w)));
        }
    }
    // characters outside ASCII (2-, 3- and 4-octet UTF-8) anywhere in the text, in particular where a
    // reader's buffer ends: the answer is an error, not a panic
    for at in (0..12usize).chain(1016..1032).chain(2040..2056).chain([3071, 3072, 4095, 4096, 8191, 8192]) {
        for ch in ["\u{e9}", "\u{20ac}", "\u{1f600}"] {
            let mut w: Vec<u8> = (0..at).map(|i| b"ABCDEFGHIJKLMNOPQRSTUVWXYZabcdefghijklmnopqrstuvwxyz0123456789+/"[(i * 7 + at) % 64]).collect();
            w.extend_from_slice(ch.as_bytes());
            w.extend_from_slice(b"QUJD");
            ctx.case(&format!("b64 dec {}", hex(&w)));
        }
    }
    for _ in 0..n / 5 {
        let l = rng.range(0, 20) as usize;
        let t: Vec<u8> = (0..l).map(|_| *rng.pick(b"ABCDabcd0189+/= \n-_")).collect();
        ctx.case(&format!("b64 dec {}", hex(&t)));
    }
    // --- files
    for (nd, ulen) in [(9000u64, 1usize), (700, 1500), (1, 1), (5000, 60)] { ctx.case(&format!("notifbig {} {}", nd, ulen)); }
    if ctx.tier_thorough { for (nd, ulen) in [(40000u64, 1usize), (300, 9000), (20000, 100)] { ctx.case(&format!("notifbig {} {}", nd, ulen)); } }
    for _ in 0..n / 5 {
        let session = rng.bytes(16);
        let serial = match rng.below(4) { 0 => 0, 1 => u64::MAX, 2 => rng.below(100), _ => rng.next() };
        let nd = match rng.below(5) { 0 => 0, 1 => rng.range(20, 200), _ => rng.range(1, 5) };
        let ds: Vec<String> = (0..nd).map(|i| format!("{},{},{}", serial.wrapping_sub(i), hex(&https(&mut rng)), hex(&rng.bytes(32)))).collect();
        ctx.case(&format!("notif {}:{}:{}:{}:{}", hex(&session), serial, hex(&https(&mut rng)), hex(&rng.bytes(32)),
            if ds.is_empty() { "-".into() } else { ds.join(";") }));
        let ne = match rng.below(5) { 0 => 0, 1 => rng.range(10, 50), _ => rng.range(1, 4) };
        let mut es = Vec::new();
        let snapshot = rng.bool();
        for _ in 0..ne {
            let dl = match rng.below(6) { 0 => 0, 1 => rng.range(1, 3), 2 => rng.range(1000, 4096), _ => rng.range(3, 100) } as usize;
            let data = if rng.chance(1, 8) { (0..=255u8).collect() } else { rng.bytes(dl) };
            match if snapshot { 0 } else { rng.below(3) } {
                0 => es.push(format!("P,{},{}", hex(&rsync(&mut rng)), hex(&data))),
                1 => es.push(format!("U,{},{},{}", hex(&rsync(&mut rng)), hex(&rng.bytes(32)), hex(&data))),
                _ => es.push(format!("W,{},{}", hex(&rsync(&mut rng)), hex(&rng.bytes(32)))),
            }
        }
        ctx.case(&format!("{} {}:{}:{}", if snapshot { "snap" } else { "delta" }, hex(&session), serial,
            if es.is_empty() { "-".into() } else { es.join(";") }));
    }
    // --- large objects: sizes around the powers of two, where chunked encoders and buffered readers change gear
    {
        let mut sizes: Vec<usize> = vec![8191, 8192, 8193, 65535, 65536, 65537, 131071, 131072, 131073, 262145];
        if ctx.tier_thorough { sizes.extend([196608, 196609, 524289, 1048577]); }
        for (i, sz) in sizes.into_iter().enumerate() {
            let data: Vec<u8> = (0..sz).map(|j| (j * 31 + i * 7) as u8).collect();
            let session = rng.bytes(16);
            if i % 2 == 0 {
                ctx.case(&format!("snap {}:{}:P,{},{}", hex(&session), 1 + i, hex(b"rsync://h/m/big.roa"), hex(&data)));
            } else {
                ctx.case(&format!("delta {}:{}:U,{},{},{}", hex(&session), 1 + i, hex(b"rsync://h/m/big.roa"), hex(&rng.bytes(32)), hex(&data)));
            }
        }
    }
    // --- delta chains: all multisets of size <= 4 (thorough 5) over the boundary values, limits none, 0..6
    let vals: [u64; 6] = [0, 1, 2, 3, u64::MAX - 1, u64::MAX];
    let maxlen = if ctx.tier_thorough { 5 } else { 4 };
    let mut seqs: Vec<Vec<u64>> = vec![vec![]];
    let mut frontier: Vec<Vec<u64>> = vec![vec![]];
    for _ in 0..maxlen {
        let mut nf = Vec::new();
        for f in &frontier { for v in vals { let mut g = f.clone(); g.push(v); nf.push(g); } }
        seqs.extend(nf.iter().cloned());
        frontier = nf;
    }
    for (i, s) in seqs.iter().enumerate() {
        let st = if s.is_empty() { "-".to_string() } else { s.iter().map(|v| v.to_string()).collect::<Vec<_>>().join(",") };
        let lim = match i % 8 { 0 => "-".to_string(), k => (k - 1).to_string() };
        ctx.case(&format!("chain {} {}", lim, st));
    }
    for _ in 0..n / 5 {
        let l = rng.range(0, 12) as usize;
        let base = match rng.below(3) { 0 => rng.below(5), 1 => u64::MAX - rng.below(12), _ => rng.next() >> 1 };
        let mut s: Vec<u64> = (0..l as u64).map(|i| base.wrapping_add(i)).collect();
        if rng.chance(1, 3) && !s.is_empty() { let i = rng.below(s.len() as u64) as usize; s[i] = s[i].wrapping_add(rng.range(1, 3)); }
        if rng.chance(1, 5) && !s.is_empty() { let i = rng.below(s.len() as u64) as usize; let v = s[i]; s.push(v); }
        // shuffle
        for i in (1..s.len()).rev() { let j = rng.below(i as u64 + 1) as usize; s.swap(i, j); }
        let lim = if rng.bool() { "-".to_string() } else { rng.range(0, 14).to_string() };
        let st = if s.is_empty() { "-".to_string() } else { s.iter().map(|v| v.to_string()).collect::<Vec<_>>().join(",") };
        ctx.case(&format!("chain {} {}", lim, st));
    }
    // --- origins
    for _ in 0..n / 5 {
        let base = https(&mut rng);
        let snap = https(&mut rng);
        let k = rng.range(0, 4);
        let ds: Vec<String> = (0..k).map(|_| hex(&https(&mut rng))).collect();
        ctx.case(&format!("origins {} {} {}", hex(&base), hex(&snap), if ds.is_empty() { "-".into() } else { ds.join(",") }));
    }
    // --- structurally wrong documents: written files with one or two textual mutations
    {
        let mk_notif = |rng: &mut Rng| -> Vec<u8> {
            let nd = rng.below(4);
            let top = 5 + rng.below(100);
            let u = |rng: &mut Rng| uri::Https::from_slice(&https(rng)).unwrap();
            let deltas: Vec<DeltaInfo> = (0..nd).map(|i| DeltaInfo::new(top - i, u(rng), Hash::from([i as u8; 32]))).collect();
            let n = NotificationFile::new(Uuid::from_slice(&rng.bytes(16)).unwrap(), top, UriAndHash::new(u(rng), Hash::from([9u8; 32])), deltas);
            let mut out = Vec::new(); n.write_xml(&mut out).unwrap(); out
        };
        let mk_snap = |rng: &mut Rng| -> Vec<u8> {
            let k = rng.below(3);
            let ps: Vec<PublishElement> = (0..k).map(|_| PublishElement::new(uri::Rsync::from_slice(&rsync(rng)).unwrap(), { let l = rng.below(40) as usize; rng.bytes(l) }.into())).collect();
            let s = Snapshot::new(Uuid::from_slice(&rng.bytes(16)).unwrap(), rng.below(1000), ps);
            let mut out = Vec::new(); s.write_xml(&mut out).unwrap(); out
        };
        let mk_delta = |rng: &mut Rng| -> Vec<u8> {
            let k = rng.below(4);
            let ds: Vec<DeltaElement> = (0..k).map(|_| {
                let u = uri::Rsync::from_slice(&rsync(rng)).unwrap();
                match rng.below(3) {
                    0 => DeltaElement::Publish(PublishElement::new(u, { let l = rng.below(40) as usize; rng.bytes(l) }.into())),
                    1 => DeltaElement::Update(UpdateElement::new(u, Hash::from([3u8; 32]), { let l = rng.below(40) as usize; rng.bytes(l) }.into())),
                    _ => DeltaElement::Withdraw(WithdrawElement::new(u, Hash::from([4u8; 32]))),
                }
            }).collect();
            let d = Delta::new(Uuid::from_slice(&rng.bytes(16)).unwrap(), rng.below(1000), ds);
            let mut out = Vec::new(); d.write_xml(&mut out).unwrap(); out
        };
        let replace_nth = |t: &str, from: &str, to: &str, nth: usize| -> String {
            let mut out = String::new(); let mut rest = t; let mut i = 0;
            while let Some(p) = rest.find(from) {
                out.push_str(&rest[..p]);
                out.push_str(if i == nth { to } else { from });
                rest = &rest[p + from.len()..]; i += 1;
            }
            out.push_str(rest); out
        };
        let names = ["notification", "snapshot", "delta", "publish", "withdraw"];
        let attrs = ["xmlns", "version", "session_id", "serial", "uri", "hash"];
        for _ in 0..n {
            let file = *rng.pick(&["notif", "snap", "delta"]);
            let doc = match file { "notif" => mk_notif(&mut rng), "snap" => mk_snap(&mut rng), _ => mk_delta(&mut rng) };
            let mut t = String::from_utf8(doc).unwrap();
            for _ in 0..rng.range(0, 2) {
                let nth = rng.below(3) as usize;
                t = match rng.below(16) {
                    0 => { let a = *rng.pick(&names); let b = *rng.pick(&["notification", "snapshot", "delta", "publish", "withdraw", "publis", "Snapshot", "x"]); replace_nth(&t, a, b, nth) }
                    1 => replace_nth(&t, "version=\"1\"", *rng.pick(&["version=\"2\"", "version=\"\"", "version=\"01\"", "version=\"1 \"", ""]), 0),
                    2 => { // drop an attribute (with its value)
                        let a = *rng.pick(&attrs);
                        match t.match_indices(&format!(" {}=\"", a)).nth(nth).map(|(i, _)| i) {
                            Some(i) => { let j = t[i + a.len() + 3..].find('"').map(|k| i + a.len() + 3 + k + 1).unwrap_or(t.len()); format!("{}{}", &t[..i], &t[j..]) }
                            None => t }
                    }
                    3 => { // duplicate an attribute
                        let a = *rng.pick(&attrs);
                        match t.match_indices(&format!(" {}=\"", a)).nth(nth).map(|(i, _)| i) {
                            Some(i) => { let j = t[i + a.len() + 3..].find('"').map(|k| i + a.len() + 3 + k + 1).unwrap_or(t.len()); let dup = t[i..j].to_string(); format!("{}{}{}", &t[..j], dup, &t[j..]) }
                            None => t }
                    }
                    4 => replace_nth(&t, " uri=", " foo=\"bar\" uri=", nth),
                    5 => replace_nth(&t, " serial=\"", *rng.pick(&[" serial=\"+", " serial=\"-", " serial=\" ", " serial=\"18446744073709551616", " serial=\"0x", " serial=\"1e"]), nth),
                    6 => replace_nth(&t, " hash=\"", *rng.pick(&[" hash=\"0", " hash=\"zz", " hash=\"", " hash=\" "]), nth),
                    7 => replace_nth(&t, "rsync://", *rng.pick(&["https://", "rsync:/", "RSYNC://", "rsync://h/"]), nth),
                    8 => replace_nth(&t, "https://", *rng.pick(&["http://", "rsync://", "HTTPS://", "https:/"]), nth),
                    9 => { let i = rng.below(t.len() as u64 + 1) as usize; let mut i = i; while !t.is_char_boundary(i) { i -= 1; } t[..i].to_string() }
                    10 => format!("{}{}", t, *rng.pick(&["<x/>", "text", "<!-- c -->", "<snapshot/>", " \n", "\0"])),
                    11 => replace_nth(&t, "><", *rng.pick(&[">text<", "><!-- c --><", "><?pi x?><", "><![CDATA[x]]><", ">\n\n<", "> <publish/><"]), nth),
                    12 => replace_nth(&t, "http://www.ripe.net/rpki/rrdp", *rng.pick(&["http://www.ripe.net/rpki/rrdp/", "", "urn:x", "HTTP://www.ripe.net/rpki/rrdp"]), 0),
                    13 => replace_nth(&t, "</publish>", *rng.pick(&["<publish/></publish>", "</publish></publish>", "", "</withdraw>"]), nth),
                    14 => replace_nth(&t, " session_id=\"", *rng.pick(&[" session_id=\"0", " session_id=\"g", " session_id=\"{", " session_id=\" "]), 0),
                    _ => replace_nth(&t, "<", *rng.pick(&["< ", "<ns:", "<<", "&lt;"]), nth + 1),
                };
            }
            let lim = if file == "notif" && rng.bool() { rng.below(4).to_string() } else { "-".into() };
            ctx.case(&format!("rmut {} {} {}", file, lim, hex(t.as_bytes())));
        }
    }
    // --- endless streams (the file-limit ones pull 100 MB each: only in the first shard's share)
    for file in ["notif", "snap", "delta"] {
        for kind in ["root-attr-value", "root-attr-name", "root-name", "root-ws-in-tag", "leading-ws", "leading-comment",
                     "leading-doctype", "ws-after-root", "comment-after-root", "text-after-root", "entity-after-root",
                     "inner-attr-value", "inner-name", "nested", "trailing-ws", "trailing-comment",
                     "comments-after-root", "pis-after-root", "cdata-after-root", "leading-comments", "comments-between", "comments-ws-between"] {
            if bomb(file, kind).is_some() && (file == "notif" || bomb(file, kind).unwrap().2 == 'h' || ctx.tier_thorough || kind == "ws-after-root" || (kind == "comments-between" && file == "snap")) {
                ctx.case(&format!("bomb {} {}", file, kind));
            }
        }
    }
    ctx.case("bomb snap publish-text");
    if ctx.tier_thorough {
        ctx.case("bomb delta publish-text");
        ctx.case("bomb snap publish-ws");
        ctx.case("bomb delta publish-entity");
    }
}
