//! C03 — resource sets as exact canonical sets (src/repository/resources/*).
use crate::rng::{hex, unhex, Rng};
use crate::Ctx;
use rpki::repository::cert::Overclaim;
use rpki::repository::resources::{
    Addr, AddressRange, AsBlock, AsBlocks, AsResources, IpBlock, IpBlocks, IpResources, Ipv4Blocks, Ipv6Blocks,
};
use rpki::resources::asn::Asn;
use std::str::FromStr;

fn parse_blocks(s: &str) -> Option<Vec<(u128, u128)>> {
    if s == "-" { return Some(vec![]); }
    s.split(',').map(|b| { let mut it = b.split('-'); Some((it.next()?.parse().ok()?, it.next()?.parse().ok()?)) }).collect()
}

fn as_chain(s: &str) -> Option<AsBlocks> {
    Some(parse_blocks(s)?.into_iter().map(|(a, b)| AsBlock::from((Asn::from_u32(a as u32), Asn::from_u32(b as u32)))).collect())
}

fn show_as(c: &AsBlocks) -> String {
    let v: Vec<String> = c.iter().map(|b| {
        // representation: a single ASN must be stored as Id, a real range as Range
        let tag = match b { AsBlock::Id(_) => "i", AsBlock::Range(_) => "r" };
        format!("{}-{}{}", b.min().into_u32(), b.max().into_u32(), tag)
    }).collect();
    if v.is_empty() { "-".into() } else { v.join(",") }
}

fn ip_chain(s: &str) -> Option<IpBlocks> {
    Some(parse_blocks(s)?.into_iter().map(|(a, b)| IpBlock::from((Addr::from_bits(a), Addr::from_bits(b)))).collect())
}

fn show_ip(c: &IpBlocks) -> String {
    let v: Vec<String> = c.iter().map(|b| {
        let tag = match b { IpBlock::Prefix(p) => format!("p{}", p.addr_len()), IpBlock::Range(_) => "r".to_string() };
        format!("{}-{}{}", b.min().to_bits(), b.max().to_bits(), tag)
    }).collect();
    if v.is_empty() { "-".into() } else { v.join(",") }
}

pub fn exec(toks: &[&str]) -> String {
    match toks {
        ["as-from", bs] => match as_chain(bs) { Some(c) => show_as(&c), None => "bad-op".into() },
        ["ip-from", bs] => match ip_chain(bs) { Some(c) => show_ip(&c), None => "bad-op".into() },
        ["as-op", op, a, b] => match (as_chain(a), as_chain(b)) {
            (Some(a), Some(b)) => match *op {
                "union" => show_as(&a.union(&b)),
                "inter" => { let mut c = a.clone(); c.intersection_assign(&b); let r = a.intersection(&b); if r != c { "intersection-variants-disagree".into() } else { show_as(&r) } }
                "diff" => show_as(&a.difference(&b)),
                "contains" => a.contains(&b).to_string(),
                "eq" => (a == b).to_string(),
                "issued-refuse" => match a.verify_issued(&AsResources::blocks(b.clone()), Overclaim::Refuse) { Ok(r) => format!("ok {}", show_as(&r)), Err(_) => "err".into() },
                "issued-trim" => match a.verify_issued(&AsResources::blocks(b.clone()), Overclaim::Trim) { Ok(r) => format!("ok {}", show_as(&r)), Err(_) => "err".into() },
                "issued-inherit" => match a.verify_issued(&AsResources::inherit(), Overclaim::Refuse) { Ok(r) => format!("ok {}", show_as(&r)), Err(_) => "err".into() },
                "issued-missing" => match a.verify_issued(&AsResources::missing(), Overclaim::Trim) { Ok(r) => format!("ok {}", show_as(&r)), Err(_) => "err".into() },
                "covered" => b.verify_covered(&AsResources::blocks(a.clone())).is_ok().to_string(),
                _ => "bad-op".into(),
            },
            _ => "bad-op".into(),
        },
        ["ip-op", op, a, b] => match (ip_chain(a), ip_chain(b)) {
            (Some(a), Some(b)) => match *op {
                "union" => show_ip(&a.union(&b)),
                "inter" => { let mut c = a.clone(); c.intersection_assign(&b); let r = a.intersection(&b); if r != c { "intersection-variants-disagree".into() } else { show_ip(&r) } }
                "diff" => show_ip(&a.difference(&b)),
                "contains" => a.contains(&b).to_string(),
                "eq" => (a == b).to_string(),
                "issued-refuse" => match a.verify_issued(&IpResources::blocks(b.clone()), Overclaim::Refuse) { Ok(r) => format!("ok {}", show_ip(&r)), Err(_) => "err".into() },
                "issued-trim" => match a.verify_issued(&IpResources::blocks(b.clone()), Overclaim::Trim) { Ok(r) => format!("ok {}", show_ip(&r)), Err(_) => "err".into() },
                _ => "bad-op".into(),
            },
            _ => "bad-op".into(),
        },
        ["as-has", a, x] => match as_chain(a) { Some(a) => a.contains_asn(Asn::from_u32(x.parse().unwrap())).to_string(), None => "bad-op".into() },
        ["as-count", a] => match as_chain(a) { Some(a) => format!("ok {}", a.asn_count()), None => "bad-op".into() },
        ["ip-block", a, what, blk] => match (ip_chain(a), parse_blocks(blk)) {
            (Some(a), Some(b)) if b.len() == 1 => {
                let blk = IpBlock::from((Addr::from_bits(b[0].0), Addr::from_bits(b[0].1)));
                match *what { "contains" => a.contains_block(blk).to_string(), "intersects" => a.intersects_block(blk).to_string(), _ => "bad-op".into() }
            }
            _ => "bad-op".into(),
        },
        ["as-text", a] => match as_chain(a) {
            Some(a) => {
                let t = a.to_string();
                match AsBlocks::from_str(&t) { Ok(b) if b == a && show_as(&b) == show_as(&a) => {}, _ => return format!("text-roundtrip {}", t) }
                let j = match serde_json::to_string(&a) { Ok(j) => j, Err(_) => return "serde-ser".into() };
                match serde_json::from_str::<AsBlocks>(&j) { Ok(b) if b == a => "ok".into(), _ => format!("serde-roundtrip {}", j) }
            }
            None => "bad-op".into(),
        },
        ["ip-text", fam, a] => match ip_chain(a) {
            Some(a) => {
                if *fam == "4" {
                    let v = Ipv4Blocks::from(a.clone());
                    let t = v.to_string();
                    match Ipv4Blocks::from_str(&t) { Ok(b) if *b == *v && show_ip(&b) == show_ip(&v) => {}, _ => return format!("text-roundtrip {}", t) }
                    let j = serde_json::to_string(&v).unwrap();
                    match serde_json::from_str::<Ipv4Blocks>(&j) { Ok(b) if *b == *v => "ok".into(), _ => format!("serde-roundtrip {}", j) }
                } else {
                    let v = Ipv6Blocks::from(a.clone());
                    let t = v.to_string();
                    match Ipv6Blocks::from_str(&t) { Ok(b) if *b == *v && show_ip(&b) == show_ip(&v) => {}, _ => return format!("text-roundtrip {}", t) }
                    let j = serde_json::to_string(&v).unwrap();
                    match serde_json::from_str::<Ipv6Blocks>(&j) { Ok(b) if *b == *v => "ok".into(), _ => format!("serde-roundtrip {}", j) }
                }
            }
            None => "bad-op".into(),
        },
        ["rset", op, aa, a4, a6, ba, b4, b6] => {
            // ResourceSet: the three chains together (blocks are 128-bit; IPv4 in the upper 32 bits)
            use rpki::repository::resources::ResourceSet;
            let mk = |a: &str, v4: &str, v6: &str| -> Option<ResourceSet> {
                Some(ResourceSet::new(as_chain(a)?, Ipv4Blocks::from(ip_chain(v4)?), Ipv6Blocks::from(ip_chain(v6)?)))
            };
            let (Some(a), Some(b)) = (mk(aa, a4, a6), mk(ba, b4, b6)) else { return "bad-op".into() };
            let show = |r: &ResourceSet| format!("{};{};{}", show_as(r.asn()), show_ip(r.ipv4()), show_ip(r.ipv6()));
            match *op {
                "union" => show(&a.union(&b)),
                "inter" => show(&a.intersection(&b)),
                "contains" => a.contains(&b).to_string(),
                "eq" => (a == b).to_string(),
                "diff" => {
                    // the two halves of a ResourceDiff are private: read them through its serde form
                    let d = a.difference(&b);
                    let v = match serde_json::to_value(&d) { Ok(v) => v, Err(_) => return "serde-ser".into() };
                    let half = |k: &str| serde_json::from_value::<ResourceSet>(v[k].clone()).ok();
                    let (Some(added), Some(removed)) = (half("added"), half("removed")) else { return "serde-de".into() };
                    format!("{}|{}|{}|{}", show(&added), show(&removed), d.is_empty(), hex(d.to_string().as_bytes()))
                }
                "text" => {
                    let t = a.to_string();
                    let rt = match ResourceSet::from_strs(&a.asn().to_string(), &a.ipv4().to_string(), &a.ipv6().to_string()) {
                        Ok(x) if x == a && show(&x) == show(&a) => "rt-same", Ok(_) => "rt-differs", Err(_) => "rt-err" };
                    let sj = match serde_json::to_string(&a) { Ok(j) => match serde_json::from_str::<ResourceSet>(&j) {
                        Ok(x) if x == a && show(&x) == show(&a) => "serde-same", Ok(_) => "serde-differs", Err(_) => "serde-err" }, Err(_) => "serde-ser" };
                    format!("{} {} {} {} {}{}{}", hex(t.as_bytes()), rt, sj, a.is_empty(), a.asn_opt().is_some(), a.ipv4_opt().is_some(), a.ipv6_opt().is_some())
                }
                _ => "bad-op".into(),
            }
        }
        ["rset-has", aa, a4, a6, what, x, y] => {
            use rpki::repository::resources::ResourceSet;
            let (Some(a), Some(v4), Some(v6)) = (as_chain(aa), ip_chain(a4), ip_chain(a6)) else { return "bad-op".into() };
            let set = ResourceSet::new(a, Ipv4Blocks::from(v4), Ipv6Blocks::from(v6));
            match *what {
                "asn" => set.contains_asn(Asn::from_u32(x.parse().unwrap())).to_string(),
                "roa" => {
                    // x = first address in the 128-bit space, y = prefix length there; an IPv4 address when the low 96 bits
                    // are zero and the length is at most 32 (that is how the library keeps IPv4 prefixes)
                    let (lo, len): (u128, u8) = (x.parse().unwrap(), y.parse().unwrap());
                    let p = rpki::repository::resources::Prefix::new(Addr::from_bits(lo), len);
                    set.contains_roa_address(&rpki::repository::roa::RoaIpAddress::new(p, None)).to_string()
                }
                _ => "bad-op".into(),
            }
        }
        ["limit", la, l4, l6, a, v4, v6] => {
            // RequestResourceLimit::apply_to: `*` = this resource type is not limited; blocks are 128-bit (IPv4 in the upper 32 bits)
            use rpki::ca::provisioning::RequestResourceLimit;
            use rpki::repository::resources::ResourceSet;
            let v4_of = |s: &str| ip_chain(s).map(Ipv4Blocks::from);
            let v6_of = |s: &str| ip_chain(s).map(Ipv6Blocks::from);
            let (Some(a), Some(v4), Some(v6)) = (as_chain(a), v4_of(v4), v6_of(v6)) else { return "bad-op".into() };
            let mut l = RequestResourceLimit::new();
            if *la != "*" { let Some(x) = as_chain(la) else { return "bad-op".into() }; l.with_asn(x); }
            if *l4 != "*" { let Some(x) = v4_of(l4) else { return "bad-op".into() }; l.with_ipv4(x); }
            if *l6 != "*" { let Some(x) = v6_of(l6) else { return "bad-op".into() }; l.with_ipv6(x); }
            match l.apply_to(&ResourceSet::new(a, v4, v6)) {
                Ok(r) => format!("ok {};{};{}", show_as(r.asn()), show_ip(r.ipv4()), show_ip(r.ipv6())),
                Err(_) => "err".into(),
            }
        }
        ["ip-fmt", fam, a] => match ip_chain(a) {
            // the text form (`Display`) of the canonical set
            Some(c) => format!("{} {}", show_ip(&c), hex(if *fam == "4" { c.as_v4().to_string() } else { c.as_v6().to_string() }.as_bytes())),
            None => "bad-op".into(),
        },
        ["as-fmt", a] => match as_chain(a) {
            Some(c) => format!("{} {}", show_as(&c), hex(c.to_string().as_bytes())),
            None => "bad-op".into(),
        },
        ["ip-der", fam, hx] => {
            // IpBlocks::take_from_with_family on a SEQUENCE OF IPAddressOrRange
            let Some(b) = unhex(hx) else { return "bad-op".into() };
            let family = if *fam == "4" { rpki::repository::resources::AddressFamily::Ipv4 } else { rpki::repository::resources::AddressFamily::Ipv6 };
            match bcder::Mode::Der.decode(bytes::Bytes::from(b), |cons| IpBlocks::take_from_with_family(cons, family)) {
                Err(_) => "err".into(),
                Ok(c) => format!("blocks {}", show_ip(&c)),
            }
        }
        ["ip-enc", a] => {
            use bcder::encode::Values;
            match ip_chain(a) {
                Some(c) => {
                    let enc = c.encode_ref().to_captured(bcder::Mode::Der);
                    let back = match bcder::Mode::Der.decode(enc.as_slice(), |cons| IpBlocks::take_from_with_family(cons, rpki::repository::resources::AddressFamily::Ipv6)) {
                        Err(_) => "rt-err",
                        Ok(d) => if d == c { "rt-same" } else { "rt-differs" },
                    };
                    format!("{} {}", hex(enc.as_slice()), back)
                }
                None => "bad-op".into(),
            }
        }
        ["as-der", hx] => {
            // AsResources::take_from on the extension value
            let Some(b) = unhex(hx) else { return "bad-op".into() };
            match bcder::Mode::Der.decode(bytes::Bytes::from(b), AsResources::take_from) {
                Err(_) => "err".into(),
                Ok(r) => if r.is_inherited() { "inherit".into() } else {
                    match r.to_blocks() { Ok(c) => format!("blocks {}", show_as(&c)), Err(_) => "odd".into() } },
            }
        }
        ["as-enc", what] => {
            // AsResources::encode
            use bcder::encode::Values;
            let r = if *what == "I" { AsResources::inherit() } else {
                match as_chain(what) { Some(c) => AsResources::blocks(c), None => return "bad-op".into() } };
            let enc = r.clone().encode().to_captured(bcder::Mode::Der);
            // … and back through the library's own reader
            let back = match bcder::Mode::Der.decode(enc.as_slice(), AsResources::take_from) {
                Err(_) => "rt-err",
                Ok(d) => if d == r { "rt-same" } else { "rt-differs" },
            };
            format!("{} {}", hex(enc.as_slice()), back)
        }
        ["as-parse", hx] => {
            let t = String::from_utf8(unhex(hx).unwrap()).unwrap();
            match AsBlocks::from_str(&t) {
                Ok(c) => format!("{} {}", if c.iter().any(|b| b.min() > b.max()) { "ok-inverted" } else { "ok" }, show_as(&c)),
                Err(_) => "err".into() }
        }
        ["ip-parse", fam, hx] => {
            let t = String::from_utf8(unhex(hx).unwrap()).unwrap();
            let r = if *fam == "4" { Ipv4Blocks::from_str(&t).map(|b| (b.iter().any(|x| x.min() > x.max()), show_ip(&b))) }
                    else { Ipv6Blocks::from_str(&t).map(|b| (b.iter().any(|x| x.min() > x.max()), show_ip(&b))) };
            match r { Ok((inv, c)) => format!("{} {}", if inv { "ok-inverted" } else { "ok" }, c), Err(_) => "err".into() }
        }
        ["to-prefixes", fam, lo, hi] => {
            let (lo, hi): (u128, u128) = (lo.parse().unwrap(), hi.parse().unwrap());
            let r = AddressRange::new(Addr::from_bits(lo), Addr::from_bits(hi));
            let v: Vec<String> = if *fam == "4" {
                r.to_v4_prefixes().map(|p| format!("{}/{}", p.addr().to_bits() >> 96, p.addr_len())).collect()
            } else {
                r.to_v6_prefixes().map(|p| format!("{}/{}", p.addr().to_bits(), p.addr_len())).collect()
            };
            if v.is_empty() { "-".into() } else { v.join(",") }
        }
        ["into-prefix", lo, hi] => {
            let (lo, hi): (u128, u128) = (lo.parse().unwrap(), hi.parse().unwrap());
            match AddressRange::new(Addr::from_bits(lo), Addr::from_bits(hi)).into_prefix() { Ok(p) => format!("+{}", p.addr_len()), Err(_) => "-".into() }
        }
        _ => "bad-op".into(),
    }
}

fn show_blocks(v: &[(u128, u128)]) -> String {
    if v.is_empty() { "-".into() } else { v.iter().map(|(a, b)| format!("{}-{}", a, b)).collect::<Vec<_>>().join(",") }
}

pub fn all_blocks(dom: &[u128]) -> Vec<(u128, u128)> {
    let mut v = Vec::new();
    for (i, &a) in dom.iter().enumerate() { for &b in &dom[i..] { v.push((a, b)); } }
    v
}

/// all canonical chains (ascending, disjoint, non-adjacent) over `dom` with at most `k` blocks
pub fn canon_sets(dom: &[u128], k: usize) -> Vec<Vec<(u128, u128)>> {
    fn rec(dom: &[u128], start: usize, k: usize, cur: &mut Vec<(u128, u128)>, out: &mut Vec<Vec<(u128, u128)>>) {
        out.push(cur.clone());
        if k == 0 { return; }
        for i in start..dom.len() { for j in i..dom.len() {
            if let Some(&(_, ph)) = cur.last() { if dom[i] <= ph.saturating_add(1) { continue; } }
            cur.push((dom[i], dom[j]));
            rec(dom, j + 1, k - 1, cur, out);
            cur.pop();
        }}
    }
    let mut out = Vec::new();
    rec(dom, 0, k, &mut Vec::new(), &mut out);
    out
}

pub fn generate(ctx: &mut Ctx) {
    let mut rng = Rng::new(ctx.seed ^ 0xC03);
    let thorough = ctx.tier_thorough;
    let mx32: u128 = u32::MAX as u128;
    let as_dom: Vec<u128> = vec![0, 1, 2, 3, 4, 5, 6, mx32 - 3, mx32 - 2, mx32 - 1, mx32];
    let mx: u128 = u128::MAX;
    let ip_dom: Vec<u128> = vec![0, 1, 2, 3, 4, 5, 6, 7, 8, mx - 3, mx - 2, mx - 1, mx];
    let as_blocks = all_blocks(&as_dom);
    let ip_blocks = all_blocks(&ip_dom);
    // all sequences of <= 2 (thorough 3) blocks, any order
    for (op, blocks) in [("as-from", &as_blocks), ("ip-from", &ip_blocks)] {
        ctx.case(&format!("{} -", op));
        for a in blocks.iter() {
            ctx.case(&format!("{} {}", op, show_blocks(&[*a])));
            for b in blocks.iter() {
                ctx.case(&format!("{} {}", op, show_blocks(&[*a, *b])));
                if thorough { for c in blocks.iter() { ctx.case(&format!("{} {}", op, show_blocks(&[*a, *b, *c]))); } }
            }
        }
    }
    // random longer sequences with sorted-prefix-then-unsorted, bridging, duplicate and adjacent patterns
    for _ in 0..(if thorough { 400_000 } else { 40_000 }) {
        let ip = rng.bool();
        let (blocks, dom) = if ip { (&ip_blocks, &ip_dom) } else { (&as_blocks, &as_dom) };
        let n = rng.range(3, if thorough { 14 } else { 8 }) as usize;
        let mut v: Vec<(u128, u128)> = (0..n).map(|_| if rng.chance(1, 4) {
            let a = *rng.pick(dom); (a, a)
        } else { *rng.pick(blocks) }).collect();
        if rng.chance(1, 2) { let k = rng.below(n as u64) as usize; v[..k].sort(); }
        ctx.case(&format!("{} {}", if ip { "ip-from" } else { "as-from" }, show_blocks(&v)));
    }
    // larger-scale blocks (not from the tiny domain)
    for _ in 0..(if thorough { 100_000 } else { 10_000 }) {
        let n = rng.range(2, 10) as usize;
        let v: Vec<(u128, u128)> = (0..n).map(|_| { let a = rng.below(200) as u128 * 10; (a, a + rng.below(60) as u128) }).collect();
        ctx.case(&format!("as-from {}", show_blocks(&v)));
        let w: Vec<(u128, u128)> = v.iter().map(|(a, b)| (a << 96, (b << 96) | ((1u128 << 96) - 1))).collect();
        ctx.case(&format!("ip-from {}", show_blocks(&w)));
    }
    // all pairs of canonical sets with <= 2 blocks for every binary operation
    let small_as: Vec<u128> = vec![0, 1, 2, 3, 4, mx32 - 1, mx32];
    let small_ip: Vec<u128> = vec![0, 1, 2, 3, 4, mx - 1, mx];
    let sets_as = canon_sets(&small_as, if thorough { 3 } else { 2 });
    let sets_ip = canon_sets(&small_ip, 2);
    let ops = ["union", "inter", "diff", "contains", "eq", "issued-refuse", "issued-trim", "covered"];
    for a in &sets_as { for b in &sets_as {
        for op in ops { ctx.case(&format!("as-op {} {} {}", op, show_blocks(a), show_blocks(b))); }
    }}
    for a in &sets_as {
        ctx.case(&format!("as-op issued-inherit {} -", show_blocks(a)));
        ctx.case(&format!("as-op issued-missing {} -", show_blocks(a)));
        ctx.case(&format!("as-count {}", show_blocks(a)));
        ctx.case(&format!("as-text {}", show_blocks(a)));
        for x in &small_as { ctx.case(&format!("as-has {} {}", show_blocks(a), x)); }
    }
    let ip_ops = ["union", "inter", "diff", "contains", "eq", "issued-refuse", "issued-trim"];
    for (i, a) in sets_ip.iter().enumerate() { for (j, b) in sets_ip.iter().enumerate() {
        if thorough || (i * 7 + j) % 3 == 0 {
            for op in ip_ops { ctx.case(&format!("ip-op {} {} {}", op, show_blocks(a), show_blocks(b))); }
        }
    }}
    for a in &sets_ip {
        ctx.case(&format!("ip-text 6 {}", show_blocks(a)));
        for b in all_blocks(&small_ip) {
            ctx.case(&format!("ip-block {} contains {}", show_blocks(a), show_blocks(&[b])));
            ctx.case(&format!("ip-block {} intersects {}", show_blocks(a), show_blocks(&[b])));
        }
    }
    // random pairs of larger canonical sets
    for _ in 0..(if thorough { 200_000 } else { 20_000 }) {
        let mk = |rng: &mut Rng| -> Vec<(u128, u128)> {
            let mut v = Vec::new(); let mut cur: u128 = rng.below(4) as u128;
            for _ in 0..rng.below(7) { let len = rng.below(4) as u128; v.push((cur, cur + len)); cur += len + 2 + rng.below(4) as u128; }
            v
        };
        let (a, b) = (mk(&mut rng), mk(&mut rng));
        let op = *rng.pick(&ops);
        ctx.case(&format!("as-op {} {} {}", op, show_blocks(&a), show_blocks(&b)));
        let f = |v: &Vec<(u128, u128)>| -> Vec<(u128, u128)> { v.iter().map(|(x, y)| (x << 96, (y << 96) | ((1u128 << 96) - 1))).collect() };
        let op = *rng.pick(&ip_ops);
        ctx.case(&format!("ip-op {} {} {}", op, show_blocks(&f(&a)), show_blocks(&f(&b))));
        ctx.case(&format!("ip-text 4 {}", show_blocks(&f(&a))));
    }
    // RFC 3779 AS extension in DER: the library's encoder on canonical sets, its decoder on what an
    // independent encoder writes (any block order, overlaps, boundary integers) and on damaged encodings
    for a in &sets_as {
        ctx.case(&format!("as-enc {}", show_blocks(a)));
    }
    ctx.case("as-enc I");
    for _ in 0..(if thorough { 20_000 } else { 2_000 }) {
        let k = rng.below(6) as usize;
        let pick = |rng: &mut Rng| -> u128 { match rng.below(6) {
            0 => rng.below(4) as u128, 1 => 127 + rng.below(3) as u128, 2 => 255 + rng.below(3) as u128,
            3 => 65535 + rng.below(3) as u128, 4 => 4294967295 - rng.below(3) as u128, _ => (rng.next() as u32) as u128 } };
        let blocks: Vec<(u128, u128)> = (0..k).map(|_| { let a = pick(&mut rng); let b = pick(&mut rng); if rng.chance(1, 10) { (a, b) } else { (a.min(b), a.max(b)) } }).collect();
        let res = if rng.chance(1, 12) { crate::pki::Res::Inherit } else { crate::pki::Res::Blocks(blocks) };
        let mut d = crate::pki::as_ext(&res).unwrap();
        match rng.below(10) {
            0 => { let i = rng.below(d.len() as u64) as usize; d[i] ^= 1 << rng.below(8); }
            1 => { let i = rng.below(d.len() as u64) as usize; d.truncate(i); }
            2 => { d.push(0); }
            3 => { // non-minimal / oversized integers
                   d = crate::der::seq(&[crate::der::ctx(0, true, &crate::der::seq(&[crate::der::tlv(2, &[0, 0, 5]), crate::der::tlv(2, &[0, 0xff, 0xff, 0xff, 0xff]), crate::der::tlv(2, &[1, 0, 0, 0, 0])]))]); }
            _ => {}
        }
        ctx.case(&format!("as-der {}", hex(&d)));
    }
    // resource-limit application: every combination of given / not given limits over small sets, then random ones
    {
        let some_as: Vec<&Vec<(u128, u128)>> = sets_as.iter().take(if thorough { 12 } else { 6 }).collect();
        for la in some_as.iter().map(|x| show_blocks(x)).chain(["*".to_string()]) {
            for a in &some_as {
                for (l4, v4, l6, v6) in [("*", "-", "*", "-"), ("-", "-", "*", "-"), ("*", "-", "-", "-"),
                    ("13292279957849158729038070602803445760-13292280036077321243302408196347396095", "13292279957849158729038070602803445760-14621507953634074601941877663083790335", "*", "0-5"),
                    ("*", "13292279957849158729038070602803445760-14621507953634074601941877663083790335", "3-9", "0-5")] {
                    ctx.case(&format!("limit {} {} {} {} {} {}", la, l4, l6, show_blocks(a), v4, v6));
                }
            }
        }
        for _ in 0..(if thorough { 20_000 } else { 2_000 }) {
            let pick_set = |rng: &mut Rng, v: &Vec<Vec<(u128, u128)>>| show_blocks(&v[rng.below(v.len() as u64) as usize]);
            let v4set = |rng: &mut Rng| { let k = rng.below(3); let v: Vec<(u128, u128)> = (0..k).map(|_| { let a = (rng.below(64) as u128) << 122; let b = a | ((1u128 << (96 + rng.below(26))) - 1); (a, b) }).collect(); show_blocks(&v) };
            let lim = |rng: &mut Rng, s: String| if rng.chance(2, 5) { "*".to_string() } else { s };
            let (a, v4, v6) = (pick_set(&mut rng, &sets_as), v4set(&mut rng), pick_set(&mut rng, &sets_ip));
            // limits: often a subset of what the set holds (the set itself, or another small set)
            let ca = if rng.bool() { a.clone() } else { pick_set(&mut rng, &sets_as) };
            let c4 = if rng.bool() { v4.clone() } else { v4set(&mut rng) };
            let c6 = if rng.bool() { v6.clone() } else { pick_set(&mut rng, &sets_ip) };
            let la = lim(&mut rng, ca);
            let l4 = lim(&mut rng, c4);
            let l6 = lim(&mut rng, c6);
            ctx.case(&format!("limit {} {} {} {} {} {}", la, l4, l6, a, v4, v6));
        }
    }
    // ResourceSet: the three chains together, every operation over pairs of small sets, then random larger ones
    {
        let tri: Vec<(String, String, String)> = {
            let v4s = ["-", "13292279957849158729038070602803445760-14621507953634074601941877663083790335",
                       "0-79228162514264337593543950335", "13292279957849158729038070602803445760-13292280037077321243302408196347396095,340282366841710300949110269838224261120-340282366920938463463374607431768211455"];
            let mut t = Vec::new();
            for (i, a) in sets_as.iter().enumerate().take(if thorough { 40 } else { 14 }) {
                for (j, v6) in sets_ip.iter().enumerate().take(if thorough { 24 } else { 9 }) {
                    if (i + j) % 2 == 0 { t.push((show_blocks(a), v4s[(i + 2 * j) % v4s.len()].to_string(), show_blocks(v6))); }
                }
            }
            t
        };
        for (i, a) in tri.iter().enumerate() { for (j, b) in tri.iter().enumerate() {
            if thorough || (i * 5 + j) % 4 == 0 {
                for op in ["union", "inter", "diff", "contains", "eq"] {
                    ctx.case(&format!("rset {} {} {} {} {} {} {}", op, a.0, a.1, a.2, b.0, b.1, b.2));
                }
            }
        }}
        for a in &tri {
            ctx.case(&format!("rset text {} {} {} - - -", a.0, a.1, a.2));
            ctx.case(&format!("rset diff {} {} {} {} {} {}", a.0, a.1, a.2, a.0, a.1, a.2));
            for x in &small_as { ctx.case(&format!("rset-has {} {} {} asn {} 0", a.0, a.1, a.2, x)); }
            for (lo, len) in [(0u128, 0u8), (0, 1), (0, 126), (0, 128), (4, 126), (4, 127), (13292279957849158729038070602803445760u128, 8),
                              (13292279957849158729038070602803445760u128, 16), (13292279957849158729038070602803445760u128, 32),
                              (u128::MAX - 3, 126), (u128::MAX, 128), (1u128 << 127, 1)] {
                ctx.case(&format!("rset-has {} {} {} roa {} {}", a.0, a.1, a.2, lo, len));
            }
        }
        for _ in 0..(if thorough { 40_000 } else { 4_000 }) {
            let mk = |rng: &mut Rng, shift: u32| -> String {
                let mut v = Vec::new(); let mut cur: u128 = rng.below(4) as u128;
                for _ in 0..rng.below(5) { let len = rng.below(4) as u128; v.push((cur, cur + len)); cur += len + 2 + rng.below(4) as u128; }
                let w: Vec<(u128, u128)> = if shift == 0 { v } else { v.iter().map(|(x, y)| (x << shift, (y << shift) | ((1u128 << shift) - 1))).collect() };
                show_blocks(&w)
            };
            let a = (mk(&mut rng, 0), mk(&mut rng, 96), mk(&mut rng, 0));
            // the second set: often shares families with the first
            let b = (if rng.bool() { a.0.clone() } else { mk(&mut rng, 0) }, if rng.bool() { a.1.clone() } else { mk(&mut rng, 96) },
                     if rng.bool() { a.2.clone() } else { mk(&mut rng, 0) });
            let op = *rng.pick(&["union", "inter", "diff", "contains", "eq", "diff"]);
            ctx.case(&format!("rset {} {} {} {} {} {} {}", op, a.0, a.1, a.2, b.0, b.1, b.2));
            if rng.chance(1, 4) { ctx.case(&format!("rset text {} {} {} - - -", a.0, a.1, a.2)); }
            if rng.chance(1, 4) { ctx.case(&format!("rset-has {} {} {} asn {} 0", a.0, a.1, a.2, rng.below(24))); }
            if rng.chance(1, 4) {
                // an aligned prefix: IPv4 (upper 32 bits, length <= 32) or in the low end of the IPv6 space
                let (lo, len) = if rng.bool() { ((rng.below(24) as u128) << 96, rng.below(33) as u32) } else { (rng.below(24) as u128, 96 + rng.below(33) as u32) };
                let mask = if len == 0 { 0 } else { !((1u128 << (128 - len)).wrapping_sub(1)) };
                let mask = if len == 128 { u128::MAX } else { mask };
                ctx.case(&format!("rset-has {} {} {} roa {} {}", a.0, a.1, a.2, lo & mask, len));
            }
        }
    }
    // text forms
    for a in &sets_ip { ctx.case(&format!("ip-fmt 6 {}", show_blocks(a))); }
    for a in &sets_as { ctx.case(&format!("as-fmt {}", show_blocks(a))); }
    for _ in 0..(if thorough { 20_000 } else { 2_000 }) {
        // IPv4 sets live in the upper 32 bits; IPv6 addresses with zero runs of every shape, mapped and compatible forms
        let v4 = rng.bool();
        let k = rng.range(1, 4);
        let mut blocks: Vec<(u128, u128)> = Vec::new();
        for _ in 0..k {
            if v4 {
                let a = (rng.next() as u32) & !((1u32 << rng.below(32)) - 1);
                let b = match rng.below(3) { 0 => a, 1 => a | ((1u32 << rng.below(32)) - 1), _ => a.saturating_add(rng.below(70000) as u32) };
                blocks.push(((a as u128) << 96, ((b.max(a) as u128) << 96) | ((1u128 << 96) - 1)));
            } else {
                let mut g = [0u16; 8];
                for x in g.iter_mut() { *x = match rng.below(4) { 0 | 1 => 0, 2 => rng.below(16) as u16, _ => rng.next() as u16 }; }
                if rng.chance(1, 12) { g = [0, 0, 0, 0, 0, 0xffff, rng.next() as u16, rng.next() as u16]; }
                if rng.chance(1, 12) { g = [0, 0, 0, 0, 0, 0, rng.next() as u16, rng.next() as u16]; }
                let a = g.iter().fold(0u128, |acc, x| (acc << 16) | *x as u128);
                let b = match rng.below(3) { 0 => a, 1 => a | ((1u128 << rng.below(128)) - 1), _ => a.saturating_add(rng.next() as u128) };
                blocks.push((a, b.max(a)));
            }
        }
        ctx.case(&format!("ip-fmt {} {}", if v4 { 4 } else { 6 }, show_blocks(&blocks)));
    }
    // RFC 3779 IP blocks in DER
    for a in &sets_ip { ctx.case(&format!("ip-enc {}", show_blocks(a))); }
    for _ in 0..(if thorough { 20_000 } else { 2_000 }) {
        let v4 = rng.bool();
        let width: u32 = if v4 { 32 } else { 128 };
        let full: u128 = if v4 { 0xffff_ffff } else { u128::MAX };
        let k = rng.below(5) as usize;
        let pick = |rng: &mut Rng| -> u128 { (match rng.below(6) {
            0 => rng.below(4) as u128, 1 => full - rng.below(4) as u128, 2 => (rng.below(256) as u128) << (width - 8),
            3 => ((rng.below(256) as u128) << (width - 8)) | (full >> 8), 4 => (rng.u128() & full) & !((1u128 << rng.below(width as u64)) - 1),
            _ => rng.u128() & full }) };
        let mut parts = Vec::new();
        for _ in 0..k {
            let a = pick(&mut rng); let b = pick(&mut rng);
            let (lo, hi) = if rng.chance(1, 12) { (a, b) } else { (a.min(b), a.max(b)) };
            parts.push(crate::pki::ip_block(lo, hi, width, rng.chance(1, 6)));
        }
        let mut d = crate::der::seq(&parts);
        match rng.below(12) {
            0 => { let i = rng.below(d.len() as u64) as usize; d[i] ^= 1 << rng.below(8); }
            1 => { let i = rng.below(d.len() as u64) as usize; d.truncate(i); }
            2 => { d = crate::der::seq(&[crate::der::bits(0, &[0u8; 17])]); }
            3 => { d = crate::der::seq(&[crate::der::bits(3, &[0x0a, 0xff])]); }
            4 => { d = crate::der::seq(&[crate::der::bits(0, &rng.bytes(if v4 { 5 } else { 16 }))]); }
            _ => {}
        }
        ctx.case(&format!("ip-der {} {}", if v4 { 4 } else { 6 }, hex(&d)));
    }
    // IPv6 text forms that std renders specially: IPv4-mapped / -compatible ranges, zero compression at either end
    for (lo, hi) in [(0xffffu128 << 32, (0xffffu128 << 32) | 0xffff_ffff), (0xffff_0a00_0000u128, 0xffff_0aff_ffff),
                     (0xffffu128 << 32, 0xffffu128 << 32), (0u128, 0xffff_ffffu128), (1u128, 1u128), (0x0a00_0001u128, 0x0a00_0001u128),
                     (0xffffu128 << 32, ((0xffffu128 << 32) | 0xffff_ffff) + 5), (1u128 << 127, (1u128 << 127) | 0xffff),
                     (0x64ff9bu128 << 96, (0x64ff9bu128 << 96) | 0xffff_ffff), (u128::MAX - 0xffff_ffff, u128::MAX)] {
        ctx.case(&format!("ip-text 6 {}-{}", lo, hi));
        ctx.case(&format!("ip-text 6 0-0,{}-{}", lo.max(2), hi.max(2)));
    }
    // counts at the ends of the number space
    for a in ["0-4294967295", "0-4294967294", "1-4294967295", "0-2147483647,2147483649-4294967295", "0-0", "4294967295-4294967295"] {
        ctx.case(&format!("as-count {}", a));
    }
    // range -> prefix decomposition: all ranges over a 5-bit window at both ends, plus boundary patterns
    for fam in ["4", "6"] {
        let w: u32 = if fam == "4" { 32 } else { 128 };
        let top: u128 = if w == 32 { u32::MAX as u128 } else { u128::MAX };
        let pts: Vec<u128> = (0..18u128).chain((0..18u128).map(|d| top - d)).chain([1u128 << (w - 1), (1u128 << (w - 1)) - 1, (1u128 << (w - 1)) + 1]).collect();
        for &a in &pts { for &b in &pts { if a <= b {
            let (lo, hi) = if fam == "4" { (a << 96, (b << 96) | ((1u128 << 96) - 1)) } else { (a, b) };
            ctx.case(&format!("to-prefixes {} {} {}", fam, lo, hi));
            ctx.case(&format!("into-prefix {} {}", lo, hi));
        }}}
        for _ in 0..(if thorough { 20_000 } else { 2_000 }) {
            let a = rng.u128() & top; let b = if rng.bool() { rng.u128() & top } else { a.wrapping_add(rng.below(1 << 20) as u128) & top };
            let (a, b) = if a <= b { (a, b) } else { (b, a) };
            let (lo, hi) = if fam == "4" { (a << 96, (b << 96) | ((1u128 << 96) - 1)) } else { (a, b) };
            ctx.case(&format!("to-prefixes {} {} {}", fam, lo, hi));
            ctx.case(&format!("into-prefix {} {}", lo, hi));
        }
    }
    // generated text forms: addresses written the canonical way and in every other way the parsers accept or
    // must refuse (upper case, leading zeros, full form, IPv4 tails, several `::`, too many groups, signs, spacing)
    {
        let v4_addr = |rng: &mut Rng| -> String {
            let a = match rng.below(5) { 0 => 0u32, 1 => u32::MAX, 2 => (rng.below(256) as u32) << 24, _ => rng.next() as u32 };
            let o = a.to_be_bytes();
            match rng.below(14) {
                0 => format!("0{}.{}.{}.{}", o[0], o[1], o[2], o[3]),
                1 => format!("{}.{}.{}", o[0], o[1], o[2]),
                2 => format!("{}.{}.{}.{}.{}", o[0], o[1], o[2], o[3], o[0]),
                3 => format!("{}.{}.{}.{}", o[0], o[1], 256 + o[2] as u32, o[3]),
                4 => format!("{}.{}..{}", o[0], o[1], o[3]),
                5 => format!("{}.{}.{}.{} ", o[0], o[1], o[2], o[3]),
                6 => format!("{}.{}.{}.+{}", o[0], o[1], o[2], o[3]),
                _ => std::net::Ipv4Addr::from(a).to_string(),
            }
        };
        let v6_addr = |rng: &mut Rng| -> String {
            let mut g = [0u16; 8];
            for x in g.iter_mut() { *x = match rng.below(4) { 0 | 1 => 0, 2 => rng.below(16) as u16, _ => rng.next() as u16 }; }
            if rng.chance(1, 10) { g = [0, 0, 0, 0, 0, 0xffff, rng.next() as u16, rng.next() as u16]; }
            let a = std::net::Ipv6Addr::from(g);
            let full = |up: bool, pad: bool| g.iter().map(|x| match (up, pad) { (false, false) => format!("{:x}", x), (true, false) => format!("{:X}", x),
                (false, true) => format!("{:04x}", x), (true, true) => format!("{:04X}", x) }).collect::<Vec<_>>().join(":");
            match rng.below(20) {
                0 => full(false, false), 1 => full(true, false), 2 => full(false, true), 3 => full(true, true),
                4 => format!("{}:{}.{}.{}.{}", g[..6].iter().map(|x| format!("{:x}", x)).collect::<Vec<_>>().join(":"), g[6] >> 8, g[6] & 255, g[7] >> 8, g[7] & 255),
                5 => format!("::{}.{}.{}.{}", g[6] >> 8, g[6] & 255, g[7] >> 8, g[7] & 255),
                6 => format!("{}::", full(false, false)),
                7 => format!("{:x}::{:x}::{:x}", g[0], g[1], g[2]),
                8 => format!("{}:{:x}", full(false, false), g[0]),
                9 => format!("{:x}:::{:x}", g[0], g[7]),
                10 => format!("1{:04x}::", g[0]),
                11 => format!(":{:x}", g[7]),
                12 => format!("{:x}:", g[0]),
                13 => format!("{:x}::{:x}", g[0], g[7]),
                14 => format!("::{:x}:{:x}", g[6], g[7]),
                15 => format!("{}.{}.{}.{}::", g[0] >> 8, g[0] & 255, g[1] >> 8, g[1] & 255),
                _ => a.to_string(),
            }
        };
        let item = |rng: &mut Rng, v4: bool| -> String {
            let addr = |rng: &mut Rng| if v4 { v4_addr(rng) } else { v6_addr(rng) };
            let w = if v4 { 32 } else { 128 };
            match rng.below(6) {
                0 | 1 => { let l = match rng.below(8) { 0 => "0".to_string(), 1 => w.to_string(), 2 => (w + 1).to_string(), 3 => "+8".into(), 4 => "08".into(), 5 => "".into(), 6 => "256".into(), _ => rng.below(w as u64 + 1).to_string() };
                           format!("{}/{}", addr(rng), l) }
                2 | 3 => format!("{}-{}", addr(rng), addr(rng)),
                _ => addr(rng),
            }
        };
        for _ in 0..(if thorough { 30_000 } else { 3_000 }) {
            let v4 = rng.bool();
            let k = match rng.below(5) { 0 => 0, 1 => 1, _ => rng.range(1, 4) };
            let mut t = String::new();
            for i in 0..k {
                if i > 0 { t.push_str(*rng.pick(&[", ", ",", " , ", ",,", ",\t"])); }
                // now and then an item of the other family
                let fam4 = if rng.chance(1, 25) { !v4 } else { v4 };
                t.push_str(&item(&mut rng, fam4));
            }
            if rng.chance(1, 10) { t.push(' '); }
            ctx.case(&format!("ip-parse {} {}", if v4 { 4 } else { 6 }, hex(t.as_bytes())));
        }
        for _ in 0..(if thorough { 10_000 } else { 1_500 }) {
            let one = |rng: &mut Rng| -> String {
                let n = match rng.below(6) { 0 => 0u64, 1 => u32::MAX as u64, 2 => u32::MAX as u64 + 1, 3 => rng.below(70000), _ => rng.below(1 << 32) };
                let pre = *rng.pick(&["AS", "AS", "as", "As", "", "A", "ASN", "+", "AS+"]);
                match rng.below(8) { 0 => format!("{}{}-{}{}", pre, n, pre, n + rng.below(1000)), 1 => format!("{}{}-", pre, n), 2 => format!("-{}{}", pre, n),
                    3 => format!("{}{}-{}{}", pre, n, pre, n.saturating_sub(rng.below(3))), 4 => format!("{}0{}", pre, n), 5 => format!("{}{} ", pre, n), _ => format!("{}{}", pre, n) }
            };
            let k = match rng.below(5) { 0 => 0, 1 => 1, _ => rng.range(1, 5) };
            let t = (0..k).map(|_| one(&mut rng)).collect::<Vec<_>>().join(*rng.pick(&[", ", ",", " , ", ",,"]));
            ctx.case(&format!("as-parse {}", hex(t.as_bytes())));
        }
    }
    // text forms offered to the parsers (inverted ranges, duplicates, spacing, mixed families)
    for t in ["AS1", "AS1-AS3", "AS5-AS3", "AS3-AS3", "AS0-AS4294967295", "AS1, AS3-AS4,AS2", "as1-as2", "1-2", "AS1-", "-AS1", "AS4294967296", "", " ", "AS1,,AS2", "AS10-AS20, AS30-AS40, AS15-AS35"] {
        ctx.case(&format!("as-parse {}", hex(t.as_bytes())));
    }
    for t in ["10.0.0.0/8", "10.0.0.0-10.0.0.255", "10.0.0.5-10.0.0.3", "10.0.0.0/8, 10.0.0.0/16", "0.0.0.0/0", "255.255.255.255", "10.0.0.1/8", "10.0.0.0/33", "10.0.0.0-11.0.0.0, 9.0.0.0-10.5.0.0"] {
        ctx.case(&format!("ip-parse 4 {}", hex(t.as_bytes())));
    }
    for t in ["2001:db8::/32", "::/0", "2001:db8::-2001:db8::ffff", "2001:db8::5-2001:db8::3", "::1", "2001:db8::/129", "ffff:ffff:ffff:ffff:ffff:ffff:ffff:ffff/128"] {
        ctx.case(&format!("ip-parse 6 {}", hex(t.as_bytes())));
    }
}
