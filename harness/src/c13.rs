//! C13 — prefixes, max-length prefixes, AS-number sets (src/resources/addr.rs,
//! src/resources/asn.rs, src/rtr/payload.rs).
use crate::rng::Rng;
use crate::Ctx;
use rpki::resources::addr::{MaxLenError, MaxLenPrefix, ParseMaxLenPrefixError, ParsePrefixError, Prefix, PrefixError};
use rpki::resources::asn::{Asn, SmallAsnSet};
use rpki::rtr::payload::RouteOrigin;
use std::cmp::Ordering;
use std::collections::hash_map::DefaultHasher;
use std::hash::{Hash, Hasher};
use std::net::{IpAddr, Ipv4Addr, Ipv6Addr};
use std::str::FromStr;

fn bits_of(a: IpAddr) -> u128 {
    match a {
        IpAddr::V4(a) => (u32::from(a) as u128) << 96,
        IpAddr::V6(a) => u128::from(a),
    }
}

fn show_pfx(r: Result<Prefix, PrefixError>) -> String {
    match r {
        Ok(p) => {
            // all accessors must agree with each other
            let (a, l) = p.addr_and_len();
            if a != p.addr() || l != p.len() || p.min_addr() != p.addr() || p.is_v4() == p.is_v6() {
                return "accessors-disagree".into();
            }
            format!("ok {} {} {} {}", if p.is_v4() { 4 } else { 6 }, p.len(),
                bits_of(p.min_addr()), bits_of(p.max_addr()))
        }
        Err(PrefixError::LenOverflow) => "err overflow".into(),
        Err(PrefixError::NonZeroHost) => "err nonzero".into(),
        Err(_) => "err other".into(),
    }
}

pub fn parse_pfx(s: &str) -> Option<Prefix> {
    let mut it = s.split('/');
    let f = it.next()?;
    let a = it.next()?;
    let l: u8 = it.next()?.parse().ok()?;
    match f {
        "4" => Prefix::new_v4(Ipv4Addr::from(a.parse::<u32>().ok()?), l).ok(),
        "6" => Prefix::new_v6(Ipv6Addr::from(a.parse::<u128>().ok()?), l).ok(),
        _ => None,
    }
}

fn parse_ml(s: &str) -> Option<Option<u8>> {
    if s == "-" { Some(None) } else { s.parse::<u8>().ok().map(Some) }
}

fn h<T: Hash>(t: &T) -> u64 {
    let mut s = DefaultHasher::new();
    t.hash(&mut s);
    s.finish()
}

fn ord_str(o: Ordering) -> &'static str {
    match o { Ordering::Less => "lt", Ordering::Equal => "eq", Ordering::Greater => "gt" }
}

/// `cmp` result + `==` result, with consistency checks between cmp,
/// partial_cmp, the reversed comparison, == and Hash folded in.
fn cmp_eq<T: Ord + Hash>(a: &T, b: &T) -> String {
    let c = a.cmp(b);
    let e = a == b;
    if a.partial_cmp(b) != Some(c) {
        return "partial-cmp-disagrees".into();
    }
    if b.cmp(a) != c.reverse() {
        return "not-antisymmetric".into();
    }
    if e && h(a) != h(b) {
        return "equal-but-hash-differs".into();
    }
    format!("{} {}", ord_str(c), e)
}

fn parse_list(s: &str) -> Option<Vec<Asn>> {
    if s == "-" { return Some(Vec::new()); }
    s.split(',').map(|x| x.parse::<u32>().ok().map(Asn::from_u32)).collect()
}

fn show_list<I: Iterator<Item = Asn>>(it: I) -> String {
    let v: Vec<String> = it.map(|a| a.into_u32().to_string()).collect();
    if v.is_empty() { "-".into() } else { v.join(",") }
}

fn show_tpfx(r: Result<Prefix, ParsePrefixError>) -> String {
    match r {
        Ok(p) => format!("ok:{}:{}:{}", if p.is_v4() { 4 } else { 6 }, p.len(), bits_of(p.min_addr())),
        Err(e) => format!("err:{}", tpfx_err(&e)),
    }
}

fn tpfx_err(e: &ParsePrefixError) -> &'static str {
    match e {
        ParsePrefixError::Empty => "empty",
        ParsePrefixError::MissingLen => "missinglen",
        ParsePrefixError::InvalidAddr(_) => "addr",
        ParsePrefixError::InvalidLen(_) => "len",
        ParsePrefixError::InvalidPrefix(PrefixError::LenOverflow) => "overflow",
        ParsePrefixError::InvalidPrefix(PrefixError::NonZeroHost) => "nonzero",
        #[allow(unreachable_patterns)]
        _ => "other",
    }
}

/// `Prefix::from_str`, `Prefix::from_str_relaxed`, `MaxLenPrefix::from_str`, `Asn::from_str` on one text
fn ptext(text: &str) -> String {
    let m = match MaxLenPrefix::from_str(text) {
        Ok(m) => {
            let p = m.prefix();
            format!("ok:{}:{}:{}:{}", if p.is_v4() { 4 } else { 6 }, p.len(), bits_of(p.min_addr()),
                match m.max_len() { Some(k) => k.to_string(), None => "-".into() })
        }
        Err(ParseMaxLenPrefixError::InvalidPrefix(e)) => format!("err:pfx-{}", tpfx_err(&e)),
        Err(ParseMaxLenPrefixError::InvalidMaxLenFormat(_)) => "err:mlfmt".into(),
        Err(ParseMaxLenPrefixError::InvalidMaxLenValue(MaxLenError::Overflow)) => "err:mloverflow".into(),
        Err(ParseMaxLenPrefixError::InvalidMaxLenValue(MaxLenError::Underflow)) => "err:mlunderflow".into(),
        #[allow(unreachable_patterns)]
        Err(_) => "err:other".into(),
    };
    let a = match Asn::from_str(text) { Ok(a) => a.into_u32().to_string(), Err(_) => "err".into() };
    format!("s={} r={} m={} a={}", show_tpfx(Prefix::from_str(text)), show_tpfx(Prefix::from_str_relaxed(text)), m, a)
}

pub fn exec(toks: &[&str]) -> String {
    match toks {
        // the serde forms of an AS number (serde_json as the format): three writers, three readers
        ["aserde", n] => match n.parse::<u32>() {
            Ok(n) => {
                let a = Asn::from_u32(n);
                let w = |f: &dyn Fn(&mut serde_json::Serializer<&mut Vec<u8>>) -> bool| -> Option<Vec<u8>> {
                    let mut buf = Vec::new();
                    let ok = { let mut ser = serde_json::Serializer::new(&mut buf); f(&mut ser) };
                    if ok { Some(buf) } else { None }
                };
                let u = w(&|s| a.serialize_as_u32(s).is_ok());
                let b = w(&|s| a.serialize_as_bare_str(s).is_ok());
                let st = w(&|s| a.serialize_as_str(s).is_ok());
                match (u, b, st) {
                    (Some(u), Some(b), Some(st)) => {
                        let rd = |t: &[u8], k: u8| -> Option<Asn> {
                            let mut de = serde_json::Deserializer::from_slice(t);
                            let r = match k { 0 => Asn::deserialize_from_u32(&mut de), 1 => Asn::deserialize_from_str(&mut de), _ => Asn::deserialize_from_any(&mut de) };
                            r.ok().filter(|_| de.end().is_ok())
                        };
                        let back = rd(&u, 0) == Some(a) && rd(&b, 1) == Some(a) && rd(&st, 1) == Some(a)
                            && rd(&u, 2) == Some(a) && rd(&b, 2) == Some(a) && rd(&st, 2) == Some(a);
                        format!("u={} b={} s={} back={}", crate::rng::hex(&u), crate::rng::hex(&b), crate::rng::hex(&st), back)
                    }
                    _ => "write-failed".into(),
                }
            }
            Err(_) => "bad-op".into(),
        },
        // one JSON text through the three readers
        ["aany", hx] => match crate::rng::unhex(hx).and_then(|b| String::from_utf8(b).ok()) {
            Some(t) => {
                let rd = |k: u8| -> String {
                    let mut de = serde_json::Deserializer::from_str(&t);
                    let r = match k { 0 => Asn::deserialize_from_u32(&mut de), 1 => Asn::deserialize_from_str(&mut de), _ => Asn::deserialize_from_any(&mut de) };
                    match r { Ok(a) if de.end().is_ok() => a.into_u32().to_string(), _ => "err".into() }
                };
                format!("u32={} str={} any={}", rd(0), rd(1), rd(2))
            }
            None => "bad-op".into(),
        },
        ["ptext", hx] => match crate::rng::unhex(hx).and_then(|b| String::from_utf8(b).ok()) {
            Some(t) => ptext(&t),
            None => "bad-op".into(),
        },
        ["pfmt", p, ml, asn] => match (parse_pfx(p), parse_ml(ml), asn.parse::<u32>()) {
            (Some(p), Some(ml), Ok(asn)) => {
                let m = MaxLenPrefix::saturating_new(p, ml);
                format!("{} {} {}", crate::rng::hex(p.to_string().as_bytes()), crate::rng::hex(m.to_string().as_bytes()),
                    crate::rng::hex(Asn::from_u32(asn).to_string().as_bytes()))
            }
            _ => "bad-op".into(),
        },
        ["pfx4", a, l] => show_pfx(Prefix::new_v4(Ipv4Addr::from(a.parse::<u32>().unwrap()), l.parse().unwrap())),
        ["rel4", a, l] => show_pfx(Prefix::new_v4_relaxed(Ipv4Addr::from(a.parse::<u32>().unwrap()), l.parse().unwrap())),
        ["pfx6", a, l] => show_pfx(Prefix::new_v6(Ipv6Addr::from(a.parse::<u128>().unwrap()), l.parse().unwrap())),
        ["rel6", a, l] => show_pfx(Prefix::new_v6_relaxed(Ipv6Addr::from(a.parse::<u128>().unwrap()), l.parse().unwrap())),
        ["covers", p, q] => match (parse_pfx(p), parse_pfx(q)) {
            (Some(p), Some(q)) => p.covers(q).to_string(),
            _ => "bad-op".into(),
        },
        ["cmp", p, q] => match (parse_pfx(p), parse_pfx(q)) {
            (Some(p), Some(q)) => cmp_eq(&p, &q),
            _ => "bad-op".into(),
        },
        ["mlp", p, ml] => match (parse_pfx(p), parse_ml(ml)) {
            (Some(p), Some(ml)) => match MaxLenPrefix::new(p, ml) {
                Ok(m) => {
                    if m.prefix() != p || m.max_len() != ml || m.prefix_len() != p.len() {
                        return "accessors-disagree".into();
                    }
                    format!("ok {}", m.resolved_max_len())
                }
                Err(e) => match format!("{:?}", e).as_str() {
                    "Overflow" => "err overflow".into(),
                    "Underflow" => "err underflow".into(),
                    _ => "err other".into(),
                },
            },
            _ => "bad-op".into(),
        },
        ["mlpsat", p, ml] => match (parse_pfx(p), parse_ml(ml)) {
            (Some(p), Some(ml)) => match MaxLenPrefix::saturating_new(p, ml).max_len() {
                Some(v) => format!("+{}", v),
                None => "-".into(),
            },
            _ => "bad-op".into(),
        },
        ["mlcmp", p, ml, q, ml2] => match (parse_pfx(p), parse_ml(ml), parse_pfx(q), parse_ml(ml2)) {
            (Some(p), Some(ml), Some(q), Some(ml2)) => {
                let a = MaxLenPrefix::saturating_new(p, ml);
                let b = MaxLenPrefix::saturating_new(q, ml2);
                cmp_eq(&a, &b)
            }
            _ => "bad-op".into(),
        },
        ["origin", p, ml, asn, q, ml2, asn2] => {
            match (parse_pfx(p), parse_ml(ml), asn.parse::<u32>(), parse_pfx(q), parse_ml(ml2), asn2.parse::<u32>()) {
                (Some(p), Some(ml), Ok(asn), Some(q), Some(ml2), Ok(asn2)) => {
                    let a = RouteOrigin::new(MaxLenPrefix::saturating_new(p, ml), Asn::from_u32(asn));
                    let b = RouteOrigin::new(MaxLenPrefix::saturating_new(q, ml2), Asn::from_u32(asn2));
                    cmp_eq(&a, &b)
                }
                _ => "bad-op".into(),
            }
        }
        ["text", p, ml] => match (parse_pfx(p), parse_ml(ml)) {
            (Some(p), Some(ml)) => {
                let s = p.to_string();
                if Prefix::from_str(&s) != Ok(p) {
                    return format!("prefix-text {}", s);
                }
                if Prefix::from_str_relaxed(&s) != Ok(p) {
                    return format!("prefix-text-relaxed {}", s);
                }
                let m = MaxLenPrefix::saturating_new(p, ml);
                let s = m.to_string();
                if MaxLenPrefix::from_str(&s) != Ok(m) {
                    return format!("maxlen-text {}", s);
                }
                let asn = Asn::from_u32(bits_of(p.addr()) as u32 ^ (bits_of(p.addr()) >> 96) as u32);
                if Asn::from_str(&asn.to_string()) != Ok(asn) {
                    return format!("asn-text {}", asn);
                }
                "ok".into()
            }
            _ => "bad-op".into(),
        },
        ["triple", p, q, r] => match (parse_pfx(p), parse_pfx(q), parse_pfx(r)) {
            (Some(p), Some(q), Some(r)) => {
                // transitivity of <= on the implementation's own cmp
                let le = |a: &Prefix, b: &Prefix| a.cmp(b) != Ordering::Greater;
                let v = [p, q, r];
                for a in &v { for b in &v { for c in &v {
                    if le(a, b) && le(b, c) && !le(a, c) { return "nontransitive".into(); }
                    if a.cmp(b) == Ordering::Equal && a != b { return "cmp-eq-but-ne".into(); }
                }}}
                "ok".into()
            }
            _ => "bad-op".into(),
        },
        ["set-from", xs] => match parse_list(xs) {
            Some(xs) => {
                let set: SmallAsnSet = xs.iter().cloned().collect();
                // `contains` must agree with iteration
                for a in &xs {
                    if !set.contains(*a) { return "contains-disagrees".into(); }
                }
                show_list(set.iter())
            }
            None => "bad-op".into(),
        },
        ["set-op", op, l, r] => match (parse_list(l), parse_list(r)) {
            (Some(l), Some(r)) => {
                let l: SmallAsnSet = l.into_iter().collect();
                let r: SmallAsnSet = r.into_iter().collect();
                match *op {
                    "union" => show_list(l.union(&r)),
                    "inter" => show_list(l.intersection(&r)),
                    "diff" => show_list(l.difference(&r)),
                    "sym" => show_list(l.symmetric_difference(&r)),
                    _ => "bad-op".into(),
                }
            }
            _ => "bad-op".into(),
        },
        _ => "bad-op".into(),
    }
}

/// Boundary-dense address values of `w` bits: all-zero, all-one, a single
/// run boundary at every bit position (both polarities), and ±1 around those.
pub fn boundary_addrs(w: u32) -> Vec<u128> {
    let max: u128 = if w == 128 { u128::MAX } else { (1u128 << w) - 1 };
    let mut v = vec![0u128, max];
    for i in 0..w {
        let ones_low = if i == 0 { 0 } else { (1u128 << i) - 1 };
        for base in [ones_low, max & !ones_low, 1u128 << i] {
            for d in [0i8, -1, 1] {
                let x = match d { 0 => base, -1 => base.wrapping_sub(1), _ => base.wrapping_add(1) } & max;
                v.push(x);
            }
        }
    }
    v.sort();
    v.dedup();
    v
}

fn tok(fam: u8, addr: u128, len: u8) -> String {
    // clear host bits so that the token is a valid prefix
    let w: u32 = if fam == 4 { 32 } else { 128 };
    let len = (len as u32).min(w);
    let a = if len == 0 { 0 } else { addr & !((if w - len == 0 { 0 } else { (1u128 << (w - len)) - 1 })) };
    format!("{}/{}/{}", fam, a, len)
}

/// A pool of valid prefix tokens biased to nested / adjacent relations.
fn prefix_pool(rng: &mut Rng, n4: usize, n6: usize) -> Vec<String> {
    let a4 = boundary_addrs(32);
    let a6 = boundary_addrs(128);
    let mut pool = Vec::new();
    let l4 = [0u8, 1, 2, 7, 8, 9, 15, 16, 23, 24, 30, 31, 32];
    let l6 = [0u8, 1, 2, 31, 32, 33, 63, 64, 65, 95, 96, 97, 126, 127, 128];
    for _ in 0..n4 {
        let a = if rng.chance(3, 4) { *rng.pick(&a4) } else { rng.next() as u32 as u128 };
        let l = if rng.chance(2, 3) { *rng.pick(&l4) } else { rng.below(33) as u8 };
        pool.push(tok(4, a, l));
    }
    for _ in 0..n6 {
        let a = if rng.chance(3, 4) { *rng.pick(&a6) } else { rng.u128() };
        let l = if rng.chance(2, 3) { *rng.pick(&l6) } else { rng.below(129) as u8 };
        pool.push(tok(6, a, l));
    }
    // IPv6 prefixes whose text has a dotted tail (IPv4-mapped and IPv4-compatible addresses)
    for (a, l) in [(0xffffu128 << 32, 96u8), ((0xffffu128 << 32) | 0x0a00_0000, 104), ((0xffffu128 << 32) | 0xc000_0201, 128),
        ((0xffffu128 << 32) | 0xffff_ffff, 128), (0x0a00_0001u128, 128), (0u128, 96), ((0xffffu128 << 32) | 0xc000_0200, 120)] {
        pool.push(tok(6, a, l));
    }
    pool.sort();
    pool.dedup();
    pool
}

fn related(rng: &mut Rng, p: &str) -> String {
    // derive a prefix nested in / covering / adjacent to p
    let mut it = p.split('/');
    let fam: u8 = it.next().unwrap().parse().unwrap();
    let a: u128 = it.next().unwrap().parse().unwrap();
    let l: u8 = it.next().unwrap().parse().unwrap();
    let w: u32 = if fam == 4 { 32 } else { 128 };
    let max: u128 = if w == 128 { u128::MAX } else { (1u128 << w) - 1 };
    match rng.below(5) {
        0 => tok(fam, a, rng.below(l as u64 + 1) as u8),                        // covering
        1 => {                                                                     // more specific
            let nl = rng.range(l as u64, w as u64) as u8;
            let extra = if fam == 4 { rng.next() as u32 as u128 } else { rng.u128() };
            let host = if (l as u32) >= w { 0 } else { max >> l };
            tok(fam, a | (extra & host & max), nl)
        }
        2 => {                                                                     // next block
            let size = if l == 0 { 0 } else { 1u128 << (w - l as u32) };
            tok(fam, a.wrapping_add(size) & max, l)
        }
        3 => tok(fam, a.wrapping_sub(1) & max, rng.range(l.saturating_sub(1) as u64, w as u64) as u8),
        _ => tok(fam, a, l),
    }
}

pub fn generate(ctx: &mut Ctx) {
    let mut rng = Rng::new(ctx.seed ^ 0xC13);
    let thorough = ctx.tier_thorough;
    // constructors: (boundary domain x every length 0..=255 sampled densely)
    let a4 = boundary_addrs(32);
    let a6 = boundary_addrs(128);
    let lens: Vec<u16> = if thorough { (0..=255).collect() } else {
        let mut v: Vec<u16> = (0..=40).collect();
        v.extend([63, 64, 65, 95, 96, 97, 120, 126, 127, 128, 129, 130, 191, 192, 254, 255]);
        v
    };
    for &a in &a4 {
        for &l in &lens {
            ctx.case(&format!("pfx4 {} {}", a, l));
            ctx.case(&format!("rel4 {} {}", a, l));
        }
    }
    let lens6: Vec<u16> = if thorough { (0..=255).collect() } else {
        let mut v: Vec<u16> = vec![0, 1, 2, 7, 8, 9, 31, 32, 33, 47, 48, 63, 64, 65, 95, 96, 97];
        v.extend(118..=132);
        v.extend([200, 254, 255]);
        v
    };
    for &a in &a6 {
        for &l in &lens6 {
            ctx.case(&format!("pfx6 {} {}", a, l));
            ctx.case(&format!("rel6 {} {}", a, l));
        }
    }
    for _ in 0..20_000 {
        ctx.case(&format!("pfx4 {} {}", rng.next() as u32, rng.below(40)));
        ctx.case(&format!("rel6 {} {}", rng.u128(), rng.below(140)));
    }
    // pairs
    let pool = prefix_pool(&mut rng, if thorough { 220 } else { 120 }, if thorough { 260 } else { 160 });
    let npairs = if thorough { 0 } else { 120_000 };
    for _ in 0..npairs {
        let p = rng.pick(&pool).clone();
        let q = if rng.chance(2, 3) { related(&mut rng, &p) } else { rng.pick(&pool).clone() };
        ctx.case(&format!("covers {} {}", p, q));
        ctx.case(&format!("cmp {} {}", p, q));
    }
    if thorough {
        for p in &pool {
            for q in &pool {
                ctx.case(&format!("covers {} {}", p, q));
                ctx.case(&format!("cmp {} {}", p, q));
            }
        }
        for _ in 0..400_000 {
            let p = rng.pick(&pool).clone();
            let q = related(&mut rng, &p);
            ctx.case(&format!("covers {} {}", p, q));
            ctx.case(&format!("cmp {} {}", p, q));
        }
    }
    // triples on a smaller pool (transitivity on the implementation's own cmp)
    let small: Vec<String> = {
        let mut s: Vec<String> = Vec::new();
        let n = if thorough { 60 } else { 24 };
        while s.len() < n {
            let p = rng.pick(&pool).clone();
            s.push(related(&mut rng, &p));
            s.push(p);
        }
        s.sort(); s.dedup(); s
    };
    for p in &small { for q in &small { for r in &small {
        if p <= q && q <= r {
            ctx.case(&format!("triple {} {} {}", p, q, r));
        }
    }}}
    // max-len prefixes
    for p in pool.iter().take(if thorough { pool.len() } else { 60 }) {
        ctx.case(&format!("mlp {} -", p));
        ctx.case(&format!("mlpsat {} -", p));
        ctx.case(&format!("text {} -", p));
        for ml in 0..=255u16 {
            if thorough || ml <= 34 || (ml >= 126 && ml <= 130) || ml % 37 == 0 || ml == 255 {
                ctx.case(&format!("mlp {} {}", p, ml));
                ctx.case(&format!("mlpsat {} {}", p, ml));
                if ml % 8 == 0 || ml == 32 || ml == 128 {
                    ctx.case(&format!("text {} {}", p, ml));
                }
            }
        }
    }
    let mls = ["-", "0", "8", "24", "25", "32", "33", "64", "128", "129", "255"];
    let asns = [0u32, 1, 2, 65535, 65536, u32::MAX - 1, u32::MAX];
    for _ in 0..(if thorough { 300_000 } else { 60_000 }) {
        let p = rng.pick(&pool).clone();
        let q = if rng.chance(3, 4) { p.clone() } else { related(&mut rng, &p) };
        let (m1, m2) = (*rng.pick(&mls), *rng.pick(&mls));
        ctx.case(&format!("mlcmp {} {} {} {}", p, m1, q, m2));
        let (a1, a2) = (*rng.pick(&asns), if rng.bool() { *rng.pick(&asns) } else { rng.next() as u32 });
        let a2 = if rng.chance(1, 3) { a1 } else { a2 };
        ctx.case(&format!("origin {} {} {} {} {} {}", p, m1, a1, q, m2, a2));
    }
    // text forms: what Display writes (compared byte for byte with the model's formatter), the same texts
    // and mutants of them through the four parsers (model: Rpki/Model/PfxText.lean)
    {
        let alphabet: &[u8] = b"0123456789abcdefABCDEF:./-+ sS";
        let mut texts: Vec<String> = [
            "", "/", "-", "/8", "10.0.0.0", "10.0.0.0/", "10.0.0.0/8", "10.0.0.0/+8", "10.0.0.0/08", "10.0.0.0/008",
            "10.0.0.0/0008", "10.0.0.0/-8", "10.0.0.0/8 ", " 10.0.0.0/8", "10.0.0.0/256", "10.0.0.0/255", "10.0.0.0/33",
            "10.0.0.0/32", "10.0.0.1/32", "10.0.0.1/31", "10.0.0.0/7", "010.0.0.0/8", "10.0.0/8", "10.0.0.0.0/8",
            "10.0.0.0/8/8", "10.0.0.0//8", "0.0.0.0/0", "255.255.255.255/32", "256.0.0.0/8", "1.2.3.4/0",
            "10.0.0.0/8-", "10.0.0.0/8-8", "10.0.0.0/8-7", "10.0.0.0/8-32", "10.0.0.0/8-33", "10.0.0.0/8-+9",
            "10.0.0.0/8-09", "10.0.0.0/8-256", "10.0.0.0/8-24-25", "10.0.0.0-24", "-10.0.0.0/8", "10.0.0.0/8--24",
            "10.0.0.0/8-128", "10.0.0.0/8-129", "::/0", "::/128", "::/129", "::1/128", "::1/127", "::/0-0", "::/0-128",
            "::/0-129", "2001:db8::/32", "2001:db8::/32-48", "2001:DB8::/32", "2001:db8::/31", "2001:db8:0:0:0:0:0:0/32",
            "2001:db8::1:0:0:0:0:0/32", "::ffff:1.2.3.4/128", "::ffff:1.2.3.4/96", "::ffff:1.2.3.0/120", "::1.2.3.4/128",
            "1.2.3.4::/32", "1::2::3/128", ":::/0", "::%1/128", "[::]/0", "0::0/0", "00000::/0", "ffff:ffff:ffff:ffff:ffff:ffff:ffff:ffff/128",
            "ffff:ffff:ffff:ffff:ffff:ffff:ffff:ffff/127", "ffff:ffff:ffff:ffff:ffff:ffff:255.255.255.255/128",
            "::ffff:0:0/96", "64:ff9b::/96", "AS0", "as65000", "aS1", "As4294967295", "AS4294967296", "AS", "A", "S1", "AS+1",
            "AS-1", "AS 1", "AS01", "0", "65000", "+7", "ASAS1", "as", "\u{e9}s1", "\u{e9}/8", "1.2.3.4/\u{663}",
        ].iter().map(|s| s.to_string()).collect();
        let npool = pool.len();
        for p in pool.iter().take(npool) {
            let ml = *rng.pick(&mls);
            let asn = if rng.bool() { *rng.pick(&asns) } else { rng.next() as u32 };
            ctx.case(&format!("pfmt {} {} {}", p, ml, asn));
            if let Some(pp) = parse_pfx(p) {
                texts.push(pp.to_string());
                if let Some(mm) = parse_ml(ml) { texts.push(MaxLenPrefix::saturating_new(pp, mm).to_string()); }
                // every length and max length around the written one, strict and relaxed readers
                let a = pp.addr();
                for l in [pp.len().wrapping_sub(1), pp.len(), pp.len().wrapping_add(1), 0, 32, 33, 128, 129] {
                    texts.push(format!("{}/{}", a, l));
                    texts.push(format!("{}/{}-{}", a, pp.len(), l));
                }
            }
            texts.push(Asn::from_u32(asn).to_string());
        }
        let base = texts.clone();
        let nmut = if thorough { 40 } else { 6 };
        for t in &base {
            for _ in 0..nmut {
                let mut b = t.clone().into_bytes();
                for _ in 0..(1 + rng.below(2)) {
                    let c = *rng.pick(alphabet);
                    match rng.below(4) {
                        0 if !b.is_empty() => { let i = rng.below(b.len() as u64) as usize; b[i] = c; }
                        1 if !b.is_empty() => { let i = rng.below(b.len() as u64) as usize; b.remove(i); }
                        2 if !b.is_empty() => { let i = rng.below(b.len() as u64) as usize; let j = rng.below(b.len() as u64) as usize; b.swap(i, j); }
                        _ => { let i = rng.below(b.len() as u64 + 1) as usize; b.insert(i, c); }
                    }
                }
                if let Ok(s) = String::from_utf8(b) { texts.push(s); }
            }
        }
        texts.sort(); texts.dedup();
        for t in &texts {
            ctx.case(&format!("ptext {}", crate::rng::hex(t.as_bytes())));
        }
        // serde forms of AS numbers
        for n in [0u32, 1, 9, 10, 255, 256, 65535, 65536, 4294967294, 4294967295] { ctx.case(&format!("aserde {}", n)); }
        for _ in 0..200 { ctx.case(&format!("aserde {}", rng.next() as u32)); }
        for t in ["0", "5", "4294967295", "4294967296", "-1", "-0", "5.0", "5e0", "05", "\"5\"", "\"AS5\"", "\"as5\"", "\"aS5\"", "\"AS\"", "\"\"", "\"AS4294967296\"", "\"+5\"", "\"AS+5\"",
                  "\"AS 5\"", "\"5 \"", " 5 ", "\"\\u0041S5\"", "\"A\\u0053\\u0035\"", "null", "true", "[5]", "{}", "\"AS5\" x", "5,", "", "\"ASAS5\"", "\"\u{e9}5\"", "18446744073709551615", "18446744073709551616"] {
            ctx.case(&format!("aany {}", crate::rng::hex(t.as_bytes())));
        }
    }
    // AS multisets
    let dom = [0u32, 1, 2, 3, u32::MAX - 1, u32::MAX];
    let show = |v: &[u32]| if v.is_empty() { "-".to_string() } else {
        v.iter().map(|x| x.to_string()).collect::<Vec<_>>().join(",") };
    // exhaustive: all sequences of length <= k over the 6-value domain (with duplicates, any order)
    let k = if thorough { 5 } else { 4 };
    let mut seqs: Vec<Vec<u32>> = vec![vec![]];
    let mut frontier: Vec<Vec<u32>> = vec![vec![]];
    for _ in 0..k {
        let mut next = Vec::new();
        for s in &frontier {
            for d in dom {
                let mut t = s.clone();
                t.push(d);
                next.push(t);
            }
        }
        seqs.extend(next.iter().cloned());
        frontier = next;
    }
    for s in &seqs {
        ctx.case(&format!("set-from {}", show(s)));
    }
    for _ in 0..10_000 {
        let n = rng.below(13) as usize;
        let v: Vec<u32> = (0..n).map(|_| if rng.chance(2, 3) { *rng.pick(&dom) } else { rng.below(50) as u32 }).collect();
        ctx.case(&format!("set-from {}", show(&v)));
    }
    // set operations: all pairs of subsets of the 6-value domain (64 x 64), then random larger sets
    let subsets: Vec<Vec<u32>> = (0..64u32).map(|m| dom.iter().enumerate()
        .filter(|(i, _)| m >> i & 1 == 1).map(|(_, d)| *d).collect()).collect();
    for l in &subsets { for r in &subsets {
        for op in ["union", "inter", "diff", "sym"] {
            ctx.case(&format!("set-op {} {} {}", op, show(l), show(r)));
        }
    }}
    for _ in 0..(if thorough { 50_000 } else { 5_000 }) {
        let mut mk = |rng: &mut Rng| {
            let n = rng.below(12) as usize;
            let mut v: Vec<u32> = (0..n).map(|_| rng.below(24) as u32).collect();
            v.sort(); v.dedup(); v
        };
        let (l, r) = (mk(&mut rng), mk(&mut rng));
        for op in ["union", "inter", "diff", "sym"] {
            ctx.case(&format!("set-op {} {} {}", op, show(&l), show(&r)));
        }
    }
}
