//! C06 — RTR client against RTR server: after a completed step the client holds the server's data
//! (src/rtr/client.rs, src/rtr/server.rs).
use crate::rng::Rng;
use crate::sock::{settle, Pipe, Sock};
use crate::Ctx;
use rpki::crypto::keys::KeyIdentifier;
use rpki::resources::addr::{MaxLenPrefix, Prefix};
use rpki::resources::asn::Asn;
use rpki::rtr::client::{Client, PayloadError, PayloadTarget};
use rpki::rtr::payload::{Action, Aspa, Payload, PayloadRef, RouteOrigin, RouterKey, Timing};
use rpki::rtr::pdu::{ProviderAsns, RouterKeyInfo};
use rpki::rtr::server::{NotifySender, PayloadDiff, PayloadSet, PayloadSource, Server};
use rpki::rtr::state::{Serial, State};
use std::str::FromStr;
use std::sync::{Arc, Mutex};
use tokio::io::{AsyncReadExt, AsyncWriteExt};

// ---------------------------------------------------------------- abstract items

#[derive(Clone, Copy, Debug, PartialEq, Eq, PartialOrd, Ord)]
pub enum Item { Origin(u32), Key(u32), Aspa(u32, u32) }

const ORIGINS: [(&str, Option<u8>, u32); 12] = [
    ("10.0.0.0/8", None, 64496), ("10.0.0.0/8", Some(24), 64496), ("10.0.0.0/8", Some(8), 64497),
    ("192.168.0.0/16", Some(24), 64496), ("0.0.0.0/0", None, 0), ("255.255.255.255/32", Some(32), 4294967295),
    ("2001:db8::/32", None, 64496), ("2001:db8::/32", Some(48), 64496), ("2001:db8::/32", Some(128), 64498),
    ("::/0", Some(0), 1), ("ffff:ffff:ffff:ffff:ffff:ffff:ffff:ffff/128", None, 4294967295), ("2001:db8:1::/48", Some(64), 64496),
];
const PROVIDERS: [&[u32]; 4] = [&[], &[1], &[1, 2], &[3, 4, 5]];

pub fn payload_of(it: Item) -> Payload {
    match it {
        Item::Origin(i) => {
            let (p, ml, asn) = ORIGINS[i as usize % ORIGINS.len()];
            Payload::Origin(RouteOrigin::new(MaxLenPrefix::new(Prefix::from_str(p).unwrap(), ml).unwrap(), Asn::from_u32(asn)))
        }
        Item::Key(i) => {
            let ski = KeyIdentifier::try_from(&[i as u8 + 1; 20][..]).unwrap();
            Payload::RouterKey(RouterKey::new(ski, Asn::from_u32(64500 + i), RouterKeyInfo::try_from(vec![i as u8; 5 + i as usize]).unwrap()))
        }
        Item::Aspa(c, p) => Payload::Aspa(Aspa::new(Asn::from_u32(64600 + c),
            ProviderAsns::try_from_iter(PROVIDERS[p as usize % 4].iter().map(|x| Asn::from_u32(*x))).unwrap())),
    }
}

/// maps a received payload back to the abstract item (`None`: not from the pools)
pub fn item_of(p: &Payload) -> Option<Item> {
    for i in 0..ORIGINS.len() as u32 { if &payload_of(Item::Origin(i)) == p { return Some(Item::Origin(i)); } }
    for i in 0..8u32 { if &payload_of(Item::Key(i)) == p { return Some(Item::Key(i)); } }
    if let Payload::Aspa(a) = p {
        let c = a.customer.into_u32().wrapping_sub(64600);
        let provs: Vec<u32> = a.providers.iter().map(|x| x.into_u32()).collect();
        for q in 0..4u32 { if PROVIDERS[q as usize] == &provs[..] { return Some(Item::Aspa(c, q)); } }
    }
    None
}

pub fn parse_item(s: &str) -> Option<Item> {
    let (k, r) = s.split_at(1);
    match k {
        "o" => Some(Item::Origin(r.parse().ok()?)),
        "k" => Some(Item::Key(r.parse().ok()?)),
        "a" => { let mut it = r.split('.'); Some(Item::Aspa(it.next()?.parse().ok()?, it.next()?.parse().ok()?)) }
        _ => None,
    }
}

pub fn show_item(it: Item, withdrawn: bool) -> String {
    match it {
        Item::Origin(i) => format!("o{}", i),
        Item::Key(i) => format!("k{}", i),
        Item::Aspa(c, p) => if withdrawn { format!("a{}", c) } else { format!("a{}.{}", c, p) },
    }
}

fn same_key(a: Item, b: Item) -> bool {
    match (a, b) { (Item::Aspa(c, _), Item::Aspa(d, _)) => c == d, _ => a == b }
}

// ---------------------------------------------------------------- the reference source

pub struct SrcState {
    pub session: u16,
    pub serial: u32,
    pub cur: Vec<Item>,
    pub hist: Vec<(u32, Vec<Item>)>,
    pub timing: Timing,
    /// a source that publishes its next version right after handing out a snapshot or a diff (before the
    /// server has written the End of Data)
    pub race: bool,
}

impl SrcState {
    fn advance_if_racing(&mut self) {
        if !self.race { return }
        let (os, oc) = (self.serial, self.cur.clone());
        self.hist.insert(0, (os, oc));
        self.serial = self.serial.wrapping_add(1);
        if let Some(p) = self.cur.iter().position(|i| *i == Item::Origin(11)) { self.cur.remove(p); } else { self.cur.push(Item::Origin(11)); self.cur.sort(); }
    }
}

#[derive(Clone)]
pub struct HistSource(pub Arc<Mutex<SrcState>>);

pub struct SetIter { items: Vec<Payload>, idx: usize }
impl PayloadSet for SetIter {
    fn next(&mut self) -> Option<PayloadRef<'_>> { let i = self.idx; self.idx += 1; self.items.get(i).map(|p| p.as_ref()) }
}
pub struct DiffIter { items: Vec<(Payload, Action)>, idx: usize }
impl PayloadDiff for DiffIter {
    fn next(&mut self) -> Option<(PayloadRef<'_>, Action)> { let i = self.idx; self.idx += 1; self.items.get(i).map(|(p, a)| (p.as_ref(), *a)) }
}

impl PayloadSource for HistSource {
    type Set = SetIter;
    type Diff = DiffIter;
    fn ready(&self) -> bool { true }
    fn notify(&self) -> State { let s = self.0.lock().unwrap(); State::from_parts(s.session, Serial(s.serial)) }
    fn full(&self) -> (State, SetIter) {
        let mut s = self.0.lock().unwrap();
        let res = (State::from_parts(s.session, Serial(s.serial)), SetIter { items: s.cur.iter().map(|i| payload_of(*i)).collect(), idx: 0 });
        s.advance_if_racing();
        res
    }
    fn diff(&self, state: State) -> Option<(State, DiffIter)> {
        let mut s = self.0.lock().unwrap();
        if state.session() != s.session { return None; }
        let ser = u32::from(state.serial());
        let old: Vec<Item> = if ser == s.serial { s.cur.clone() } else { s.hist.iter().find(|e| e.0 == ser)?.1.clone() };
        let mut items = Vec::new();
        for x in &old { if !s.cur.iter().any(|y| same_key(*x, *y)) { items.push((payload_of(*x), Action::Withdraw)); } }
        for y in &s.cur { if !old.contains(y) { items.push((payload_of(*y), Action::Announce)); } }
        let res = Some((State::from_parts(s.session, Serial(s.serial)), DiffIter { items, idx: 0 }));
        s.advance_if_racing();
        res
    }
    fn timing(&self) -> Timing { self.0.lock().unwrap().timing }
}

// ---------------------------------------------------------------- the recording target

#[derive(Default)]
pub struct Rec { pub resets: Vec<bool>, pub applied: Vec<(Vec<(Action, Payload)>, Timing)> }
pub struct RecTarget(pub Arc<Mutex<Rec>>);
impl PayloadTarget for RecTarget {
    type Update = Vec<(Action, Payload)>;
    fn start(&mut self, reset: bool) -> Self::Update { self.0.lock().unwrap().resets.push(reset); Vec::new() }
    fn apply(&mut self, update: Self::Update, timing: Timing) -> Result<(), PayloadError> {
        self.0.lock().unwrap().applied.push((update, timing)); Ok(())
    }
}

/// A peer that only speaks protocol versions up to `cap`: higher ones are answered with an
/// Error PDU (code 4) in version `cap`; everything else is forwarded to the real server.
async fn relay(mut from_client: Sock, to_server: Pipe, to_client: Pipe, cap: u8) {
    loop {
        let mut h = [0u8; 8];
        if from_client.read_exact(&mut h).await.is_err() { to_server.close(); return; }
        let mut rest = Vec::new();
        if h[1] == 1 && u32::from_be_bytes([h[4], h[5], h[6], h[7]]) == 12 {
            rest = vec![0u8; 4];
            if from_client.read_exact(&mut rest).await.is_err() { to_server.close(); return; }
        }
        if h[0] > cap {
            let mut e = vec![cap, 10, 0, 4, 0, 0, 0, 16, 0, 0, 0, 0, 0, 0, 0, 0];
            e[7] = 16;
            to_client.push(&e);
        } else {
            to_server.push(&h);
            if !rest.is_empty() { to_server.push(&rest); }
        }
    }
}

fn apply_updates(data: &mut Vec<Item>, reset: bool, upd: &[(Action, Payload)]) -> Result<(), String> {
    if reset { data.clear(); }
    for (a, p) in upd {
        let it = match item_of(p) { Some(i) => i, None => return Err(format!("foreign-payload {:?}", p)) };
        data.retain(|y| !same_key(it, *y));
        if let Action::Announce = a { data.push(it); }
    }
    Ok(())
}

fn restrict(v: u8, s: &[Item]) -> Vec<Item> {
    let mut r: Vec<Item> = s.iter().filter(|i| match i { Item::Origin(_) => true, Item::Key(_) => v >= 1, Item::Aspa(..) => v >= 2 }).cloned().collect();
    r.sort(); r
}

pub fn exec(toks: &[&str]) -> String {
    match toks {
        ["case", init, cap, state0, evs @ ..] => {
            let init: u8 = init.parse().unwrap();
            let cap: Option<u8> = if *cap == "-" { None } else { Some(cap.parse().unwrap()) };
            let state0 = state0.to_string();
            let evs: Vec<String> = evs.iter().map(|s| s.to_string()).collect();
            let rt = tokio::runtime::Builder::new_current_thread().enable_time().start_paused(true).build().unwrap();
            rt.block_on(async move {
                let session0: u16 = 7;
                let serial0: u32 = 4294967294;
                let src = HistSource(Arc::new(Mutex::new(SrcState {
                    session: session0, serial: serial0, cur: vec![Item::Origin(0), Item::Key(0), Item::Aspa(0, 1)],
                    hist: vec![], timing: Timing { refresh: 1800, retry: 300, expire: 7000 }, race: false })));
                let c2r = Pipe::default(); let r2s = Pipe::default(); let s2c = Pipe::default();
                let server_sock = Sock { rx: r2s.clone(), tx: s2c.clone() };
                let mut notify = NotifySender::new();
                let listener = futures_util::stream::iter(vec![Ok::<Sock, std::io::Error>(server_sock)]);
                let h1 = tokio::spawn(Server::new(listener, notify.clone(), src.clone()).run());
                let h2 = tokio::spawn(relay(Sock { rx: c2r.clone(), tx: Pipe::default() }, r2s.clone(), s2c.clone(), cap.unwrap_or(255)));
                settle(&[&c2r, &r2s, &s2c]).await;
                let rec = Arc::new(Mutex::new(Rec::default()));
                // the client's initial state and the data that goes with it
                let negotiated = init.min(2).min(cap.unwrap_or(255));
                let (st0, mut data): (Option<State>, Vec<Item>) = match state0.as_str() {
                    "none" => (None, vec![]),
                    "cur" => (Some(State::from_parts(session0, Serial(serial0))), restrict(negotiated, &src.0.lock().unwrap().cur)),
                    "stale" => (Some(State::from_parts(session0, Serial(12345))), vec![Item::Origin(9)]),
                    "foreign" => (Some(State::from_parts(99, Serial(serial0))), vec![Item::Origin(9)]),
                    _ => return "bad-op".to_string(),
                };
                let mut client = Client::with_initial_version(init, Sock { rx: s2c.clone(), tx: c2r.clone() }, RecTarget(rec.clone()), st0);
                let mut out: Vec<String> = Vec::new();
                let mut new_session = 8u16;
                for e in &evs {
                    if e == "s" {
                        let before = rec.lock().unwrap().applied.len();
                        let r = tokio::time::timeout(std::time::Duration::from_secs(100_000), client.step()).await;
                        match r {
                            Ok(Ok(())) => {
                                let rc = rec.lock().unwrap();
                                if rc.applied.len() != before + 1 { out.push("ok-without-apply".into()); continue; }
                                let (upd, timing) = rc.applied.last().unwrap();
                                let reset = *rc.resets.last().unwrap();
                                let st = client.state();
                                let s = src.0.lock().unwrap();
                                // ---- the property itself, decided on the implementation's own outputs
                                let mut verdict = String::new();
                                if let Err(m) = apply_updates(&mut data, reset, upd) { verdict = m; }
                                let ver = if upd.iter().any(|(_, p)| matches!(p, Payload::Aspa(_))) { 2 } else { negotiated };
                                let _ = ver;
                                let mut have = data.clone(); have.sort();
                                // the data the source reported for the state the client now holds (the state named in the
                                // End of Data): the current one, or - with a racing source - the one handed out last
                                let reported: Option<Vec<Item>> = st.and_then(|x| {
                                    if x.session() != s.session { None }
                                    else if u32::from(x.serial()) == s.serial && !s.race { Some(s.cur.clone()) }
                                    else if s.race { s.hist.iter().find(|e| e.0 == u32::from(x.serial())).map(|e| e.1.clone()).filter(|_| s.hist.first().map(|e| e.0) == Some(u32::from(x.serial()))) }
                                    else { None }
                                });
                                let st_ok = reported.is_some();
                                if verdict.is_empty() && st_ok && have != restrict(negotiated, reported.as_ref().unwrap()) { verdict = "DATA-MISMATCH".into(); }
                                if verdict.is_empty() && !st_ok { verdict = "STATE-MISMATCH".into(); }
                                if verdict.is_empty() && negotiated >= 1 && (timing.refresh != s.timing.refresh || timing.retry != s.timing.retry || timing.expire != s.timing.expire) { verdict = "TIMING-MISMATCH".into(); }
                                let ups: Vec<String> = upd.iter().map(|(a, p)| {
                                    let w = matches!(a, Action::Withdraw);
                                    format!("{}{}", if w { "-" } else { "+" }, item_of(p).map(|i| show_item(i, w)).unwrap_or_else(|| "?".into()))
                                }).collect();
                                out.push(format!("ok:r{}:{}:{}:{}:{}{}",
                                    reset as u8,
                                    st.map(|x| format!("{}.{}", x.session(), u32::from(x.serial()))).unwrap_or_else(|| "-".into()),
                                    timing.refresh,
                                    if ups.is_empty() { "-".into() } else { ups.join(",") },
                                    if verdict.is_empty() { "good" } else { "BAD" },
                                    if verdict.is_empty() { String::new() } else { format!("={}", verdict) }));
                            }
                            Ok(Err(_)) => { out.push("fail".into()); break; }
                            Err(_) => { out.push("timeout".into()); break; }
                        }
                    } else if e == "n" {
                        notify.notify();
                        settle(&[&c2r, &r2s, &s2c]).await;
                    } else if let Some(t) = e.strip_prefix('t') {
                        let Ok(n) = t.parse::<u32>() else { return "bad-op".to_string() };
                        let mut s = src.0.lock().unwrap();
                        s.timing = Timing { refresh: n, retry: 300 + n % 7, expire: 7200 + n };
                    } else if e == "r1" || e == "r0" {
                        src.0.lock().unwrap().race = e == "r1";
                    } else if e == "ns" {
                        let mut s = src.0.lock().unwrap();
                        s.session = new_session; new_session += 1; s.hist.clear();
                    } else if let Some(u) = e.strip_prefix('u') {
                        let (keep, items) = u.split_at(1);
                        let items = &items[1..];
                        let mut set: Vec<Item> = if items == "-" { vec![] } else {
                            match items.split(',').map(parse_item).collect::<Option<Vec<_>>>() { Some(v) => v, None => return "bad-op".to_string() } };
                        set.sort(); set.dedup();
                        let mut s = src.0.lock().unwrap();
                        let (os, oc) = (s.serial, s.cur.clone());
                        if keep == "1" { s.hist.insert(0, (os, oc)); } else { s.hist.clear(); }
                        s.serial = s.serial.wrapping_add(1);
                        s.cur = set;
                    } else { return "bad-op".to_string(); }
                }
                h1.abort(); h2.abort();
                if out.is_empty() { "-".to_string() } else { out.join(" ") }
            })
        }
        _ => "bad-op".into(),
    }
}

fn random_set(rng: &mut Rng) -> Vec<String> {
    let mut v: Vec<String> = Vec::new();
    for i in 0..12 { if rng.chance(1, 3) { v.push(format!("o{}", i)); } }
    for i in 0..4 { if rng.chance(1, 3) { v.push(format!("k{}", i)); } }
    for c in 0..4 { if rng.chance(1, 3) { v.push(format!("a{}.{}", c, rng.below(4))); } }
    v
}

pub fn generate(ctx: &mut Ctx) {
    let mut rng = Rng::new(ctx.seed ^ 0xC06);
    let n = if ctx.tier_thorough { 400_000 } else { 25_000 };
    // deterministic core: every initial version x cap x initial state, one and two steps
    for init in [0u8, 1, 2, 3] { for cap in ["-", "0", "1", "2"] { for st in ["none", "cur", "stale", "foreign"] {
        ctx.case(&format!("case {} {} {} s", init, cap, st));
        ctx.case(&format!("case {} {} {} s u1:o1,k1,a0.2,a1.0 n s", init, cap, st));
        ctx.case(&format!("case {} {} {} u1:o1,o2 u0:o3,a0.3 s u1:- n s ns n s", init, cap, st));
        ctx.case(&format!("case {} {} {} r1 s n s u1:o1,k1 n s r0 n s", init, cap, st));
    }}}
    for _ in 0..n {
        let init = rng.below(4);
        let cap = *rng.pick(&["-", "-", "0", "1", "2"]);
        let st = *rng.pick(&["none", "none", "cur", "stale", "foreign"]);
        let mut evs: Vec<String> = Vec::new();
        let steps = rng.range(1, 6);
        for _ in 0..steps {
            for _ in 0..rng.below(3) {
                let set = random_set(&mut rng);
                evs.push(format!("u{}:{}", if rng.chance(3, 4) { 1 } else { 0 }, if set.is_empty() { "-".into() } else { set.join(",") }));
            }
            if rng.chance(1, 12) { evs.push("ns".into()); }
            // the source publishes again while a response is being written
            if rng.chance(1, 10) { evs.push(if rng.chance(2, 3) { "r1".into() } else { "r0".into() }); }
            // the source's timing values change too, on a connection that stays open
            if rng.chance(1, 4) { evs.push(format!("t{}", rng.range(1, 86400))); }
            // the client waits for a Serial Notify (or its refresh timer) before every step but the first
            if !evs.iter().all(|e| e != "s") && rng.chance(4, 5) { evs.push("n".into()); }
            // rarely: a notification before the first step, or two in a row (the step then fails)
            if rng.chance(1, 25) { evs.push("n".into()); }
            evs.push("s".into());
        }
        ctx.case(&format!("case {} {} {} {}", init, cap, st, evs.join(" ")));
    }
}
