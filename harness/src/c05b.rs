//! C05 (second part) — encoders tied to the Lean codec models.
//!
//! op:  crlx <entries> <probes>
//!   entries = serialhex@unixtime,… | -     probes = serialhex,… | -
//!   TbsCertList::new(entries).into_crl(..) => <hex of the revokedCertificates value (with its SEQUENCE
//!   header; `-` when the list is empty)> <contains bits for the probes, before cache_serials>
//!   <the same after cache_serials> <number of entries the iterator yields>
use crate::c01;
use crate::pki::Pool;
use crate::rng::{hex, unhex, Rng};
use crate::Ctx;
use bcder::encode::Values;
use bcder::Mode;
use rpki::crypto::signer::Signer;
use rpki::repository::crl::{CrlEntry, TbsCertList};
use rpki::repository::x509::Serial;
use std::sync::OnceLock;

static POOL: OnceLock<Pool> = OnceLock::new();

pub fn exec(toks: &[&str]) -> String {
    match toks {
        ["crlx", entries, probes] => {
            let pool = POOL.get_or_init(|| Pool::new(1));
            let mut es = Vec::new();
            if *entries != "-" {
                for e in entries.split(',') {
                    let mut it = e.split('@');
                    let (Some(s), Some(t)) = (it.next().and_then(unhex), it.next().and_then(|t| t.parse::<i64>().ok())) else { return "bad-op".into() };
                    let Ok(serial) = Serial::from_slice(&s) else { return "bad-serial".into() };
                    es.push(CrlEntry::new(serial, c01::time(t)));
                }
            }
            let mut ps = Vec::new();
            if *probes != "-" {
                for p in probes.split(',') {
                    let Some(Ok(s)) = unhex(p).map(|b| Serial::from_slice(&b)) else { return "bad-op".into() };
                    ps.push(s);
                }
            }
            let info = pool.signer.get_key_info(&pool.keys[0].id).unwrap();
            let tbs = TbsCertList::new(Default::default(), info.to_subject_name(), c01::time(1_700_000_000),
                c01::time(1_800_000_000), es, info.key_identifier(), Serial::from(1u64));
            let Ok(mut crl) = tbs.into_crl(&pool.signer, &pool.keys[0].id) else { return "build-err".into() };
            let list = crl.as_cert_list().revoked_certs().encode_ref().to_captured(Mode::Der);
            let before: String = ps.iter().map(|s| if crl.contains(*s) { '1' } else { '0' }).collect();
            let n = crl.as_cert_list().revoked_certs().iter().count();
            crl.cache_serials();
            let after: String = ps.iter().map(|s| if crl.contains(*s) { '1' } else { '0' }).collect();
            format!("{} {} {} {}", hex(list.as_slice()), if before.is_empty() { "-".into() } else { before },
                if after.is_empty() { "-".into() } else { after }, n)
        }
        _ => "bad-op".into(),
    }
}

pub fn generate_into(ctx: &mut Ctx) {
    let mut rng = Rng::new(ctx.seed ^ 0xC05B);
    let n = if ctx.tier_thorough { 3000 } else { 400 };
    let serial = |rng: &mut Rng| -> Vec<u8> {
        match rng.below(8) {
            0 => vec![0], 1 => vec![1], 2 => vec![0x7f], 3 => vec![0x80], 4 => vec![0xff], 5 => vec![1, 0],
            6 => { let mut v = rng.bytes(20); v[0] &= 0x7f; v }
            _ => { let l = rng.range(1, 8) as usize; rng.bytes(l) }
        }
    };
    for _ in 0..n {
        let k = match rng.below(8) { 0 => 0, 1 => rng.range(20, 120), _ => rng.range(1, 6) } as usize;
        let mut es: Vec<(Vec<u8>, i64)> = (0..k).map(|_| (serial(&mut rng), match rng.below(4) {
            0 => -631152001, 1 => 2524608000 + rng.below(10) as i64 - 5, 2 => 2524607999, _ => rng.below(4_000_000_000) as i64 })).collect();
        if rng.chance(1, 4) && !es.is_empty() { let d = es[rng.below(es.len() as u64) as usize].clone(); es.push(d); }
        let mut probes: Vec<Vec<u8>> = es.iter().take(6).map(|e| e.0.clone()).collect();
        for _ in 0..3 { probes.push(serial(&mut rng)); }
        let show = |v: &Vec<u8>| if v.is_empty() { "00".to_string() } else { hex(v) };
        ctx.case(&format!("crlx {} {}",
            if es.is_empty() { "-".into() } else { es.iter().map(|(s, t)| format!("{}@{}", show(s), t)).collect::<Vec<_>>().join(",") },
            probes.iter().map(show).collect::<Vec<_>>().join(",")));
    }
}
