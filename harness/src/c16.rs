//! C16 — RTR serial numbers (src/rtr/state.rs).
use crate::rng::Rng;
use crate::Ctx;
use rpki::rtr::state::Serial;
use std::cmp::Ordering;

fn show_ord(o: Option<Ordering>) -> &'static str {
    match o {
        Some(Ordering::Less) => "lt",
        Some(Ordering::Equal) => "eq",
        Some(Ordering::Greater) => "gt",
        None => "none",
    }
}

fn cmp(a: u32, b: u32) -> &'static str {
    let r = show_ord(Serial(a).partial_cmp(&Serial(b)));
    // `==` must agree with partial_cmp == Equal.
    let eq = Serial(a) == Serial(b);
    if eq != (r == "eq") {
        return "eq-disagrees";
    }
    // the comparison operators are separate (overridable) trait methods: they must say what partial_cmp says
    let (x, y) = (Serial(a), Serial(b));
    let want = match r { "lt" => (true, true, false, false), "eq" => (false, true, false, true),
                         "gt" => (false, false, true, true), _ => (false, false, false, false) };
    if (x < y, x <= y, x > y, x >= y) != want {
        return "operators-disagree-with-partial_cmp";
    }
    r
}

pub fn exec(toks: &[&str]) -> String {
    match toks {
        ["cmp", a, b] => {
            let (a, b): (u32, u32) = (a.parse().unwrap(), b.parse().unwrap());
            cmp(a, b).to_string()
        }
        ["add", a, n] => {
            let (a, n): (u32, u32) = (a.parse().unwrap(), n.parse().unwrap());
            format!("ok {}", u32::from(Serial(a).add(n)))
        }
        ["wire", a] => {
            // What the packed PDU structs put on the wire: the in-memory
            // bytes of `to_be()`.
            let a: u32 = a.parse().unwrap();
            let b = Serial(a).to_be().to_ne_bytes();
            format!("{} {} {} {}", b[0], b[1], b[2], b[3])
        }
        ["unwire", b3, b2, b1, b0] => {
            let b: [u8; 4] = [
                b3.parse().unwrap(), b2.parse().unwrap(),
                b1.parse().unwrap(), b0.parse().unwrap(),
            ];
            format!("{}", u32::from(Serial::from_be(u32::from_ne_bytes(b))))
        }
        ["sweep", base, n] => {
            let base: u32 = base.parse().unwrap();
            let n: u64 = n.parse().unwrap();
            let mut out = String::new();
            let mut prev = "";
            for d in 0..n {
                let v = cmp(base, base.wrapping_add(d as u32));
                if d == 0 || v != prev {
                    if d != 0 {
                        out.push(',');
                    }
                    out.push_str(&format!("{}:{}", d, v));
                    prev = v;
                }
            }
            out
        }
        _ => "bad-op".to_string(),
    }
}

pub fn generate(ctx: &mut Ctx) {
    let mut rng = Rng::new(ctx.seed);
    let half: u64 = 1 << 31;
    let full: u64 = 1 << 32;
    let bases: Vec<u32> = vec![
        0, 1, 0x7FFF_FFFF, 0x8000_0000, 0x8000_0001, 0xFFFF_FFFE, 0xFFFF_FFFF,
        rng.next() as u32,
    ];
    let span: u64 = 1 << 10;
    let mut diffs: Vec<u64> = Vec::new();
    diffs.extend(0..=span);
    diffs.extend(half - span..=half + span);
    diffs.extend(full - span..full);
    for &a in &bases {
        for &d in &diffs {
            let b = a.wrapping_add(d as u32);
            ctx.case(&format!("cmp {} {}", a, b));
        }
        for &d in &diffs {
            ctx.case(&format!("add {} {}", a, d));
        }
        ctx.case(&format!("wire {}", a));
        let by = a.to_be_bytes();
        ctx.case(&format!("unwire {} {} {} {}", by[0], by[1], by[2], by[3]));
    }
    for _ in 0..100_000 {
        let a = rng.next() as u32;
        let b = match rng.below(4) {
            0 => rng.next() as u32,
            1 => a.wrapping_add(rng.below(4) as u32),
            2 => a.wrapping_add((half - 2 + rng.below(5)) as u32),
            _ => a.wrapping_sub(rng.below(4) as u32),
        };
        ctx.case(&format!("cmp {} {}", a, b));
        if rng.chance(1, 4) {
            ctx.case(&format!("add {} {}", a, b));
            ctx.case(&format!("wire {}", b));
            let by = rng.next() as u32;
            let by = by.to_be_bytes();
            ctx.case(&format!("unwire {} {} {} {}", by[0], by[1], by[2], by[3]));
        }
    }
    if ctx.tier_thorough {
        for &a in &bases {
            ctx.case(&format!("sweep {} {}", a, full));
        }
    } else {
        for &a in &bases {
            ctx.case(&format!("sweep {} {}", a, 1u64 << 16));
        }
    }
}
