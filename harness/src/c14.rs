//! C14 — manifest entries (src/repository/manifest.rs).
//!
//! ops:
//!   mft <content-der-hex> <base-uri-hex>
//!        ManifestContent::take_from via Mode::Der.decode, then len(), iter(), iter_uris(base)
//!        => err | ok <len> <this> <next> <names> <hashes> <uris>
//!           (lists are `;`-joined hex, `-` for an empty list, `panic` if the accessor panicked)
//!   hash <hash-hex> <data-hex>       ManifestHash::verify => ok | err
//!   full <strict> <manifest-der-hex> <base-uri-hex>   Manifest::decode (CMS envelope) => as mft
use crate::der;
use crate::rng::{hex, unhex, Rng};
use crate::Ctx;
use bcder::Mode;
use bytes::Bytes;
use chrono::{Datelike, Timelike};
use rpki::crypto::DigestAlgorithm;
use rpki::repository::manifest::{Manifest, ManifestContent, ManifestHash};
use rpki::repository::x509::Time;
use rpki::uri;

fn show_time(t: Time) -> String {
    format!("{:04}{:02}{:02}{:02}{:02}{:02}", t.year(), t.month(), t.day(), t.hour(), t.minute(), t.second())
}

fn join(items: &[Vec<u8>]) -> String {
    if items.is_empty() {
        return "-".into();
    }
    items.iter().map(|i| if i.is_empty() { "e".to_string() } else { hex(i) }).collect::<Vec<_>>().join(";")
}

fn describe(content: &ManifestContent, base: &uri::Rsync) -> String {
    let len = content.len();
    let this = show_time(content.this_update());
    let next = show_time(content.next_update());
    let c1 = content.clone();
    let pairs = std::panic::catch_unwind(move || {
        c1.iter().map(|e| {
            let (f, h) = e.into_pair();
            (f.to_vec(), h.to_vec())
        }).collect::<Vec<_>>()
    });
    let (names, hashes) = match pairs {
        Ok(p) => (
            join(&p.iter().map(|x| x.0.clone()).collect::<Vec<_>>()),
            join(&p.iter().map(|x| x.1.clone()).collect::<Vec<_>>()),
        ),
        Err(_) => ("panic".to_string(), "panic".to_string()),
    };
    let c2 = content.clone();
    let b2 = base.clone();
    let uris = std::panic::catch_unwind(move || {
        c2.iter_uris(&b2).map(|(u, _)| u.as_slice().to_vec()).collect::<Vec<_>>()
    });
    let uris = match uris {
        Ok(u) => join(&u),
        Err(_) => "panic".to_string(),
    };
    format!("ok {} {} {} {} {} {}", len, this, next, names, hashes, uris)
}

pub fn exec(toks: &[&str]) -> String {
    match toks {
        ["mft", content, base] => {
            let Some(content) = unhex(content) else { return "bad-op".into() };
            let Some(base) = unhex(base) else { return "bad-op".into() };
            let Ok(base) = uri::Rsync::from_slice(&base) else { return "bad-op".into() };
            match Mode::Der.decode(Bytes::from(content), ManifestContent::take_from) {
                Err(_) => "err".into(),
                Ok(c) => describe(&c, &base),
            }
        }
        ["full", strict, mft, base] => {
            let Some(mft) = unhex(mft) else { return "bad-op".into() };
            let Some(base) = unhex(base) else { return "bad-op".into() };
            let Ok(base) = uri::Rsync::from_slice(&base) else { return "bad-op".into() };
            match Manifest::decode(Bytes::from(mft), *strict == "1") {
                Err(_) => "err".into(),
                Ok(m) => describe(m.content(), &base),
            }
        }
        ["enc", number, this, next, files] => {
            // the library's encoder: ManifestContent::new(..).encode_ref() => DER hex
            use rpki::repository::manifest::FileAndHash;
            use rpki::repository::x509::Serial;
            use chrono::TimeZone;
            let Some(num) = unhex(number) else { return "bad-op".into() };
            let Ok(serial) = Serial::from_slice(&num) else { return "bad-serial".into() };
            let (Ok(t), Ok(n)) = (this.parse::<i64>(), next.parse::<i64>()) else { return "bad-op".into() };
            let (Some(t), Some(n)) = (chrono::Utc.timestamp_opt(t, 0).single(), chrono::Utc.timestamp_opt(n, 0).single()) else { return "bad-op".into() };
            let mut fs = Vec::new();
            if *files != "-" {
                for f in files.split(';') {
                    let mut it = f.split(':');
                    let (Some(a), Some(b)) = (it.next().and_then(unhex), it.next().and_then(unhex)) else { return "bad-op".into() };
                    fs.push(FileAndHash::new(a, b));
                }
            }
            let c = ManifestContent::new(serial, Time::new(t), Time::new(n), DigestAlgorithm::sha256(), fs.iter());
            use bcder::encode::Values;
            hex(c.encode_ref().to_captured(Mode::Der).as_slice())
        }
        ["hash", h, data] => {
            let Some(h) = unhex(h) else { return "bad-op".into() };
            let Some(data) = unhex(data) else { return "bad-op".into() };
            let mh = ManifestHash::new(Bytes::from(h), DigestAlgorithm::sha256());
            match mh.verify(&data) {
                Ok(()) => "ok".into(),
                Err(_) => "err".into(),
            }
        }
        _ => "bad-op".into(),
    }
}

//------------ generation ----------------------------------------------------

const NAME_ALPHA: &[u8] = b"aZ0-_./\0~";

pub struct MftSpec {
    pub version: Option<Vec<u8>>,          // content of the [0] wrapper
    pub number: Vec<u8>,                   // big-endian magnitude
    pub this: (i32, u32, u32, u32, u32, u32, bool),   // …, utc?
    pub next: (i32, u32, u32, u32, u32, u32, bool),
    pub alg: Vec<u64>,
    pub entries: Vec<Vec<u8>>,             // already encoded entries
    pub trailing: Vec<u8>,
}

pub fn entry(name: &[u8], unused: u8, hash: &[u8]) -> Vec<u8> {
    der::seq(&[der::ia5(name), der::bits(unused, hash)])
}

fn time(t: (i32, u32, u32, u32, u32, u32, bool)) -> Vec<u8> {
    if t.6 { der::utc_time(t.0, t.1, t.2, t.3, t.4, t.5) } else { der::gen_time(t.0, t.1, t.2, t.3, t.4, t.5) }
}

pub fn encode(s: &MftSpec) -> Vec<u8> {
    let mut parts = Vec::new();
    if let Some(v) = &s.version {
        parts.push(der::ctx(0, true, v));
    }
    parts.push(der::uint(&s.number));
    parts.push(time(s.this));
    parts.push(time(s.next));
    parts.push(der::oid(&s.alg));
    parts.push(der::seq(&s.entries));
    let mut r = der::seq(&parts);
    r.extend_from_slice(&s.trailing);
    r
}

pub const SHA256: &[u64] = &[2, 16, 840, 1, 101, 3, 4, 2, 1];

fn good_name(rng: &mut Rng) -> Vec<u8> {
    const STEM: &[u8] = b"abcxyzABCXYZ0189-_";
    const EXT: &[u8] = b"acermftolgbrsigCERZ";
    let lo = if rng.chance(1, 12) { 0 } else { 1 };
    let n = rng.range(lo, 12) as usize;
    let mut v: Vec<u8> = (0..n).map(|_| *rng.pick(STEM)).collect();
    v.push(b'.');
    for _ in 0..3 {
        v.push(*rng.pick(EXT));
    }
    v
}

fn hostile_name(rng: &mut Rng) -> Vec<u8> {
    match rng.below(8) {
        0 => {
            let n = rng.range(0, 5) as usize;
            (0..n).map(|_| *rng.pick(NAME_ALPHA)).collect()
        }
        1 => rng.pick(&[&b".."[..], b".", b"", b"a/b.cer", b"/abs.cer", b"../x.cer", b"a.cer/", b"./a.cer",
                        b"a..cer", b"a.b.cer", b"a.ce", b"a.cert", b"a.c3r", b"a.ce-", b".cer", b"..cer",
                        b"a.cer\0", b"a b.cer", b"\xc3\xa9.cer", b"a.cer\n", b"a%2f.cer", b"A_-9.Zzz"]).to_vec(),
        2 => {
            // long names
            let n = *rng.pick(&[127usize, 128, 255, 256, 1000, 70000]);
            let mut v = vec![b'a'; n];
            v.extend_from_slice(b".roa");
            v
        }
        3 => {
            // a good name with one character replaced
            let mut v = good_name(rng);
            let i = rng.below(v.len() as u64) as usize;
            v[i] = *rng.pick(NAME_ALPHA);
            v
        }
        4 => {
            // a good name with one character inserted
            let mut v = good_name(rng);
            let i = rng.below(v.len() as u64 + 1) as usize;
            v.insert(i, *rng.pick(NAME_ALPHA));
            v
        }
        5 => {
            // wrong extension length / class
            let mut v = b"obj.".to_vec();
            let n = rng.range(0, 5) as usize;
            for _ in 0..n {
                v.push(*rng.pick(b"abZ09-_."));
            }
            v
        }
        6 => {
            let mut v = good_name(rng);
            v[0] = rng.next() as u8;
            v
        }
        _ => good_name(rng),
    }
}

fn rand_time(rng: &mut Rng) -> (i32, u32, u32, u32, u32, u32, bool) {
    let y = *rng.pick(&[1950, 1999, 2000, 2024, 2025, 2026, 2049, 2050, 2100, 9999]);
    let utc = (1950..=2049).contains(&y) && rng.chance(1, 3);
    (y, rng.range(1, 12) as u32, rng.range(1, 28) as u32, rng.range(0, 23) as u32, rng.range(0, 59) as u32,
     rng.range(0, 59) as u32, utc)
}

fn bases(rng: &mut Rng) -> Vec<u8> {
    rng.pick(&[&b"rsync://h/m/"[..], b"rsync://h/m/a/b", b"rsync://h/m/a/", b"rsync://host.example/mod/dir/x.mft",
               b"rsync://h/m/x", b"rsync://H.example:873/Mod/a_b/c-d/"]).to_vec()
}

pub fn base_spec(rng: &mut Rng) -> MftSpec {
    let this = rand_time(rng);
    let mut next = rand_time(rng);
    if rng.chance(3, 4) {
        // mostly ordered
        if (next.0, next.1, next.2, next.3, next.4, next.5) < (this.0, this.1, this.2, this.3, this.4, this.5) {
            next = this;
            if rng.bool() && next.5 < 59 { next.5 += 1; }
        }
    }
    if rng.chance(1, 10) {
        next = this;
    }
    if rng.chance(1, 10) {
        // inverted by less than a day: seconds, minutes or hours
        next = this;
        match rng.below(3) {
            0 if next.5 > 0 => next.5 -= 1,
            1 if next.4 > 0 => next.4 = rng.below(next.4 as u64) as u32,
            _ if next.3 > 0 => next.3 = rng.below(next.3 as u64) as u32,
            _ => {}
        }
    }
    let nlen = rng.range(1, 4) as usize;
    MftSpec {
        version: if rng.chance(1, 5) { Some(vec![2, 1, 0]) } else { None },
        number: rng.bytes(nlen).iter().enumerate().map(|(i, b)| if i == 0 { b & 0x7f } else { *b }).collect(),
        this, next,
        alg: SHA256.to_vec(),
        entries: vec![],
        trailing: vec![],
    }
}

pub fn generate(ctx: &mut Ctx) {
    let mut rng = Rng::new(ctx.seed ^ 0xC14);
    let n = if ctx.tier_thorough { 60000 } else { 6000 };
    // exhaustive short names over the hostile alphabet (length <= 3 quick, <= 4 thorough) as single entries
    let maxlen = if ctx.tier_thorough { 4 } else { 3 };
    let mut names: Vec<Vec<u8>> = vec![vec![]];
    let mut frontier: Vec<Vec<u8>> = vec![vec![]];
    for _ in 0..maxlen {
        let mut nf = Vec::new();
        for f in &frontier {
            for c in NAME_ALPHA {
                let mut v = f.clone();
                v.push(*c);
                nf.push(v);
            }
        }
        names.extend(nf.iter().cloned());
        frontier = nf;
    }
    for nm in &names {
        // as a whole name and as the stem of an otherwise valid name
        for variant in 0..2 {
            let mut name = nm.clone();
            if variant == 1 {
                name.extend_from_slice(b".cer");
            }
            let mut s = base_spec(&mut Rng::new(7));
            s.entries.push(entry(&name, 0, &[0x11; 32]));
            ctx.case(&format!("mft {} {}", hex(&encode(&s)), hex(b"rsync://h/m/d/")));
        }
    }
    for i in 0..n {
        let mut s = base_spec(&mut rng);
        let count = match rng.below(10) {
            0 => 0,
            1 => rng.range(20, if ctx.tier_thorough { 2000 } else { 200 }),
            _ => rng.range(1, 6),
        } as usize;
        let hostile = rng.chance(1, 2);
        for _ in 0..count {
            let name = if hostile && rng.chance(1, 3) { hostile_name(&mut rng) } else { good_name(&mut rng) };
            let hlen = if rng.chance(1, 8) { rng.range(0, 64) as usize } else { 32 };
            let mut hash = rng.bytes(hlen);
            let unused = if rng.chance(1, 10) { rng.range(0, 9) as u8 } else { 0 };
            if unused > 0 && unused < 8 && rng.chance(2, 3) {
                if let Some(l) = hash.last_mut() { *l &= !((1u8 << unused) - 1); }
            }
            let mut e = entry(&name, unused, &hash);
            if rng.chance(1, 40) {
                // structural damage inside one entry
                match rng.below(6) {
                    0 => e = der::seq(&[der::utf8(&name), der::bits(0, &hash)]),
                    1 => e = der::seq(&[der::ia5(&name), der::octets(&hash)]),
                    2 => e = der::seq(&[der::ia5(&name)]),
                    3 => e = der::seq(&[der::ia5(&name), der::bits(0, &hash), der::null()]),
                    4 => e = der::tlv(0x31, &der::cat(&[der::ia5(&name), der::bits(0, &hash)])),
                    _ => e = der::seq(&[der::tlv(0x36, &der::ia5(&name)), der::bits(0, &hash)]),
                }
            }
            s.entries.push(e);
        }
        match rng.below(30) {
            0 => s.version = Some(vec![2, 1, 1]),
            1 => s.version = Some(vec![2, 1, 0, 5, 0]),
            2 => s.alg = vec![2, 16, 840, 1, 101, 3, 4, 2, 2],
            3 => s.trailing = vec![5, 0],
            4 => s.number = vec![0x7f; 21],
            5 => s.number = vec![0xff; 20],
            6 => s.entries.push(der::null()),
            _ => {}
        }
        let mut enc = encode(&s);
        if rng.chance(1, 15) {
            // byte-level damage at a TLV boundary or a random position
            let w = der::walk(&enc);
            if !w.is_empty() {
                let (off, h, nlen, _) = *rng.pick(&w);
                match rng.below(4) {
                    0 => enc[off] ^= 1 << rng.below(8),
                    1 => { let p = off + 1 + rng.below((h - 1) as u64) as usize; enc[p] = enc[p].wrapping_add(1); }
                    2 if nlen > 0 => { let p = off + h + rng.below(nlen as u64) as usize; enc[p] ^= 1 << rng.below(8); }
                    _ => { let cut = rng.below(enc.len() as u64) as usize; enc.truncate(cut); }
                }
            }
        }
        let base = bases(&mut rng);
        ctx.case(&format!("mft {} {}", hex(&enc), hex(&base)));
        if i % 4 == 0 {
            let dlen = rng.range(0, 200) as usize;
            let data = rng.bytes(dlen);
            let d = aws_lc_rs::digest::digest(&aws_lc_rs::digest::SHA256, &data);
            let mut h = d.as_ref().to_vec();
            // the deviations a weakened comparison (prefix only, folded with xor / sum, up to the shorter length)
            // would let through, besides the plain ones
            match rng.below(14) {
                0 | 1 => {}
                2 => { let p = rng.below(32) as usize; h[p] ^= 1 << rng.below(8); }
                3 => { h.pop(); }
                4 => { h.push(0); }
                5 => { // two octets changed by the same mask
                    let (p, q) = (rng.below(32) as usize, rng.below(32) as usize); let m = 1u8 << rng.below(8);
                    if p != q { h[p] ^= m; h[q] ^= m; } else { h[p] ^= m; } }
                6 => { let (p, q) = (rng.below(32) as usize, rng.below(32) as usize); h.swap(p, q); }
                7 => { h[31] ^= 0x80; }
                8 => { h[0] ^= 0x01; }
                9 => { let p = rng.below(31) as usize; h[p] = h[p].wrapping_add(1); h[p + 1] = h[p + 1].wrapping_sub(1); }
                10 => { h.reverse(); }
                11 => { h = vec![0; 32]; }
                12 => { let d2 = aws_lc_rs::digest::digest(&aws_lc_rs::digest::SHA256, &[&data[..], &[0u8][..]].concat()); h = d2.as_ref().to_vec(); }
                _ => { h = rng.bytes(32); }
            }
            ctx.case(&format!("hash {} {}", hex(&h), hex(&data)));
        }
    }
    // the encoder: ManifestContent::new + encode_ref on conforming inputs (tied to the Lean encoder model)
    for _ in 0..n / 10 {
        let nl = rng.range(1, 20) as usize;
        let mut num = rng.bytes(nl);
        num[0] &= 0x7f;
        let t = rng.range(0, 4_000_000_000) as i64 - if rng.chance(1, 8) { 5_000_000_000 } else { 0 };
        let nx = t + rng.range(0, 100_000_000) as i64;
        let k = match rng.below(6) { 0 => 0, 1 => rng.range(10, 60), _ => rng.range(1, 4) };
        let fs: Vec<String> = (0..k).map(|_| { let hl = if rng.chance(1, 6) { rng.range(0, 40) as usize } else { 32 }; format!("{}:{}", hex(&good_name(&mut rng)), hex(&rng.bytes(hl))) }).collect();
        ctx.case(&format!("enc {} {} {} {}", hex(&num), t, nx, if fs.is_empty() { "-".into() } else { fs.join(";") }));
    }
    // standard digests
    ctx.case(&format!("hash {} {}", "e3b0c44298fc1c149afbf4c8996fb92427ae41e4649b934ca495991b7852b855", "-"));
    ctx.case(&format!("hash {} {}", "ba7816bf8f01cfea414140de5dae2223b00361a396177a9cb410ff61f20015ad", "616263"));
}
