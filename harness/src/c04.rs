//! C04 — decoders never panic or run away (all decoding entry points, strict and relaxed, and
//! every accessor of a successfully decoded value).
//!
//! op:  dec <entry> <hex>
//!   entry ∈ cert crl mft mftr roa roar aspa aspar rta rtar tal key csr bcsr idcert sigmsg sigmsgr so sor
//!   => err <peak> | ok <peak> | panic@decode | panic@access
//!   (peak = peak heap octets allocated above the level at the start of the case)
use crate::c02;
use crate::der;
use crate::pki::{self, Kind, Pool, Res};
use crate::rng::{hex, unhex, Rng};
use crate::Ctx;
use bytes::Bytes;
use bcder::encode::{PrimitiveContent, Values};
use bcder::Mode;
use rpki::ca::csr::{BgpsecCsr, RpkiCaCsr};
use rpki::ca::idcert::IdCert;
use rpki::ca::sigmsg::SignedMessage;
use rpki::crypto::signer::Signer;
use rpki::crypto::{PublicKey, PublicKeyFormat};
use rpki::repository::aspa::Aspa;
use rpki::repository::cert::Cert;
use rpki::repository::crl::Crl;
use rpki::repository::manifest::Manifest;
use rpki::repository::roa::Roa;
use rpki::repository::rta::Rta;
use rpki::repository::sigobj::SignedObject;
use rpki::repository::tal::Tal;
use rpki::repository::x509::{Serial, Validity};
use rpki::uri;
use std::alloc::{GlobalAlloc, Layout, System};
use std::panic::{catch_unwind, AssertUnwindSafe};
use std::sync::atomic::{AtomicUsize, Ordering};

//------------ counting allocator ---------------------------------------------

pub struct Counting;
static CURRENT: AtomicUsize = AtomicUsize::new(0);
static PEAK: AtomicUsize = AtomicUsize::new(0);

unsafe impl GlobalAlloc for Counting {
    unsafe fn alloc(&self, l: Layout) -> *mut u8 {
        let p = unsafe { System.alloc(l) };
        if !p.is_null() {
            let c = CURRENT.fetch_add(l.size(), Ordering::Relaxed) + l.size();
            PEAK.fetch_max(c, Ordering::Relaxed);
        }
        p
    }
    unsafe fn alloc_zeroed(&self, l: Layout) -> *mut u8 {
        // keep the system allocator's lazily zeroed pages (a memset here would touch every page)
        let p = unsafe { System.alloc_zeroed(l) };
        if !p.is_null() {
            let c = CURRENT.fetch_add(l.size(), Ordering::Relaxed) + l.size();
            PEAK.fetch_max(c, Ordering::Relaxed);
        }
        p
    }
    unsafe fn dealloc(&self, p: *mut u8, l: Layout) {
        unsafe { System.dealloc(p, l) };
        CURRENT.fetch_sub(l.size(), Ordering::Relaxed);
    }
    unsafe fn realloc(&self, p: *mut u8, l: Layout, new: usize) -> *mut u8 {
        let q = unsafe { System.realloc(p, l, new) };
        if !q.is_null() {
            if new >= l.size() {
                let c = CURRENT.fetch_add(new - l.size(), Ordering::Relaxed) + (new - l.size());
                PEAK.fetch_max(c, Ordering::Relaxed);
            } else {
                CURRENT.fetch_sub(l.size() - new, Ordering::Relaxed);
            }
        }
        q
    }
}

fn peak_reset() -> usize {
    let c = CURRENT.load(Ordering::Relaxed);
    PEAK.store(c, Ordering::Relaxed);
    c
}

//------------ accessors ---------------------------------------------------------

fn touch_cert(c: &Cert) {
    let _ = (c.serial_number(), c.issuer(), c.subject(), c.validity(), c.subject_public_key_info().key_identifier(),
        c.subject_key_identifier(), c.authority_key_identifier(), c.basic_ca(), c.key_usage(), c.crl_uri(),
        c.ca_issuer(), c.ca_repository(), c.rpki_manifest(), c.signed_object(), c.rpki_notify(), c.overclaim(),
        c.is_ca(), c.is_self_signed(), c.has_ip_resources());
    let _ = c.v4_resources().to_blocks().map(|b| b.iter().count());
    let _ = c.v6_resources().to_blocks().map(|b| b.iter().count());
    let _ = c.as_resources().to_blocks().map(|b| (b.iter().count(), b.asn_count()));
    let _ = format!("{:?}", c.v4_resources());
    let _ = c.inspect_ca(true);
    let _ = c.inspect_ee(true);
    let _ = c.inspect_router(true);
    let _ = c.inspect_ta(false);
    let _ = c.verify_ta_ref_at(true, crate::c01::time(crate::c01::T0));
}

fn touch_key(k: &PublicKey) {
    let _ = (k.algorithm(), k.bits().len(), k.key_identifier(), k.allow_rpki_cert(), k.allow_router_cert());
    let _ = k.to_info_bytes().len();
    let _ = k.to_subject_name();
}

/// writes the certificate again from its decoded fields (`TbsCert::encode_ref`), and the parts that have their own encoders
fn reenc_cert(c: &Cert) {
    let t: &rpki::repository::cert::TbsCert = c.as_ref();
    let _ = t.encode_ref().to_captured(Mode::Der).len();
    let _ = c.serial_number().encode().to_captured(Mode::Der).len();
    let _ = c.validity().encode().to_captured(Mode::Der).len();
}

fn access(entry: &str, data: &[u8], re: bool) -> bool {
    let b = Bytes::copy_from_slice(data);
    let base = uri::Rsync::from_slice(b"rsync://h/m/d/").unwrap();
    match entry {
        "cert" => Cert::decode(b).map(|c| { touch_cert(&c); if re { let _ = c.to_captured().len(); reenc_cert(&c); } }).is_ok(),
        "crl" => Crl::decode(b).map(|mut c| {
            let l = c.as_cert_list();
            let _ = (l.this_update(), l.next_update(), l.crl_number(), l.authority_key_identifier(), l.issuer(), l.is_stale());
            let n = l.revoked_certs().iter().map(|e| (e.user_certificate, e.revocation_date)).count();
            let _ = c.contains(Serial::from(1u64));
            c.cache_serials();
            let _ = c.contains(Serial::from(n as u64));
            if re {
                let _ = c.to_captured().len();
                // the value is written again from its fields, not from the kept octets
                let _ = c.as_cert_list().encode_ref().to_captured(Mode::Der).len();
                let _ = c.as_cert_list().revoked_certs().encode_ref().to_captured(Mode::Der).len();
                let _ = c.as_cert_list().crl_number().encode().to_captured(Mode::Der).len();
            }
        }).is_ok(),
        "mft" | "mftr" => Manifest::decode(b, entry == "mft").map(|m| {
            let c = m.content();
            let _ = (c.manifest_number(), c.this_update(), c.next_update(), c.len(), c.is_empty(), c.is_stale());
            let _ = c.iter().map(|e| (e.file().len(), e.hash().len())).count();
            let _ = c.iter_uris(&base).map(|(u, h)| (u.as_slice().len(), h.as_slice().len(), h.verify(b"x").is_ok())).count();
            touch_cert(m.cert());
            if re {
                let _ = m.to_captured().len(); let _ = m.cert().to_captured().len();
                let _ = m.content().encode_ref().to_captured(Mode::Der).len();
                reenc_cert(m.cert());
            }
        }).is_ok(),
        "roa" | "roar" => Roa::decode(b, entry == "roa").map(|r| {
            let c = r.content();
            let _ = c.as_id();
            let _ = c.iter().map(|a| (a.prefix(), a.max_length(), a.address_length())).count();
            let _ = c.iter_origins().count();
            let _ = c.v4_addrs().iter().map(|a| (a.range(), a.max_length())).count();
            let _ = c.v6_addrs().iter().map(|a| (a.range(), a.max_length())).count();
            touch_cert(r.cert());
            if re { let _ = r.to_captured().len(); let _ = r.cert().to_captured().len(); let _ = r.content().encode_ref().to_captured(Mode::Der).len(); reenc_cert(r.cert()); }
        }).is_ok(),
        "aspa" | "aspar" => Aspa::decode(b, entry == "aspa").map(|a| {
            let c = a.content();
            let _ = (c.customer_as(), c.provider_as_set().len(), c.provider_as_set().to_set().len());
            let _ = c.provider_as_set().iter().count();
            let _ = c.as_resources();
            touch_cert(a.cert());
            if re { let _ = a.to_captured().len(); let _ = a.cert().to_captured().len(); let _ = a.content().encode_ref().to_captured(Mode::Der).len(); reenc_cert(a.cert()); }
        }).is_ok(),
        "rta" | "rtar" => Rta::decode(b, entry == "rta").map(|r| {
            let c = r.content();
            let _ = (c.subject_keys().len(), c.as_resources().iter().count(), c.v4_resources().iter().count(),
                c.v6_resources().iter().count(), c.digest_algorithm());
            if re { let _ = r.to_captured().len(); }
        }).is_ok(),
        "so" | "sor" => SignedObject::decode(b, entry == "so").map(|o| {
            let _ = (o.content_type().as_ref().len(), o.content().to_bytes().len(), o.signing_time());
            touch_cert(o.cert());
            if re { let _ = o.cert().to_captured().len(); let _ = o.encode_ref(); }
        }).is_ok(),
        "tal" => {
            let mut rd = data;
            Tal::read_named("t".into(), &mut rd).map(|mut t| {
                let _ = t.uris().map(|u| (u.is_rsync(), u.is_https(), u.as_str().len())).count();
                touch_key(t.key_info());
                t.prefer_https();
                let _ = t.info().name().len();
            }).is_ok()
        }
        "key" => PublicKey::decode(b).map(|k| touch_key(&k)).is_ok(),
        "csr" => RpkiCaCsr::decode(b).map(|c| {
            let _ = (c.subject(), c.basic_ca(), c.key_usage(), c.ca_repository(), c.rpki_manifest(), c.rpki_notify());
            touch_key(c.public_key());
            let _ = c.verify_signature();
            if re { let _ = c.to_captured().len(); }
        }).is_ok(),
        "bcsr" => BgpsecCsr::decode(b).map(|c| {
            let _ = c.subject();
            touch_key(c.public_key());
            let _ = c.verify_signature();
        }).is_ok(),
        "idcert" => IdCert::decode(b).map(|c| {
            let _ = (c.serial_number(), c.validity(), c.subject_key_identifier());
            touch_key(c.subject_public_key_info());
            let _ = c.validate_ta_at(crate::c01::time(crate::c01::T0));
            if re { let _ = c.to_captured().len(); }
        }).is_ok(),
        "sigmsg" | "sigmsgr" => SignedMessage::decode(b, entry == "sigmsg").map(|m| {
            let _ = (m.content_type().as_ref().len(), m.content().to_bytes().len());
            // validation builds the signed-attribute value again before it looks at the signature
            static KEY: std::sync::OnceLock<Option<PublicKey>> = std::sync::OnceLock::new();
            if let Some(k) = KEY.get_or_init(|| std::fs::read("/repo/test-data/crypto/rsa-key.public.der").ok()
                .and_then(|b| PublicKey::decode(Bytes::from(b)).ok())) {
                let _ = m.validate_at(k, crate::c01::time(crate::c01::T0));
            }
            if re { let _ = m.to_captured().len(); }
        }).is_ok(),
        _ => false,
    }
}

pub const ENTRIES: &[&str] = &["cert", "crl", "mft", "mftr", "roa", "roar", "aspa", "aspar", "rta", "rtar", "tal",
    "key", "csr", "bcsr", "idcert", "sigmsg", "sigmsgr", "so", "sor"];

static HANGS: AtomicUsize = AtomicUsize::new(0);

/// Runs the case on its own thread; a case that does not finish within five seconds is a hang.
pub fn exec(toks: &[&str]) -> String {
    if HANGS.load(Ordering::SeqCst) >= 3 { return "skipped-after-hangs".into() }
    let owned: Vec<String> = toks.iter().map(|s| s.to_string()).collect();
    let (tx, rx) = std::sync::mpsc::channel();
    std::thread::spawn(move || {
        let v: Vec<&str> = owned.iter().map(|s| s.as_str()).collect();
        let r = catch_unwind(AssertUnwindSafe(|| exec_inner(&v))).unwrap_or_else(|_| "panic".into());
        let _ = tx.send(r);
    });
    match rx.recv_timeout(std::time::Duration::from_secs(5)) {
        Ok(r) => r,
        Err(_) => { HANGS.fetch_add(1, Ordering::SeqCst); "hang".into() }
    }
}

fn exec_inner(toks: &[&str]) -> String {
    match toks {
        ["dec", entry, h] => {
            if !ENTRIES.contains(entry) { return "bad-op".into() }
            let Some(data) = unhex(h) else { return "bad-op".into() };
            let base = peak_reset();
            let entry_s = entry.to_string();
            let d2 = data.clone();
            let r = catch_unwind(AssertUnwindSafe(move || access(&entry_s, &d2, false)));
            match r {
                Ok(false) => format!("err {}", PEAK.load(Ordering::Relaxed).saturating_sub(base)),
                Ok(true) => {
                    // every accessor answered; now the re-encoding of the value and of what it embeds
                    let entry_s = entry.to_string();
                    let d2 = data.clone();
                    let r2 = catch_unwind(AssertUnwindSafe(move || access(&entry_s, &d2, true)));
                    let peak = PEAK.load(Ordering::Relaxed).saturating_sub(base);
                    if r2.is_err() { "panic@reencode".into() } else { format!("ok {}", peak) }
                }
                Err(_) => {
                    // was it the decoder or an accessor?  decode again without touching anything
                    let b = Bytes::from(data);
                    let only = catch_unwind(AssertUnwindSafe(|| match *entry {
                        "cert" => { let _ = Cert::decode(b); }
                        "crl" => { let _ = Crl::decode(b); }
                        "mft" => { let _ = Manifest::decode(b, true); }
                        "mftr" => { let _ = Manifest::decode(b, false); }
                        "roa" => { let _ = Roa::decode(b, true); }
                        "roar" => { let _ = Roa::decode(b, false); }
                        "aspa" => { let _ = Aspa::decode(b, true); }
                        "aspar" => { let _ = Aspa::decode(b, false); }
                        "rta" => { let _ = Rta::decode(b, true); }
                        "rtar" => { let _ = Rta::decode(b, false); }
                        "so" => { let _ = SignedObject::decode(b, true); }
                        "sor" => { let _ = SignedObject::decode(b, false); }
                        "key" => { let _ = PublicKey::decode(b); }
                        "csr" => { let _ = RpkiCaCsr::decode(b); }
                        "bcsr" => { let _ = BgpsecCsr::decode(b); }
                        "idcert" => { let _ = IdCert::decode(b); }
                        "sigmsg" => { let _ = SignedMessage::decode(b, true); }
                        "sigmsgr" => { let _ = SignedMessage::decode(b, false); }
                        _ => { let mut rd: &[u8] = b.as_ref(); let _ = Tal::read_named("t".into(), &mut rd); }
                    }));
                    if only.is_err() { "panic@decode".into() } else { "panic@access".into() }
                }
            }
        }
        _ => "bad-op".into(),
    }
}

//------------ generation ----------------------------------------------------

/// one mutation of either kind (tree-aware or on the raw octets)
pub fn mutate_any(rng: &mut Rng, orig: &[u8], others: &[Vec<u8>]) -> Vec<u8> {
    if rng.bool() { mutate_tree(rng, orig).unwrap_or_else(|| mutate(rng, orig, others)) } else { mutate(rng, orig, others) }
}

fn mutate(rng: &mut Rng, orig: &[u8], others: &[Vec<u8>]) -> Vec<u8> {
    let mut d = orig.to_vec();
    let w = der::walk(&d);
    if w.is_empty() || rng.chance(1, 12) {
        // raw damage
        if d.is_empty() { return d }
        match rng.below(4) {
            0 => { let i = rng.below(d.len() as u64) as usize; d[i] ^= 1 << rng.below(8); }
            1 => { let i = rng.below(d.len() as u64) as usize; d.truncate(i); }
            2 => { let i = rng.below(d.len() as u64) as usize; d.insert(i, rng.next() as u8); }
            _ => { let i = rng.below(d.len() as u64) as usize; d.remove(i); }
        }
        return d;
    }
    let (off, h, n, _) = *rng.pick(&w);
    match rng.below(16) {
        0 => d[off] ^= 1 << rng.below(8),                                  // tag bit
        1 => d[off] = *rng.pick(&[0x30, 0x31, 0x02, 0x03, 0x04, 0x05, 0x06, 0x0c, 0x13, 0x16, 0x17, 0x18, 0xa0, 0xa3, 0x80, 0x1f, 0x3f, 0x24, 0x23]),
        2 => d[off] ^= 0x20,                                               // constructed bit
        3 => { if h == 2 { d[off + 1] = d[off + 1].wrapping_add(1); } else { let p = off + h - 1; d[p] = d[p].wrapping_add(1); } }
        4 => { if h == 2 { d[off + 1] = d[off + 1].wrapping_sub(1); } else { let p = off + h - 1; d[p] = d[p].wrapping_sub(1); } }
        5 => { d.splice(off + 1..off + h, [0x80u8]); }                    // indefinite length
        6 => { d.splice(off + 1..off + h, [0x84u8, 0xff, 0xff, 0xff, 0xff]); }  // huge length
        7 => { d.splice(off + 1..off + h, [0x00u8]); }                    // zero length, content left behind
        8 if n > 0 => { let p = off + h + rng.below(n as u64) as usize; d[p] ^= 1 << rng.below(8); }
        9 if n > 0 => { for k in 0..n { d[off + h + k] = if rng.bool() { 0 } else { 0xff }; } }
        10 => { d.truncate(off + h + rng.below(n as u64 + 1) as usize); }   // truncation inside/after this value
        11 => { let t = d[off..off + h + n].to_vec(); d.splice(off..off, t); }   // duplicate the value
        12 => { d.drain(off..off + h + n); }                               // delete the value
        13 => {                                                            // splice a value from elsewhere
            let src = if rng.bool() || others.is_empty() { orig } else { rng.pick(others).as_slice() };
            let w2 = der::walk(src);
            if !w2.is_empty() { let (o2, h2, n2, _) = *rng.pick(&w2); let t = src[o2..o2 + h2 + n2].to_vec(); d.splice(off..off + h + n, t); }
        }
        14 => {                                                            // re-encode the length non-minimally
            let len = n; let mut l = vec![0x82u8, (len >> 8) as u8, len as u8];
            if len > 0xffff { l = vec![0x83, (len >> 16) as u8, (len >> 8) as u8, len as u8]; }
            d.splice(off + 1..off + h, l);
        }
        _ => { let p = off + h + n; if p < d.len() { d.truncate(p); } else { d.push(0); } }
    }
    d
}

/// A mutation that keeps every enclosing length consistent: the object is parsed into a tree, one node
/// is changed, and the whole is encoded again.
fn mutate_tree(rng: &mut Rng, orig: &[u8]) -> Option<Vec<u8>> {
    let mut nodes = der::parse_nodes(orig)?;
    let total = der::count_nodes(&nodes);
    if total == 0 { return None }
    let mut idx = rng.below(total as u64) as usize;
    let choice = rng.below(14);
    let r1 = rng.next();
    let r2 = rng.next();
    let mut f = Some(move |sibs: &mut Vec<der::Node>, i: usize| {
        let tag = sibs[i].tag;
        match choice {
            0 => { sibs[i].kids = None; sibs[i].content = vec![]; }                              // empty value
            1 => { sibs.remove(i); }                                                             // drop the value
            2 => { let n = sibs[i].clone(); sibs.insert(i, n); }                                 // duplicate
            3 => { if i + 1 < sibs.len() { sibs.swap(i, i + 1); } }                              // swap with the next sibling
            4 => { if let Some(k) = sibs[i].kids.as_mut() { if !k.is_empty() { let j = (r1 % k.len() as u64) as usize; k.truncate(j); } } }
            5 => { sibs[i].kids = None; let l = sibs[i].content.len(); sibs[i].content.truncate((r1 % (l as u64 + 1)) as usize); }
            6 => {                                                                               // boundary contents by type
                sibs[i].kids = None;
                sibs[i].content = match tag {
                    0x03 => [vec![], vec![0], vec![8], vec![7, 0xff], vec![0xff, 0], vec![3, 0x07], vec![1]][(r1 % 7) as usize].clone(),
                    0x02 => [vec![], vec![0x80], vec![0, 0], vec![0xff, 0xff], vec![0x7f; 21], vec![0, 0x80], vec![0xff; 5]][(r1 % 7) as usize].clone(),
                    0x01 => [vec![], vec![1], vec![0, 0]][(r1 % 3) as usize].clone(),
                    0x06 => [vec![], vec![0x80], vec![0x2a, 0x86], vec![0xff; 40]][(r1 % 4) as usize].clone(),
                    0x17 | 0x18 => { let mut c = sibs[i].content.clone(); if !c.is_empty() { let p = (r1 % c.len() as u64) as usize; c[p] = b" /-+.:A\0Zz9"[(r2 % 11) as usize]; } c }
                    _ => vec![(r1 & 0xff) as u8; (r2 % 4) as usize],
                };
            }
            7 => { if tag == 0x03 && sibs[i].kids.is_none() && !sibs[i].content.is_empty() {       // unused-bits octet
                       sibs[i].content[0] = [1u8, 3, 7, 8, 9, 0x7f, 0xff][(r1 % 7) as usize];
                       if r2 % 2 == 0 { if let Some(l) = sibs[i].content.last_mut() { *l |= 0x07; } } } }
            8 => { sibs[i].tag ^= 0x20; }
            9 => { sibs[i].tag = [0x30u8, 0x31, 0x02, 0x03, 0x04, 0x05, 0x06, 0x0c, 0x13, 0x16, 0x17, 0x18, 0xa0, 0xa1, 0xa3, 0x80][(r1 % 16) as usize]; }
            10 => { if sibs[i].kids.is_none() && !sibs[i].content.is_empty() { let p = (r1 % sibs[i].content.len() as u64) as usize; sibs[i].content[p] ^= 1 << (r2 % 8); } }
            11 => { if sibs[i].kids.is_none() { sibs[i].content.push((r1 & 0xff) as u8); } }
            12 => { if sibs[i].kids.is_none() && !sibs[i].content.is_empty() { sibs[i].content.remove(0); } }
            _ => { if let Some(k) = sibs[i].kids.as_mut() { k.push(der::Node { tag: 0x05, kids: None, lead: vec![], content: vec![], long_len: false }); } }
        }
    });
    der::with_node(&mut nodes, &mut idx, &mut f);
    Some(der::encode_nodes(&nodes))
}

/// Every boundary content for every small primitive (BIT STRING, INTEGER, BOOLEAN, times) of the object,
/// one at a time, with all enclosing lengths re-encoded.
pub fn systematic(orig: &[u8]) -> Vec<Vec<u8>> {
    let mut out = Vec::new();
    let Some(nodes) = der::parse_nodes(orig) else { return out };
    let total = der::count_nodes(&nodes);
    for target in 0..total {
        for opt in 0..26usize {
            let mut n2 = nodes.clone();
            let mut idx = target;
            let mut changed = false;
            {
                let ch = &mut changed;
                let mut f = Some(|sibs: &mut Vec<der::Node>, i: usize| {
                    // BER forms of a primitive string (only the relaxed entry points may accept them): the same octets in
                    // two segments, with more octets than the value may have, with an empty first segment
                    if (sibs[i].tag == 0x04 || sibs[i].tag == 0x80) && opt < 4 && sibs[i].kids.is_none() {
                        let c = sibs[i].content.clone();
                        let h = c.len() / 2;
                        let segs: Vec<Vec<u8>> = match opt {
                            0 => vec![c[..h].to_vec(), c[h..].to_vec()],
                            1 => vec![c[..h].to_vec(), c[h..].to_vec(), c[..h.max(1).min(c.len())].to_vec()],
                            2 => vec![vec![], c.clone()],
                            _ => vec![c.clone(), vec![0u8; 24]],
                        };
                        sibs[i].tag |= 0x20;
                        sibs[i].content = crate::der::cat(&segs.iter().map(|x| crate::der::octets(x)).collect::<Vec<_>>());
                        *ch = true;
                        return
                    }
                    if sibs[i].kids.is_some() { return }
                    let c = &sibs[i].content;
                    let new: Option<Vec<u8>> = match (sibs[i].tag, opt) {
                        (0x03, 0) => Some(vec![]), (0x03, 1) => Some(vec![0]), (0x03, 2) => Some(vec![8]),
                        (0x03, 3) => Some(vec![7, 0xff]), (0x03, 4) if !c.is_empty() => { let mut v = c.clone(); v[0] = 8; Some(v) }
                        (0x03, 5) if !c.is_empty() => { let mut v = c.clone(); v[0] = 0xff; Some(v) }
                        (0x03, 6) if c.len() > 1 => { let mut v = c.clone(); v[0] = 3; let l = v.len() - 1; v[l] |= 7; Some(v) }
                        (0x03, 7) if !c.is_empty() => Some(vec![c[0]]),
                        (0x02, 0) => Some(vec![]), (0x02, 1) => Some(vec![0x80]), (0x02, 2) => Some(vec![0, 0]),
                        (0x02, 3) => Some(vec![0x7f; 21]), (0x02, 4) => Some(vec![0xff; 2]), (0x02, 5) => Some(vec![0, 0x80]),
                        // well-formed values at the ends of the range as well: zero, one, 127, 255, 2^159-1 and 2^159
                        (0x02, 6) => Some(vec![0]), (0x02, 7) => Some(vec![1]), (0x02, 8) => Some(vec![0x7f]), (0x02, 9) => Some(vec![0, 0xff]),
                        (0x02, 10) => Some(vec![0x7f; 20]), (0x02, 11) => { let mut v = vec![0u8; 21]; v[1] = 0x80; Some(v) }
                        (0x02, 12) => Some(vec![0xff; 20]),
                        (0x01, 0) => Some(vec![]), (0x01, 1) => Some(vec![1]), (0x01, 2) => Some(vec![0, 0]),
                        (0x17 | 0x18, k) if !c.is_empty() && k < 6 => { let mut v = c.clone(); let p = (k * 5) % v.len(); v[p] = b" /+-.:"[k]; Some(v) }
                        (0x17 | 0x18, 6) => Some(vec![]),
                        // IA5String (manifest file names, URIs): one character replaced by those next to the letters and
                        // digits in the ASCII table, separators, controls and a non-ASCII octet — first and second position
                        (0x16, k) if !c.is_empty() => { let mut v = c.clone(); let pos = if k % 2 == 0 { 0 } else { 1.min(v.len() - 1) };
                            v[pos] = b"[\\]^`@{/. \x00\x7f\x80"[(k / 2 + (pos * 7)) % 13]; Some(v) }
                        (0x17 | 0x18, 7) if !c.is_empty() => { let mut v = c.clone(); v.pop(); Some(v) }
                        _ => None,
                    };
                    if let Some(v) = new { sibs[i].content = v; *ch = true; }
                });
                der::with_node(&mut n2, &mut idx, &mut f);
            }
            if changed { out.push(der::encode_nodes(&n2)); }
        }
        // the same value with its length in a form only BER admits (the relaxed entry points read such objects; what
        // they keep must still be readable by the iterators that re-parse it later)
        {
            let mut n2 = nodes.clone();
            let mut idx = target;
            let mut f = Some(|sibs: &mut Vec<der::Node>, i: usize| { sibs[i].long_len = true; });
            der::with_node(&mut n2, &mut idx, &mut f);
            out.push(der::encode_nodes(&n2));
        }
    }
    out
}

/// Valid objects of every type: (entry, der)
pub fn seeds(pool: &Pool) -> Vec<(&'static str, Vec<u8>)> {
    let mut v: Vec<(&'static str, Vec<u8>)> = Vec::new();
    let w = c02::world(pool);
    // certificates
    let mut ta = pool.spec(0, 0, Kind::Ta);
    ta.v4 = Res::Blocks(vec![(0x0A00_0000, 0x0AFF_FFFF), (0xC000_0201, 0xC000_02F0)]);
    ta.v6 = Res::Blocks(vec![(0x2001_0db8u128 << 96, (0x2001_0db8u128 << 96) | 0xffff)]);
    ta.asn = Res::Blocks(vec![(0, 5), (64496, 64511), (4294967295, 4294967295)]);
    v.push(("cert", pool.issue(&ta, 0)));
    let mut ee = pool.spec(2, 1, Kind::Ee);
    ee.v4 = Res::Inherit; ee.asn = Res::Inherit;
    v.push(("cert", pool.issue(&ee, 1)));
    let mut rt = pool.spec(2, 1, Kind::Router);
    rt.spki = pool.ec_spki.clone(); rt.ski = pool.ec_ski.clone(); rt.asn = Res::Blocks(vec![(64496, 64496)]);
    rt.subject = "ROUTER-0000FBF0".into();
    v.push(("cert", pool.issue(&rt, 1)));
    v.push(("key", pool.keys[0].spki.clone()));
    v.push(("key", pool.ec_spki.clone()));
    // signed objects from the independent encoder
    let mk = |ct: &[u64], content: Vec<u8>, ee: pki::CertSpec| pool.signed_object(ct, &content, &ee, 1, 2, Some(crate::c01::T0));
    let mut ee_roa = pool.spec(2, 1, Kind::Ee);
    ee_roa.v4 = Res::Blocks(w.v4.clone()); ee_roa.v6 = Res::Blocks(w.v6.clone());
    let roa = c02::roa_content(64496, &[(0x0A, 8, Some(24)), (0xC00002, 24, None)], &[(0x20010db8, 32, Some(48))]);
    v.push(("roa", mk(pki::CT_ROA, roa, ee_roa)));
    let mut ee_as = pool.spec(2, 1, Kind::Ee);
    ee_as.asn = Res::Blocks(vec![(64500, 64500)]);
    v.push(("aspa", mk(pki::CT_ASPA, c02::aspa_content(64500, &[1, 64496, 65551, 4200000000]), ee_as)));
    let mut ee_m = pool.spec(2, 1, Kind::Ee);
    ee_m.v4 = Res::Inherit; ee_m.v6 = Res::Inherit; ee_m.asn = Res::Inherit;
    let mut ms = crate::c14::base_spec(&mut Rng::new(3));
    ms.next = ms.this;
    for i in 0..5 { ms.entries.push(crate::c14::entry(format!("obj-{}.roa", i).as_bytes(), 0, &[i as u8; 32])); }
    v.push(("mft", mk(pki::CT_MFT, crate::c14::encode(&ms), ee_m.clone())));
    v.push(("so", mk(pki::CT_GBR, b"BEGIN:VCARD\r\nEND:VCARD\r\n".to_vec(), ee_m)));
    // library-made objects
    let crl = {
        use rpki::repository::crl::{CrlEntry, TbsCertList};
        let info = pool.signer.get_key_info(&pool.keys[1].id).unwrap();
        let entries: Vec<CrlEntry> = (1..40u64).map(|i| CrlEntry::new(Serial::from(i * 7919), crate::c01::time(1_700_000_000 + i as i64))).collect();
        TbsCertList::new(Default::default(), info.to_subject_name(), crate::c01::time(1_700_000_000), crate::c01::time(1_800_000_000),
            entries, info.key_identifier(), Serial::from(42u64)).into_crl(&pool.signer, &pool.keys[1].id).unwrap()
    };
    v.push(("crl", crl.to_captured().into_bytes().to_vec()));
    let csr = rpki::ca::csr::Csr::construct_rpki_ca(&pool.signer, &pool.keys[1].id,
        &uri::Rsync::from_str_checked("rsync://h/m/ca/"), &uri::Rsync::from_str_checked("rsync://h/m/ca/ca.mft"),
        Some(&uri::Https::from_str_checked("https://h/n.xml"))).unwrap();
    v.push(("csr", csr.to_vec()));
    let idc = IdCert::new_ta(Validity::new(crate::c01::time(1_700_000_000), crate::c01::time(1_800_000_000)), &pool.keys[0].id, &pool.signer).unwrap();
    v.push(("idcert", idc.to_captured().into_bytes().to_vec()));
    let sm = SignedMessage::create(Bytes::from_static(b"<msg/>"), Validity::new(crate::c01::time(1_700_000_000), crate::c01::time(1_800_000_000)),
        &pool.keys[0].id, &pool.signer).unwrap();
    v.push(("sigmsg", sm.to_captured().into_bytes().to_vec()));
    // the same message with an unknown signed attribute that brings the attribute value to the largest sizes
    // the reader admits (65535 octets) and just around it
    for total in [65534usize, 65535, 65536, 255, 256] {
        if let Some(d) = pad_signed_attrs(sm.to_captured().as_slice(), total) { v.push(("sigmsg", d)); }
    }
    let _ = PublicKeyFormat::Rsa;
    // captured files of the repository
    for (entry, path) in [("cert", "repository/ta.cer"), ("cert", "repository/ca1.cer"), ("cert", "repository/router.cer"),
        ("cert", "compat/res_incorrect.cer"), ("crl", "repository/ta.crl"), ("crl", "repository/ca1.crl"),
        ("mft", "repository/ta.mft"), ("mft", "repository/ca1.mft"), ("mft", "repository/ta.mft.bad-filename"),
        ("mft", "repository/signature-alg-mismatch.mft"), ("roa", "repository/example-ripe.roa"),
        ("roa", "repository/maxlen-overflow.roa"), ("roa", "repository/maxlen-underflow.roa"),
        ("roa", "repository/prefix-len-overflow.roa"), ("aspa", "repository/aspa-bm.asa"), ("tal", "repository/ripe.tal"),
        ("key", "crypto/rsa-key.public.der"), ("csr", "ca/drl-csr.der"), ("bcsr", "ca/router-csr.der"),
        ("idcert", "ca/id_ta.cer"), ("idcert", "ca/id_afrinic.cer")] {
        if let Ok(b) = std::fs::read(format!("/repo/test-data/{}", path)) { v.push((entry, b)); }
    }
    if let Ok(rd) = std::fs::read_dir("/repo/test-data/ca/sigmsg") {
        let mut names: Vec<_> = rd.filter_map(|e| e.ok()).map(|e| e.path()).collect();
        names.sort();
        for p in names.into_iter().take(4) { if let Ok(b) = std::fs::read(&p) { v.push(("sigmsg", b)); } }
    }
    v
}

/// re-writes a CMS so that the content of the signed attributes `[0]` has exactly `total` octets, by adding one
/// attribute with an unknown OID; every enclosing length is written again
fn pad_signed_attrs(cms: &[u8], total: usize) -> Option<Vec<u8>> {
    let mut nodes = der::parse_nodes(cms)?;
    {
        let sd = nodes.get_mut(0)?.kids.as_mut()?.get_mut(1)?.kids.as_mut()?.get_mut(0)?.kids.as_mut()?;
        let infos = sd.last_mut()?.kids.as_mut()?;
        let si = infos.get_mut(0)?.kids.as_mut()?;
        let attrs = si.iter_mut().find(|n| n.tag == 0xA0)?;
        let have = der::encode_nodes(attrs.kids.as_ref()?).len();
        // SEQUENCE { OID(10 octets content), SET { OCTET STRING pad } }: search the pad length that fits
        let oid = der::oid(&[1, 3, 6, 1, 4, 1, 99999, 77]);
        let mut fit = None;
        for pad in 0..(total.saturating_sub(have) + 1) {
            let a = der::seq(&[oid.clone(), der::set_raw(&[der::octets(&vec![0x5a; pad])])]);
            if have + a.len() == total { fit = Some(a); break }
            if have + a.len() > total { break }
        }
        let a = fit?;
        attrs.kids.as_mut()?.push(der::parse_nodes(&a)?.remove(0));
    }
    Some(der::encode_nodes(&nodes))
}

trait FromStrChecked: Sized { fn from_str_checked(s: &str) -> Self; }
impl FromStrChecked for uri::Rsync { fn from_str_checked(s: &str) -> Self { uri::Rsync::from_slice(s.as_bytes()).unwrap() } }
impl FromStrChecked for uri::Https { fn from_str_checked(s: &str) -> Self { uri::Https::from_slice(s.as_bytes()).unwrap() } }

fn relaxed(e: &str) -> &'static str {
    match e { "mft" => "mftr", "roa" => "roar", "aspa" => "aspar", "rta" => "rtar", "sigmsg" => "sigmsgr", "so" => "sor", _ => "" }
}

pub fn generate(ctx: &mut Ctx) {
    let mut rng = Rng::new(ctx.seed ^ 0xC04);
    let pool = Pool::new(3);
    let seeds = seeds(&pool);
    let all: Vec<Vec<u8>> = seeds.iter().map(|s| s.1.clone()).collect();
    let per = if ctx.tier_thorough { 4000 } else { 400 };
    for (entry, data) in &seeds {
        // the valid object through its own entry point (strict and relaxed) and through every other one
        ctx.case(&format!("dec {} {}", entry, hex(data)));
        if !relaxed(entry).is_empty() { ctx.case(&format!("dec {} {}", relaxed(entry), hex(data))); }
        for other in ENTRIES { if other != entry && rng.chance(1, 3) { ctx.case(&format!("dec {} {}", other, hex(data))); } }
        if *entry != "tal" && data.len() < 4000 {
            for d in systematic(data) {
                let e = if !relaxed(entry).is_empty() && rng.chance(1, 4) { relaxed(entry) } else { entry };
                ctx.case(&format!("dec {} {}", e, hex(&d)));
            }
        }
        for _ in 0..per {
            let mut d = if rng.bool() { mutate_tree(&mut rng, data).unwrap_or_else(|| mutate(&mut rng, data, &all)) }
                        else { mutate(&mut rng, data, &all) };
            if rng.chance(1, 5) { d = if rng.bool() { mutate_tree(&mut rng, &d).unwrap_or(d) } else { mutate(&mut rng, &d, &all) }; }
            if d.len() > 120_000 { d.truncate(120_000); }
            let e = if !relaxed(entry).is_empty() && rng.bool() { relaxed(entry) } else { entry };
            ctx.case(&format!("dec {} {}", e, hex(&d)));
        }
    }
    // raw random and structured junk through every entry point
    for entry in ENTRIES {
        for _ in 0..per / 10 {
            let n = rng.range(0, 64) as usize;
            let mut d = rng.bytes(n);
            if rng.bool() && n > 2 { d[0] = 0x30; d[1] = (n - 2) as u8; }
            ctx.case(&format!("dec {} {}", entry, hex(&d)));
        }
        // nesting: SEQUENCE { SEQUENCE { … } } and constructed OCTET STRINGs, moderately deep
        for depth in [10usize, 200, 2000] {
            for tag in [0x30u8, 0x24, 0xa0] {
                let mut d = vec![0x05, 0x00];
                for _ in 0..depth { d = der::tlv(tag, &d); if d.len() > 60_000 { break } }
                ctx.case(&format!("dec {} {}", entry, hex(&d)));
            }
        }
        ctx.case(&format!("dec {} {}", entry, hex(&[0x30, 0x84, 0xff, 0xff, 0xff, 0xff])));
        ctx.case(&format!("dec {} {}", entry, hex(&[0x30, 0x80])));
        ctx.case(&format!("dec {} -", entry));
    }
    // TAL text
    let tal = std::fs::read("/repo/test-data/repository/ripe.tal").unwrap_or_default();
    for t in [&b"#"[..], b"# comment without line feed", b"# first\n# second without LF", b"#\n", b"# a\n\n", b"\n", b"#\r", b"# x\r\n#"] {
        ctx.case(&format!("dec tal {}", hex(t)));
        let mut d = t.to_vec(); d.extend_from_slice(&tal);
        ctx.case(&format!("dec tal {}", hex(&d)));
        let mut e = b"# leading comment\n".to_vec(); e.extend_from_slice(&tal); e.extend_from_slice(t);
        ctx.case(&format!("dec tal {}", hex(&e)));
        for cut in [1usize, 5, 17] { if e.len() > cut { ctx.case(&format!("dec tal {}", hex(&e[..cut]))); } }
    }
    for _ in 0..per {
        let mut d = tal.clone();
        if d.is_empty() { break }
        match rng.below(5) {
            0 => { let i = rng.below(d.len() as u64) as usize; d[i] = *rng.pick(b"\n\r #=/:Aa0+"); }
            1 => { let i = rng.below(d.len() as u64) as usize; d.truncate(i); }
            2 => { let i = rng.below(d.len() as u64) as usize; d.insert(i, b'\n'); }
            3 => { let i = rng.below(d.len() as u64) as usize; d.remove(i); }
            _ => { let i = rng.below(d.len() as u64) as usize; let j = rng.below(d.len() as u64) as usize; d.swap(i, j); }
        }
        ctx.case(&format!("dec tal {}", hex(&d)));
    }
}
