//! Key pool and *independent* encoders for RPKI certificates (RFC 6487),
//! CRLs and CMS signed objects (RFC 5652 / 6488), written from the RFCs on top
//! of `der.rs`.  Signatures are made with the library's SoftSigner over the
//! bytes assembled here (the signature primitive itself is in the trusted
//! base).
#![allow(dead_code)]
use crate::der;
use rpki::crypto::signer::Signer;
use rpki::crypto::softsigner::{KeyId, SoftSigner};
use rpki::crypto::{PublicKeyFormat, RpkiSignatureAlgorithm};

pub struct Key {
    pub id: KeyId,
    pub spki: Vec<u8>,
    /// SHA-1 of the subjectPublicKey bits
    pub ski: Vec<u8>,
}

pub struct Pool {
    pub signer: SoftSigner,
    pub keys: Vec<Key>,
    /// an ECDSA P-256 public key (router certificates): SPKI and its key identifier
    pub ec_spki: Vec<u8>,
    pub ec_ski: Vec<u8>,
}

pub fn sha1(data: &[u8]) -> Vec<u8> {
    aws_lc_rs::digest::digest(&aws_lc_rs::digest::SHA1_FOR_LEGACY_USE_ONLY, data).as_ref().to_vec()
}

pub fn sha256(data: &[u8]) -> Vec<u8> {
    aws_lc_rs::digest::digest(&aws_lc_rs::digest::SHA256, data).as_ref().to_vec()
}

/// The bits of the subjectPublicKey BIT STRING of an SPKI.
pub fn spki_key_bits(spki: &[u8]) -> Vec<u8> {
    let (h, n) = der::split_tlv(spki).unwrap();
    let body = &spki[h..h + n];
    let (h1, n1) = der::split_tlv(body).unwrap();
    let bits = &body[h1 + n1..];
    let (h2, n2) = der::split_tlv(bits).unwrap();
    bits[h2 + 1..h2 + n2].to_vec()
}

impl Pool {
    pub fn new(n: usize) -> Pool {
        let signer = SoftSigner::new();
        let mut keys = Vec::new();
        for _ in 0..n {
            let id = signer.create_key(PublicKeyFormat::Rsa).unwrap();
            let info = signer.get_key_info(&id).unwrap();
            let spki = info.to_info_bytes().to_vec();
            let ski = sha1(&spki_key_bits(&spki));
            keys.push(Key { id, spki, ski });
        }
        use aws_lc_rs::encoding::AsDer;
        use aws_lc_rs::signature::KeyPair;
        let ec = aws_lc_rs::signature::EcdsaKeyPair::generate(
            &aws_lc_rs::signature::ECDSA_P256_SHA256_ASN1_SIGNING).unwrap();
        let ec_spki = AsDer::<aws_lc_rs::encoding::PublicKeyX509Der>::as_der(ec.public_key()).unwrap().as_ref().to_vec();
        let ec_ski = sha1(&spki_key_bits(&ec_spki));
        Pool { signer, keys, ec_spki, ec_ski }
    }

    pub fn sign(&self, key: usize, data: &[u8]) -> Vec<u8> {
        self.signer.sign(&self.keys[key].id, RpkiSignatureAlgorithm::default(), data)
            .unwrap().value().to_vec()
    }
}

//------------ OIDs -----------------------------------------------------------

pub const SHA256_RSA: &[u64] = &[1, 2, 840, 113549, 1, 1, 11];
pub const RSA: &[u64] = &[1, 2, 840, 113549, 1, 1, 1];
pub const SHA256: &[u64] = &[2, 16, 840, 1, 101, 3, 4, 2, 1];
pub const CN: &[u64] = &[2, 5, 4, 3];
pub const CE_SKI: &[u64] = &[2, 5, 29, 14];
pub const CE_KU: &[u64] = &[2, 5, 29, 15];
pub const CE_BC: &[u64] = &[2, 5, 29, 19];
pub const CE_CRLNUM: &[u64] = &[2, 5, 29, 20];
pub const CE_CRLDP: &[u64] = &[2, 5, 29, 31];
pub const CE_POLICIES: &[u64] = &[2, 5, 29, 32];
pub const CE_AKI: &[u64] = &[2, 5, 29, 35];
pub const CE_EKU: &[u64] = &[2, 5, 29, 37];
pub const PE_AIA: &[u64] = &[1, 3, 6, 1, 5, 5, 7, 1, 1];
pub const PE_SIA: &[u64] = &[1, 3, 6, 1, 5, 5, 7, 1, 11];
pub const PE_IP: &[u64] = &[1, 3, 6, 1, 5, 5, 7, 1, 7];
pub const PE_AS: &[u64] = &[1, 3, 6, 1, 5, 5, 7, 1, 8];
pub const PE_IP_V2: &[u64] = &[1, 3, 6, 1, 5, 5, 7, 1, 28];
pub const PE_AS_V2: &[u64] = &[1, 3, 6, 1, 5, 5, 7, 1, 29];
pub const CP_RESOURCES: &[u64] = &[1, 3, 6, 1, 5, 5, 7, 14, 2];
pub const CP_RESOURCES_V2: &[u64] = &[1, 3, 6, 1, 5, 5, 7, 14, 3];
pub const AD_CA_ISSUERS: &[u64] = &[1, 3, 6, 1, 5, 5, 7, 48, 2];
pub const AD_CA_REPOSITORY: &[u64] = &[1, 3, 6, 1, 5, 5, 7, 48, 5];
pub const AD_RPKI_MANIFEST: &[u64] = &[1, 3, 6, 1, 5, 5, 7, 48, 10];
pub const AD_SIGNED_OBJECT: &[u64] = &[1, 3, 6, 1, 5, 5, 7, 48, 11];
pub const AD_RPKI_NOTIFY: &[u64] = &[1, 3, 6, 1, 5, 5, 7, 48, 13];
pub const KP_BGPSEC_ROUTER: &[u64] = &[1, 3, 6, 1, 5, 5, 7, 3, 30];
pub const SIGNED_DATA: &[u64] = &[1, 2, 840, 113549, 1, 7, 2];
pub const AT_CONTENT_TYPE: &[u64] = &[1, 2, 840, 113549, 1, 9, 3];
pub const AT_MESSAGE_DIGEST: &[u64] = &[1, 2, 840, 113549, 1, 9, 4];
pub const AT_SIGNING_TIME: &[u64] = &[1, 2, 840, 113549, 1, 9, 5];
pub const AT_BINARY_SIGNING_TIME: &[u64] = &[1, 2, 840, 113549, 1, 9, 16, 2, 46];
pub const CT_ROA: &[u64] = &[1, 2, 840, 113549, 1, 9, 16, 1, 24];
pub const CT_MFT: &[u64] = &[1, 2, 840, 113549, 1, 9, 16, 1, 26];
pub const CT_GBR: &[u64] = &[1, 2, 840, 113549, 1, 9, 16, 1, 35];
pub const CT_ASPA: &[u64] = &[1, 2, 840, 113549, 1, 9, 16, 1, 49];
pub const CT_PROTOCOL: &[u64] = &[1, 2, 840, 113549, 1, 9, 16, 1, 28];

//------------ resources ------------------------------------------------------

#[derive(Clone, Debug, PartialEq)]
pub enum Res {
    Missing,
    Inherit,
    /// inclusive ranges in the family's own width (32 / 128 bits; AS: 32)
    Blocks(Vec<(u128, u128)>),
}

fn addr_bits(v: u128, width: u32, len: u32) -> Vec<u8> {
    // the first `len` bits of the `width`-bit value v as a BIT STRING
    let nbytes = ((len + 7) / 8) as usize;
    let be: Vec<u8> = if width == 32 { (v as u32).to_be_bytes().to_vec() } else { v.to_be_bytes().to_vec() };
    let mut b = be[..nbytes].to_vec();
    let unused = (nbytes as u32 * 8 - len) as u8;
    if unused > 0 {
        let l = b.len() - 1;
        b[l] &= !((1u8 << unused) - 1);
    }
    der::bits(unused, &b)
}

pub fn is_prefix(lo: u128, hi: u128, width: u32) -> Option<u32> {
    let full = if width == 128 { u128::MAX } else { (1u128 << width) - 1 };
    if lo > hi { return None }
    let diff = lo ^ hi;
    // diff must be 2^k - 1 and lo's low k bits zero
    if diff & diff.wrapping_add(1) != 0 && diff != full { return None }
    if diff == full { return if lo == 0 { Some(0) } else { None } }
    let k = 128 - diff.leading_zeros();
    if lo & diff != 0 { return None }
    Some(width - k)
}

pub fn ip_block(lo: u128, hi: u128, width: u32, force_range: bool) -> Vec<u8> {
    match is_prefix(lo, hi, width) {
        Some(len) if !force_range => addr_bits(lo, width, len),
        _ => {
            // min: strip trailing zero bits; max: strip trailing one bits
            let tz = if lo == 0 { width } else { lo.trailing_zeros().min(width) };
            let full = if width == 128 { u128::MAX } else { (1u128 << width) - 1 };
            let to = if hi == full { width } else { (!hi).trailing_zeros().min(width) };
            der::seq(&[addr_bits(lo, width, width - tz), addr_bits(hi, width, width - to)])
        }
    }
}

/// content of the IP resources extension for both families
pub fn ip_ext(v4: &Res, v6: &Res) -> Option<Vec<u8>> { ip_ext_with(&[], v4, v6) }

/// the same with additional families in front
pub fn ip_ext_with(extra: &[(u8, Vec<(u128, u128)>)], v4: &Res, v6: &Res) -> Option<Vec<u8>> {
    let mut fams = Vec::new();
    for (afi, b) in extra {
        let width = if *afi == 1 { 32 } else { 128 };
        fams.push(der::seq(&[der::octets(&[0, *afi]),
            der::seq(&b.iter().map(|(lo, hi)| ip_block(*lo, *hi, width, false)).collect::<Vec<_>>())]));
    }
    for (afi, width, r) in [(1u8, 32u32, v4), (2u8, 128u32, v6)] {
        match r {
            Res::Missing => {}
            Res::Inherit => fams.push(der::seq(&[der::octets(&[0, afi]), der::null()])),
            Res::Blocks(b) => fams.push(der::seq(&[
                der::octets(&[0, afi]),
                der::seq(&b.iter().map(|(lo, hi)| ip_block(*lo, *hi, width, false)).collect::<Vec<_>>()),
            ])),
        }
    }
    if fams.is_empty() { None } else { Some(der::seq(&fams)) }
}

pub fn as_block(lo: u128, hi: u128) -> Vec<u8> {
    if lo == hi { der::uint_u64(lo as u64) } else { der::seq(&[der::uint_u64(lo as u64), der::uint_u64(hi as u64)]) }
}

pub fn as_ext(r: &Res) -> Option<Vec<u8>> {
    match r {
        Res::Missing => None,
        Res::Inherit => Some(der::seq(&[der::ctx(0, true, &der::null())])),
        Res::Blocks(b) => Some(der::seq(&[der::ctx(0, true,
            &der::seq(&b.iter().map(|(lo, hi)| as_block(*lo, *hi)).collect::<Vec<_>>()))])),
    }
}

//------------ certificates ---------------------------------------------------

pub fn name(cn: &str) -> Vec<u8> {
    der::seq(&[der::set_raw(&[der::seq(&[der::oid(CN), der::printable(cn.as_bytes())])])])
}

pub fn alg_id(oid: &[u64]) -> Vec<u8> { der::seq(&[der::oid(oid), der::null()]) }

pub fn time_of(ts: i64) -> Vec<u8> {
    use chrono::{Datelike, TimeZone, Timelike};
    let t = chrono::Utc.timestamp_opt(ts, 0).unwrap();
    der::x509_time(t.year(), t.month(), t.day(), t.hour(), t.minute(), t.second())
}

pub fn gen_time_of(ts: i64) -> Vec<u8> {
    use chrono::{Datelike, TimeZone, Timelike};
    let t = chrono::Utc.timestamp_opt(ts, 0).unwrap();
    der::gen_time(t.year(), t.month(), t.day(), t.hour(), t.minute(), t.second())
}

pub fn ext(oid: &[u64], critical: bool, value: &[u8]) -> Vec<u8> {
    let mut p = vec![der::oid(oid)];
    if critical { p.push(der::boolean(true)); }
    p.push(der::octets(value));
    der::seq(&p)
}

#[derive(Clone, Debug)]
pub struct CertSpec {
    pub serial: Vec<u8>,
    pub issuer: String,
    pub subject: String,
    pub not_before: i64,
    pub not_after: i64,
    pub spki: Vec<u8>,
    pub ca: Option<bool>,
    pub ski: Vec<u8>,
    pub aki: Option<Vec<u8>>,
    pub ku_ca: bool,
    pub eku_router: bool,
    pub crl_uri: Option<String>,
    pub ca_issuer: Option<String>,
    pub ca_repository: Option<String>,
    pub rpki_manifest: Option<String>,
    pub signed_object: Option<String>,
    pub rpki_notify: Option<String>,
    pub trim: bool,
    /// use the v2 resource extension OIDs although the policy says otherwise (or vice versa)
    pub res_oid_mismatch: bool,
    pub v4: Res,
    pub v6: Res,
    pub asn: Res,
    /// additional address families written in front of the regular ones inside the IP resources extension
    /// (afi 1 / 2, blocks) - a certificate no reader may accept when a family occurs twice
    pub extra_fams: Vec<(u8, Vec<(u128, u128)>)>,
    /// a second IP resources extension written before the regular one
    pub extra_ip_ext: Option<Vec<(u128, u128)>>,
    /// a second AS resources extension written before the regular one
    pub extra_as_ext: Option<Vec<(u128, u128)>>,
}

fn gn_uri(u: &str) -> Vec<u8> { der::ctx(6, false, u.as_bytes()) }

pub fn encode_tbs(s: &CertSpec) -> Vec<u8> {
    let mut exts = Vec::new();
    if let Some(ca) = s.ca {
        exts.push(ext(CE_BC, true, &der::seq(&if ca { vec![der::boolean(true)] } else { vec![] })));
    }
    exts.push(ext(CE_SKI, false, &der::octets(&s.ski)));
    if let Some(aki) = &s.aki {
        exts.push(ext(CE_AKI, false, &der::seq(&[der::ctx(0, false, aki)])));
    }
    exts.push(ext(CE_KU, true, &if s.ku_ca { der::bits(1, &[0x06]) } else { der::bits(7, &[0x80]) }));
    if s.eku_router {
        exts.push(ext(CE_EKU, false, &der::seq(&[der::oid(KP_BGPSEC_ROUTER)])));
    }
    if let Some(u) = &s.crl_uri {
        exts.push(ext(CE_CRLDP, false, &der::seq(&[der::seq(&[der::ctx(0, true, &der::ctx(0, true, &gn_uri(u)))])])));
    }
    if let Some(u) = &s.ca_issuer {
        exts.push(ext(PE_AIA, false, &der::seq(&[der::seq(&[der::oid(AD_CA_ISSUERS), gn_uri(u)])])));
    }
    let mut sia = Vec::new();
    if let Some(u) = &s.ca_repository { sia.push(der::seq(&[der::oid(AD_CA_REPOSITORY), gn_uri(u)])); }
    if let Some(u) = &s.rpki_manifest { sia.push(der::seq(&[der::oid(AD_RPKI_MANIFEST), gn_uri(u)])); }
    if let Some(u) = &s.signed_object { sia.push(der::seq(&[der::oid(AD_SIGNED_OBJECT), gn_uri(u)])); }
    if let Some(u) = &s.rpki_notify { sia.push(der::seq(&[der::oid(AD_RPKI_NOTIFY), gn_uri(u)])); }
    if !sia.is_empty() {
        exts.push(ext(PE_SIA, false, &der::seq(&sia)));
    }
    exts.push(ext(CE_POLICIES, true,
        &der::seq(&[der::seq(&[der::oid(if s.trim { CP_RESOURCES_V2 } else { CP_RESOURCES })])])));
    let v2 = s.trim != s.res_oid_mismatch;
    if let Some(b) = &s.extra_ip_ext {
        if let Some(ip) = ip_ext(&Res::Blocks(b.clone()), &Res::Missing) { exts.push(ext(if v2 { PE_IP_V2 } else { PE_IP }, true, &ip)); }
    }
    if let Some(ip) = ip_ext_with(&s.extra_fams, &s.v4, &s.v6) {
        exts.push(ext(if v2 { PE_IP_V2 } else { PE_IP }, true, &ip));
    }
    if let Some(b) = &s.extra_as_ext {
        if let Some(a) = as_ext(&Res::Blocks(b.clone())) { exts.push(ext(if v2 { PE_AS_V2 } else { PE_AS }, true, &a)); }
    }
    if let Some(a) = as_ext(&s.asn) {
        exts.push(ext(if v2 { PE_AS_V2 } else { PE_AS }, true, &a));
    }
    der::seq(&[
        der::ctx(0, true, &der::uint_u64(2)),
        der::uint(&s.serial),
        alg_id(SHA256_RSA),
        name(&s.issuer),
        der::seq(&[time_of(s.not_before), time_of(s.not_after)]),
        name(&s.subject),
        s.spki.clone(),
        der::ctx(3, true, &der::seq(&exts)),
    ])
}

/// Certificate ::= SEQUENCE { tbs, signatureAlgorithm, signatureValue }
pub fn signed(tbs: &[u8], sig: &[u8]) -> Vec<u8> {
    der::seq(&[tbs.to_vec(), alg_id(SHA256_RSA), der::bits(0, sig)])
}

pub fn hex_name(ski: &[u8]) -> String {
    ski.iter().map(|b| format!("{:02X}", b)).collect()
}

impl Pool {
    /// Baseline spec of a certificate for key `subject` issued by key `issuer`.
    pub fn spec(&self, subject: usize, issuer: usize, kind: Kind) -> CertSpec {
        let sk = &self.keys[subject];
        let ik = &self.keys[issuer];
        let ta = kind == Kind::Ta;
        let ca = matches!(kind, Kind::Ta | Kind::Ca);
        CertSpec {
            serial: vec![1 + subject as u8],
            issuer: hex_name(&ik.ski),
            subject: hex_name(&sk.ski),
            not_before: 1_700_000_000,
            not_after: 1_800_000_000,
            spki: sk.spki.clone(),
            ca: if ca { Some(true) } else { None },
            ski: sk.ski.clone(),
            aki: if ta { None } else { Some(ik.ski.clone()) },
            ku_ca: ca,
            eku_router: kind == Kind::Router,
            crl_uri: if ta { None } else { Some(format!("rsync://h/m/{}/crl.crl", issuer)) },
            ca_issuer: if ta { None } else { Some(format!("rsync://h/m/{}.cer", issuer)) },
            ca_repository: if ca { Some(format!("rsync://h/m/{}/", subject)) } else { None },
            rpki_manifest: if ca { Some(format!("rsync://h/m/{}/m.mft", subject)) } else { None },
            signed_object: if kind == Kind::Ee { Some(format!("rsync://h/m/{}/o.obj", issuer)) } else { None },
            rpki_notify: None,
            trim: false,
            res_oid_mismatch: false,
            v4: Res::Missing,
            v6: Res::Missing,
            asn: Res::Missing,
            extra_fams: Vec::new(),
            extra_ip_ext: None,
            extra_as_ext: None,
        }
    }

    pub fn issue(&self, spec: &CertSpec, signing_key: usize) -> Vec<u8> {
        let tbs = encode_tbs(spec);
        let sig = self.sign(signing_key, &tbs);
        signed(&tbs, &sig)
    }
}

#[derive(Clone, Copy, Debug, PartialEq)]
pub enum Kind { Ta, Ca, Ee, Router }

//------------ CMS ------------------------------------------------------------

pub fn attr(oid: &[u64], value: Vec<u8>) -> Vec<u8> {
    der::seq(&[der::oid(oid), der::set_raw(&[value])])
}

#[derive(Clone, Debug)]
pub struct CmsSpec {
    pub content_type: Vec<u64>,
    pub content: Vec<u8>,
    /// signed attributes in the order they are to be written (each a full Attribute)
    pub attrs: Vec<Vec<u8>>,
    pub sid: Vec<u8>,
    pub cert: Vec<u8>,
    pub crl: Option<Vec<u8>>,
    pub version: u64,
    pub si_version: u64,
}

/// The three standard attributes for `content`.
pub fn std_attrs(content_type: &[u64], content: &[u8], signing_time: Option<i64>) -> Vec<Vec<u8>> {
    let mut v = vec![
        attr(AT_CONTENT_TYPE, der::oid(content_type)),
        attr(AT_MESSAGE_DIGEST, der::octets(&sha256(content))),
    ];
    if let Some(t) = signing_time {
        v.insert(1, attr(AT_SIGNING_TIME, time_of(t)));
    }
    v
}

/// What the signature of a SignerInfo covers: the DER SET OF encoding of the attributes.
pub fn signed_attrs_input(attrs: &[Vec<u8>]) -> Vec<u8> {
    der::set_of(attrs)
}

/// ContentInfo { signedData, [0] SignedData }
pub fn encode_cms(s: &CmsSpec, signature: &[u8], sort_attrs: bool) -> Vec<u8> {
    encode_cms_with(s, signature, sort_attrs, der::octets(&s.content))
}

/// A BER (not DER) OCTET STRING in the constructed form: the content cut into the given segment lengths
/// (what is left goes into a last segment).
pub fn octets_segmented(content: &[u8], cuts: &[usize]) -> Vec<u8> {
    let mut parts = Vec::new();
    let mut at = 0;
    for c in cuts { let e = (at + c).min(content.len()); parts.push(der::octets(&content[at..e])); at = e; }
    parts.push(der::octets(&content[at..]));
    der::tlv(0x24, &der::cat(&parts))
}

/// the same with the eContent OCTET STRING given as already encoded octets
pub fn encode_cms_with(s: &CmsSpec, signature: &[u8], sort_attrs: bool, econtent: Vec<u8>) -> Vec<u8> {
    let attrs_content = if sort_attrs {
        let set = der::set_of(&s.attrs);
        let (h, n) = der::split_tlv(&set).unwrap();
        set[h..h + n].to_vec()
    } else {
        der::cat(&s.attrs)
    };
    let signer_info = der::seq(&[
        der::uint_u64(s.si_version),
        der::ctx(0, false, &s.sid),
        der::seq(&[der::oid(SHA256)]),
        der::ctx(0, true, &attrs_content),
        alg_id(RSA),
        der::octets(signature),
    ]);
    let mut sd = vec![
        der::uint_u64(s.version),
        der::set_raw(&[der::seq(&[der::oid(SHA256)])]),
        der::seq(&[der::oid(&s.content_type), der::ctx(0, true, &econtent)]),
        der::ctx(0, true, &s.cert),
    ];
    if let Some(crl) = &s.crl {
        sd.push(der::ctx(1, true, crl));
    }
    sd.push(der::set_raw(&[signer_info]));
    der::seq(&[der::oid(SIGNED_DATA), der::ctx(0, true, &der::seq(&sd))])
}

impl Pool {
    /// A complete signed object: EE certificate for key `ee` issued by `issuer`, content signed by `ee`.
    pub fn signed_object(&self, content_type: &[u64], content: &[u8], ee_spec: &CertSpec,
                         issuer: usize, ee: usize, signing_time: Option<i64>) -> Vec<u8> {
        let cert = self.issue(ee_spec, issuer);
        let attrs = std_attrs(content_type, content, signing_time);
        let sig = self.sign(ee, &signed_attrs_input(&attrs));
        let spec = CmsSpec {
            content_type: content_type.to_vec(), content: content.to_vec(), attrs,
            sid: ee_spec.ski.clone(), cert, crl: None, version: 3, si_version: 3,
        };
        encode_cms(&spec, &sig, true)
    }
}

//------------ CRL ------------------------------------------------------------

pub fn encode_crl_tbs(issuer: &str, this: i64, next: i64, revoked: &[(Vec<u8>, i64)], aki: Option<&[u8]>,
                      number: Option<&[u8]>) -> Vec<u8> {
    let mut parts = vec![
        der::uint_u64(1),
        alg_id(SHA256_RSA),
        name(issuer),
        time_of(this),
        time_of(next),
    ];
    if !revoked.is_empty() {
        parts.push(der::seq(&revoked.iter().map(|(s, t)| der::seq(&[der::uint(s), time_of(*t)])).collect::<Vec<_>>()));
    }
    let mut exts = Vec::new();
    if let Some(a) = aki { exts.push(ext(CE_AKI, false, &der::seq(&[der::ctx(0, false, a)]))); }
    if let Some(n) = number { exts.push(ext(CE_CRLNUM, false, &der::uint(n))); }
    if !exts.is_empty() {
        parts.push(der::ctx(0, true, &der::seq(&exts)));
    }
    der::seq(&parts)
}
