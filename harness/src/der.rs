//! A small DER encoder written from X.690, independent of bcder and of the
//! library's own builders.  Used to assemble "foreign" objects.
#![allow(dead_code)]

pub fn len(n: usize) -> Vec<u8> {
    if n < 0x80 {
        vec![n as u8]
    } else {
        let mut b = Vec::new();
        let mut m = n;
        while m > 0 {
            b.insert(0, (m & 0xff) as u8);
            m >>= 8;
        }
        let mut r = vec![0x80 | b.len() as u8];
        r.extend(b);
        r
    }
}

pub fn tlv(tag: u8, content: &[u8]) -> Vec<u8> {
    let mut r = vec![tag];
    r.extend(len(content.len()));
    r.extend_from_slice(content);
    r
}

pub fn cat(parts: &[Vec<u8>]) -> Vec<u8> {
    let mut r = Vec::new();
    for p in parts {
        r.extend_from_slice(p);
    }
    r
}

pub fn seq(parts: &[Vec<u8>]) -> Vec<u8> { tlv(0x30, &cat(parts)) }

/// SET OF: elements sorted by their encodings (DER).
pub fn set_of(parts: &[Vec<u8>]) -> Vec<u8> {
    let mut p: Vec<Vec<u8>> = parts.to_vec();
    p.sort();
    tlv(0x31, &cat(&p))
}

/// SET with the elements in the order given.
pub fn set_raw(parts: &[Vec<u8>]) -> Vec<u8> { tlv(0x31, &cat(parts)) }

/// INTEGER from unsigned big-endian magnitude (minimal encoding).
pub fn uint(be: &[u8]) -> Vec<u8> {
    let mut i = 0;
    while i + 1 < be.len() && be[i] == 0 {
        i += 1;
    }
    let mut c = Vec::new();
    if be.is_empty() {
        c.push(0);
    } else {
        if be[i] & 0x80 != 0 {
            c.push(0);
        }
        c.extend_from_slice(&be[i..]);
    }
    tlv(0x02, &c)
}

pub fn uint_u64(v: u64) -> Vec<u8> { uint(&v.to_be_bytes()) }

pub fn oid(arcs: &[u64]) -> Vec<u8> {
    let mut c = Vec::new();
    let first = arcs[0] * 40 + arcs[1];
    push_base128(&mut c, first);
    for a in &arcs[2..] {
        push_base128(&mut c, *a);
    }
    tlv(0x06, &c)
}

fn push_base128(out: &mut Vec<u8>, mut v: u64) {
    let mut tmp = vec![(v & 0x7f) as u8];
    v >>= 7;
    while v > 0 {
        tmp.insert(0, 0x80 | (v & 0x7f) as u8);
        v >>= 7;
    }
    out.extend(tmp);
}

pub fn octets(b: &[u8]) -> Vec<u8> { tlv(0x04, b) }

pub fn bits(unused: u8, b: &[u8]) -> Vec<u8> {
    let mut c = vec![unused];
    c.extend_from_slice(b);
    tlv(0x03, &c)
}

pub fn ia5(b: &[u8]) -> Vec<u8> { tlv(0x16, b) }
pub fn utf8(b: &[u8]) -> Vec<u8> { tlv(0x0c, b) }
pub fn printable(b: &[u8]) -> Vec<u8> { tlv(0x13, b) }
pub fn null() -> Vec<u8> { vec![5, 0] }
pub fn boolean(v: bool) -> Vec<u8> { vec![1, 1, if v { 0xff } else { 0 }] }

/// YYYYMMDDHHMMSSZ
pub fn gen_time(y: i32, mo: u32, d: u32, h: u32, mi: u32, s: u32) -> Vec<u8> {
    tlv(0x18, format!("{:04}{:02}{:02}{:02}{:02}{:02}Z", y, mo, d, h, mi, s).as_bytes())
}

/// YYMMDDHHMMSSZ
pub fn utc_time(y: i32, mo: u32, d: u32, h: u32, mi: u32, s: u32) -> Vec<u8> {
    tlv(0x17, format!("{:02}{:02}{:02}{:02}{:02}{:02}Z", y % 100, mo, d, h, mi, s).as_bytes())
}

/// RFC 5280 rule: UTCTime through 2049, GeneralizedTime from 2050.
pub fn x509_time(y: i32, mo: u32, d: u32, h: u32, mi: u32, s: u32) -> Vec<u8> {
    if (1950..=2049).contains(&y) { utc_time(y, mo, d, h, mi, s) } else { gen_time(y, mo, d, h, mi, s) }
}

/// context-specific tag, constructed (explicit) or primitive (implicit).
pub fn ctx(n: u8, constructed: bool, content: &[u8]) -> Vec<u8> {
    tlv(0x80 | if constructed { 0x20 } else { 0 } | n, content)
}

//------------ reading (only what tampering needs) ---------------------------

/// Splits one TLV at the start of `b`: (header length, content length).
pub fn split_tlv(b: &[u8]) -> Option<(usize, usize)> {
    if b.len() < 2 || b[0] & 0x1f == 0x1f {
        return None;
    }
    let l0 = b[1];
    if l0 < 0x80 {
        let n = l0 as usize;
        if b.len() < 2 + n { return None }
        return Some((2, n));
    }
    let k = (l0 & 0x7f) as usize;
    if k == 0 || k > 4 || b.len() < 2 + k {
        return None;
    }
    let mut n = 0usize;
    for i in 0..k {
        n = (n << 8) | b[2 + i] as usize;
    }
    if b.len() < 2 + k + n { return None }
    Some((2 + k, n))
}

/// All TLV boundaries (offset, header len, content len, depth) of a DER blob,
/// descending into constructed values and into OCTET/BIT STRINGs that parse.
pub fn walk(b: &[u8]) -> Vec<(usize, usize, usize, usize)> {
    fn go(b: &[u8], base: usize, depth: usize, out: &mut Vec<(usize, usize, usize, usize)>) {
        let mut off = 0;
        while off < b.len() {
            let Some((h, n)) = split_tlv(&b[off..]) else { return };
            out.push((base + off, h, n, depth));
            let tag = b[off];
            let c = &b[off + h..off + h + n];
            if tag & 0x20 != 0 {
                go(c, base + off + h, depth + 1, out);
            } else if tag == 0x04 && n >= 2 && (c[0] == 0x30 || c[0] == 0x31) {
                go(c, base + off + h, depth + 1, out);
            } else if tag == 0x03 && n >= 3 && c[0] == 0 && c[1] == 0x30 {
                go(&c[1..], base + off + h + 1, depth + 1, out);
            }
            off += h + n;
        }
    }
    let mut out = Vec::new();
    go(b, 0, 0, &mut out);
    out
}

//------------ tree view (for mutations that keep every enclosing length consistent) ---------

#[derive(Clone, Debug)]
pub struct Node {
    pub tag: u8,
    /// children when the value is constructed, or a primitive OCTET/BIT STRING that wraps DER
    pub kids: Option<Vec<Node>>,
    /// for a wrapping BIT STRING: the unused-bits octet kept in front of the children
    pub lead: Vec<u8>,
    pub content: Vec<u8>,
    /// write the length in a longer form than DER allows (`81 n` below 128, `82 hi lo` below 256, …): BER only
    pub long_len: bool,
}

pub fn parse_nodes(b: &[u8]) -> Option<Vec<Node>> {
    let mut out = Vec::new();
    let mut off = 0;
    while off < b.len() {
        let (h, n) = split_tlv(&b[off..])?;
        let tag = b[off];
        let c = &b[off + h..off + h + n];
        let mut node = Node { tag, kids: None, lead: vec![], content: c.to_vec(), long_len: false };
        if tag & 0x20 != 0 {
            node.kids = Some(parse_nodes(c)?);
        } else if tag == 0x04 && n >= 2 && matches!(c[0], 0x30 | 0x31 | 0x03 | 0x02 | 0x06) {
            // an OCTET STRING that wraps DER (extension values, eContent)
            if let Some(k) = parse_nodes(c) { if !k.is_empty() { node.kids = Some(k); } }
        } else if tag == 0x03 && n >= 3 && c[0] == 0 && c[1] == 0x30 {
            if let Some(k) = parse_nodes(&c[1..]) { node.kids = Some(k); node.lead = vec![0]; }
        }
        out.push(node);
        off += h + n;
    }
    Some(out)
}

pub fn encode_nodes(nodes: &[Node]) -> Vec<u8> {
    let mut out = Vec::new();
    for n in nodes {
        let c = match &n.kids {
            Some(k) => { let mut v = n.lead.clone(); v.extend(encode_nodes(k)); v }
            None => n.content.clone(),
        };
        if n.long_len {
            out.push(n.tag);
            let l = c.len();
            if l < 0x80 { out.extend([0x81, l as u8]); }
            else if l < 0x100 { out.extend([0x82, 0, l as u8]); }
            else if l < 0x10000 { out.extend([0x83, 0, (l >> 8) as u8, l as u8]); }
            else { out.extend([0x84, 0, (l >> 16) as u8, (l >> 8) as u8, l as u8]); }
            out.extend(&c);
        } else {
            out.extend(tlv(n.tag, &c));
        }
    }
    out
}

/// number of nodes in the forest
pub fn count_nodes(nodes: &[Node]) -> usize {
    nodes.iter().map(|n| 1 + n.kids.as_ref().map(|k| count_nodes(k)).unwrap_or(0)).sum()
}

/// applies `f` to the `idx`-th node in pre-order together with its sibling list position
pub fn with_node<F: FnOnce(&mut Vec<Node>, usize)>(nodes: &mut Vec<Node>, idx: &mut usize, f: &mut Option<F>) {
    let mut i = 0;
    while i < nodes.len() {
        if *idx == 0 {
            if let Some(g) = f.take() { g(nodes, i); }
            return;
        }
        *idx -= 1;
        if let Some(k) = nodes[i].kids.as_mut() {
            with_node(k, idx, f);
            if f.is_none() { return }
        }
        i += 1;
    }
}
