//! C01 — certificate validation (src/repository/cert.rs).
//!
//! op:  v <now> <kind> <facts_0> … <facts_n> | <der_0> … <der_n>
//!   der_0 is a trust anchor, der_1..n-1 CA certificates, der_n the certificate under test
//!   (kind: ta (n = 0), ca, ee, dee, rt).  der_0..n-1 are validated at T0, der_n at <now>.
//!   facts_i = ground truth from the generator (never read back from the library):
//!     sig:dec:nb:na:ski:kid:aki:bc:ku:eku:crl:aia:rep:mft:so:ntf:trim:v4:v6:as
//!   => err | ok <v4> <v6> <as> | ok (router) | issuer-invalid
use crate::pki::{self, CertSpec, Kind, Pool, Res};
use crate::rng::{hex, unhex, Rng};
use crate::Ctx;
use bytes::Bytes;
use chrono::{TimeZone, Utc};
use rpki::repository::cert::{Cert, ResourceCert};
use rpki::repository::resources::{AsBlocks, IpBlocks};
use rpki::repository::tal::TalInfo;
use rpki::repository::x509::Time;

pub const T0: i64 = 1_750_000_000;

pub fn time(ts: i64) -> Time { Time::new(Utc.timestamp_opt(ts, 0).unwrap()) }

pub fn show_ip(c: &IpBlocks, v4: bool) -> String {
    let v: Vec<String> = c.iter().map(|b| {
        let (lo, hi) = (b.min().to_bits(), b.max().to_bits());
        if v4 {
            if lo & ((1u128 << 96) - 1) != 0 || hi & ((1u128 << 96) - 1) != (1u128 << 96) - 1 {
                return "odd".to_string();
            }
            format!("{}-{}", lo >> 96, hi >> 96)
        } else {
            format!("{}-{}", lo, hi)
        }
    }).collect();
    if v.is_empty() { "-".into() } else { v.join(",") }
}

pub fn show_as(c: &AsBlocks) -> String {
    let v: Vec<String> = c.iter().map(|b| format!("{}-{}", b.min().into_u32(), b.max().into_u32())).collect();
    if v.is_empty() { "-".into() } else { v.join(",") }
}

pub fn show_rc(rc: &ResourceCert) -> String {
    format!("ok {} {} {}", show_ip(rc.v4_resources(), true), show_ip(rc.v6_resources(), false), show_as(rc.as_resources()))
}

/// Validates der_0..n-1 as TA/CA chain at T0.
pub fn issuer_chain(ders: &[Vec<u8>]) -> Option<ResourceCert> {
    let mut rc: Option<ResourceCert> = None;
    for (i, d) in ders.iter().enumerate() {
        let cert = Cert::decode(Bytes::from(d.clone())).ok()?;
        rc = Some(if i == 0 {
            cert.validate_ta_at(TalInfo::from_name("t".into()).into_arc(), true, time(T0)).ok()?
        } else {
            cert.validate_ca_at(rc.as_ref().unwrap(), true, time(T0)).ok()?
        });
    }
    rc
}

/// evaluation instants with a fraction of a second (what `Time::now()` gives): `<seconds>+h` is half a second later
fn time_tok(t: &str) -> Option<Time> {
    match t.strip_suffix("+h") {
        Some(s) => Some(Time::new(Utc.timestamp_opt(s.parse().ok()?, 500_000_000).single()?)),
        None => Some(time(t.parse().ok()?)),
    }
}

pub fn exec(toks: &[&str]) -> String {
    if toks.len() < 5 || toks[0] != "v" { return "bad-op".into() }
    let Some(now_t) = time_tok(toks[1]) else { return "bad-op".into() };
    let kind = toks[2];
    let Some(bar) = toks.iter().position(|t| *t == "|") else { return "bad-op".into() };
    let ders: Option<Vec<Vec<u8>>> = toks[bar + 1..].iter().map(|h| unhex(h)).collect();
    let Some(ders) = ders else { return "bad-op".into() };
    if ders.is_empty() { return "bad-op".into() }
    let (last, issuers) = ders.split_last().unwrap();
    let Ok(cert) = Cert::decode(Bytes::from(last.clone())) else { return "err".into() };
    // every public entry point that decides the same question must give the same verdict: the one-step
    // `validate_*_at`, the two steps `inspect_*` + `verify_*_at`, and for trust anchors the by-reference variant
    fn alt(main_ok: bool, other_ok: bool, name: &str) -> String { if main_ok != other_ok { format!(" ALT={}", name) } else { String::new() } }
    if kind == "ta" {
        let tal = || TalInfo::from_name("t".into()).into_arc();
        let two = cert.inspect_ta(true).is_ok() && cert.clone().verify_ta_at(tal(), true, now_t).is_ok();
        let by_ref = cert.inspect_ta(true).is_ok() && cert.verify_ta_ref_at(true, now_t).is_ok();
        // the generated names conform to the profile, which is all `strict` looks at: both modes must agree
        let relaxed = cert.clone().validate_ta_at(tal(), false, now_t).is_ok();
        let main = cert.validate_ta_at(tal(), true, now_t);
        let extra = format!("{}{}{}", alt(main.is_ok(), two, "inspect_ta+verify_ta_at"), alt(main.is_ok(), by_ref, "inspect_ta+verify_ta_ref_at"),
            alt(main.is_ok(), relaxed, "validate_ta_at(strict=false)"));
        return match main {
            Ok(rc) => format!("{}{}", show_rc(&rc), extra),
            Err(_) => format!("err{}", extra),
        };
    }
    let Some(issuer) = issuer_chain(issuers) else { return "issuer-invalid".into() };
    match kind {
        "ca" => {
            let two = cert.inspect_ca(true).is_ok() && cert.clone().verify_ca_at(&issuer, true, now_t).is_ok();
            let relaxed = cert.clone().validate_ca_at(&issuer, false, now_t).is_ok();
            match cert.validate_ca_at(&issuer, true, now_t) { Ok(rc) => format!("{}{}{}", show_rc(&rc), alt(true, two, "inspect_ca+verify_ca_at"), alt(true, relaxed, "validate_ca_at(strict=false)")), Err(_) => format!("err{}{}", alt(false, two, "inspect_ca+verify_ca_at"), alt(false, relaxed, "validate_ca_at(strict=false)")) }
        }
        "ee" => {
            let two = cert.inspect_ee(true).is_ok() && cert.clone().verify_ee_at(&issuer, true, now_t).is_ok();
            let relaxed = cert.clone().validate_ee_at(&issuer, false, now_t).is_ok();
            match cert.validate_ee_at(&issuer, true, now_t) { Ok(rc) => format!("{}{}{}", show_rc(&rc), alt(true, two, "inspect_ee+verify_ee_at"), alt(true, relaxed, "validate_ee_at(strict=false)")), Err(_) => format!("err{}{}", alt(false, two, "inspect_ee+verify_ee_at"), alt(false, relaxed, "validate_ee_at(strict=false)")) }
        }
        "dee" => {
            let two = cert.inspect_detached_ee(true).is_ok() && cert.clone().verify_ee_at(&issuer, true, now_t).is_ok();
            let relaxed = cert.clone().validate_detached_ee_at(&issuer, false, now_t).is_ok();
            match cert.validate_detached_ee_at(&issuer, true, now_t) { Ok(rc) => format!("{}{}{}", show_rc(&rc), alt(true, two, "inspect_detached_ee+verify_ee_at"), alt(true, relaxed, "validate_detached_ee_at(strict=false)")), Err(_) => format!("err{}{}", alt(false, two, "inspect_detached_ee+verify_ee_at"), alt(false, relaxed, "validate_detached_ee_at(strict=false)")) }
        }
        "rt" => {
            let two = cert.inspect_router(true).is_ok() && cert.verify_router_at(&issuer, true, now_t).is_ok();
            let relaxed = cert.validate_router_at(&issuer, false, now_t).is_ok();
            match cert.validate_router_at(&issuer, true, now_t) { Ok(()) => format!("ok{}{}", alt(true, two, "inspect_router+verify_router_at"), alt(true, relaxed, "validate_router_at(strict=false)")), Err(_) => format!("err{}{}", alt(false, two, "inspect_router+verify_router_at"), alt(false, relaxed, "validate_router_at(strict=false)")) }
        }
        _ => "bad-op".into(),
    }
}

//------------ generation ----------------------------------------------------

fn show_res(r: &Res) -> String {
    match r {
        Res::Missing => "M".into(),
        Res::Inherit => "I".into(),
        Res::Blocks(b) => if b.is_empty() { "-".into() } else {
            b.iter().map(|(l, h)| format!("{}-{}", l, h)).collect::<Vec<_>>().join(",")
        },
    }
}

fn b01(b: bool) -> &'static str { if b { "1" } else { "0" } }

/// what the signed octets claim for a family (1 IPv4, 2 IPv6, 0 AS): the regular value, united with the blocks of every
/// additional family / extension the certificate carries
fn claimed(s: &CertSpec, fam: u8) -> Res {
    let base = match fam { 1 => &s.v4, 2 => &s.v6, _ => &s.asn };
    let mut extra: Vec<(u128, u128)> = Vec::new();
    if fam > 0 { for (afi, b) in &s.extra_fams { if *afi == fam { extra.extend(b.iter().cloned()); } } }
    if fam == 1 { if let Some(b) = &s.extra_ip_ext { extra.extend(b.iter().cloned()); } }
    if fam == 0 { if let Some(b) = &s.extra_as_ext { extra.extend(b.iter().cloned()); } }
    if extra.is_empty() { return base.clone() }
    match base { Res::Blocks(b) => { let mut v = extra; v.extend(b.iter().cloned()); Res::Blocks(v) } _ => Res::Blocks(extra) }
}

/// sig / dec are supplied by the caller (they depend on how the bytes were produced).
pub fn facts(s: &CertSpec, sig: bool, dec: bool, kid: &[u8]) -> String {
    format!("{}:{}:{}:{}:{}:{}:{}:{}:{}:{}:{}:{}:{}:{}:{}:{}:{}:{}:{}:{}:{}",
        b01(sig), b01(dec), s.not_before, s.not_after, hex(&s.ski), hex(kid),
        match &s.aki { Some(a) => hex(a), None => "N".into() },
        match s.ca { Some(true) => "T", Some(false) => "F", None => "N" },
        if s.ku_ca { "c" } else { "e" }, b01(s.eku_router),
        b01(s.crl_uri.is_some()), b01(s.ca_issuer.is_some()), b01(s.ca_repository.is_some()),
        b01(s.rpki_manifest.is_some()), b01(s.signed_object.is_some()), b01(s.rpki_notify.is_some()),
        b01(s.trim), show_res(&claimed(s, 1)), show_res(&claimed(s, 2)), show_res(&claimed(s, 0)),
        // public key algorithm: the RSA SPKIs start with the rsaEncryption AlgorithmIdentifier of length 13
        if s.spki.len() > 200 { "r" } else { "e" })
}

fn max_of(width: u32) -> u128 { if width == 128 { u128::MAX } else { (1u128 << width) - 1 } }

/// random canonical-ish block list over a `width`-bit space, biased to small numbers and the ends
pub fn rand_blocks(rng: &mut Rng, width: u32, n: usize) -> Vec<(u128, u128)> {
    let max = max_of(width);
    let mut pts: Vec<u128> = (0..2 * n).map(|_| match rng.below(6) {
        0 => rng.below(40) as u128,
        1 => max - rng.below(40) as u128,
        2 => (rng.below(16) as u128) << (width - 8),
        3 => ((rng.below(16) as u128) << (width - 8)).wrapping_sub(1) & max,
        _ => rng.u128() & max,
    }).collect();
    pts.sort();
    let mut v = Vec::new();
    for c in pts.chunks(2) {
        v.push((c[0], c[1]));
    }
    // make them non-adjacent and disjoint
    let mut out: Vec<(u128, u128)> = Vec::new();
    for (l, h) in v {
        if let Some(last) = out.last() {
            if l <= last.1.saturating_add(1) { continue }
        }
        out.push((l, h));
    }
    out
}

/// a claim derived from the issuer's effective blocks
fn derive(rng: &mut Rng, issuer: &[(u128, u128)], width: u32, allow_outside: bool, straddle: bool) -> Vec<(u128, u128)> {
    let max = max_of(width);
    let mut out = Vec::new();
    for (l, h) in issuer {
        match rng.below(5) {
            0 => {}
            1 => out.push((*l, *h)),
            2 => { let a = l + rng.below(((h - l).min(1000) + 1) as u64) as u128; out.push((a, *h)); }
            3 => { let b = h - rng.below(((h - l).min(1000) + 1) as u64) as u128; out.push((*l, b)); }
            _ => {
                let a = l + rng.below(((h - l).min(1000) + 1) as u64) as u128;
                let b = a + rng.below(((h - a).min(1000) + 1) as u64) as u128;
                out.push((a, b));
            }
        }
    }
    if straddle && !issuer.is_empty() {
        // a block that straddles one edge of an issuer block by a hair: ending exactly on its first element,
        // starting exactly on its last, or stopping / starting one short of it (what a trimming or covering
        // comparison decides with `<` against `<=`)
        let (l, h) = issuer[rng.below(issuer.len() as u64) as usize];
        let k = 1 + rng.below(3) as u128;
        let blk = match rng.below(6) {
            0 if l >= k => Some((l - k, l)),
            1 if h <= max - k => Some((h, h + k)),
            2 if l > k => Some((l - k, l - 1)),
            3 if h < max - k => Some((h + 1, h + k)),
            4 if l >= k && h <= max - k => Some((l - k, h + k)),
            _ if l >= k => Some((l - k, l + rng.below(((h - l).min(2) + 1) as u64) as u128)),
            _ => None,
        };
        if let Some(b) = blk {
            out.retain(|(a, z)| *z < b.0 || *a > b.1);
            out.push(b);
            out.sort();
            return out;
        }
    }
    if allow_outside {
        // push one end of one block (or a new block) outside the issuer's set
        match rng.below(4) {
            0 if !out.is_empty() => { let i = rng.below(out.len() as u64) as usize; if out[i].1 < max { out[i].1 = out[i].1.saturating_add(1 + rng.below(3) as u128); if out[i].1 > max { out[i].1 = max } } }
            1 if !out.is_empty() => { let i = rng.below(out.len() as u64) as usize; if out[i].0 > 0 { out[i].0 -= 1; } }
            2 => out.push((max - rng.below(5) as u128, max)),
            _ => out.push((rng.below(5) as u128, 7)),
        }
    }
    out
}

fn parse_show(s: &str) -> Vec<(u128, u128)> {
    if s == "-" { return vec![] }
    s.split(',').filter_map(|b| { let mut it = b.split('-'); Some((it.next()?.parse().ok()?, it.next()?.parse().ok()?)) }).collect()
}

pub fn generate(ctx: &mut Ctx) {
    let mut rng = Rng::new(ctx.seed ^ 0xC01);
    let pool = Pool::new(6);
    let n = if ctx.tier_thorough { 12000 } else { 1500 };
    // the last quarter of the cases aim at the edges of the issuer's blocks (see `derive`); they come after the
    // main stream so that the main stream is the same with and without them
    for _case in 0..(n + n / 4) {
        let edge = _case >= n;
        // --- trust anchor
        let mut ders: Vec<Vec<u8>> = Vec::new();
        let mut fs: Vec<String> = Vec::new();
        let mut ta = pool.spec(0, 0, Kind::Ta);
        ta.not_before = 1_600_000_000;
        ta.not_after = 1_900_000_000;
        let nb = rng.range(1, 4) as usize;
        ta.v4 = if rng.chance(4, 5) { Res::Blocks(rand_blocks(&mut rng, 32, nb)) } else { Res::Missing };
        ta.v6 = if rng.chance(3, 5) { Res::Blocks(rand_blocks(&mut rng, 128, nb)) } else { Res::Missing };
        ta.asn = if rng.chance(4, 5) || (ta.v4 == Res::Missing && ta.v6 == Res::Missing) {
            Res::Blocks(rand_blocks(&mut rng, 32, nb))
        } else { Res::Missing };
        if rng.chance(1, 10) { ta.v4 = Res::Blocks(vec![(0, max_of(32))]); }
        if rng.chance(1, 10) { ta.asn = Res::Blocks(vec![(0, max_of(32))]); }
        if rng.chance(1, 10) { ta.aki = Some(ta.ski.clone()); }
        let depth = rng.below(4) as usize;       // number of certificates below the TA
        let leaf_kind = if depth == 0 { Kind::Ta } else { *rng.pick(&[Kind::Ca, Kind::Ee, Kind::Ee, Kind::Router]) };
        let mut specs: Vec<(CertSpec, usize, usize)> = vec![(ta, 0, 0)];   // spec, subject key, signer key
        // --- intermediate CAs, valid by construction
        let mut rc: Option<ResourceCert> = None;
        for level in 0..=depth {
            let is_leaf = level == depth;
            if level > 0 {
                let issuer_rc = rc.as_ref().unwrap();
                let kind = if is_leaf { leaf_kind } else { Kind::Ca };
                let mut s = pool.spec(level, level - 1, kind);
                s.not_before = 1_650_000_000 + rng.below(1000) as i64;
                s.not_after = 1_850_000_000 + rng.below(1000) as i64;
                s.trim = if edge { rng.chance(2, 3) } else { rng.chance(1, 3) };
                let s_trim = s.trim;
                let i4 = parse_show(&show_ip(issuer_rc.v4_resources(), true));
                let i6 = parse_show(&show_ip(issuer_rc.v6_resources(), false));
                let ia = parse_show(&show_as(issuer_rc.as_resources()));
                let outside = is_leaf && rng.chance(1, 4) || (s.trim && rng.chance(1, 2));
                let which = rng.below(3);
                let mut pick = |rng: &mut Rng, iss: &[(u128, u128)], w: u32, fam: u64| -> Res {
                    match rng.below(8) {
                        0 => Res::Missing,
                        1 | 2 => Res::Inherit,
                        _ => Res::Blocks(derive(rng, iss, w, outside && which == fam, edge && (s_trim || which == fam))),
                    }
                };
                s.v4 = pick(&mut rng, &i4, 32, 0);
                s.v6 = pick(&mut rng, &i6, 128, 1);
                s.asn = pick(&mut rng, &ia, 32, 2);
                if kind == Kind::Router {
                    s.v4 = Res::Missing;
                    s.v6 = Res::Missing;
                    if matches!(s.asn, Res::Missing | Res::Inherit) && rng.chance(9, 10) {
                        s.asn = Res::Blocks(derive(&mut rng, &ia, 32, outside, edge));
                    }
                    s.ca_issuer = Some("rsync://h/m/x.cer".into());
                    if rng.chance(9, 10) {
                        s.spki = pool.ec_spki.clone();
                        s.ski = pool.ec_ski.clone();
                        s.subject = "ROUTER-0000FFFF".into();
                    }
                }
                if s.v4 == Res::Missing && s.v6 == Res::Missing && s.asn == Res::Missing {
                    s.asn = Res::Inherit;
                }
                if kind == Kind::Router && s.asn == Res::Inherit && rng.chance(9, 10) {
                    s.asn = Res::Blocks(vec![]);
                }
                specs.push((s, level, level - 1));
            }
            let (spec, subj, signer) = specs[level].clone();
            if !is_leaf {
                let der = pool.issue(&spec, signer);
                let f = facts(&spec, true, true, &pool.keys[subj].ski);
                let cert = Cert::decode(Bytes::from(der.clone())).ok();
                let next = cert.and_then(|c| if level == 0 {
                    c.validate_ta_at(TalInfo::from_name("t".into()).into_arc(), true, time(T0)).ok()
                } else {
                    c.validate_ca_at(rc.as_ref().unwrap(), true, time(T0)).ok()
                });
                ders.push(der);
                fs.push(f);
                match next {
                    Some(r) => rc = Some(r),
                    None => {
                        // an intermediate turned out invalid (e.g. refused overclaim): it becomes the leaf
                        let kind = if level == 0 { "ta" } else { "ca" };
                        ctx.case(&format!("v {} {} {} | {}", T0, kind, fs.join(" "),
                            ders.iter().map(|d| hex(d)).collect::<Vec<_>>().join(" ")));
                        ders.clear();
                        break;
                    }
                }
                continue;
            }
            // --- the certificate under test, with at most one tampering
            let mut spec = spec;
            let mut signer = signer;
            let mut now = *rng.pick(&[T0, spec.not_before + 5000, spec.not_after - 5000]);
            let mut sig = true;
            let mut dec = true;
            let mut post: u64 = 0;
            let kid = if spec.spki == pool.ec_spki { pool.ec_ski.clone() } else { pool.keys[subj].ski.clone() };
            let ymd = |y: i32, m: u32, d: u32| Utc.with_ymd_and_hms(y, m, d, 0, 0, 0).unwrap().timestamp();
            // edge stream: a resource family or extension that occurs twice, the first occurrence outside the issuer - no
            // reader may accept such a certificate, whichever occurrence it would look at
            if edge && level > 0 && rng.chance(1, 4) {
                let outside32 = vec![(max_of(32) - 7, max_of(32))];
                match rng.below(4) {
                    0 => spec.extra_fams.push((1, outside32)),
                    1 => spec.extra_fams.push((2, vec![(max_of(128) - 7, max_of(128))])),
                    2 => spec.extra_ip_ext = Some(outside32),
                    _ => spec.extra_as_ext = Some(outside32),
                }
                dec = false;
            }
            match rng.below(33) {
                0 => now = spec.not_before - 1,
                1 => now = spec.not_before,
                2 => now = spec.not_after,
                3 => now = spec.not_after + 1,
                4 => { spec.not_after = spec.not_before; now = spec.not_before; }
                5 => { signer = 5; sig = false; }                                  // signed by a stranger
                6 => { if level > 0 { spec.aki = Some(pool.keys[5].ski.clone()); } else { spec.aki = Some(pool.keys[5].ski.clone()); } }
                7 => { let mut a = spec.aki.clone().unwrap_or(spec.ski.clone()); a[rng.below(20) as usize] ^= 1 << rng.below(8); spec.aki = Some(a); }
                8 => { if level > 0 { spec.aki = None; } }
                9 => { spec.ski[rng.below(20) as usize] ^= 1 << rng.below(8); }
                10 => { spec.ski = pool.keys[5].ski.clone(); }
                11 => post = 1,                                                     // flip a signature bit
                12 => post = 2,                                                     // flip a TBS bit
                13 => { spec.res_oid_mismatch = true; dec = false; }
                14 => { spec.crl_uri = if spec.crl_uri.is_some() { None } else { Some("rsync://h/m/c.crl".into()) }; }
                15 => { spec.ca_issuer = if spec.ca_issuer.is_some() { None } else { Some("rsync://h/m/i.cer".into()) }; }
                16 => { spec.ca = match spec.ca { None => Some(true), Some(true) => if rng.bool() { Some(false) } else { None }, Some(false) => None }; }
                17 => { spec.ca_repository = if spec.ca_repository.is_some() { None } else { Some("rsync://h/m/r/".into()) }; }
                18 => { spec.rpki_manifest = if spec.rpki_manifest.is_some() { None } else { Some("rsync://h/m/r/m.mft".into()) }; }
                19 => { spec.signed_object = if spec.signed_object.is_some() { None } else { Some("rsync://h/m/r/o.roa".into()) }; }
                20 => { if level == 0 { match rng.below(3) { 0 => spec.v4 = Res::Inherit, 1 => spec.v6 = Res::Inherit, _ => spec.asn = Res::Inherit } } }
                21 => { spec.trim = !spec.trim; }
                22 => { spec.eku_router = !spec.eku_router; }
                23 => { spec.rpki_notify = Some("https://h/n.xml".into()); }
                // the two time encodings and the two-digit-year pivot: windows that end / begin in 1950, 2049 and 2050
                24 => { spec.not_before = ymd(1949, 6, 1); spec.not_after = ymd(1950, 6, 1); }                 // long expired
                25 => { spec.not_before = ymd(1950, 1, 1); spec.not_after = ymd(2049, 12, 31) + 86399; }       // both UTCTime, extreme years
                26 => { spec.not_before = ymd(2049, 12, 31); spec.not_after = ymd(2050, 1, 1); now = *rng.pick(&[ymd(2049, 12, 31) - 1, ymd(2049, 12, 31) + 5, ymd(2050, 1, 1), ymd(2050, 1, 1) + 1]); }
                27 => { spec.not_before = ymd(1950, 1, 1); spec.not_after = ymd(1950, 12, 31); now = *rng.pick(&[ymd(1950, 6, 1), ymd(1949, 12, 31), ymd(1951, 1, 1), T0]); }
                28 => { spec.not_before = ymd(2050, 1, 1); spec.not_after = ymd(2051, 1, 1); }                  // not yet valid (GeneralizedTime)
                _ => {}
            }
            // key usage must agree with the CA flag at decode time; keep them consistent unless case 16 changed it
            let mut der = pool.issue(&spec, signer);
            if post > 0 {
                sig = false;
                let (h, nlen) = crate::der::split_tlv(&der).unwrap();
                let body = &der[h..h + nlen];
                let (th, tn) = crate::der::split_tlv(body).unwrap();
                let tbs_len = th + tn;
                if post == 1 {
                    // signature bits are the last 256 bytes
                    let p = der.len() - 1 - rng.below(256) as usize;
                    der[p] ^= 1 << rng.below(8);
                } else {
                    let p = h + rng.below(tbs_len as u64) as usize;
                    der[p] ^= 1 << rng.below(8);
                    dec = false;
                }
            }
            // key-usage / basic-constraints consistency is checked while decoding
            if spec.ca.is_some() != spec.ku_ca && spec.ca != Some(false) { dec = false; }
            let kind = match leaf_kind { Kind::Ta => "ta", Kind::Ca => "ca",
                Kind::Ee => if rng.chance(1, 6) { "dee" } else { "ee" }, Kind::Router => "rt" };
            ders.push(der);
            fs.push(facts(&spec, sig, dec, &kid));
            // half of the window-edge cases are evaluated half a second later (an instant no encoding carries)
            let now_s = if rng.chance(1, 3) { format!("{}+h", now) } else { now.to_string() };
            ctx.case(&format!("v {} {} {} | {}", now_s, kind, fs.join(" "),
                ders.iter().map(|d| hex(d)).collect::<Vec<_>>().join(" ")));
        }
    }
}
