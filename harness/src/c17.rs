//! C17 — X.509 times, validity windows, serial numbers (src/repository/x509.rs).
use crate::rng::{hex, unhex, Rng};
use crate::Ctx;
use bcder::encode::{PrimitiveContent, Values};
use bcder::Mode;
use chrono::{Datelike, TimeZone, Timelike, Utc};
use rpki::repository::x509::{Serial, Time, Validity};
use std::str::FromStr;

fn tlv(tag: u8, content: &[u8]) -> Vec<u8> {
    let mut v = vec![tag];
    if content.len() < 128 {
        v.push(content.len() as u8);
    } else {
        v.push(0x81);
        v.push(content.len() as u8);
    }
    v.extend_from_slice(content);
    v
}

fn show_time(t: Time) -> String {
    format!("ok {} {} {} {} {} {}", t.year(), t.month(), t.day(), t.hour(), t.minute(), t.second())
}

/// Decodes one time TLV with both `take_from` and `take_opt_from`.
fn decode_time(der: &[u8]) -> String {
    let a = Mode::Der.decode(der, Time::take_from);
    let b = Mode::Der.decode(der, |cons| Time::take_opt_from(cons));
    match (a, b) {
        (Ok(x), Ok(Some(y))) => if x == y { show_time(x) } else { "decoders-disagree".into() },
        (Err(_), Err(_)) => "err".into(),
        _ => "decoders-disagree".into(),
    }
}

fn encode_time(t: Time) -> Option<(u8, Vec<u8>)> {
    let cap = t.encode_varied().to_captured(Mode::Der);
    let b = cap.as_slice();
    if b.len() < 2 || b[1] as usize != b.len() - 2 {
        return None;
    }
    Some((b[0], b[2..].to_vec()))
}

fn valid_date(y: u32, m: u32, d: u32) -> bool {
    chrono::NaiveDate::from_ymd_opt(y as i32, m, d).is_some()
}

fn time_of(ts: i64) -> Time {
    Time::new(Utc.timestamp_opt(ts, 0).unwrap())
}

fn show_v(r: Result<(), rpki::repository::x509::ValidityPeriodError>) -> String {
    match r {
        Ok(()) => "ok".into(),
        Err(e) => {
            let s = format!("{}", e);
            if s.contains("not yet valid") || s.contains("too new") || s.contains("not yet") { "toonew".into() }
            else { "tooold".into() }
        }
    }
}

fn serial20(hx: &str) -> Option<Serial> {
    let b = unhex(hx)?;
    if b.len() != 20 { return None; }
    let mut a = [0u8; 20];
    a.copy_from_slice(&b);
    Serial::from_array(a).ok()
}

pub fn exec(toks: &[&str]) -> String {
    match toks {
        ["enc", y, m, d, h, mi, s] => {
            let p: Vec<u32> = [y, m, d, h, mi, s].iter().map(|x| x.parse().unwrap()).collect();
            let t = Time::utc(p[0] as i32, p[1], p[2], p[3], p[4], p[5]);
            match encode_time(t) {
                Some((tag, content)) => {
                    let back = decode_time(&tlv(tag, &content));
                    let rt = if back == show_time(t) { "ok" } else { "mismatch" };
                    format!("{} {} {}", if tag == 0x17 { "utc" } else if tag == 0x18 { "gen" } else { "othertag" },
                        hex(&content), rt)
                }
                None => "bad-der".into(),
            }
        }
        ["dec", tag, hx] => {
            let tag = match *tag { "utc" => 0x17, "gen" => 0x18, _ => return "bad-op".into() };
            let c = match unhex(hx) { Some(c) => c, None => return "bad-op".into() };
            decode_time(&tlv(tag, &c))
        }
        ["sweep", y0, y1] => {
            let (y0, y1): (u32, u32) = (y0.parse().unwrap(), y1.parse().unwrap());
            let mut n = 0u64;
            let mut bad = 0u64;
            let mut tsum = 0u64;
            for y in y0..=y1 { for m in 1..=12 { for d in 1..=31 {
                if !valid_date(y, m, d) { continue; }
                for (h, mi, s) in [(0, 0, 0), (12, 34, 56), (23, 59, 59)] {
                    n += 1;
                    let t = Time::utc(y as i32, m, d, h, mi, s);
                    // the instant chrono gives the civil time, summed modulo 2^64 (model: Rpki/Model/Instant.lean)
                    tsum = tsum.wrapping_add(t.timestamp() as u64);
                    let ok = match encode_time(t) {
                        Some((tag, content)) => {
                            let want_utc = (1950..=2049).contains(&y);
                            let width_ok = if want_utc { tag == 0x17 && content.len() == 13 } else { tag == 0x18 && content.len() == 15 };
                            width_ok && decode_time(&tlv(tag, &content)) == show_time(t)
                        }
                        None => false,
                    };
                    if !ok { bad += 1; }
                }
            }}}
            format!("ok {} {} {}", n, bad, tsum)
        }
        // Time::years_from_date on the instant <ts>: the civil fields of the result
        ["yfd", years, ts] => {
            let (years, ts): (i32, i64) = match (years.parse(), ts.parse()) { (Ok(a), Ok(b)) => (a, b), _ => return "bad-op".into() };
            let date = match Utc.timestamp_opt(ts, 0) { chrono::LocalResult::Single(d) => d, _ => return "bad-op".into() };
            let t = Time::years_from_date(years, date);
            format!("{} {}", show_time(t), t.timestamp())
        }
        // Validity::from_secs / from_duration (wall clock): the window is ordered, as long as asked for, and holds now
        // (forwards) or ends now (backwards); reported as three verdicts so that the line does not depend on the clock
        ["fromsecs", secs] => {
            let secs: i64 = match secs.parse() { Ok(s) => s, Err(_) => return "bad-op".into() };
            let before = Time::now();
            let v = Validity::from_secs(secs);
            let after = Time::now();
            let (nb, na) = (v.not_before(), v.not_after());
            let len = na.timestamp() - nb.timestamp();
            let ordered = nb <= na;
            let long = (len - secs.abs()).abs() <= 3;   // two clock readings inside from_duration; generous against a loaded machine
            let anchored = if secs >= 0 { before <= nb && nb <= after } else { before <= na && na <= after };
            let v2 = Validity::from_duration(chrono::TimeDelta::try_seconds(secs).unwrap());
            let same = (v2.not_after().timestamp() - v2.not_before().timestamp() - len).abs() <= 3;
            format!("ordered={} length={} anchored={} from_duration={}", ordered, long, anchored, same)
        }
        ["validity", nb, na, now] => {
            let v = Validity::new(time_of(nb.parse().unwrap()), time_of(na.parse().unwrap()));
            // `<n>+h`: half a second after n (an evaluation instant between two representable times)
            let at = match now.strip_suffix("+h") {
                Some(n) => { use chrono::TimeZone; Time::new(chrono::Utc.timestamp_opt(n.parse().unwrap(), 500_000_000).unwrap()) }
                None => time_of(now.parse().unwrap()),
            };
            show_v(v.verify_at(at))
        }
        ["trim", nb1, na1, nb2, na2, now] => {
            let a = Validity::new(time_of(nb1.parse().unwrap()), time_of(na1.parse().unwrap()));
            let b = Validity::new(time_of(nb2.parse().unwrap()), time_of(na2.parse().unwrap()));
            let now = time_of(now.parse().unwrap());
            let t = a.trim(b);
            let t2 = b.trim(a);
            if t != t2 { return "trim-not-commutative".into(); }
            format!("{} {} {}", show_v(t.verify_at(now)), show_v(a.verify_at(now)), show_v(b.verify_at(now)))
        }
        ["sslice", hx] => {
            let b = match unhex(hx) { Some(b) => b, None => return "bad-op".into() };
            match Serial::from_slice(&b) {
                Ok(s) => format!("ok {}", hex(&s.into_array())),
                Err(e) => {
                    let m = format!("{}", e);
                    if m.contains("empty") { "err empty".into() } else { "err long".into() }
                }
            }
        }
        ["sder", hx] => match serial20(hx) {
            Some(s) => {
                let cap = s.encode().to_captured(Mode::Der);
                let b = cap.as_slice();
                if b.len() < 3 || b[0] != 0x02 || b[1] as usize != b.len() - 2 { return "bad-der".into(); }
                let rt = match Mode::Der.decode(b, Serial::take_from) {
                    Ok(t) if t == s => "ok",
                    Ok(_) => "mismatch",
                    Err(_) => "undecodable",
                };
                format!("{} {}", hex(&b[2..]), rt)
            }
            None => "bad-op".into(),
        },
        ["sderdec", hx] => {
            let c = match unhex(hx) { Some(c) => c, None => return "bad-op".into() };
            match Mode::Der.decode(&tlv(0x02, &c)[..], Serial::take_from) {
                Ok(s) => format!("ok {}", hex(&s.into_array())),
                Err(_) => "err".into(),
            }
        }
        ["sdec", hx] => match serial20(hx) {
            Some(s) => {
                let text = s.to_string();
                let text2: String = s.into();
                if text != text2 { return "display-disagrees".into(); }
                let rt = match Serial::from_str(&text) { Ok(t) if t == s => "ok", Ok(_) => "mismatch", Err(_) => "unparseable" };
                format!("{} {}", hex(text.as_bytes()), rt)
            }
            None => "bad-op".into(),
        },
        ["sfromstr", hx] => {
            let t = match unhex(hx) { Some(t) => t, None => return "bad-op".into() };
            let t = match String::from_utf8(t) { Ok(t) => t, Err(_) => return "bad-op".into() };
            match Serial::from_str(&t) {
                Ok(s) => format!("ok {}", hex(&s.into_array())),
                Err(_) => "err".into(),
            }
        }
        ["scmp", ah, bh] => match (serial20(ah), serial20(bh)) {
            (Some(a), Some(b)) => {
                if (a == b) != (a.cmp(&b) == std::cmp::Ordering::Equal) { return "eq-disagrees".into(); }
                match a.cmp(&b) { std::cmp::Ordering::Less => "lt", std::cmp::Ordering::Equal => "eq", _ => "gt" }.into()
            }
            _ => "bad-op".into(),
        },
        _ => "bad-op".into(),
    }
}

fn pow10_bytes(k: u32, delta: i32) -> [u8; 20] {
    // 10^k + delta as 20 big-endian bytes (k <= 47)
    let mut v = [0u8; 20];
    v[19] = 1;
    for _ in 0..k {
        let mut carry = 0u16;
        for i in (0..20).rev() {
            let s = v[i] as u16 * 10 + carry;
            v[i] = s as u8;
            carry = s >> 8;
        }
    }
    let mut i = 19;
    if delta > 0 {
        loop { let (n, o) = v[i].overflowing_add(1); v[i] = n; if !o || i == 0 { break; } i -= 1; }
    } else if delta < 0 {
        loop { let (n, o) = v[i].overflowing_sub(1); v[i] = n; if !o || i == 0 { break; } i -= 1; }
    }
    v
}

pub fn generate(ctx: &mut Ctx) {
    let mut rng = Rng::new(ctx.seed ^ 0xC17);
    let thorough = ctx.tier_thorough;
    // every day of selected years (quick) at three times of day, as explicit cases
    let years: Vec<u32> = vec![1, 2, 4, 100, 400, 1600, 1899, 1900, 1949, 1950, 1951, 1999, 2000, 2001, 2024, 2049, 2050, 2051, 2100, 9996, 9999];
    for &y in &years { for m in 1..=12u32 { for d in 1..=31u32 {
        if !valid_date(y, m, d) { continue; }
        for (h, mi, s) in [(0, 0, 0), (12, 34, 56), (23, 59, 59)] {
            if d <= 2 || d >= 27 || (y % 50 == 0) {
                ctx.case(&format!("enc {} {} {} {} {} {}", y, m, d, h, mi, s));
            }
        }
    }}}
    for _ in 0..10_000 {
        let y = if rng.bool() { rng.range(1, 9999) } else { rng.range(1940, 2060) } as u32;
        let m = rng.range(1, 12) as u32;
        let mut d = rng.range(1, 31) as u32;
        while !valid_date(y, m, d) { d -= 1; }
        ctx.case(&format!("enc {} {} {} {} {} {}", y, m, d, rng.below(24), rng.below(60), rng.below(60)));
    }
    // the calendar sweep, split into year ranges (one case per range)
    let step = 250;
    let mut y0 = 1;
    while y0 <= 9999 {
        let y1 = (y0 + step - 1).min(9999);
        if thorough || [1, 1751, 2001, 9751].contains(&y0) {
            ctx.case(&format!("sweep {} {}", y0, y1));
        }
        y0 += step;
    }
    // strings near valid ones: all single and double edits over a hostile alphabet
    let alpha = b"0123456789+- Zz:";
    let bases: [(&str, &str); 6] = [("utc", "500101000000Z"), ("utc", "491231235959Z"), ("utc", "240229120000Z"),
        ("gen", "20500101000000Z"), ("gen", "19491231235959Z"), ("gen", "00010101000000Z")];
    for (tag, base) in bases {
        let b = base.as_bytes();
        ctx.case(&format!("dec {} {}", tag, hex(b)));
        for i in 0..b.len() {
            for &c in alpha {
                let mut v = b.to_vec();
                v[i] = c;
                ctx.case(&format!("dec {} {}", tag, hex(&v)));
            }
            // deletion / insertion
            let mut v = b.to_vec(); v.remove(i);
            ctx.case(&format!("dec {} {}", tag, hex(&v)));
            for &c in b"0+Z " {
                let mut v = b.to_vec(); v.insert(i, c);
                ctx.case(&format!("dec {} {}", tag, hex(&v)));
            }
        }
        let pairs = if thorough { b.len() } else { 5 };
        for i in 0..pairs { for j in (i + 1)..b.len() {
            for &c in alpha { for &e in b"0+- 9Z" {
                let mut v = b.to_vec();
                v[i] = c; v[j] = e;
                ctx.case(&format!("dec {} {}", tag, hex(&v)));
            }}
        }}
        // trailing data, truncations, wrong tag
        for k in 0..=b.len() { ctx.case(&format!("dec {} {}", tag, hex(&b[..k]))); }
        let mut v = b.to_vec(); v.push(b'Z');
        ctx.case(&format!("dec {} {}", tag, hex(&v)));
        ctx.case(&format!("dec {} {}", if tag == "utc" { "gen" } else { "utc" }, hex(b)));
    }
    // field range boundaries
    for (tag, ylen) in [("utc", 2usize), ("gen", 4)] {
        for y in ["00", "49", "50", "99"].iter().map(|s| s.to_string()).chain(["0000", "0001", "1900", "2000", "2023", "2024", "2100", "9999"].iter().map(|s| s.to_string())) {
            if y.len() != ylen { continue; }
            for m in ["00", "01", "02", "04", "12", "13"] { for d in ["00", "01", "28", "29", "30", "31", "32"] {
                for t in ["000000", "235959", "240000", "236000", "235960", "126060"] {
                    ctx.case(&format!("dec {} {}", tag, hex(format!("{}{}{}{}Z", y, m, d, t).as_bytes())));
                }
            }}
        }
    }
    // Time::years_from_date: leap days, year ends, both directions; Validity::from_secs in both directions
    {
        let mut dates: Vec<i64> = vec![951782400 /* 2000-02-29 */, 951868799, 951868800, 1078012800 /* 2004-02-29 */, 1709164800 /* 2024-02-29 */,
            1709251199, 1709251200, 68169600 /* 1972-02-29 */, 951696000 /* 2000-02-28 */, 946684799, 946684800, 978307199, 0, -1, 1,
            4107456000 /* 2100-02-28 */, 4107542400 /* 2100-03-01 */, 13574563200 /* 2400-02-29 */, 253402300799, -62135596800];
        for _ in 0..(if thorough { 20_000 } else { 2_000 }) { dates.push(rng.range(0, 200_000_000_000) as i64 - 50_000_000_000); }
        for &d in &dates {
            for y in [0i32, 1, -1, 4, -4, 100, -100, 400, 3, 25] {
                // keep the result inside the years 1..9999
                let approx_year = 1970 + d.div_euclid(31_556_952);
                if approx_year + (y as i64) < 2 || approx_year + (y as i64) > 9998 { continue; }
                ctx.case(&format!("yfd {} {}", y, d));
            }
        }
        for s in [0i64, 1, -1, 59, 60, 3600, 86400, -86400, 31_536_000, -31_536_000, 1_000_000_000, -1_000_000_000, 86399, 7 * 86400] {
            ctx.case(&format!("fromsecs {}", s));
        }
    }
    // validity triples over a boundary set of instants
    let inst: [i64; 12] = [-62135596800, -1, 0, 1, 946684799, 946684800, 946684801, 2524607999, 2524608000, 4102444800, 253402300798, 253402300799];
    for &nb in &inst { for &na in &inst { for &now in &inst {
        ctx.case(&format!("validity {} {} {}", nb, na, now));
        ctx.case(&format!("validity {} {} {}+h", nb, na, now));
    }}}
    for _ in 0..(if thorough { 200_000 } else { 20_000 }) {
        let p = |rng: &mut Rng| -> i64 { if rng.bool() { *rng.pick(&inst) + rng.below(3) as i64 - 1 } else { rng.range(0, 4_000_000_000) as i64 } };
        let mut v: Vec<i64> = (0..5).map(|_| p(&mut rng).clamp(-62135596800, 253402300799)).collect();
        ctx.case(&format!("trim {} {} {} {} {}", v[0], v[1], v[2], v[3], v[4]));
        v.sort();
        ctx.case(&format!("validity {} {} {}", v[0], v[2], v[1]));
        ctx.case(&format!("validity {} {} {}+h", v[0], v[2], v[1]));
    }
    // serials
    let mut serials: Vec<[u8; 20]> = Vec::new();
    for k in 0..=47u32 { for d in [-1, 0, 1] { serials.push(pow10_bytes(k, d)); } }
    for i in 0..160u32 {
        for d in [-1i32, 0, 1] {
            let mut v = [0u8; 20];
            v[19 - (i / 8) as usize] = 1 << (i % 8);
            let mut j = 19;
            if d > 0 { loop { let (n, o) = v[j].overflowing_add(1); v[j] = n; if !o || j == 0 { break; } j -= 1; } }
            if d < 0 { loop { let (n, o) = v[j].overflowing_sub(1); v[j] = n; if !o || j == 0 { break; } j -= 1; } }
            serials.push(v);
        }
    }
    serials.push([0; 20]); serials.push([0xff; 20]);
    let mut m = [0xffu8; 20]; m[0] = 0x7f; serials.push(m);
    for _ in 0..(if thorough { 100_000 } else { 10_000 }) {
        let mut v = [0u8; 20];
        let n = rng.range(0, 20) as usize;
        for x in v[20 - n..].iter_mut() { *x = rng.next() as u8; }
        if rng.chance(1, 3) && n > 0 { v[20 - n] = *rng.pick(&[0x00, 0x01, 0x7f, 0x80, 0xff]); }
        serials.push(v);
    }
    for v in &serials {
        ctx.case(&format!("sslice {}", hex(v)));
        if v[0] & 0x80 == 0 {
            ctx.case(&format!("sder {}", hex(v)));
            ctx.case(&format!("sdec {}", hex(v)));
        }
    }
    for w in serials.windows(2) {
        if w[0][0] & 0x80 == 0 && w[1][0] & 0x80 == 0 {
            ctx.case(&format!("scmp {} {}", hex(&w[0]), hex(&w[1])));
        }
    }
    // slices of every length 0..=22 with boundary bytes
    for n in 0..=22usize { for lead in [0x00u8, 0x01, 0x7f, 0x80, 0xff] { for fill in [0x00u8, 0x80, 0xff] {
        let mut v = vec![fill; n];
        if n > 0 { v[0] = lead; }
        ctx.case(&format!("sslice {}", hex(&v)));
        ctx.case(&format!("sderdec {}", hex(&v)));
    }}}
    // decimal strings: boundaries of 2^159, signs, spaces, non-digits, leading zeros
    let two159 = "730750818665451459101842416358141509827966271488";
    for s in ["", "0", "00", "1", "+1", "-1", " 1", "1 ", "a", "12a", "０", "18446744073709551616",
              "730750818665451459101842416358141509827966271487", two159,
              "730750818665451459101842416358141509827966271489", "7307508186654514591018424163581415098279662714870",
              "000000000000000000000000000000000000000000000000000001"] {
        ctx.case(&format!("sfromstr {}", hex(s.as_bytes())));
    }
    for _ in 0..(if thorough { 50_000 } else { 5_000 }) {
        let n = rng.range(1, 50) as usize;
        let mut s: Vec<u8> = (0..n).map(|_| b'0' + rng.below(10) as u8).collect();
        if rng.chance(1, 10) { let i = rng.below(n as u64) as usize; s[i] = *rng.pick(b"+- a/:"); }
        ctx.case(&format!("sfromstr {}", hex(&s)));
    }
}
