//! C12 — URIs (src/uri.rs).
use crate::rng::{hex, unhex, Rng};
use crate::Ctx;
use rpki::uri::{Error, Https, Rsync};
use std::collections::hash_map::DefaultHasher;
use std::hash::{Hash, Hasher};

fn show_err(e: Error) -> &'static str {
    match e {
        Error::InvalidCharacters => "err chars",
        Error::BadUri => "err baduri",
        Error::BadScheme => "err scheme",
        Error::DotSegments => "err dot",
        Error::EmptySegments => "err empty",
    }
}

fn h<T: Hash>(t: &T) -> u64 {
    let mut s = DefaultHasher::new();
    t.hash(&mut s);
    s.finish()
}

fn rsync(hx: &str) -> Option<Rsync> {
    Rsync::from_slice(&unhex(hx)?).ok()
}

fn https(hx: &str) -> Option<Https> {
    Https::from_slice(&unhex(hx)?).ok()
}

fn reparse_r(v: &Rsync) -> &'static str {
    match Rsync::from_slice(v.as_slice()) {
        Ok(w) => {
            if &w == v && v == &w && w.authority() == v.authority() && w.module_name() == v.module_name()
                && w.path() == v.path() && w.module() == v.module() && w.as_str() == v.as_str()
            { "same" } else { "differs" }
        }
        Err(_) => "invalid",
    }
}

fn reparse_h(v: &Https) -> &'static str {
    match Https::from_slice(v.as_slice()) {
        Ok(w) => {
            if &w == v && v == &w && w.authority() == v.authority() && w.path() == v.path()
                && w.as_str() == v.as_str()
            { "same" } else { "differs" }
        }
        Err(_) => "invalid",
    }
}

pub fn exec(toks: &[&str]) -> String {
    match toks {
        ["rsync", hx] => {
            let b = match unhex(hx) { Some(b) => b, None => return "bad-op".into() };
            match Rsync::from_slice(&b) {
                Ok(u) => {
                    if u.as_slice() != &b[..] || u.as_str().as_bytes() != &b[..] || u.to_bytes().as_ref() != &b[..] {
                        return "text-changed".into();
                    }
                    let ms = 8 + u.authority().len() + 1;
                    let ps = u.module().len();
                    if u.path_bytes() != u.path().as_bytes() {
                        return "path-accessors-disagree".into();
                    }
                    format!("ok {} {} {} {} {} {}", ms, ps, hex(u.authority().as_bytes()),
                        hex(u.module_name().as_bytes()), hex(u.path().as_bytes()), hex(u.canonical_module().as_bytes()))
                }
                Err(e) => show_err(e).into(),
            }
        }
        ["https", hx] => {
            let b = match unhex(hx) { Some(b) => b, None => return "bad-op".into() };
            match Https::from_slice(&b) {
                Ok(u) => {
                    if u.as_slice() != &b[..] || u.as_str().as_bytes() != &b[..] {
                        return "text-changed".into();
                    }
                    format!("ok {} {} {}", 8 + u.authority().len(), hex(u.authority().as_bytes()),
                        hex(u.path().as_bytes()))
                }
                Err(e) => show_err(e).into(),
            }
        }
        ["rjoin", uh, ph] => match (rsync(uh), unhex(ph)) {
            (Some(u), Some(p)) => match u.join(&p) {
                Ok(v) => format!("ok {} {} {}", hex(v.as_slice()), reparse_r(&v), u.is_parent_of(&v)),
                Err(e) => show_err(e).into(),
            },
            _ => "bad-op".into(),
        },
        ["rparent", uh] => match rsync(uh) {
            Some(u) => match u.parent() {
                Some(v) => format!("ok {} {} {}", hex(v.as_slice()), reparse_r(&v), v.is_parent_of(&u)),
                None => "none".into(),
            },
            None => "bad-op".into(),
        },
        ["rrel", uh, oh] => match (rsync(uh), rsync(oh)) {
            (Some(u), Some(o)) => {
                let r = u.relative_to(&o);
                let rt = match r {
                    Some(p) if !p.is_empty() => match o.join(p.as_bytes()) {
                        Ok(v) => (v == u && u == v).to_string(),
                        Err(_) => "false".into(),
                    },
                    _ => "-".into(),
                };
                let rs = match r { Some(p) => format!("+{}", hex(p.as_bytes())), None => "-".into() };
                format!("{} {} {}", rs, o.is_parent_of(&u), rt)
            }
            _ => "bad-op".into(),
        },
        ["req", uh, oh] => match (rsync(uh), rsync(oh)) {
            (Some(u), Some(o)) => format!("{} {} {}", u == o, o == u, h(&u) == h(&o)),
            _ => "bad-op".into(),
        },
        ["rtriple", ah, bh, ch] => match (rsync(ah), rsync(bh), rsync(ch)) {
            (Some(a), Some(b), Some(c)) => {
                let v = [a, b, c];
                for x in &v {
                    if x != x { return "eq-not-reflexive".into(); }
                    if x.is_parent_of(x) { return "parent-of-reflexive".into(); }
                    for y in &v {
                        for z in &v {
                            if x == y && y == z && x != z { return "eq-not-transitive".into(); }
                            if x.is_parent_of(y) && y.is_parent_of(z) && !x.is_parent_of(z) {
                                return "parent-of-not-transitive".into();
                            }
                            // agreement with equality (congruence in both arguments)
                            if x == y && x.is_parent_of(z) != y.is_parent_of(z) {
                                return "parent-of-not-congruent-left".into();
                            }
                            if x == y && z.is_parent_of(x) != z.is_parent_of(y) {
                                return "parent-of-not-congruent-right".into();
                            }
                        }
                    }
                }
                "ok".into()
            }
            _ => "bad-op".into(),
        },
        ["hjoin", uh, ph] => match (https(uh), unhex(ph)) {
            (Some(u), Some(p)) => match u.join(&p) {
                Ok(v) => format!("ok {} {}", hex(v.as_slice()), reparse_h(&v)),
                Err(e) => show_err(e).into(),
            },
            _ => "bad-op".into(),
        },
        ["hdir", uh] => match https(uh) {
            Some(u) => {
                let mut v = u.clone();
                v.path_into_dir();
                format!("ok {} {} {} {} {}", hex(v.as_slice()), reparse_h(&v), u.path_is_dir(), v.path_is_dir(),
                    hex(u.canonical_authority().as_bytes()))
            }
            None => "bad-op".into(),
        },
        ["racc", uh, xh] => match (rsync(uh), unhex(xh).and_then(|x| String::from_utf8(x).ok())) {
            (Some(u), Some(x)) => format!("ok {} {}", hex(u.canonical_authority().as_bytes()), u.ends_with(&x)),
            _ => "bad-op".into(),
        },
        ["hparent", uh] => match https(uh) {
            Some(u) => match u.parent() {
                Some(v) => format!("ok {} {}", hex(v.as_slice()), reparse_h(&v)),
                None => "none".into(),
            },
            None => "bad-op".into(),
        },
        ["heq", uh, oh] => match (https(uh), https(oh)) {
            (Some(u), Some(o)) => format!("{} {} {}", u == o, o == u, h(&u) == h(&o)),
            _ => "bad-op".into(),
        },
        _ => "bad-op".into(),
    }
}

/// All strings over `alpha` of length `0..=max`.
pub fn all_strings(alpha: &[u8], max: usize) -> Vec<Vec<u8>> {
    let mut out: Vec<Vec<u8>> = vec![vec![]];
    let mut frontier: Vec<Vec<u8>> = vec![vec![]];
    for _ in 0..max {
        let mut next = Vec::with_capacity(frontier.len() * alpha.len());
        for s in &frontier {
            for &c in alpha {
                let mut t = s.clone();
                t.push(c);
                next.push(t);
            }
        }
        out.extend(next.iter().cloned());
        frontier = next;
    }
    out
}

fn random_uri(rng: &mut Rng, scheme: &str) -> Vec<u8> {
    let chars = b"abcXYZ019-_.~%!$&'()*+,;=:@";
    let mut s: Vec<u8> = scheme.bytes().map(|c| if rng.chance(1, 6) { c.to_ascii_uppercase() } else { c }).collect();
    let seg = |rng: &mut Rng, max: u64| -> Vec<u8> {
        let n = rng.range(1, max);
        (0..n).map(|_| *rng.pick(chars)).collect()
    };
    let m = if rng.chance(1, 20) { 255 } else { 12 };
    s.extend(seg(rng, m));
    s.push(b'/');
    s.extend(seg(rng, 10));
    s.push(b'/');
    let nseg = rng.below(5);
    for i in 0..nseg {
        let m = if rng.chance(1, 20) { 64 } else { 8 };
        s.extend(seg(rng, m));
        if i + 1 < nseg || rng.bool() {
            s.push(b'/');
        }
    }
    if rng.chance(1, 10) {
        // sprinkle a defect
        let i = rng.below(s.len() as u64) as usize;
        s[i] = *rng.pick(b" \"#<>?[\\]^`{|}\x00\x7f\x80\xff/.");
    }
    s
}

pub fn generate(ctx: &mut Ctx) {
    let mut rng = Rng::new(ctx.seed ^ 0xC12);
    let thorough = ctx.tier_thorough;
    let alpha = b"aA/.% ";
    let maxlen = if thorough { 7 } else { 6 };
    let tails = all_strings(alpha, maxlen);
    let mut acc_r: Vec<Vec<u8>> = Vec::new();
    let mut acc_h: Vec<Vec<u8>> = Vec::new();
    for (scheme, is_r) in [("rsync://", true), ("https://", false)] {
        for t in &tails {
            let mut b = scheme.as_bytes().to_vec();
            b.extend_from_slice(t);
            let op = if is_r { "rsync" } else { "https" };
            ctx.case(&format!("{} {}", op, hex(&b)));
            if t.len() <= 5 {
                if is_r { if Rsync::from_slice(&b).is_ok() { acc_r.push(b.clone()); } }
                else if !t.contains(&b' ') && t.len() <= 4 { acc_h.push(b.clone()); }
            }
        }
    }
    // scheme-case variants, wrong schemes, all 256 bytes in each position class
    for s in ["RSYNC://a/b/c", "RsYnC://a/b/", "rsync:/a/b/c", "rsync//a/b/c", "rsyn://a/b/c", "https://a/b/c",
              "rsync://", "rsync:///", "rsync://a", "rsync://a/", "rsync://a//", "rsync://a/b", "rsync://a/b/",
              "rsync://a/b//", "rsync://a/b/c//d", "rsync://a/b/./c", "rsync://a/b/../c", "rsync://./b/c",
              "rsync://a/../c", "rsync://a/b/...", "rsync://a/b/c/", "HTTPS://a", "https://", "https:///",
              "https:///a", "http://a/b", "HtTpS://A/b"] {
        ctx.case(&format!("rsync {}", hex(s.as_bytes())));
        ctx.case(&format!("https {}", hex(s.as_bytes())));
    }
    for pos in [0usize, 3, 8, 9, 10, 11, 12, 13] {
        for c in 0..=255u8 {
            let mut b = b"rsync://a/b/c".to_vec();
            if pos < b.len() { b[pos] = c; } else { b.push(c); }
            ctx.case(&format!("rsync {}", hex(&b)));
            let mut b = b"https://a/b/c".to_vec();
            if pos < b.len() { b[pos] = c; } else { b.push(c); }
            ctx.case(&format!("https {}", hex(&b)));
        }
    }
    // pairs of accepted rsync URIs
    let acc_small: Vec<&Vec<u8>> = acc_r.iter().filter(|b| b.len() <= 8 + if thorough { 5 } else { 4 } || b.len() == 13 && !thorough && false).collect();
    for u in &acc_small {
        for o in &acc_small {
            ctx.case(&format!("rrel {} {}", hex(u), hex(o)));
            ctx.case(&format!("req {} {}", hex(u), hex(o)));
        }
    }
    // relation-rich family: authority/module case variants and nested paths (length up to 12)
    let mut fam: Vec<Vec<u8>> = Vec::new();
    for auth in ["h", "H"] { for md in ["m", "M", "mm"] {
        for path in ["", "a", "a/", "A", "a/b", "a/b/", "a/B", "ab", "a/b/c", "b"] {
            fam.push(format!("rsync://{}/{}/{}", auth, md, path).into_bytes());
        }
    }}
    for u in &fam { for o in &fam {
        ctx.case(&format!("rrel {} {}", hex(u), hex(o)));
        ctx.case(&format!("req {} {}", hex(u), hex(o)));
    }}
    // parent + joins
    let args = all_strings(b"aA/.", if thorough { 4 } else { 3 });
    for u in acc_r.iter().chain(fam.iter()) {
        ctx.case(&format!("rparent {}", hex(u)));
        if u.len() <= 8 + 5 || fam.contains(u) {
            for a in &args {
                ctx.case(&format!("rjoin {} {}", hex(u), hex(a)));
            }
            for a in ["a b", "a\x00", "%", "a/b/c/d/e", "..", "...", "a/..", "a/./b", "é"] {
                ctx.case(&format!("rjoin {} {}", hex(u), hex(a.as_bytes())));
            }
        }
    }
    // triples
    let tri: Vec<&Vec<u8>> = if thorough { fam.iter().collect() } else { fam.iter().step_by(2).collect() };
    for a in &tri { for b in &tri { for c in &tri {
        if a <= b && b <= c {
            ctx.case(&format!("rtriple {} {} {}", hex(a), hex(b), hex(c)));
        }
    }}}
    // https
    let hargs = all_strings(b"aA/.", 3);
    for u in &acc_h {
        ctx.case(&format!("hparent {}", hex(u)));
        ctx.case(&format!("hdir {}", hex(u)));
        for a in &hargs {
            ctx.case(&format!("hjoin {} {}", hex(u), hex(a)));
        }
        ctx.case(&format!("hjoin {} {}", hex(u), hex(b"a b")));
    }
    let hsmall: Vec<&Vec<u8>> = acc_h.iter().filter(|b| b.len() <= 8 + 3).collect();
    for u in &hsmall { for o in &hsmall {
        ctx.case(&format!("heq {} {}", hex(u), hex(o)));
    }}
    for u in ["https://example.com", "https://example.com/", "https://Example.COM/a", "https://example.com/a/",
              "https://example.com:8080/a/b", "https://e/a//b", "HTTPS://e"] {
        for a in ["foo", "foo/", "/foo", "", "a/b/c", "..", "."] {
            ctx.case(&format!("hjoin {} {}", hex(u.as_bytes()), hex(a.as_bytes())));
        }
        ctx.case(&format!("hparent {}", hex(u.as_bytes())));
        ctx.case(&format!("hdir {}", hex(u.as_bytes())));
        for o in ["https://example.com", "https://EXAMPLE.com", "https://example.com/A", "https://example.com/a"] {
            ctx.case(&format!("heq {} {}", hex(u.as_bytes()), hex(o.as_bytes())));
        }
    }
    // random long URIs
    let n = if thorough { 200_000 } else { 20_000 };
    let mut pool_r: Vec<Vec<u8>> = Vec::new();
    for _ in 0..n {
        let r = random_uri(&mut rng, "rsync://");
        ctx.case(&format!("rsync {}", hex(&r)));
        if let Ok(u) = Rsync::from_slice(&r) {
            ctx.case(&format!("rparent {}", hex(&r)));
            {
                // an extension: the end of the path itself, a longer one, another one
                let p = u.path().as_bytes();
                let k = (rng.below(6) as usize).min(p.len());
                let x: Vec<u8> = match rng.below(4) { 0 => b".cer".to_vec(), 1 => { let mut y = b"x".to_vec(); y.extend_from_slice(p); y }, _ => p[p.len() - k..].to_vec() };
                ctx.case(&format!("racc {} {}", hex(&r), hex(&x)));
            }
            let arg: Vec<u8> = {
                let n = rng.below(4);
                let mut a = Vec::new();
                for i in 0..n {
                    let l = rng.range(1, 6);
                    a.extend((0..l).map(|_| *rng.pick(b"abz09-_.%")));
                    if i + 1 < n || rng.bool() { a.push(b'/'); }
                }
                a
            };
            ctx.case(&format!("rjoin {} {}", hex(&r), hex(&arg)));
            // relative_to against an ancestor / case-variant of an ancestor
            let mut anc = u.clone();
            for _ in 0..rng.below(3) { if let Some(p) = anc.parent() { anc = p; } }
            let mut ab = anc.as_slice().to_vec();
            if rng.chance(1, 3) {
                let i = rng.below(ab.len() as u64) as usize;
                ab[i] = if ab[i].is_ascii_lowercase() { ab[i].to_ascii_uppercase() } else { ab[i].to_ascii_lowercase() };
            }
            if Rsync::from_slice(&ab).is_ok() {
                ctx.case(&format!("rrel {} {}", hex(&r), hex(&ab)));
                ctx.case(&format!("req {} {}", hex(&r), hex(&ab)));
            }
            if pool_r.len() < 40 { pool_r.push(r.clone()); }
        }
        let hh = random_uri(&mut rng, "https://");
        ctx.case(&format!("https {}", hex(&hh)));
        if Https::from_slice(&hh).is_ok() && rng.chance(1, 4) {
            ctx.case(&format!("hparent {}", hex(&hh)));
            ctx.case(&format!("hdir {}", hex(&hh)));
            ctx.case(&format!("hjoin {} {}", hex(&hh), hex(b"x/y")));
        }
    }
}
