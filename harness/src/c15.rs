//! C15 — SLURM local exceptions (src/slurm.rs).
use crate::c13::parse_pfx;
use crate::rng::{hex, unhex, Rng};
use crate::Ctx;
use base64::Engine;
use rpki::crypto::keys::KeyIdentifier;
use rpki::resources::addr::{MaxLenPrefix, Prefix};
use rpki::resources::asn::Asn;
use rpki::rtr::payload::{Payload, RouteOrigin, RouterKey};
use rpki::rtr::pdu::{ProviderAsns, RouterKeyInfo};
use rpki::slurm::SlurmFile;
use std::str::FromStr;

const B64: base64::engine::GeneralPurpose = base64::engine::GeneralPurpose::new(
    &base64::alphabet::URL_SAFE,
    base64::engine::GeneralPurposeConfig::new()
        .with_encode_padding(false)
        .with_decode_padding_mode(base64::engine::DecodePaddingMode::Indifferent),
);

fn pfx_text(tok: &str) -> Option<String> {
    parse_pfx(tok).map(|p| p.to_string())
}

fn pfx_tok(p: Prefix) -> String {
    match p.addr() {
        std::net::IpAddr::V4(a) => format!("4/{}/{}", u32::from(a), p.len()),
        std::net::IpAddr::V6(a) => format!("6/{}/{}", u128::from(a), p.len()),
    }
}

/// canonical tree -> JSON text
fn tree_to_json(s: &[u8], pos: &mut usize, out: &mut String) -> Option<()> {
    let tok = |s: &[u8], pos: &mut usize| -> String {
        let st = *pos;
        while *pos < s.len() && (s[*pos].is_ascii_alphanumeric() || s[*pos] == b'/' || s[*pos] == b'-') { *pos += 1; }
        String::from_utf8_lossy(&s[st..*pos]).into_owned()
    };
    let c = *s.get(*pos)?;
    *pos += 1;
    match c {
        b'n' => out.push_str("null"),
        b'T' => out.push_str("true"),
        b'F' => out.push_str("false"),
        b'N' => { let t = tok(s, pos); if t.is_empty() || !t.bytes().all(|b| b.is_ascii_digit()) { return None; } out.push_str(&t); }
        b'S' => { let t = tok(s, pos); let b = unhex(&t)?; let st = String::from_utf8(b).ok()?; out.push_str(&serde_json::to_string(&st).ok()?); }
        b'B' => { let t = tok(s, pos); let b = unhex(&t)?; out.push('"'); out.push_str(&B64.encode(b)); out.push('"'); }
        b'P' => { let t = tok(s, pos); let p = pfx_text(&t)?; out.push('"'); out.push_str(&p); out.push('"'); }
        b'[' => {
            out.push('[');
            if s.get(*pos) == Some(&b']') { *pos += 1; out.push(']'); return Some(()); }
            loop {
                tree_to_json(s, pos, out)?;
                match s.get(*pos)? { b',' => { *pos += 1; out.push(','); } b']' => { *pos += 1; out.push(']'); break; } _ => return None }
            }
        }
        b'{' => {
            out.push('{');
            if s.get(*pos) == Some(&b'}') { *pos += 1; out.push('}'); return Some(()); }
            loop {
                let k = tok(s, pos);
                if *s.get(*pos)? != b':' { return None; }
                *pos += 1;
                out.push('"'); out.push_str(&k); out.push_str("\":");
                tree_to_json(s, pos, out)?;
                match s.get(*pos)? { b',' => { *pos += 1; out.push(','); } b'}' => { *pos += 1; out.push('}'); break; } _ => return None }
            }
        }
        _ => return None,
    }
    Some(())
}

fn to_json(tree: &str) -> Option<String> {
    let mut out = String::new();
    let mut pos = 0;
    tree_to_json(tree.as_bytes(), &mut pos, &mut out)?;
    if pos == tree.len() { Some(out) } else { None }
}

/// serde_json::Value -> canonical tree
fn dump(v: &serde_json::Value, key: &str, out: &mut String) {
    use serde_json::Value::*;
    match v {
        Null => out.push('n'),
        Bool(b) => out.push(if *b { 'T' } else { 'F' }),
        Number(n) => { out.push('N'); out.push_str(&n.to_string()); }
        String(s) => match key {
            "prefix" => match Prefix::from_str(s) { Ok(p) => { out.push('P'); out.push_str(&pfx_tok(p)); } Err(_) => { out.push_str("S"); out.push_str(&hex(s.as_bytes())); } },
            "SKI" | "routerPublicKey" => match B64.decode(s) { Ok(b) => { out.push('B'); out.push_str(&hex(&b)); } Err(_) => { out.push('S'); out.push_str(&hex(s.as_bytes())); } },
            _ => { out.push('S'); out.push_str(&hex(s.as_bytes())); }
        },
        Array(a) => {
            out.push('[');
            for (i, x) in a.iter().enumerate() { if i > 0 { out.push(','); } dump(x, key, out); }
            out.push(']');
        }
        Object(m) => {
            out.push('{');
            for (i, (k, x)) in m.iter().enumerate() { if i > 0 { out.push(','); } out.push_str(k); out.push(':'); dump(x, k, out); }
            out.push('}');
        }
    }
}

/// Serialises with the field order the struct definitions use (serde_json's
/// `Value` map is ordered alphabetically unless `preserve_order` is on, so the
/// text is walked by a streaming re-parse instead).
fn dump_text(text: &str) -> Option<String> {
    // A tiny JSON reader that keeps object order.
    fn val(s: &[u8], p: &mut usize, key: &str, out: &mut String) -> Option<()> {
        ws(s, p);
        match *s.get(*p)? {
            b'{' => {
                *p += 1; out.push('{'); ws(s, p);
                if s.get(*p) == Some(&b'}') { *p += 1; out.push('}'); return Some(()); }
                loop {
                    ws(s, p);
                    let k = string(s, p)?;
                    ws(s, p);
                    if *s.get(*p)? != b':' { return None; }
                    *p += 1;
                    out.push_str(&k); out.push(':');
                    val(s, p, &k, out)?;
                    ws(s, p);
                    match *s.get(*p)? { b',' => { *p += 1; out.push(','); } b'}' => { *p += 1; out.push('}'); return Some(()); } _ => return None }
                }
            }
            b'[' => {
                *p += 1; out.push('['); ws(s, p);
                if s.get(*p) == Some(&b']') { *p += 1; out.push(']'); return Some(()); }
                loop {
                    val(s, p, key, out)?;
                    ws(s, p);
                    match *s.get(*p)? { b',' => { *p += 1; out.push(','); } b']' => { *p += 1; out.push(']'); return Some(()); } _ => return None }
                }
            }
            b'"' => {
                let st = string(s, p)?;
                dump(&serde_json::Value::String(st), key, out);
                Some(())
            }
            _ => {
                let start = *p;
                while *p < s.len() && !b",]} \n\r\t".contains(&s[*p]) { *p += 1; }
                let v: serde_json::Value = serde_json::from_slice(&s[start..*p]).ok()?;
                dump(&v, key, out);
                Some(())
            }
        }
    }
    fn ws(s: &[u8], p: &mut usize) { while *p < s.len() && b" \n\r\t".contains(&s[*p]) { *p += 1; } }
    fn string(s: &[u8], p: &mut usize) -> Option<String> {
        let start = *p;
        if *s.get(*p)? != b'"' { return None; }
        *p += 1;
        while *p < s.len() && s[*p] != b'"' { if s[*p] == b'\\' { *p += 1; } *p += 1; }
        *p += 1;
        serde_json::from_slice::<String>(s.get(start..*p)?).ok()
    }
    let mut out = String::new();
    let mut p = 0;
    val(text.as_bytes(), &mut p, "", &mut out)?;
    Some(out)
}

fn parse_payload(s: &str) -> Option<Payload> {
    let f: Vec<&str> = s.split(':').collect();
    match f.as_slice() {
        ["O", p, ml, asn] => {
            let p = parse_pfx(p)?;
            let ml = if *ml == "-" { None } else { Some(ml.parse::<u8>().ok()?) };
            Some(Payload::Origin(RouteOrigin::new(MaxLenPrefix::saturating_new(p, ml), Asn::from_u32(asn.parse().ok()?))))
        }
        ["K", ski, asn, info] => {
            let ski = KeyIdentifier::try_from(&unhex(ski)?[..]).ok()?;
            Some(Payload::RouterKey(RouterKey::new(ski, Asn::from_u32(asn.parse().ok()?), RouterKeyInfo::try_from(unhex(info)?).ok()?)))
        }
        ["A", c, ps] => {
            let ps: Vec<Asn> = if *ps == "-" { vec![] } else { ps.split(',').map(|x| x.parse::<u32>().ok().map(Asn::from_u32)).collect::<Option<Vec<_>>>()? };
            Some(Payload::aspa(Asn::from_u32(c.parse().ok()?), ProviderAsns::try_from_iter(ps).ok()?))
        }
        _ => None,
    }
}

fn show_payload(p: &Payload) -> String {
    match p {
        Payload::Origin(o) => format!("O:{}:{}:{}", pfx_tok(o.prefix.prefix()),
            match o.prefix.max_len() { Some(m) => m.to_string(), None => "-".into() }, o.asn.into_u32()),
        Payload::RouterKey(k) => format!("K:{}:{}:{}", hex(k.key_identifier.as_slice()), k.asn.into_u32(), hex(k.key_info.as_slice())),
        Payload::Aspa(a) => {
            let ps: Vec<String> = a.providers.iter().map(|x| x.into_u32().to_string()).collect();
            format!("A:{}:{}", a.customer.into_u32(), if ps.is_empty() { "-".into() } else { ps.join(",") })
        }
    }
}

const EMPTY_ASSERT: &str = "{\"prefixAssertions\":[],\"bgpsecAssertions\":[]}";
const EMPTY_FILT: &str = "{\"prefixFilters\":[],\"bgpsecFilters\":[]}";

pub fn exec(toks: &[&str]) -> String {
    match toks {
        ["json", t] => {
            let text = match to_json(t) { Some(x) => x, None => return "bad-op".into() };
            match SlurmFile::from_str(&text) {
                Ok(f) => {
                    let out = f.to_string();
                    match SlurmFile::from_str(&out) {
                        Ok(g) if g == f => {}
                        Ok(_) => return "roundtrip-differs".into(),
                        Err(_) => return "roundtrip-unparseable".into(),
                    }
                    // pretty form and reader form must agree as well
                    match SlurmFile::from_reader(f.to_string_pretty().as_bytes()) {
                        Ok(g) if g == f => {}
                        _ => return "pretty-roundtrip-differs".into(),
                    }
                    match dump_text(&out) { Some(d) => format!("ok {}", d), None => "undumpable".into() }
                }
                Err(_) => "err".into(),
            }
        }
        ["jtext", t] => {
            let text = match to_json(t) { Some(x) => x, None => return "bad-op".into() };
            match SlurmFile::from_str(&text) {
                Ok(f) => format!("ok {} {}", hex(f.to_string().as_bytes()), hex(f.to_string_pretty().as_bytes())),
                Err(_) => "err".into(),
            }
        }
        ["jraw", hx] => match crate::rng::unhex(hx).and_then(|b| String::from_utf8(b).ok()) {
            Some(text) => match SlurmFile::from_str(&text) {
                Ok(f) => {
                    if SlurmFile::from_reader(text.as_bytes()).ok().as_ref() != Some(&f) { return "from_reader-disagrees".into(); }
                    format!("ok {}", hex(f.to_string().as_bytes()))
                }
                Err(_) => "err".into(),
            },
            None => "bad-op".into(),
        },
        // a file made through the API (never through the parser) with one ASPA assertion of <n> providers: serialise, parse back
        ["apiaspa", n] => {
            let n: u32 = match n.parse() { Ok(n) => n, Err(_) => return "bad-op".into() };
            let provs = match ProviderAsns::try_from_iter((1..=n).map(Asn::from_u32)) { Ok(p) => p, Err(_) => return "build-err".into() };
            let a = rpki::slurm::AspaAssertion::new(Asn::from_u32(64496), provs, None);
            let mut la = rpki::slurm::LocallyAddedAssertions::new(Vec::new(), Vec::new());
            la.aspa = Some(vec![a]);
            let file = SlurmFile::new(rpki::slurm::ValidationOutputFilters::default(), la);
            let text = file.to_string();
            match SlurmFile::from_str(&text) {
                Ok(g) if g == file => "ok".into(),
                Ok(_) => "roundtrip-differs".into(),
                Err(_) => "roundtrip-unparseable".into(),
            }
        }
        ["drop", ft, pt] => {
            let ftext = match to_json(ft) { Some(x) => x, None => return "bad-op".into() };
            let text = format!("{{\"slurmVersion\":2,\"validationOutputFilters\":{},\"locallyAddedAssertions\":{}}}", ftext, EMPTY_ASSERT);
            match (SlurmFile::from_str(&text), parse_payload(pt)) {
                (Ok(f), Some(p)) => {
                    let r = f.drop_payload(&p);
                    if r != f.filters.drop_payload(&p) { return "drop-entrypoints-disagree".into(); }
                    // the statement does not mention the file's version: the same filters in a version-1 file
                    // (when the library reads that) and in a file made by SlurmFile::new decide the same (round 15)
                    let text1 = text.replacen("\"slurmVersion\":2", "\"slurmVersion\":1", 1);
                    if let Ok(f1) = SlurmFile::from_str(&text1) {
                        if f1.drop_payload(&p) != r { return format!("{} but-version-1-file-says-{}", r, !r); }
                    }
                    let f3 = SlurmFile::new(f.filters.clone(), f.assertions.clone());
                    if f3.drop_payload(&p) != r { return format!("{} but-new-file-says-{}", r, !r); }
                    r.to_string()
                }
                _ => "bad-op".into(),
            }
        }
        ["payloads", at] => {
            let atext = match to_json(at) { Some(x) => x, None => return "bad-op".into() };
            let text = format!("{{\"slurmVersion\":2,\"validationOutputFilters\":{},\"locallyAddedAssertions\":{}}}", EMPTY_FILT, atext);
            match SlurmFile::from_str(&text) {
                Ok(f) => {
                    let v: Vec<String> = f.assertions.iter_payload().map(|p| show_payload(&p)).collect();
                    if v.is_empty() { "-".into() } else { v.join(";") }
                }
                Err(_) => "bad-op".into(),
            }
        }
        ["new", ft, at] => {
            let (ftext, atext) = match (to_json(ft), to_json(at)) { (Some(a), Some(b)) => (a, b), _ => return "bad-op".into() };
            let text = format!("{{\"slurmVersion\":2,\"validationOutputFilters\":{},\"locallyAddedAssertions\":{}}}", ftext, atext);
            match SlurmFile::from_str(&text) {
                Ok(f) => {
                    let g = SlurmFile::new(f.filters.clone(), f.assertions.clone());
                    let s = g.to_string();
                    if s.contains("\"slurmVersion\":1") { "1".into() } else if s.contains("\"slurmVersion\":2") { "2".into() } else { "?".into() }
                }
                Err(_) => "bad-op".into(),
            }
        }
        _ => "bad-op".into(),
    }
}

// ---------------------------------------------------------------- generation

const SKI_A: &str = "0102030405060708090a0b0c0d0e0f1011121314";
const SKI_B: &str = "ffffffffffffffffffffffffffffffffffffffff";

fn obj(fields: &[(&str, Option<String>)]) -> String {
    let v: Vec<String> = fields.iter().filter_map(|(k, v)| v.as_ref().map(|v| format!("{}:{}", k, v))).collect();
    format!("{{{}}}", v.join(","))
}

fn pf(prefix: Option<&str>, asn: Option<u32>) -> String {
    obj(&[("prefix", prefix.map(|p| format!("P{}", p))), ("asn", asn.map(|a| format!("N{}", a)))])
}
fn bf(ski: Option<&str>, asn: Option<u32>) -> String {
    obj(&[("SKI", ski.map(|s| format!("B{}", s))), ("asn", asn.map(|a| format!("N{}", a)))])
}
fn af(c: Option<u32>) -> String {
    obj(&[("customerAsid", c.map(|a| format!("N{}", a)))])
}
fn filters(p: &[String], b: &[String], a: Option<&[String]>) -> String {
    format!("{{prefixFilters:[{}],bgpsecFilters:[{}]{}}}", p.join(","), b.join(","),
        match a { Some(a) => format!(",aspaFilters:[{}]", a.join(",")), None => String::new() })
}

fn comment(rng: &mut Rng) -> String {
    let pool = ["", "x", "a \"quoted\" \\ comment", "tab\tnew\nline", "ünïcödé ☃", "\u{1}\u{1f}", "{\"json\":[1,2]}", "</>&amp;",
        // every control character, DEL, the characters some JSON writers escape and serde_json does not
        "\u{0}\u{1}\u{2}\u{3}\u{4}\u{5}\u{6}\u{7}\u{8}\u{9}\u{a}\u{b}\u{c}\u{d}\u{e}\u{f}\u{10}\u{11}\u{12}\u{13}\u{14}\u{15}\u{16}\u{17}\u{18}\u{19}\u{1a}\u{1b}\u{1c}\u{1d}\u{1e}\u{1f} \u{7f}",
        "/\u{2028}\u{2029}\u{80}\u{ffff}\u{10000}", "\\u0041 \\n \\\"", "\"", "\\"];
    format!("S{}", hex(rng.pick(&pool).as_bytes()))
}

fn random_file(rng: &mut Rng) -> String {
    let pfx = ["4/167772160/8", "4/167772160/16", "4/3232235520/24", "6/42540766411282592856903984951653826560/32", "4/0/0", "6/0/0", "4/4294967295/32"];
    let asns = [0u32, 1, 5, 65535, 65536, u32::MAX];
    let mut pfs = Vec::new();
    for _ in 0..rng.below(4) {
        let p = if rng.bool() { Some(format!("P{}", rng.pick(&pfx))) } else { None };
        let a = if rng.bool() { Some(format!("N{}", rng.pick(&asns))) } else { None };
        let c = if rng.chance(1, 3) { Some(comment(rng)) } else { None };
        pfs.push(obj(&[("prefix", p), ("asn", a), ("comment", c)]));
    }
    let mut bfs = Vec::new();
    for _ in 0..rng.below(3) {
        let s = if rng.bool() { Some(format!("B{}", if rng.bool() { SKI_A } else { SKI_B })) } else { None };
        let a = if rng.bool() { Some(format!("N{}", rng.pick(&asns))) } else { None };
        let c = if rng.chance(1, 3) { Some(comment(rng)) } else { None };
        bfs.push(obj(&[("SKI", s), ("asn", a), ("comment", c)]));
    }
    let afs: Option<Vec<String>> = if rng.bool() { Some((0..rng.below(3)).map(|_| {
        let a = if rng.chance(3, 4) { Some(format!("N{}", rng.pick(&asns))) } else { None };
        let c = if rng.chance(1, 3) { Some(comment(rng)) } else { None };
        obj(&[("customerAsid", a), ("comment", c)])
    }).collect()) } else { None };
    let mut pas = Vec::new();
    for _ in 0..rng.below(4) {
        let p = *rng.pick(&pfx);
        let plen: u32 = p.rsplit('/').next().unwrap().parse().unwrap();
        let fam_max = if p.starts_with('4') { 32 } else { 128 };
        let ml = if rng.bool() { Some(format!("N{}", rng.range(plen as u64, fam_max))) } else { None };
        let c = if rng.chance(1, 3) { Some(comment(rng)) } else { None };
        pas.push(obj(&[("prefix", Some(format!("P{}", p))), ("asn", Some(format!("N{}", rng.pick(&asns)))), ("maxPrefixLength", ml), ("comment", c)]));
    }
    let mut bas = Vec::new();
    for _ in 0..rng.below(3) {
        let klen = *rng.pick(&[0usize, 1, 32, 91, 300]);
        let key = rng.bytes(klen);
        let c = if rng.chance(1, 3) { Some(comment(rng)) } else { None };
        bas.push(obj(&[("asn", Some(format!("N{}", rng.pick(&asns)))), ("SKI", Some(format!("B{}", if rng.bool() { SKI_A } else { SKI_B }))),
            ("routerPublicKey", Some(format!("B{}", hex(&key)))), ("comment", c)]));
    }
    let aas: Option<Vec<String>> = if rng.bool() { Some((0..rng.below(3)).map(|_| {
        let n = rng.below(4);
        let ps: Vec<String> = (0..n).map(|_| format!("N{}", rng.pick(&asns))).collect();
        let c = if rng.chance(1, 3) { Some(comment(rng)) } else { None };
        obj(&[("customerAsn", Some(format!("N{}", rng.pick(&asns)))), ("providerAsns", Some(format!("[{}]", ps.join(",")))), ("comment", c)])
    }).collect()) } else { None };
    let version = if afs.is_some() || aas.is_some() || rng.bool() { 2 } else { 1 };
    format!("{{slurmVersion:N{},validationOutputFilters:{},locallyAddedAssertions:{{prefixAssertions:[{}],bgpsecAssertions:[{}]{}}}}}",
        version, filters(&pfs, &bfs, afs.as_deref()), pas.join(","), bas.join(","),
        match aas { Some(a) => format!(",aspaAssertions:[{}]", a.join(",")), None => String::new() })
}

/// Structure-aware mutations of a canonical tree: drop / duplicate / null / retype a field, add an
/// unknown key, change a number.
fn mutate(rng: &mut Rng, tree: &str) -> String {
    // positions of "key:" occurrences
    let b = tree.as_bytes();
    let mut fields: Vec<(usize, usize, usize)> = Vec::new(); // (key start, value start, value end)
    let mut i = 0;
    while i < b.len() {
        if (b[i] == b'{' || b[i] == b',') && i + 1 < b.len() && b[i + 1].is_ascii_alphabetic() {
            let ks = i + 1;
            let mut j = ks;
            while j < b.len() && b[j] != b':' && b[j] != b',' && b[j] != b'}' && b[j] != b']' { j += 1; }
            if j < b.len() && b[j] == b':' {
                // find value end by bracket matching
                let vs = j + 1;
                let mut depth = 0i32;
                let mut k = vs;
                while k < b.len() {
                    match b[k] { b'{' | b'[' => depth += 1, b'}' | b']' => { if depth == 0 { break; } depth -= 1; } b',' => { if depth == 0 { break; } } _ => {} }
                    k += 1;
                }
                fields.push((ks, vs, k));
            }
        }
        i += 1;
    }
    if fields.is_empty() { return tree.to_string(); }
    let (ks, vs, ve) = *rng.pick(&fields);
    let key = &tree[ks..vs - 1];
    let val = &tree[vs..ve];
    match rng.below(8) {
        0 => { // drop the field
            let mut s = String::new();
            let (a, bb) = if ks > 0 && b[ks - 1] == b',' { (ks - 1, ve) } else if ve < b.len() && b[ve] == b',' { (ks, ve + 1) } else { (ks, ve) };
            s.push_str(&tree[..a]); s.push_str(&tree[bb..]); s
        }
        1 => format!("{}{}:{},{}", &tree[..ks], key, val, &tree[ks..]),          // duplicate
        2 => format!("{}n{}", &tree[..vs], &tree[ve..]),                          // null
        3 => format!("{}{}{}", &tree[..vs], rng.pick(&["T", "N7", "S78", "[]", "{}", "N4294967296", "N256", "N0", "N3"]), &tree[ve..]), // retype
        4 => format!("{}x{}:N1,{}", &tree[..ks], rng.below(3), &tree[ks..]),      // unknown key
        5 => format!("{}[{}]{}", &tree[..vs], val, &tree[ve..]),                  // wrap in array
        6 => { // swap with the following field (order independence)
            tree.to_string()
        }
        _ => tree.to_string(),
    }
}

/// The *sequence form* serde derives for the structs of a SLURM file (fields in declaration order in a JSON array):
/// rewrites some of the objects of a written file into that form.  `wrong` also produces arrays that are one element
/// short or long.
fn seq_form(rng: &mut Rng, file: &SlurmFile, wrong: bool) -> String {
    use serde_json::{json, Value};
    let v: Value = serde_json::to_value(file).unwrap();
    let get = |o: &Value, k: &str| o.get(k).cloned().unwrap_or(Value::Null);
    let mut bend = |rng: &mut Rng, mut a: Vec<Value>| -> Value {
        if wrong && rng.chance(1, 4) { if rng.bool() { a.pop(); } else { a.push(Value::Null); } }
        Value::Array(a)
    };
    let mut list = |rng: &mut Rng, l: &Value, fields: &[&str], need: &[&str]| -> Value {
        match l {
            Value::Array(items) => Value::Array(items.iter().map(|it| {
                if rng.bool() && need.iter().all(|k| it.get(*k).is_some()) {
                    bend(rng, fields.iter().map(|k| get(it, k)).collect())
                } else { it.clone() }
            }).collect()),
            other => other.clone(),
        }
    };
    let f = get(&v, "validationOutputFilters");
    let a = get(&v, "locallyAddedAssertions");
    let pf = list(rng, &get(&f, "prefixFilters"), &["prefix", "asn", "comment"], &[]);
    let bf = list(rng, &get(&f, "bgpsecFilters"), &["SKI", "asn", "comment"], &["SKI"]);
    let af = list(rng, &get(&f, "aspaFilters"), &["customerAsid", "comment"], &[]);
    let ba = list(rng, &get(&a, "bgpsecAssertions"), &["asn", "SKI", "routerPublicKey", "comment"], &[]);
    let f2 = if rng.bool() { bend(rng, vec![pf, bf, af]) } else { json!({"prefixFilters": pf, "bgpsecFilters": bf, "aspaFilters": af}) };
    let a2 = if rng.bool() { bend(rng, vec![get(&a, "prefixAssertions"), ba, get(&a, "aspaAssertions")]) }
        else { json!({"prefixAssertions": get(&a, "prefixAssertions"), "bgpsecAssertions": ba, "aspaAssertions": get(&a, "aspaAssertions")}) };
    let top = if rng.chance(1, 3) { bend(rng, vec![get(&v, "slurmVersion"), f2, a2]) }
        else { json!({"slurmVersion": get(&v, "slurmVersion"), "validationOutputFilters": f2, "locallyAddedAssertions": a2}) };
    top.to_string()
}

pub fn generate(ctx: &mut Ctx) {
    let mut rng = Rng::new(ctx.seed ^ 0xC15);
    let thorough = ctx.tier_thorough;
    // payload items
    let origins = ["O:4/167772160/16:-:5", "O:4/167772160/16:24:5", "O:4/167772160/8:-:6", "O:6/42540766411282592856903984951653826560/32:48:5", "O:4/0/0:-:0"];
    let keys = [format!("K:{}:5:0102", SKI_A), format!("K:{}:6:-", SKI_A), format!("K:{}:5:ff", SKI_B)];
    let aspas = ["A:5:-", "A:5:1,2,3", "A:6:5"];
    let mut payloads: Vec<String> = origins.iter().map(|s| s.to_string()).collect();
    payloads.extend(keys.iter().cloned());
    payloads.extend(aspas.iter().map(|s| s.to_string()));
    // filter shapes
    let pfx_opts: [Option<&str>; 7] = [None, Some("4/167772160/8"), Some("4/167772160/16"), Some("4/167772160/24"), Some("4/184549376/8"), Some("6/42540766411282592856903984951653826560/32"), Some("4/0/0")];
    let asn_opts: [Option<u32>; 3] = [None, Some(5), Some(6)];
    let mut pfs: Vec<String> = Vec::new();
    for p in pfx_opts { for a in asn_opts { pfs.push(pf(p, a)); } }
    let mut bfs: Vec<String> = Vec::new();
    for s in [None, Some(SKI_A), Some(SKI_B)] { for a in asn_opts { bfs.push(bf(s, a)); } }
    let afs: Vec<String> = vec![af(None), af(Some(5)), af(Some(6))];
    // one list non-empty at a time, sizes 0..2 (thorough: prefix lists of size 3 sampled)
    for p in &payloads {
        ctx.case(&format!("drop {} {}", filters(&[], &[], None), p));
        ctx.case(&format!("drop {} {}", filters(&[], &[], Some(&[])), p));
        for a in &pfs {
            ctx.case(&format!("drop {} {}", filters(&[a.clone()], &[], None), p));
            for b in &pfs {
                ctx.case(&format!("drop {} {}", filters(&[a.clone(), b.clone()], &[], None), p));
            }
        }
        for a in &bfs {
            ctx.case(&format!("drop {} {}", filters(&[], &[a.clone()], None), p));
            for b in &bfs {
                ctx.case(&format!("drop {} {}", filters(&[], &[a.clone(), b.clone()], None), p));
            }
        }
        for a in &afs {
            ctx.case(&format!("drop {} {}", filters(&[], &[], Some(&[a.clone()])), p));
            for b in &afs {
                ctx.case(&format!("drop {} {}", filters(&[], &[], Some(&[a.clone(), b.clone()])), p));
            }
        }
    }
    // mixed lists
    for _ in 0..(if thorough { 200_000 } else { 20_000 }) {
        let np = rng.below(4); let nb = rng.below(3);
        let p: Vec<String> = (0..np).map(|_| rng.pick(&pfs).clone()).collect();
        let b: Vec<String> = (0..nb).map(|_| rng.pick(&bfs).clone()).collect();
        let a: Option<Vec<String>> = if rng.bool() { Some((0..rng.below(3)).map(|_| rng.pick(&afs).clone()).collect()) } else { None };
        let pl = rng.pick(&payloads).clone();
        ctx.case(&format!("drop {} {}", filters(&p, &b, a.as_deref()), pl));
    }
    for n in [0u32, 1, 2, 255, 256, 16379, 16380, 16381, 20000] { ctx.case(&format!("apiaspa {}", n)); }
    // provider lists of the largest admitted size and just around it (one case each: the lines are long)
    for k in [16379u32, 16380, 16381] {
        let provs: Vec<String> = (1..=k).map(|i| format!("N{}", i)).collect();
        ctx.case(&format!("json {{slurmVersion:N2,validationOutputFilters:{{prefixFilters:[],bgpsecFilters:[],aspaFilters:[]}},locallyAddedAssertions:{{prefixAssertions:[],bgpsecAssertions:[],aspaAssertions:[{{customerAsn:N64496,providerAsns:[{}]}}]}}}}", provs.join(",")));
    }
    // hand-made texts for the reader: escapes, surrogates, number forms, white space, trailing material
    {
        let wrap = |filt: &str, asrt: &str| format!("{{\"slurmVersion\":1,\"validationOutputFilters\":{},\"locallyAddedAssertions\":{}}}", filt, asrt);
        let ef = "{\"prefixFilters\":[],\"bgpsecFilters\":[]}";
        let ea = "{\"prefixAssertions\":[],\"bgpsecAssertions\":[]}";
        let mut texts: Vec<String> = vec![String::new(), " ".into(), "{}".into(), "[]".into(), "null".into(), wrap(ef, ea), format!(" \t\r\n{}\n ", wrap(ef, ea)),
            format!("{}x", wrap(ef, ea)), format!("{}{}", wrap(ef, ea), wrap(ef, ea)), format!("{}{}", '\u{feff}', wrap(ef, ea)), format!("{},", wrap(ef, ea)),
            // the sequence form serde derives for structs
            "[1,[[],[]],[[],[]]]".into(), "[1,[[],[],null],[[],[],null]]".into(), "[1,[[],[],[]],[[],[],[]]]".into(), "[3,[[],[],null],[[],[],null]]".into(),
            "[1,[[],[],null],[[],[],null],null]".into(), "[1,[[],[],null]]".into(),
            "{\"slurmVersion\":1,\"validationOutputFilters\":[[],[]],\"locallyAddedAssertions\":[[],[]]}".into(),
            "{\"slurmVersion\":1,\"validationOutputFilters\":[[],[],null],\"locallyAddedAssertions\":[[],[],null]}".into(),
            "{\"slurmVersion\":1,\"validationOutputFilters\":[[[\"10.0.0.0/8\",5,null],[null,null,\"c\"],[null,7]],[[\"AQIDBAUGBwgJCgsMDQ4PEBESExQ\",null,null],[null,5,null]],[[5,null],[null,\"x\"]]],\"locallyAddedAssertions\":[[[\"10.0.0.0/8\",5,null,null]],[[5,\"AQIDBAUGBwgJCgsMDQ4PEBESExQ\",\"AQID\",null]],[[1,[2,3],null]]]}".into(),
            "{\"slurmVersion\":1,\"validationOutputFilters\":[[[\"10.0.0.0/8\",5,null]],[],null],\"locallyAddedAssertions\":[[],[[5,\"AQIDBAUGBwgJCgsMDQ4PEBESExQ\",\"AQID\",\"k\"]],null]}".into(),
            ];
        for c in ["x", "\\u0041", "\\u00e9", "\\u00E9", "\\u0000", "\\u001f", "\\u007f", "\\u0080", "\\u07ff", "\\u0800", "\\uffff", "\\ud7ff", "\\ue000",
                  "\\ud83d\\ude00", "\\uD83D\\uDE00", "\\ud800\\udc00", "\\udbff\\udfff", "\\ud800", "\\udc00", "\\ud800x", "\\ud800\\u0041", "\\ud800\\ud800", "\\udfff\\ud800",
                  "\\/", "\\b\\f\\n\\r\\t\\\"\\\\", "\\a", "\\x41", "\\u12", "\\u12g4", "\\U0041", "\\", "\t", "\n", "\u{1}", "\u{7f}", "\u{e9}", "\u{2028}", "\u{1f600}", "a\\u0062c", "\\u005c\\u0022"] {
            texts.push(wrap(&format!("{{\"prefixFilters\":[{{\"asn\":1,\"comment\":\"{}\"}}],\"bgpsecFilters\":[]}}", c), ea));
        }
        for n in ["0", "1", "5", "-0", "-1", "+1", "01", "00", "1.0", "1.", ".5", "1e0", "1E0", "1e+0", "1e-0", "1e", "1e+", "0e0", "0.0", "1.5e3", "4294967295", "4294967296",
                  "18446744073709551615", "18446744073709551616", "123456789012345678901234567890", "1e400", "-", "--1", "0x10", "1 ", " 1", "1_0", "null", "true", "\"1\"", "[1]", "{}"] {
            texts.push(wrap(&format!("{{\"prefixFilters\":[{{\"asn\":{}}}],\"bgpsecFilters\":[]}}", n), ea));
            texts.push(wrap(&format!("{{\"prefixFilters\":[],\"bgpsecFilters\":[{{\"asn\":7,\"extra\":{}}}]}}", n), ea));
            texts.push(format!("{{\"slurmVersion\":{},\"validationOutputFilters\":{},\"locallyAddedAssertions\":{}}}", n, ef, ea));
            texts.push(wrap(ef, &format!("{{\"prefixAssertions\":[{{\"prefix\":\"10.0.0.0/8\",\"asn\":1,\"maxPrefixLength\":{}}}],\"bgpsecAssertions\":[]}}", n)));
        }
        for v in ["[]", "[1,2]", "[1,]", "[,1]", "[1 2]", "[1,,2]", "[", "]", "{\"a\":1}", "{\"a\":1,}", "{,}", "{\"a\"}", "{\"a\":}", "{a:1}", "{\"a\":1 \"b\":2}", "{\"a\":1,\"a\":2}",
                  "[[[[[[[[[[]]]]]]]]]]", "{\"a\":{\"b\":{\"c\":[null,true,false,\"s\",-1.5e-3]}}}", "nul", "nulll", "tru", "TRUE", "fals", "\"unterminated", "'s'", "\"a\"\"b\""] {
            texts.push(wrap(&format!("{{\"prefixFilters\":[],\"bgpsecFilters\":[{{\"asn\":7,\"extra\":{}}}]}}", v), ea));
            texts.push(wrap(&format!("{{\"prefixFilters\":[{{\"asn\":7,\"extra\":{}}}],\"bgpsecFilters\":[]}}", v), ea));
        }
        // deep nesting in an ignored member (serde_json's recursion limit is 128)
        for d in [100usize, 126, 127, 128, 129, 200] {
            let v = format!("{}{}", "[".repeat(d), "]".repeat(d));
            texts.push(wrap(&format!("{{\"prefixFilters\":[],\"bgpsecFilters\":[{{\"asn\":7,\"extra\":{}}}]}}", v), ea));
        }
        // prefixes and member names with escapes
        for p in ["10.0.0.0/8", "10.0.0.0\\/8", "10.0.0.0\\u002f8", "10.0.0.0/+8", "10.0.0.0/08", "10.0.0.1/8", "::/0", "::ffff:1.2.3.0/120", "2001:DB8::/32", " 10.0.0.0/8", ""] {
            texts.push(wrap(&format!("{{\"prefixFilters\":[{{\"prefix\":\"{}\"}}],\"bgpsecFilters\":[]}}", p), ea));
        }
        texts.push(wrap("{\"prefix\\u0046ilters\":[],\"bgpsecFilters\":[]}", ea));
        texts.push(wrap("{\"prefixFilters\":[{\"a\\u0073n\":5}],\"bgpsecFilters\":[]}", ea));
        for t in &texts { ctx.case(&format!("jraw {}", hex(t.as_bytes()))); }
    }
    // JSON: valid files, then structure-aware mutations
    for _ in 0..(if thorough { 30_000 } else { 4_000 }) {
        let f = random_file(&mut rng);
        ctx.case(&format!("json {}", f));
        ctx.case(&format!("jtext {}", f));
        for _ in 0..3 {
            let m = mutate(&mut rng, &f);
            if m != f && to_json(&m).is_some() {
                ctx.case(&format!("json {}", m));
                if rng.chance(1, 3) { ctx.case(&format!("jtext {}", m)); }
            }
        }
        // the text itself (session 12): what the library writes, compact and pretty, and character-level mutants
        // of both through from_str (model: Rpki/Model/JsonRead.lean)
        if let Some(text) = to_json(&f) {
            if let Ok(file) = SlurmFile::from_str(&text) {
                let compact = file.to_string();
                let pretty = file.to_string_pretty();
                ctx.case(&format!("jraw {}", hex(compact.as_bytes())));
                ctx.case(&format!("jraw {}", hex(pretty.as_bytes())));
                // the sequence form of the structs: read like the map form; one element short or long is an error
                ctx.case(&format!("jraw {}", hex(seq_form(&mut rng, &file, false).as_bytes())));
                ctx.case(&format!("jraw {}", hex(seq_form(&mut rng, &file, true).as_bytes())));
                let alphabet: &[u8] = b"\"\\/bfnrtu{}[],:-+.eE0123456789 \t\n\raDxX=_";
                for base in [&compact, &pretty] {
                    for _ in 0..3 {
                        let mut b = base.clone().into_bytes();
                        for _ in 0..(1 + rng.below(2)) {
                            let c = *rng.pick(alphabet);
                            let i = rng.below(b.len() as u64) as usize;
                            match rng.below(4) {
                                0 => { b[i] = c; }
                                1 => { b.remove(i); }
                                2 => { let j = rng.below(b.len() as u64) as usize; b.swap(i, j); }
                                _ => { b.insert(i, c); }
                            }
                        }
                        if let Ok(t) = String::from_utf8(b) { ctx.case(&format!("jraw {}", hex(t.as_bytes()))); }
                    }
                }
            }
        }
        // assertions payload and version choice
        if let (Some(i), Some(j)) = (f.find("validationOutputFilters:"), f.find(",locallyAddedAssertions:")) {
            let ft = &f[i + "validationOutputFilters:".len()..j];
            let at = &f[j + ",locallyAddedAssertions:".len()..f.len() - 1];
            ctx.case(&format!("payloads {}", at));
            ctx.case(&format!("new {} {}", ft, at));
        }
    }
}
