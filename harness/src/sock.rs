//! Deterministic in-memory sockets for driving the real RTR server and client
//! on a current-thread tokio runtime.
use std::collections::VecDeque;
use std::pin::Pin;
use std::sync::{Arc, Mutex};
use std::task::{Context, Poll, Waker};
use tokio::io::{AsyncRead, AsyncWrite, ReadBuf};

#[derive(Default)]
pub struct PipeState {
    pub data: VecDeque<u8>,
    pub eof: bool,
    pub waker: Option<Waker>,
    /// number of polls that made progress or parked (used to detect quiescence)
    pub activity: u64,
    /// everything ever written (for inspection by the driver)
    pub log: Vec<u8>,
    /// largest number of bytes handed out by one read (0 = unlimited)
    pub max_read: usize,
}

#[derive(Clone, Default)]
pub struct Pipe(pub Arc<Mutex<PipeState>>);

impl Pipe {
    pub fn push(&self, bytes: &[u8]) {
        let mut s = self.0.lock().unwrap();
        s.data.extend(bytes.iter().copied());
        s.log.extend_from_slice(bytes);
        s.activity += 1;
        if let Some(w) = s.waker.take() { w.wake(); }
    }
    pub fn close(&self) {
        let mut s = self.0.lock().unwrap();
        s.eof = true;
        s.activity += 1;
        if let Some(w) = s.waker.take() { w.wake(); }
    }
    pub fn activity(&self) -> u64 { self.0.lock().unwrap().activity }
    pub fn take_log(&self) -> Vec<u8> { std::mem::take(&mut self.0.lock().unwrap().log) }
    pub fn log_len(&self) -> usize { self.0.lock().unwrap().log.len() }
}

/// One end of a connection: reads from `rx`, writes to `tx`.
pub struct Sock {
    pub rx: Pipe,
    pub tx: Pipe,
}

impl AsyncRead for Sock {
    fn poll_read(self: Pin<&mut Self>, cx: &mut Context<'_>, buf: &mut ReadBuf<'_>) -> Poll<std::io::Result<()>> {
        let mut s = self.rx.0.lock().unwrap();
        s.activity += 1;
        if !s.data.is_empty() {
            let mut n = buf.remaining().min(s.data.len());
            if s.max_read > 0 { n = n.min(s.max_read); }
            for _ in 0..n { let b = s.data.pop_front().unwrap(); buf.put_slice(&[b]); }
            Poll::Ready(Ok(()))
        } else if s.eof {
            Poll::Ready(Ok(()))
        } else {
            s.waker = Some(cx.waker().clone());
            Poll::Pending
        }
    }
}

impl AsyncWrite for Sock {
    fn poll_write(self: Pin<&mut Self>, _cx: &mut Context<'_>, buf: &[u8]) -> Poll<std::io::Result<usize>> {
        // a peer that never stops writing is cut off (and seen as such in the log) instead of filling the memory
        if self.tx.log_len() > 64 << 20 {
            return Poll::Ready(Err(std::io::Error::new(std::io::ErrorKind::BrokenPipe, "runaway writer")));
        }
        self.tx.push(buf);
        Poll::Ready(Ok(buf.len()))
    }
    fn poll_flush(self: Pin<&mut Self>, _cx: &mut Context<'_>) -> Poll<std::io::Result<()>> { Poll::Ready(Ok(())) }
    fn poll_shutdown(self: Pin<&mut Self>, _cx: &mut Context<'_>) -> Poll<std::io::Result<()>> {
        self.tx.close();
        Poll::Ready(Ok(()))
    }
}

impl rpki::rtr::server::Socket for Sock {}

/// Yields to the other tasks of the current-thread runtime until none of the given pipes shows
/// activity for a few consecutive rounds.
pub async fn settle(pipes: &[&Pipe]) {
    let mut last: u64 = pipes.iter().map(|p| p.activity()).sum();
    let mut quiet = 0;
    for _ in 0..10_000 {
        tokio::task::yield_now().await;
        let now: u64 = pipes.iter().map(|p| p.activity()).sum();
        if now == last { quiet += 1; if quiet >= 4 { return; } } else { quiet = 0; last = now; }
    }
}
