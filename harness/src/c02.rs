//! C02 — RPKI signed objects (src/repository/sigobj.rs, roa.rs, aspa.rs, manifest.rs).
//!
//! op:  <type> <now> <crl> <objfacts> <facts_0> … <facts_n> | <der_0> … <der_{n-1}> <object>
//!   type: so (SignedObject::decode + validate_at), roa / aspa (decode + process, which evaluates
//!   at the wall clock: all windows of those cases span 2000-2100), mft (Manifest::decode +
//!   validate_at).  facts_n describes the embedded EE certificate (same format as C01),
//!   der_0..n-1 the issuing chain.
//!   objfacts = dec:ctype:content:attrs:sid:sigkey:siginput:extra
//!     extra: roa  asid;lo-hi,…;lo-hi,…   (covered ranges, v4 in 32-bit, v6 in 128-bit numbers)
//!            aspa customer
//!   => ok | err
use crate::c01::{self, T0};
use crate::der;
use crate::pki::{self, CertSpec, Kind, Pool, Res};
use crate::rng::{hex, unhex, Rng};
use crate::Ctx;
use bytes::Bytes;
use rpki::repository::aspa::Aspa;
use rpki::repository::error::ValidationError;
use rpki::repository::manifest::Manifest;
use rpki::repository::roa::Roa;
use rpki::repository::sigobj::SignedObject;

pub fn exec(toks: &[&str]) -> String {
    if toks.len() < 6 { return "bad-op".into() }
    let ty = toks[0];
    let Ok(now) = toks[1].parse::<i64>() else { return "bad-op".into() };
    let crl_ok = toks[2] == "1";
    let Some(bar) = toks.iter().position(|t| *t == "|") else { return "bad-op".into() };
    let ders: Option<Vec<Vec<u8>>> = toks[bar + 1..].iter().map(|h| unhex(h)).collect();
    let Some(ders) = ders else { return "bad-op".into() };
    if ders.len() < 2 { return "bad-op".into() }
    let (obj, issuers) = ders.split_last().unwrap();
    let Some(issuer) = c01::issuer_chain(issuers) else { return "issuer-invalid".into() };
    let obj = Bytes::from(obj.clone());
    // the revocation callback looks at the certificate it is handed: when the case says "revoked", it is the EE
    // certificate's serial number that is on the list (the issuing chain's serials are never on it)
    let ee_serial = SignedObject::decode(obj.clone(), false).ok().map(|o| o.cert().serial_number());
    let crl = move |c: &rpki::repository::cert::Cert| -> Result<(), ValidationError> {
        if crl_ok || Some(c.serial_number()) != ee_serial { Ok(()) } else {
            Err(rpki::repository::error::VerificationError::new("revoked").into())
        }
    };
    let ok = match ty {
        "so" => match SignedObject::decode(obj, true) {
            Ok(o) => o.validate_at(&issuer, true, c01::time(now)).is_ok(),
            Err(_) => false,
        },
        // relaxed (BER) decoding: the eContent may come in several segments
        "sor" => match SignedObject::decode(obj, false) {
            Ok(o) => o.validate_at(&issuer, false, c01::time(now)).is_ok(),
            Err(_) => false,
        },
        "roar" => match Roa::decode(obj, false) {
            Ok(o) => o.process(&issuer, false, crl).is_ok(),
            Err(_) => false,
        },
        "sop" => match SignedObject::decode(obj, true) {
            Ok(o) => o.process(&issuer, true, crl).is_ok(),
            Err(_) => false,
        },
        "roa" => match Roa::decode(obj, true) {
            Ok(o) => o.process(&issuer, true, crl).is_ok(),
            Err(_) => false,
        },
        "aspa" => match Aspa::decode(obj, true) {
            Ok(o) => o.process(&issuer, true, crl).is_ok(),
            Err(_) => false,
        },
        "mft" => match Manifest::decode(obj, true) {
            Ok(o) => o.validate_at(&issuer, true, c01::time(now)).is_ok(),
            Err(_) => false,
        },
        _ => return "bad-op".into(),
    };
    if ok {
        // "the EE certificate validates under the issuer": put the question to the certificate validator itself
        let strict = !matches!(ty, "sor" | "roar");
        let at = if matches!(ty, "so" | "sor" | "mft") { c01::time(now) } else { rpki::repository::x509::Time::now() };
        let ee_ok = SignedObject::decode(Bytes::from(ders.last().unwrap().clone()), strict).ok()
            .map(|o| o.cert().clone().validate_ee_at(&issuer, strict, at).is_ok());
        if ee_ok == Some(false) { return "ok EE=refused".into() }
        "ok".into()
    } else { "err".into() }
}

//------------ generation ----------------------------------------------------

const Y2000: i64 = 946_684_800;
const Y2100: i64 = 4_102_444_800;

fn prefix_range(width: u32, bits: u128, len: u32) -> (u128, u128) {
    // `bits` holds the prefix value in its low `len` bits
    if len == 0 { return (0, if width == 128 { u128::MAX } else { (1u128 << width) - 1 }) }
    let lo = if len == width { bits } else { bits << (width - len) };
    let span = if width - len == 0 { 0 } else if width - len == 128 { u128::MAX } else { (1u128 << (width - len)) - 1 };
    (lo, lo | span)
}

fn roa_addr(width: u32, bits: u128, len: u32, maxlen: Option<u32>) -> Vec<u8> {
    let (lo, _) = prefix_range(width, bits, len);
    // BIT STRING with `len` bits
    let nbytes = ((len + 7) / 8) as usize;
    let be: Vec<u8> = if width == 32 { (lo as u32).to_be_bytes().to_vec() } else { lo.to_be_bytes().to_vec() };
    let unused = (nbytes as u32 * 8 - len) as u8;
    let mut parts = vec![der::bits(unused, &be[..nbytes])];
    if let Some(m) = maxlen { parts.push(der::uint_u64(m as u64)); }
    der::seq(&parts)
}

pub fn roa_content(asid: u32, v4: &[(u128, u32, Option<u32>)], v6: &[(u128, u32, Option<u32>)]) -> Vec<u8> {
    let mut fams = Vec::new();
    if !v4.is_empty() {
        fams.push(der::seq(&[der::octets(&[0, 1]),
            der::seq(&v4.iter().map(|(b, l, m)| roa_addr(32, *b, *l, *m)).collect::<Vec<_>>())]));
    }
    if !v6.is_empty() {
        fams.push(der::seq(&[der::octets(&[0, 2]),
            der::seq(&v6.iter().map(|(b, l, m)| roa_addr(128, *b, *l, *m)).collect::<Vec<_>>())]));
    }
    der::seq(&[der::uint_u64(asid as u64), der::seq(&fams)])
}

pub fn aspa_content(customer: u32, providers: &[u32]) -> Vec<u8> {
    der::seq(&[
        der::ctx(0, true, &der::uint_u64(1)),
        der::uint_u64(customer as u64),
        der::seq(&providers.iter().map(|p| der::uint_u64(*p as u64)).collect::<Vec<_>>()),
    ])
}

fn long_oid(rng: &mut Rng, extra_arcs: usize) -> Vec<u64> {
    let mut v = vec![1, 2, 840, 113549, 1, 9, 16, 1];
    for _ in 0..extra_arcs {
        v.push(rng.range(1, 0x0fff_ffff));
    }
    v.push(rng.range(1, 100));
    v
}

pub struct World<'a> {
    pub pool: &'a Pool,
    pub chain_ders: Vec<Vec<u8>>,
    pub chain_facts: Vec<String>,
    /// effective resources of the issuing CA (what it may delegate)
    pub v4: Vec<(u128, u128)>,
    pub v6: Vec<(u128, u128)>,
    pub asn: Vec<(u128, u128)>,
    pub issuer_key: usize,
}

/// TA (key 0) and one CA (key 1) with fixed, wide resources and 2000-2100 validity.
pub fn world(pool: &Pool) -> World<'_> { world_with(pool, true) }

/// the same with a CA that holds no IPv6 resources at all when `with_v6` is false
pub fn world_with(pool: &Pool, with_v6: bool) -> World<'_> {
    let v4 = vec![(0x0A00_0000u128, 0x0AFF_FFFFu128), (0xC000_0200, 0xC000_02FF)];
    let v6 = if with_v6 { vec![(0x2001_0db8u128 << 96, (0x2001_0db8u128 << 96) | ((1u128 << 96) - 1))] } else { vec![] };
    let asn = vec![(64496u128, 64511u128), (65536, 65551)];
    let mut ta = pool.spec(0, 0, Kind::Ta);
    ta.not_before = Y2000; ta.not_after = Y2100;
    ta.v4 = Res::Blocks(vec![(0, 0xFFFF_FFFF)]);
    ta.v6 = Res::Blocks(vec![(0, u128::MAX)]);
    ta.asn = Res::Blocks(vec![(0, 0xFFFF_FFFF)]);
    let mut ca = pool.spec(1, 0, Kind::Ca);
    ca.not_before = Y2000; ca.not_after = Y2100;
    ca.v4 = Res::Blocks(v4.clone());
    ca.v6 = if v6.is_empty() { Res::Missing } else { Res::Blocks(v6.clone()) };
    ca.asn = Res::Blocks(asn.clone());
    let chain_ders = vec![pool.issue(&ta, 0), pool.issue(&ca, 0)];
    let chain_facts = vec![c01::facts(&ta, true, true, &pool.keys[0].ski), c01::facts(&ca, true, true, &pool.keys[1].ski)];
    World { pool, chain_ders, chain_facts, v4, v6, asn, issuer_key: 1 }
}

pub struct ObjCase {
    /// when not empty: the eContent OCTET STRING in the constructed (BER) form, cut at these lengths
    pub segments: Vec<usize>,
    pub content_type: Vec<u64>,
    pub content: Vec<u8>,
    pub ee: CertSpec,
    pub ee_signer: usize,
    pub ee_sig_ok: bool,
    pub attrs: Vec<Vec<u8>>,
    pub sort_attrs: bool,
    pub sid: Vec<u8>,
    /// which key signs the attributes (2 = the EE key)
    pub sig_key: usize,
    pub sig_input: Vec<u8>,
    pub flip_sig: bool,
    pub dec: bool,
    pub cms_version: u64,
    pub si_version: u64,
}

/// The attribute octets as they will appear inside the `[0]` value.
pub fn attrs_as_written(c: &ObjCase) -> Vec<u8> {
    if c.sort_attrs {
        let set = der::set_of(&c.attrs);
        let (h, n) = der::split_tlv(&set).unwrap();
        set[h..h + n].to_vec()
    } else {
        der::cat(&c.attrs)
    }
}

pub fn build(pool: &Pool, c: &ObjCase) -> (Vec<u8>, String) {
    let cert = pool.issue(&c.ee, c.ee_signer);
    let mut sig = pool.sign(c.sig_key, &c.sig_input);
    if c.flip_sig { let n = sig.len(); sig[n / 2] ^= 0x10; }
    let spec = pki::CmsSpec {
        content_type: c.content_type.clone(), content: c.content.clone(), attrs: c.attrs.clone(),
        sid: c.sid.clone(), cert, crl: None, version: c.cms_version, si_version: c.si_version,
    };
    let obj = if c.segments.is_empty() { pki::encode_cms(&spec, &sig, c.sort_attrs) }
        else { pki::encode_cms_with(&spec, &sig, c.sort_attrs, pki::octets_segmented(&c.content, &c.segments)) };
    let ct = der::oid(&c.content_type);
    let (h, n) = der::split_tlv(&ct).unwrap();
    let facts = format!("{}:{}:{}:{}:{}:{}:{}",
        if c.dec { "1" } else { "0" }, hex(&ct[h..h + n]), hex(&c.content), hex(&attrs_as_written(c)), hex(&c.sid),
        if c.sig_key == 2 && !c.flip_sig { "1" } else { "0" }, hex(&c.sig_input));
    (obj, facts)
}

fn show_ranges(r: &[(u128, u128)]) -> String {
    if r.is_empty() { "-".into() } else { r.iter().map(|(l, h)| format!("{}-{}", l, h)).collect::<Vec<_>>().join(",") }
}

pub fn generate(ctx: &mut Ctx) {
    let mut rng = Rng::new(ctx.seed ^ 0xC02);
    let pool = Pool::new(4);
    let w1 = world(&pool);
    let w2 = world_with(&pool, false);
    let n = if ctx.tier_thorough { 12000 } else { 2400 };
    for _ in 0..n {
        let w = if rng.chance(1, 3) { &w2 } else { &w1 };
        let ty = *rng.pick(&["so", "so", "roa", "roa", "aspa", "mft", "sop"]);
        let mut now = T0;
        let mut crl_ok = true;
        // --- EE certificate
        let mut ee = pool.spec(2, 1, Kind::Ee);
        ee.not_before = Y2000; ee.not_after = Y2100;
        ee.serial = vec![rng.range(1, 127) as u8, rng.next() as u8];
        let mut extra = String::new();
        let (content_type, content): (Vec<u64>, Vec<u8>) = match ty {
            "roa" => {
                let asid = rng.next() as u32;
                let mut v4 = Vec::new();
                let mut v6 = Vec::new();
                let outside = rng.chance(1, 4);
                let k = rng.range(0, 3);
                for i in 0..k {
                    // a prefix inside 10.0.0.0/8 or 192.0.2.0/24 (or, when `outside`, one that sticks out)
                    let (bits, len) = match rng.below(4) {
                        0 => (0x0Au128, 8u32),
                        1 => ((0x0Au128 << 8) | rng.below(256) as u128, 16),
                        2 => (0xC000_02u128, 24),
                        _ => ((0xC000_0200u128) | rng.below(256) as u128, 32),
                    };
                    let (bits, len) = if outside && i == 0 {
                        match rng.below(3) { 0 => (0x0Au128 >> 1, 7u32), 1 => (0xC000_03u128, 24), _ => (0u128, 0) }
                    } else { (bits, len) };
                    let maxlen = if rng.bool() { Some(rng.range(len as u64, 32) as u32) } else { None };
                    v4.push((bits, len, maxlen));
                }
                let k6 = rng.range(0, 2);
                for i in 0..k6 {
                    let (bits, len) = match rng.below(3) {
                        0 => (0x2001_0db8u128, 32u32),
                        1 => ((0x2001_0db8u128 << 16) | rng.below(65536) as u128, 48),
                        _ => ((0x2001_0db8u128 << 96) | rng.next() as u128, 128),
                    };
                    let (bits, len) = if outside && i == 0 && rng.bool() { (0x2001_0db9u128, 32) } else { (bits, len) };
                    v6.push((bits, len, if rng.bool() { Some(rng.range(len as u64, 128) as u32) } else { None }));
                }
                if v4.is_empty() && v6.is_empty() { v4.push((0x0Au128, 8, None)); }
                // a covered prefix first, then a less-specific one that only *ends* inside the certificate's block
                // (or starts inside it): the certificate holds one half of a prefix, the ROA lists the whole
                let halves = rng.chance(1, 6);
                let mut half_res: Vec<(u128, u128)> = Vec::new();
                if halves {
                    let (bits, len) = match rng.below(3) { 0 => (0x0Au128, 8u32), 1 => (0xC000_02u128, 24), _ => ((0x0Au128 << 8) | rng.below(256) as u128, 16) };
                    let upper = rng.bool();
                    let hb = (bits << 1) | upper as u128;
                    v4.clear();
                    v4.push((hb, len + 1, None));
                    if rng.bool() { v4.push(((hb << 1) | rng.below(2) as u128, len + 2, Some(32))); }
                    v4.push((bits, len, None));
                    if rng.chance(1, 3) { v4.swap(0, 1); }
                    half_res.push(prefix_range(32, hb, len + 1));
                }
                // EE resources: usually exactly what is needed, sometimes inherit, sometimes too little
                let r4: Vec<(u128, u128)> = v4.iter().map(|(b, l, _)| prefix_range(32, *b, *l)).collect();
                let r6: Vec<(u128, u128)> = v6.iter().map(|(b, l, _)| prefix_range(128, *b, *l)).collect();
                match if halves { 99 } else { rng.below(8) } {
                    99 => {
                        ee.v4 = Res::Blocks(half_res.clone());
                        ee.v6 = if r6.is_empty() { Res::Missing } else { Res::Blocks(r6.clone()) };
                    }
                    0 => { ee.v4 = Res::Inherit; ee.v6 = Res::Inherit; }
                    1 => { ee.v4 = Res::Blocks(w.v4.clone()); ee.v6 = if r6.is_empty() { Res::Missing } else if w.v6.is_empty() { Res::Inherit } else { Res::Blocks(w.v6.clone()) }; ee.trim = true; }
                    2 => {
                        // too little: drop the last address of one family
                        ee.v4 = if r4.len() > 1 { Res::Blocks(r4[..r4.len() - 1].to_vec()) } else if r4.is_empty() { Res::Missing } else { Res::Blocks(vec![(r4[0].0, r4[0].1 - (r4[0].1 > r4[0].0) as u128)]) };
                        ee.v6 = if r6.is_empty() { Res::Missing } else { Res::Blocks(r6.clone()) };
                        ee.trim = true;
                    }
                    3 => { ee.v4 = Res::Missing; ee.v6 = if r6.is_empty() { Res::Missing } else { Res::Blocks(r6.clone()) }; ee.trim = true; }
                    _ => {
                        ee.v4 = if r4.is_empty() { Res::Missing } else { Res::Blocks(r4.clone()) };
                        ee.v6 = if r6.is_empty() { Res::Missing } else { Res::Blocks(r6.clone()) };
                        ee.trim = outside || rng.chance(1, 4);
                    }
                }
                if ee.v4 == Res::Missing && ee.v6 == Res::Missing { ee.asn = Res::Inherit; }
                extra = format!(":{};{};{}", asid, show_ranges(&r4), show_ranges(&r6));
                // sometimes the eContent itself is off profile while the envelope is fine: the decoder must refuse
                let content = if rng.chance(1, 10) {
                    match rng.below(5) {
                        0 => { let mut x = v4.clone(); x.push((0x0Au128, 8, Some(33))); roa_content(asid, &x, &v6) }
                        1 => { let mut x = v6.clone(); x.push((0x2001_0db8u128, 32, Some(31))); roa_content(asid, &v4, &x) }
                        2 => { // the IPv4 family twice
                            let f = der::seq(&[der::octets(&[0, 1]), der::seq(&[roa_addr(32, 0x0A, 8, None)])]);
                            der::seq(&[der::uint_u64(asid as u64), der::seq(&[f.clone(), f])]) }
                        3 => { // explicit version 1
                            let c = roa_content(asid, &v4, &v6); let (h, n) = der::split_tlv(&c).unwrap();
                            der::seq(&[der::ctx(0, true, &der::uint_u64(1)), c[h..h + n].to_vec()]) }
                        _ => {
                            // flip the lowest bit of the last octet -- unless that is a significant bit of the last prefix (a whole
                            // number of octets, no maxLength after it): that would be another well-formed ROA, not an off-profile one,
                            // and the ranges recorded above would no longer be what the content says
                            let last = v6.last().or(v4.last()).copied();
                            let prefix_bit = matches!(last, Some((_, l, None)) if l % 8 == 0 && l > 0);
                            let mut c = roa_content(asid, &v4, &v6); let n = c.len();
                            if !prefix_bit && n < 128 { c[n - 1] ^= 0x01; }
                            c
                        }
                    }
                } else { roa_content(asid, &v4, &v6) };
                (pki::CT_ROA.to_vec(), content)
            }
            "aspa" => {
                let customer = match rng.below(10) { 0 => 64495u32, 1 => 64512, 2 => 65536, _ => rng.range(64496, 64511) as u32 };
                let mut provs: Vec<u32> = (0..rng.range(1, 5)).map(|_| rng.range(1, 70000) as u32).filter(|p| *p != customer).collect();
                provs.sort(); provs.dedup();
                if provs.is_empty() { provs.push(1); }
                match rng.below(12) {
                    0 => ee.asn = Res::Inherit,
                    1 => { ee.asn = Res::Blocks(vec![(customer as u128, customer as u128)]); ee.v4 = Res::Blocks(vec![(0x0A00_0000, 0x0A00_00FF)]); }
                    2 | 3 => { ee.asn = Res::Blocks(vec![(customer as u128, customer as u128)]); if rng.chance(2, 3) { ee.v6 = Res::Inherit; } else { ee.v4 = Res::Inherit; } }
                    4 => { ee.asn = Res::Blocks(vec![(64500, 64501)]); }
                    _ => { ee.asn = Res::Blocks(vec![(customer as u128, customer as u128)]); }
                }
                ee.trim = rng.chance(1, 3);
                extra = format!(":{}", customer);
                if rng.chance(1, 10) {
                    match rng.below(4) {
                        0 => { provs.reverse(); if provs.len() < 2 { provs.push(customer); } }
                        1 => { let p = provs[0]; provs.insert(0, p); }
                        2 => { provs.push(customer); provs.sort(); }
                        _ => { provs.clear(); }
                    }
                }
                (pki::CT_ASPA.to_vec(), aspa_content(customer, &provs))
            }
            "mft" => {
                ee.v4 = Res::Inherit; ee.v6 = Res::Inherit; ee.asn = Res::Inherit;
                let mut s = crate::c14::base_spec(&mut rng);
                for i in 0..rng.range(0, 4) {
                    s.entries.push(crate::c14::entry(format!("f{}.roa", i).as_bytes(), 0, &rng.bytes(32)));
                }
                (pki::CT_MFT.to_vec(), crate::c14::encode(&s))
            }
            _ => {
                ee.v4 = Res::Inherit; ee.v6 = Res::Inherit; ee.asn = Res::Inherit;
                // attribute size is driven by the length of the content type OID
                let arcs = match rng.below(6) { 0 => 0, 1 => rng.range(1, 4), 2 => rng.range(4, 9), 3 => rng.range(30, 40), 4 => rng.range(5, 7), _ => rng.range(0, 60) } as usize;
                let clen = rng.range(0, 40) as usize;
                let content = rng.bytes(clen);
                if rng.chance(1, 4) {
                    // aim at the length-octet boundaries of the signed-attribute value
                    let target = *rng.pick(&[126usize, 127, 128, 129, 254, 255, 256, 257]);
                    let mut oid = vec![1u64, 2, 840, 113549, 1, 9, 16, 1];
                    let mut found = None;
                    for _ in 0..260 {
                        let attrs = pki::std_attrs(&oid, &content, Some(T0));
                        let n: usize = attrs.iter().map(|a| a.len()).sum();
                        if n == target { found = Some(oid.clone()); break }
                        if n > target { break }
                        oid.push(rng.range(1, 127));
                    }
                    (found.unwrap_or_else(|| long_oid(&mut rng, arcs)), content)
                } else {
                    (long_oid(&mut rng, arcs), content)
                }
            }
        };
        let st = if rng.chance(1, 8) { 2_600_000_000 } else { T0 - rng.below(100000) as i64 };
        let attrs = pki::std_attrs(&content_type, &content, Some(st));
        let mut c = ObjCase {
            segments: vec![],
            content_type, content, ee, ee_signer: 1, ee_sig_ok: true, attrs, sort_attrs: true,
            sid: pool.keys[2].ski.clone(), sig_key: 2, sig_input: vec![], flip_sig: false, dec: true,
            cms_version: 3, si_version: 3,
        };
        let mut sig_over = 0u64;     // 0: DER SET OF of the attributes as written
        // half of the cases carry no envelope deviation, so that the object-specific conditions (coverage, ASPA
        // resource rules, content profile) are met on their own often enough
        match if rng.bool() { rng.below(22) } else { 99 } {
            0 => { c.sid[rng.below(20) as usize] ^= 1 << rng.below(8); }
            1 => { c.sig_key = 3; }
            2 => { c.flip_sig = true; }
            3 => { sig_over = 1; }      // signed over the [0]-tagged encoding
            4 => { sig_over = 2; }      // signed over `31 02 hi lo` (non-DER long form)
            5 => { sig_over = 3; }      // signed over the content instead of the attributes
            6 => { // wrong digest
                c.attrs[2] = pki::attr(pki::AT_MESSAGE_DIGEST, der::octets(&rng.bytes(32))); }
            7 => { // digest of other length
                c.attrs[2] = pki::attr(pki::AT_MESSAGE_DIGEST, der::octets(&pki::sha256(&c.content)[..31])); }
            8 => { // content type attribute differs from eContentType
                c.attrs[0] = pki::attr(pki::AT_CONTENT_TYPE, der::oid(pki::CT_GBR)); if c.content_type != pki::CT_GBR { c.dec = false; } }
            9 => { c.attrs.remove(rng.below(3) as usize); c.dec = false; }
            10 => { let i = rng.below(3) as usize; let a = c.attrs[i].clone(); c.attrs.push(a); c.dec = false; }
            11 => { c.attrs.push(pki::attr(pki::AT_BINARY_SIGNING_TIME, der::uint_u64(st as u64))); c.dec = false; }
            12 => { // attributes written in a non-DER order, signed as written
                c.sort_attrs = false; let k = rng.below(6); for _ in 0..k { let i = rng.below(3) as usize; c.attrs.swap(0, i); } }
            13 => { c.cms_version = 4; c.dec = false; }
            14 => { c.si_version = 1; c.dec = false; }
            15 => { // generalized signing time
                c.attrs[1] = pki::attr(pki::AT_SIGNING_TIME, pki::gen_time_of(st)); }
            16 => { c.ee_signer = 3; c.ee_sig_ok = false; }
            17 => { c.ee.aki = Some(pool.keys[3].ski.clone()); }
            18 => { if ty == "so" || ty == "mft" { now = *rng.pick(&[Y2000 - 1, Y2000, Y2100, Y2100 + 1]); } }
            19 => { if ty != "so" && ty != "mft" { crl_ok = false; } }
            20 => { c.ee.ca = Some(true); c.ee.ku_ca = true; }
            21 => { c.ee.signed_object = None; }
            _ => {}
        }
        let written = attrs_as_written(&c);
        c.sig_input = match sig_over {
            0 => der::tlv(0x31, &written),
            1 => der::tlv(0xA0, &written),
            2 => { let mut v = vec![0x31, 2, (written.len() >> 8) as u8, written.len() as u8]; v.extend_from_slice(&written); v }
            _ => c.content.clone(),
        };
        // relaxed decoding with the content in segments (one, several, an empty first one)
        let mut ty = ty;
        if (ty == "so" || ty == "roa") && rng.chance(1, 5) {
            ty = if ty == "so" { "sor" } else { "roar" };
            if rng.chance(4, 5) {
                let n = c.content.len();
                c.segments = match rng.below(5) {
                    0 => vec![], 1 => vec![0], 2 => vec![n / 2], 3 => vec![1, 1, 1],
                    _ => (0..rng.range(1, 4)).map(|_| rng.below(n as u64 + 1) as usize).collect() };
                if c.segments.is_empty() && rng.bool() { c.segments = vec![n]; }
            }
        }
        let (obj, ofacts) = build(&pool, &c);
        // relaxed operations: half of the objects additionally take BER's liberties outside the signed octets
        // (lengths in the long or the indefinite form, strings in segments): the verdict must not move
        let obj = if (ty == "sor" || ty == "roar") && rng.bool() {
            let rate = *rng.pick(&[1u64, 4, 16]);
            crate::berd::ber_encode_safe(&obj, &mut rng, rate).unwrap_or(obj)
        } else { obj };
        let eefacts = c01::facts(&c.ee, c.ee_sig_ok, true, &pool.keys[2].ski);
        let mut ders = w.chain_ders.clone();
        ders.push(obj);
        ctx.case(&format!("{} {} {} {}{} {} {} | {}", ty, now, if crl_ok { 1 } else { 0 }, ofacts, extra,
            w.chain_facts.join(" "), eefacts, ders.iter().map(|d| hex(d)).collect::<Vec<_>>().join(" ")));
    }
}
