//! C05 — built objects decode back to themselves and look the same either way.
//!
//! Every op takes *builder inputs*, runs the library's builder, encodes, decodes with the library's
//! decoder, re-encodes, validates, and compares a canonical dump of every public accessor of the
//! built value with the same dump of its decoded twin.  `exec` is a pure function of its tokens:
//! keys come from a per-process pool (key 0 trust anchor / issuer, 1 and 2 subjects, 3 the "one-off"
//! key) and every key-dependent value is printed as a label (k0…k3, ec, ee; `.spki`, `.name`).
//!
//! result
//!   bad-op                      malformed tokens
//!   build-err                   the builder / a constructor (Serial, uri, Name, …) refused the input
//!   decode-err                  the library's decoder rejected what the builder produced
//!   panic@<stage>[ <rest>]      stage ∈ build, accessors-built, encode, decode, accessors-decoded,
//!                               validate, reencode (each stage runs under catch_unwind); the first
//!                               stage in this order that panicked is named, whatever else is known follows
//!                               (`panic@accessors-built decode-err built=<dump>` when the decoder refused)
//!   ok <rest>
//!   rest = <der-len> reenc:<same|differs> acc:<same|differs|na> valid:<ok|err|na> <dump of decoded>
//!          [ built=<dump of built>]   when acc is `differs`
//!          [ why=<outer|inner|both>]  when reenc is `differs`: outer = decoded.to_captured() vs the built DER,
//!                                     inner = encode_ref() of the decoded inner value (TbsCert, TbsCertList,
//!                                     TbsIdCert, manifest / ROA / ASPA / RTA content) vs the bytes inside the built DER
//!          [ vbuilt=<ok|err>]         when validating the built value gives another verdict than its twin
//!          [ proc=<ok|err>]           ROA / ASPA / generic `process` (wall clock; only run when the EE validity
//!                                     contains 2000-01-01..2100-01-01)
//!   dumps are `;`-joined key=value without spaces; an accessor that panicked shows as key=PANIC.
//!   der-len: cert, crl, csr, idcert, so, mft, roa, aspa: the complete object (idcert ee: as if the random
//!   serial had 20 octets); mftc, roac, aspac, rta: the content; sigmsg: the payload length.
//!
//! labels (not inputs of the computation; accepted at any position, echoed as the LAST tokens of every result
//! except `bad-op`, in this order; ops without them work unchanged and echo nothing)
//!   subsec=1          some time input has a sub-second part (or st=N, the wall-clock default signing time):
//!                     built-vs-decoded differences of time fields (and `vbuilt=`) are then expected
//!   vexp=<ok|err|na>  what `valid:` should say, from the generator's own model of the profile
//!                     (validity window at `now`, issuer key / AKI, names, the structure required for `kind`)
//!   conf=<1|0>        1: every input is admitted by the object profile and by the library's documentation, so the
//!                     object must build, decode, re-encode identically and answer all accessors identically;
//!                     0: deliberately out-of-profile input (values the constructors refuse, names without a
//!                     printable CN of 1..64 characters, bad manifest file names / unregistered extensions /
//!                     hashes that are not 32 octets, this_update > next_update, empty / duplicate /
//!                     self-containing / oversized ASPA provider sets, ROA max_len outside [len, width] or no
//!                     address at all, certificates and generic signed objects without resources, an identity EE
//!                     certificate for the issuer's own key, RTAs without keys / resources / a 32-octet digest)
//!
//! common value formats
//!   serial   hex of the big-endian magnitude (Serial::from_slice; dump: minimal hex)
//!   time     <unix-seconds>[.<nanoseconds>]   (nanoseconds 1000000000.. = chrono leap second)
//!   name     D<k> = default name of pool key k (Dec: the EC key) | N (only where optional) | hex of a DER Name
//!   uri      hex of the ASCII text | N
//!   kid      N | k<i> | 40 hex digits
//!   ip res   M | I (set_*_inherit) | J (set_*(inherit())) | <api>:<item,…>
//!            api B build_*_blocks, F *_from_iter, S set_*(IpResources::blocks(from_iter))
//!            item p<addr>/<len> Prefix::new, r<lo>-<hi> AddressRange::new, t<lo>-<hi> From<(Addr,Addr)>;
//!            numbers decimal in the family's width (32 / 128 bit); dump: M | I | B:<p…|r…,…> canonical
//!   as res   same with items i<n> (AsBlock::Id) r<lo>-<hi> (From<(Asn,Asn)>); dump B:<i…|r…,…>#<asn_count>
//!
//! ops
//!   mftc <number> <this> <next> <files>          files = namehex:hashhex;… | -
//!        dump keys: num this next halg len empty files uris(base rsync://h/m/d/) stale
//!   roac <asid> <v4> <v6> [a<api 0..4>]          addresses = bits/len[-maxlen],… | -   (bits: the address as a
//!        number of the family's width).  Built = RoaBuilder::to_attestation(); decoded = content of
//!        Roa::decode over a CMS envelope made by the harness's independent encoder.
//!        dump keys: asid v4e v6e v4 v6 (bits/len[-maxlen][min-max]) iter (FriendlyRoaIpAddress) orig (iter_origins)
//!   aspac <customer> <providers,…|-> [new|add]   built = AspaBuilder…finalize().content(), decoded = Aspa::decode(..).content()
//!        dump keys: cust len prov set asres
//!   cert via=<new|set> sn= nb= na= iss= sub= key=<0..3|ec> ik=<0..3> ku=<ca|ee> oc=<refuse|trim>
//!        kind=<ta|ca|ee|dee|rt|none> now=<time>   then setters applied in token order:
//!        bc=<N|T|F> aki=<kid> eku=<N|R> crl= aia= rep= mft= so= ntf=(https) v4= v6= as=
//!        (via=set: TbsCert::new with other values, then every set_* method)
//!        dump keys: sn snd iss sub nb na key alg bc ski aki ku eku crl aia rep mft so ntf oc v4 v6 as flags(has_ip,is_ca,self_signed)
//!        valid: validate_<kind>_at(now) under the pool's trust anchor
//!   crl via=<new|set> iss= this= next= aki= num= ik= ents=<serial@time,…|->
//!        dump keys: alg sigalg siglen iss this next aki num rev rev2 has hasl hasc stale
//!        has* = contains() for s-1,s,s+1 of every listed serial, then 0 and 2^159-1 (Crl::contains,
//!        RevokedCertificates::contains, Crl::contains after cache_serials); valid = verify_signature
//!   so|mft|roa|aspa  sn= nb= na= crl= aia= so= iss=<N|name> sub=<N|name> st=<time|N> oo=<p|f> now= [v4= v6= as=]
//!        so: ct=<hex of OID octets> content=<hex>     mft: num= this= next= files=
//!        roa: asid= v4a= v6a= api=                     aspa: cust= prov= pvia=<new|add>
//!        (oo=f: the SoftSigner's own freshly generated one-off key, oo=p: pool key 3)
//!        dump: so: ct content st dc c.<cert keys>; mft: m.<mftc keys> md.len c.<cert>; roa: r.<roac> c.<cert>;
//!        aspa: a.<aspac> c.<cert>; then b.<SignedObjectBuilder accessors>
//!   csr key= rep= mft= ntf=            (no built value: acc:na)   dump: sub key bc ku eku rep mft ntf attrs
//!   idcert ta key= nb= na= now= | idcert ee key= ik= nb= na= now=    dump: sn sub nb na key key2 ski ski2 aki
//!   sigmsg data=<hex> nb= na= ik= oo=<p|f> now=                      dump: ct content
//!   rta keys=<kid,…|-> v4=<items|-> v6= as= md=<hex> sigs=<key,…|-> st=<time>   dump: keys v4 v6 as dalg md
use crate::der;
use crate::pki::{self, Pool};
use crate::rng::{hex, unhex, Rng};
use crate::Ctx;
use bcder::encode::Values;
use bcder::{Mode, OctetString, Oid};
use bytes::Bytes;
use chrono::{TimeZone, Utc};
use rpki::ca::csr::{Csr, RpkiCaCsr};
use rpki::ca::idcert::{IdCert, TbsIdCert};
use rpki::ca::sigmsg::SignedMessage;
use rpki::crypto::signer::KeyError;
use rpki::crypto::softsigner::KeyId;
use rpki::crypto::{
    DigestAlgorithm, KeyIdentifier, PublicKey, PublicKeyFormat, RpkiSignatureAlgorithm, Signature,
    SignatureAlgorithm, Signer, SigningError,
};
use rpki::repository::aspa::{AsProviderAttestation, Aspa, AspaBuilder};
use rpki::repository::cert::{Cert, ExtendedKeyUsage, KeyUsage, Overclaim, ResourceCert, TbsCert};
use rpki::repository::crl::{Crl, CrlEntry, TbsCertList};
use rpki::repository::manifest::{FileAndHash, Manifest, ManifestContent};
use rpki::repository::resources::{
    Addr, AddressRange, AsBlock, AsBlocks, AsResources, IpBlock, IpBlocks, IpResources, Prefix,
};
use rpki::repository::roa::{Roa, RoaBuilder, RoaIpAddress, RoaIpAddressesBuilder, RouteOriginAttestation};
use rpki::repository::rta;
use rpki::repository::sigobj::{MessageDigest, SignedObject, SignedObjectBuilder};
use rpki::repository::tal::TalInfo;
use rpki::repository::x509::{Name, Serial, Time, Validity};
use rpki::resources::Asn;
use rpki::uri;
use std::net::{IpAddr, Ipv4Addr, Ipv6Addr};
use std::panic::{catch_unwind, AssertUnwindSafe};
use std::sync::OnceLock;

//------------ world ------------------------------------------------------------

const T0: i64 = 1_750_000_000;

struct World {
    pool: Pool,
    keys: Vec<PublicKey>,
    ec: PublicKey,
    /// trust anchor over everything, key 0, made with the library's own builder
    ta: ResourceCert,
}

static WORLD: OnceLock<World> = OnceLock::new();

fn tm(secs: i64) -> Time { Time::new(Utc.timestamp_opt(secs, 0).unwrap()) }

fn world() -> &'static World {
    WORLD.get_or_init(|| {
        let pool = Pool::new(4);
        let keys: Vec<PublicKey> = pool.keys.iter().map(|k| pool.signer.get_key_info(&k.id).unwrap()).collect();
        let ec = PublicKey::decode(Bytes::from(pool.ec_spki.clone())).unwrap();
        let mut tbs = TbsCert::new(
            Serial::from(1u64), keys[0].to_subject_name(),
            Validity::new(tm(T0 - 1_000_000_000), tm(T0 + 1_000_000_000)),
            None, keys[0].clone(), KeyUsage::Ca, Overclaim::Refuse);
        tbs.set_basic_ca(Some(true));
        tbs.set_ca_repository(Some(uri::Rsync::from_slice(b"rsync://h/m/0/").unwrap()));
        tbs.set_rpki_manifest(Some(uri::Rsync::from_slice(b"rsync://h/m/0/m.mft").unwrap()));
        tbs.set_v4_resources(IpResources::blocks(IpBlocks::all()));
        tbs.set_v6_resources(IpResources::blocks(IpBlocks::all()));
        tbs.set_as_resources(AsResources::blocks(AsBlocks::all()));
        let cert = tbs.into_cert(&pool.signer, &pool.keys[0].id).unwrap();
        let cert = Cert::decode(cert.to_captured().into_bytes()).unwrap();
        let ta = cert.validate_ta_at(TalInfo::from_name("t".into()).into_arc(), true, tm(T0)).unwrap();
        World { pool, keys, ec, ta }
    })
}

/// The pool's SoftSigner, except that "one-off" signatures use pool key 3 instead of a freshly
/// generated RSA key (key generation dominates the run time otherwise).
struct PoolSigner<'a>(&'a World);

impl Signer for PoolSigner<'_> {
    type KeyId = KeyId;
    type Error = std::io::Error;
    fn create_key(&self, a: PublicKeyFormat) -> Result<KeyId, Self::Error> { self.0.pool.signer.create_key(a) }
    fn get_key_info(&self, key: &KeyId) -> Result<PublicKey, KeyError<Self::Error>> { self.0.pool.signer.get_key_info(key) }
    fn destroy_key(&self, key: &KeyId) -> Result<(), KeyError<Self::Error>> { self.0.pool.signer.destroy_key(key) }
    fn sign<Alg: SignatureAlgorithm, D: AsRef<[u8]> + ?Sized>(&self, key: &KeyId, alg: Alg, data: &D)
        -> Result<Signature<Alg>, SigningError<Self::Error>> { self.0.pool.signer.sign(key, alg, data) }
    fn sign_one_off<Alg: SignatureAlgorithm, D: AsRef<[u8]> + ?Sized>(&self, alg: Alg, data: &D)
        -> Result<(Signature<Alg>, PublicKey), Self::Error> {
        let sig = self.0.pool.signer.sign(&self.0.pool.keys[3].id, alg, data)
            .map_err(|_| std::io::Error::other("sign"))?;
        Ok((sig, self.0.keys[3].clone()))
    }
    fn rand(&self, target: &mut [u8]) -> Result<(), Self::Error> { self.0.pool.signer.rand(target) }
}

//------------ masking of key-dependent bytes --------------------------------------

struct Masker { reps: Vec<(String, String)> }

impl Masker {
    fn new(w: &World) -> Masker {
        let mut m = Masker { reps: Vec::new() };
        for (i, k) in w.keys.iter().enumerate() { m.add_key(&format!("k{}", i), k); }
        m.add_key("ec", &w.ec);
        m
    }
    fn add_key(&mut self, label: &str, key: &PublicKey) {
        let spki = hex(&key.to_info_bytes());
        if self.reps.iter().any(|(a, _)| *a == spki) { return }
        self.reps.push((spki, format!("{}.spki", label)));
        self.reps.push((name_hex(&key.to_subject_name()), format!("{}.name", label)));
        self.reps.push((hex(key.key_identifier().as_slice()), label.to_string()));
    }
    fn add(&mut self, from: String, to: &str) { self.reps.push((from, to.to_string())); }
    fn apply(&self, s: &str) -> String {
        let mut s = s.to_string();
        for (a, b) in &self.reps {
            if s.contains(a.as_str()) { s = s.replace(a.as_str(), b); }
        }
        s
    }
}

//------------ dump helper ----------------------------------------------------------

struct D { s: String, pre: String, panicked: bool }

impl D {
    fn new() -> D { D { s: String::new(), pre: String::new(), panicked: false } }
    fn kv(&mut self, k: &str, f: impl FnOnce() -> String) {
        let v = match catch_unwind(AssertUnwindSafe(f)) {
            Ok(v) => v,
            Err(_) => { self.panicked = true; "PANIC".to_string() }
        };
        if !self.s.is_empty() { self.s.push(';'); }
        self.s.push_str(&self.pre);
        self.s.push_str(k);
        self.s.push('=');
        self.s.push_str(&v);
    }
    fn sub(&mut self, pre: &str, f: impl FnOnce(&mut D)) {
        let old = self.pre.clone();
        self.pre = format!("{}{}", old, pre);
        f(self);
        self.pre = old;
    }
}

fn list(v: Vec<String>) -> String { if v.is_empty() { "-".into() } else { v.join(",") } }

fn sh(s: Serial) -> String {
    let a = s.into_array();
    let i = a.iter().position(|b| *b != 0).unwrap_or(19);
    hex(&a[i..])
}
fn st(t: Time) -> String {
    let n = t.timestamp_subsec_nanos();
    if n == 0 { format!("{}", t.timestamp()) } else { format!("{}.{}", t.timestamp(), n) }
}
fn name_hex(n: &Name) -> String { hex(n.encode_ref().to_captured(Mode::Der).as_slice()) }
fn su(u: Option<&uri::Rsync>) -> String { match u { Some(u) => hex(u.as_slice()), None => "N".into() } }
fn sus(u: Option<&uri::Https>) -> String { match u { Some(u) => hex(u.as_slice()), None => "N".into() } }
fn skid(k: Option<KeyIdentifier>) -> String { match k { Some(k) => hex(k.as_slice()), None => "N".into() } }
fn b01(b: bool) -> &'static str { if b { "1" } else { "0" } }

fn sipblock(b: IpBlock, v4: bool) -> String {
    let low = (1u128 << 96) - 1;
    match b {
        IpBlock::Prefix(p) => {
            let a = p.addr().to_bits();
            if v4 { format!("p{}/{}{}", a >> 96, p.addr_len(), if a & low != 0 { "!" } else { "" }) }
            else { format!("p{}/{}", a, p.addr_len()) }
        }
        IpBlock::Range(r) => {
            let (lo, hi) = (r.min().to_bits(), r.max().to_bits());
            if v4 { format!("r{}-{}{}", lo >> 96, hi >> 96, if lo & low != 0 || hi & low != low { "!" } else { "" }) }
            else { format!("r{}-{}", lo, hi) }
        }
    }
}
fn sipblocks(b: &IpBlocks, v4: bool) -> String { list(b.iter().map(|x| sipblock(x, v4)).collect()) }
fn sipres(r: &IpResources, v4: bool) -> String {
    let (inh, pres) = (r.is_inherited(), r.is_present());
    match r.to_blocks() {
        Err(_) => if inh && pres { "I".into() } else { "?I".into() },
        Ok(b) => if inh { "?B".into() } else if !pres { if b.is_empty() { "M".into() } else { "?M".into() } }
                 else { format!("B:{}", sipblocks(&b, v4)) },
    }
}
fn sasblock(b: AsBlock) -> String {
    match b {
        AsBlock::Id(a) => format!("i{}", a.into_u32()),
        AsBlock::Range(r) => format!("r{}-{}", r.min().into_u32(), r.max().into_u32()),
    }
}
fn sasblocks(b: &AsBlocks) -> String { format!("{}#{}", list(b.iter().map(sasblock).collect()), b.asn_count()) }
fn sasres(r: &AsResources) -> String {
    let (inh, pres) = (r.is_inherited(), r.is_present());
    match r.to_blocks() {
        Err(_) => if inh && pres { "I".into() } else { "?I".into() },
        Ok(b) => if inh { "?B".into() } else if !pres { if b.is_empty() { "M".into() } else { "?M".into() } }
                 else { format!("B:{}", sasblocks(&b)) },
    }
}

//------------ token parsing ----------------------------------------------------------

#[derive(Debug)]
enum Fail { Bad, Refused }
type R<T> = Result<T, Fail>;
use Fail::{Bad, Refused};

fn kvs<'a>(toks: &[&'a str]) -> R<Vec<(&'a str, &'a str)>> {
    toks.iter().map(|t| t.split_once('=').ok_or(Bad)).collect()
}
fn want<'a>(m: &[(&'a str, &'a str)], k: &str) -> R<&'a str> {
    m.iter().rev().find(|(a, _)| *a == k).map(|x| x.1).ok_or(Bad)
}
fn opt<'a>(m: &[(&'a str, &'a str)], k: &str) -> Option<&'a str> {
    m.iter().rev().find(|(a, _)| *a == k).map(|x| x.1)
}
fn p_num<T: std::str::FromStr>(s: &str) -> R<T> { s.parse().map_err(|_| Bad) }
fn p_hex(s: &str) -> R<Vec<u8>> { unhex(s).ok_or(Bad) }
fn p_serial(s: &str) -> R<Serial> { Serial::from_slice(&p_hex(s)?).map_err(|_| Refused) }
fn p_time(s: &str) -> R<Time> {
    let (a, b) = match s.split_once('.') { Some((a, b)) => (a, Some(b)), None => (s, None) };
    let secs: i64 = p_num(a)?;
    let nanos: u32 = match b { Some(b) => p_num(b)?, None => 0 };
    if nanos >= 2_000_000_000 { return Err(Bad) }
    Utc.timestamp_opt(secs, nanos).single().map(Time::new).ok_or(Bad)
}
fn p_key(w: &World, s: &str) -> R<PublicKey> {
    if s == "ec" { return Ok(w.ec.clone()) }
    let i: usize = p_num(s)?;
    w.keys.get(i).cloned().ok_or(Bad)
}
fn p_kidx(s: &str) -> R<usize> { let i: usize = p_num(s)?; if i < 4 { Ok(i) } else { Err(Bad) } }
fn p_name(w: &World, s: &str) -> R<Name> {
    if let Some(k) = s.strip_prefix('D') { return Ok(p_key(w, k)?.to_subject_name()) }
    Mode::Der.decode(Bytes::from(p_hex(s)?), Name::take_from).map_err(|_| Refused)
}
fn p_oname(w: &World, s: &str) -> R<Option<Name>> { if s == "N" { Ok(None) } else { p_name(w, s).map(Some) } }
fn p_rsync(s: &str) -> R<uri::Rsync> { uri::Rsync::from_slice(&p_hex(s)?).map_err(|_| Refused) }
fn p_orsync(s: &str) -> R<Option<uri::Rsync>> { if s == "N" { Ok(None) } else { p_rsync(s).map(Some) } }
fn p_ohttps(s: &str) -> R<Option<uri::Https>> {
    if s == "N" { Ok(None) } else { uri::Https::from_slice(&p_hex(s)?).map(Some).map_err(|_| Refused) }
}
fn p_kid(w: &World, s: &str) -> R<Option<KeyIdentifier>> {
    if s == "N" { return Ok(None) }
    if let Some(k) = s.strip_prefix('k') { return Ok(Some(p_key(w, k)?.key_identifier())) }
    let b = p_hex(s)?;
    KeyIdentifier::try_from(b.as_slice()).map(Some).map_err(|_| Refused)
}

fn addr_of(v4: bool, n: u128) -> R<Addr> {
    if v4 {
        if n > u32::MAX as u128 { return Err(Bad) }
        Ok(Addr::from(Ipv4Addr::from(n as u32)))
    } else { Ok(Addr::from_bits(n)) }
}

#[derive(Clone)]
enum IpSpec { Missing, Inherit, InheritSet, Blocks(char, Vec<IpBlock>) }
#[derive(Clone)]
enum AsSpec { Missing, Inherit, InheritSet, Blocks(char, Vec<AsBlock>) }

fn p_ipspec(s: &str, v4: bool) -> R<IpSpec> {
    match s { "M" => return Ok(IpSpec::Missing), "I" => return Ok(IpSpec::Inherit), "J" => return Ok(IpSpec::InheritSet), _ => {} }
    let (api, items) = s.split_once(':').ok_or(Bad)?;
    let api = match api { "B" => 'B', "F" => 'F', "S" => 'S', _ => return Err(Bad) };
    let mut v = Vec::new();
    for it in items.split(',').filter(|x| !x.is_empty()) {
        let (kind, rest) = it.split_at(1);
        match kind {
            "p" => {
                let (a, l) = rest.split_once('/').ok_or(Bad)?;
                let len: u8 = p_num(l)?;
                if len > 128 { return Err(Bad) }
                v.push(IpBlock::Prefix(Prefix::new(addr_of(v4, p_num(a)?)?, len)));
            }
            "r" | "t" => {
                let (a, b) = rest.split_once('-').ok_or(Bad)?;
                let lo = addr_of(v4, p_num(a)?)?;
                let hi = addr_of(v4, p_num(b)?)?;
                let hi = if v4 { hi.to_max(32) } else { hi };
                v.push(if kind == "r" { IpBlock::Range(AddressRange::new(lo, hi)) } else { IpBlock::from((lo, hi)) });
            }
            _ => return Err(Bad),
        }
    }
    Ok(IpSpec::Blocks(api, v))
}

fn p_asspec(s: &str) -> R<AsSpec> {
    match s { "M" => return Ok(AsSpec::Missing), "I" => return Ok(AsSpec::Inherit), "J" => return Ok(AsSpec::InheritSet), _ => {} }
    let (api, items) = s.split_once(':').ok_or(Bad)?;
    let api = match api { "B" => 'B', "F" => 'F', "S" => 'S', _ => return Err(Bad) };
    let mut v = Vec::new();
    for it in items.split(',').filter(|x| !x.is_empty()) {
        let (kind, rest) = it.split_at(1);
        match kind {
            "i" => v.push(AsBlock::Id(Asn::from_u32(p_num(rest)?))),
            "r" => {
                // `AsRange` is not exported: `From<(Asn, Asn)>` is the only public way to make a range
                let (a, b) = rest.split_once('-').ok_or(Bad)?;
                v.push(AsBlock::from((Asn::from_u32(p_num(a)?), Asn::from_u32(p_num(b)?))));
            }
            _ => return Err(Bad),
        }
    }
    Ok(AsSpec::Blocks(api, v))
}


//------------ applying resource specs ------------------------------------------------

fn ipres_of(s: &IpSpec) -> IpResources {
    match s {
        IpSpec::Missing => IpResources::missing(),
        IpSpec::Inherit | IpSpec::InheritSet => IpResources::inherit(),
        IpSpec::Blocks(_, v) => IpResources::blocks(v.iter().copied().collect::<IpBlocks>()),
    }
}
fn asres_of(s: &AsSpec) -> AsResources {
    match s {
        AsSpec::Missing => AsResources::missing(),
        AsSpec::Inherit | AsSpec::InheritSet => AsResources::inherit(),
        AsSpec::Blocks(_, v) => AsResources::blocks(v.iter().copied().collect::<AsBlocks>()),
    }
}

macro_rules! apply_ip {
    ($t:expr, $spec:expr, $set:ident, $inh:ident, $build:ident, $from_iter:expr) => {
        match $spec {
            IpSpec::Missing => $t.$set(IpResources::missing()),
            IpSpec::Inherit => $t.$inh(),
            IpSpec::InheritSet => $t.$set(IpResources::inherit()),
            IpSpec::Blocks('B', v) => $t.$build(|b| for x in v { b.push(*x) }),
            IpSpec::Blocks('F', v) => $from_iter($t, v),
            s => $t.$set(ipres_of(s)),
        }
    };
}
macro_rules! apply_as {
    ($t:expr, $spec:expr, $from_iter:expr) => {
        match $spec {
            AsSpec::Missing => $t.set_as_resources(AsResources::missing()),
            AsSpec::Inherit => $t.set_as_resources_inherit(),
            AsSpec::InheritSet => $t.set_as_resources(AsResources::inherit()),
            AsSpec::Blocks('B', v) => $t.build_as_resource_blocks(|b| for x in v { b.push(*x) }),
            AsSpec::Blocks('F', v) => $from_iter($t, v),
            s => $t.set_as_resources(asres_of(s)),
        }
    };
}

fn cert_v4(t: &mut TbsCert, s: &IpSpec) {
    apply_ip!(t, s, set_v4_resources, set_v4_resources_inherit, build_v4_resource_blocks,
        |t: &mut TbsCert, v: &Vec<IpBlock>| t.v4_resources_from_iter(v.iter().copied()))
}
fn cert_v6(t: &mut TbsCert, s: &IpSpec) {
    apply_ip!(t, s, set_v6_resources, set_v6_resources_inherit, build_v6_resource_blocks,
        |t: &mut TbsCert, v: &Vec<IpBlock>| t.v6_resources_from_iter(v.iter().copied()))
}
fn cert_as(t: &mut TbsCert, s: &AsSpec) {
    apply_as!(t, s, |t: &mut TbsCert, v: &Vec<AsBlock>| t.as_resources_from_iter(v.iter().copied()))
}
fn sob_v4(t: &mut SignedObjectBuilder, s: &IpSpec) {
    apply_ip!(t, s, set_v4_resources, set_v4_resources_inherit, build_v4_resource_blocks,
        |t: &mut SignedObjectBuilder, v: &Vec<IpBlock>| t.set_v4_resources(IpResources::blocks(v.iter().copied().collect())))
}
fn sob_v6(t: &mut SignedObjectBuilder, s: &IpSpec) {
    apply_ip!(t, s, set_v6_resources, set_v6_resources_inherit, build_v6_resource_blocks,
        |t: &mut SignedObjectBuilder, v: &Vec<IpBlock>| t.set_v6_resources(IpResources::blocks(v.iter().copied().collect())))
}
fn sob_as(t: &mut SignedObjectBuilder, s: &AsSpec) {
    apply_as!(t, s, |t: &mut SignedObjectBuilder, v: &Vec<AsBlock>| t.set_as_resources(AsResources::blocks(v.iter().copied().collect())))
}

//------------ result assembly -----------------------------------------------------------

fn stage<T>(name: &'static str, f: impl FnOnce() -> T) -> Result<T, String> {
    catch_unwind(AssertUnwindSafe(f)).map_err(|_| format!("panic@{}", name))
}

/// first TLV inside the outer SEQUENCE (the to-be-signed part of certificates, CRLs, CSRs)
fn inner_tbs(der_bytes: &[u8]) -> Option<&[u8]> {
    let (h, n) = der::split_tlv(der_bytes)?;
    let body = &der_bytes[h..h + n];
    let (h1, n1) = der::split_tlv(body)?;
    Some(&body[..h1 + n1])
}

thread_local! {
    /// the octets of the object built by the last operation (for the `bytes` operations: the same object through the
    /// Lean decoder models)
    static LAST_DER: std::cell::RefCell<Option<Vec<u8>>> = const { std::cell::RefCell::new(None) };
}
fn stash(b: &[u8]) { LAST_DER.with(|l| *l.borrow_mut() = Some(b.to_vec())); }

struct Res {
    der_len: usize,
    /// outer / inner re-encoding equal (None: stage panicked)
    reenc: Option<(bool, bool)>,
    built: Option<D>,
    dec: D,
    /// "ok" | "err" | "na" | "panic"
    valid: String,
    extra: String,
}

fn finish(m: &Masker, r: Res) -> String {
    let (acc, built_dump) = match &r.built {
        None => ("na", None),
        Some(b) => if b.s == r.dec.s { ("same", None) } else { ("differs", Some(m.apply(&b.s))) },
    };
    let head = if r.built.as_ref().is_some_and(|b| b.panicked) { "panic@accessors-built" }
        else if r.dec.panicked { "panic@accessors-decoded" }
        else if r.valid == "panic" { "panic@validate" }
        else if r.reenc.is_none() { "panic@reencode" }
        else { "ok" };
    let (reenc, why) = match r.reenc {
        None => ("panic", ""),
        Some((true, true)) => ("same", ""),
        Some((false, true)) => ("differs", " why=outer"),
        Some((true, false)) => ("differs", " why=inner"),
        Some((false, false)) => ("differs", " why=both"),
    };
    let mut s = format!("{} {} reenc:{} acc:{} valid:{} {}", head, r.der_len, reenc, acc, r.valid, m.apply(&r.dec.s));
    if let Some(b) = built_dump { s.push_str(" built="); s.push_str(&b); }
    s.push_str(why);
    s.push_str(&r.extra);
    s
}

/// result for a run that stopped at the decoder; a panic in the accessors of the built value comes first
fn early(m: &Masker, built: &D, what: String) -> String {
    if built.panicked { format!("panic@accessors-built {} built={}", what, m.apply(&built.s)) } else { what }
}

fn verdict(r: Result<bool, String>) -> String {
    match r { Ok(true) => "ok".into(), Ok(false) => "err".into(), Err(_) => "panic".into() }
}

//------------ certificates -----------------------------------------------------------------

fn dump_cert(d: &mut D, c: &Cert) {
    d.kv("sn", || sh(c.serial_number()));
    d.kv("snd", || c.serial_number().to_string());
    d.kv("iss", || name_hex(c.issuer()));
    d.kv("sub", || name_hex(c.subject()));
    d.kv("nb", || st(c.validity().not_before()));
    d.kv("na", || st(c.validity().not_after()));
    d.kv("key", || hex(&c.subject_public_key_info().to_info_bytes()));
    d.kv("alg", || format!("{}{}", b01(c.subject_public_key_info().allow_rpki_cert()), b01(c.subject_public_key_info().allow_router_cert())));
    d.kv("bc", || match c.basic_ca() { None => "N", Some(true) => "T", Some(false) => "F" }.into());
    d.kv("ski", || hex(c.subject_key_identifier().as_slice()));
    d.kv("aki", || skid(c.authority_key_identifier()));
    d.kv("ku", || match c.key_usage() { KeyUsage::Ca => "ca", KeyUsage::Ee => "ee" }.into());
    d.kv("eku", || match c.extended_key_usage() { None => "N", Some(e) => if e.inspect_router().is_ok() { "R" } else { "O" } }.into());
    d.kv("crl", || su(c.crl_uri()));
    d.kv("aia", || su(c.ca_issuer()));
    d.kv("rep", || su(c.ca_repository()));
    d.kv("mft", || su(c.rpki_manifest()));
    d.kv("so", || su(c.signed_object()));
    d.kv("ntf", || sus(c.rpki_notify()));
    d.kv("oc", || match c.overclaim() { Overclaim::Refuse => "refuse", Overclaim::Trim => "trim" }.into());
    d.kv("v4", || sipres(c.v4_resources(), true));
    d.kv("v6", || sipres(c.v6_resources(), false));
    d.kv("as", || sasres(c.as_resources()));
    d.kv("flags", || format!("{}{}{}", b01(c.has_ip_resources()), b01(c.is_ca()), b01(c.is_self_signed())));
}

enum Setter {
    Bc(Option<bool>), Aki(Option<KeyIdentifier>), Eku(bool),
    Crl(Option<uri::Rsync>), Aia(Option<uri::Rsync>), Rep(Option<uri::Rsync>), Mft(Option<uri::Rsync>),
    So(Option<uri::Rsync>), Ntf(Option<uri::Https>), V4(IpSpec), V6(IpSpec), As(AsSpec),
}

fn validate_cert(w: &World, c: &Cert, kind: &str, now: Time) -> Option<bool> {
    let c = c.clone();
    Some(match kind {
        "ta" => c.validate_ta_at(TalInfo::from_name("t".into()).into_arc(), true, now).is_ok(),
        "ca" => c.validate_ca_at(&w.ta, true, now).is_ok(),
        "ee" => c.validate_ee_at(&w.ta, true, now).is_ok(),
        "dee" => c.validate_detached_ee_at(&w.ta, true, now).is_ok(),
        "rt" => c.validate_router_at(&w.ta, true, now).is_ok(),
        _ => return None,
    })
}

/// cert via=<new|set> sn= nb= na= iss= sub= key=<0..3|ec> ik=<0..3> ku=<ca|ee> oc=<refuse|trim> kind=<ta|ca|ee|dee|rt|none> now=
///      then, applied in the order given:  bc=<N|T|F> aki=<N|k<i>|hex> eku=<N|R> crl= aia= rep= mft= so= ntf= v4= v6= as=
fn op_cert(w: &World, toks: &[&str]) -> R<String> {
    let m = kvs(toks)?;
    let via_set = match want(&m, "via")? { "new" => false, "set" => true, _ => return Err(Bad) };
    let sn = p_serial(want(&m, "sn")?)?;
    let validity = Validity::new(p_time(want(&m, "nb")?)?, p_time(want(&m, "na")?)?);
    let iss = p_name(w, want(&m, "iss")?)?;
    let sub = p_oname(w, want(&m, "sub")?)?;
    let key = p_key(w, want(&m, "key")?)?;
    let ik = p_kidx(want(&m, "ik")?)?;
    let ku = match want(&m, "ku")? { "ca" => KeyUsage::Ca, "ee" => KeyUsage::Ee, _ => return Err(Bad) };
    let oc = match want(&m, "oc")? { "refuse" => Overclaim::Refuse, "trim" => Overclaim::Trim, _ => return Err(Bad) };
    let kind = want(&m, "kind")?;
    if !["ta", "ca", "ee", "dee", "rt", "none"].contains(&kind) { return Err(Bad) }
    let now = p_time(want(&m, "now")?)?;
    let mut setters = Vec::new();
    for (k, v) in &m {
        setters.push(match *k {
            "bc" => Setter::Bc(match *v { "N" => None, "T" => Some(true), "F" => Some(false), _ => return Err(Bad) }),
            "aki" => Setter::Aki(p_kid(w, v)?),
            "eku" => Setter::Eku(match *v { "N" => false, "R" => true, _ => return Err(Bad) }),
            "crl" => Setter::Crl(p_orsync(v)?), "aia" => Setter::Aia(p_orsync(v)?),
            "rep" => Setter::Rep(p_orsync(v)?), "mft" => Setter::Mft(p_orsync(v)?),
            "so" => Setter::So(p_orsync(v)?), "ntf" => Setter::Ntf(p_ohttps(v)?),
            "v4" => Setter::V4(p_ipspec(v, true)?), "v6" => Setter::V6(p_ipspec(v, false)?),
            "as" => Setter::As(p_asspec(v)?),
            "via" | "sn" | "nb" | "na" | "iss" | "sub" | "key" | "ik" | "ku" | "oc" | "kind" | "now" => continue,
            _ => return Err(Bad),
        });
    }
    let built = stage("build", || {
        let mut t = if via_set {
            let mut t = TbsCert::new(Serial::from(77u64), w.keys[3].to_subject_name(), Validity::new(tm(1), tm(2)), None,
                w.keys[3].clone(), if ku == KeyUsage::Ca { KeyUsage::Ee } else { KeyUsage::Ca },
                if oc == Overclaim::Refuse { Overclaim::Trim } else { Overclaim::Refuse });
            t.set_serial_number(sn);
            t.set_issuer(iss.clone());
            t.set_validity(validity);
            t.set_subject_public_key(key.clone());
            t.set_subject(sub.clone().unwrap_or_else(|| key.to_subject_name()));
            t.set_key_usage(ku);
            t.set_overclaim(oc);
            t
        } else {
            TbsCert::new(sn, iss.clone(), validity, sub.clone(), key.clone(), ku, oc)
        };
        for s in &setters {
            match s {
                Setter::Bc(v) => t.set_basic_ca(*v),
                Setter::Aki(v) => t.set_authority_key_identifier(*v),
                Setter::Eku(v) => t.set_extended_key_usage(if *v { Some(ExtendedKeyUsage::create_router()) } else { None }),
                Setter::Crl(v) => t.set_crl_uri(v.clone()),
                Setter::Aia(v) => t.set_ca_issuer(v.clone()),
                Setter::Rep(v) => t.set_ca_repository(v.clone()),
                Setter::Mft(v) => t.set_rpki_manifest(v.clone()),
                Setter::So(v) => t.set_signed_object(v.clone()),
                Setter::Ntf(v) => t.set_rpki_notify(v.clone()),
                Setter::V4(v) => cert_v4(&mut t, v),
                Setter::V6(v) => cert_v6(&mut t, v),
                Setter::As(v) => cert_as(&mut t, v),
            }
        }
        t.into_cert(&w.pool.signer, &w.pool.keys[ik].id)
    });
    let built = match built { Err(p) => return Ok(p), Ok(Err(_)) => return Err(Refused), Ok(Ok(c)) => c };
    let mk = Masker::new(w);
    let mut db = D::new();
    dump_cert(&mut db, &built);
    let der_bytes = match stage("encode", || built.to_captured().into_bytes()) { Ok(b) => b, Err(p) => return Ok(early(&mk, &db, p)) };
    stash(&der_bytes);
    let dec = match stage("decode", || Cert::decode(der_bytes.clone())) {
        Err(p) => return Ok(early(&mk, &db, p)), Ok(Err(_)) => return Ok(early(&mk, &db, "decode-err".into())), Ok(Ok(c)) => c };
    let mut dd = D::new();
    dump_cert(&mut dd, &dec);
    let valid = match validate_cert(w, &dec, kind, now) { None => "na".to_string(), Some(_) => verdict(stage("validate", || validate_cert(w, &dec, kind, now).unwrap())) };
    let mut extra = String::new();
    if kind != "none" {
        let vb = verdict(stage("validate", || validate_cert(w, &built, kind, now).unwrap()));
        if vb != valid { extra = format!(" vbuilt={}", vb); }
    }
    let reenc = stage("reencode", || {
        let outer = dec.to_captured().as_slice() == der_bytes.as_ref();
        let inner = Some(TbsCert::encode_ref(&dec).to_captured(Mode::Der).as_slice()) == inner_tbs(&der_bytes);
        (outer, inner)
    }).ok();
    Ok(finish(&mk, Res { der_len: der_bytes.len(), reenc, built: Some(db), dec: dd, valid, extra }))
}

//------------ CRLs -------------------------------------------------------------------------

fn serial_add(s: Serial, up: bool) -> Option<Serial> {
    let mut a = s.into_array();
    for i in (0..20).rev() {
        if up { if a[i] == 0xff { a[i] = 0; } else { a[i] += 1; return Serial::from_array(a).ok() } }
        else if a[i] == 0 { a[i] = 0xff; } else { a[i] -= 1; return Serial::from_array(a).ok() }
    }
    None
}

fn crl_queries(ents: &[CrlEntry]) -> Vec<Serial> {
    let mut q = Vec::new();
    for e in ents {
        if let Some(s) = serial_add(e.user_certificate, false) { q.push(s); }
        q.push(e.user_certificate);
        if let Some(s) = serial_add(e.user_certificate, true) { q.push(s); }
    }
    q.push(Serial::from(0u64));
    q.push(Serial::from_slice(&[0x7f; 20]).unwrap());
    q
}

fn dump_crl(d: &mut D, c: &Crl, queries: &[Serial]) {
    d.kv("alg", || format!("{:?}", c.signature()).replace(' ', ""));
    d.kv("sigalg", || format!("{:?}", c.signed_data().signature().algorithm()).replace(' ', ""));
    d.kv("siglen", || c.signed_data().signature().value().len().to_string());
    d.kv("iss", || name_hex(c.issuer()));
    d.kv("this", || st(c.this_update()));
    d.kv("next", || st(c.next_update()));
    d.kv("aki", || hex(c.authority_key_identifier().as_slice()));
    d.kv("num", || sh(c.crl_number()));
    d.kv("rev", || list(c.revoked_certs().iter().map(|e| format!("{}@{}", sh(e.user_certificate), st(e.revocation_date))).collect()));
    d.kv("rev2", || list(c.as_cert_list().revoked_certs().iter().map(|e| sh(e.user_certificate)).collect::<Vec<_>>()).len().to_string());
    d.kv("has", || queries.iter().map(|q| b01(c.contains(*q))).collect());
    d.kv("hasl", || queries.iter().map(|q| b01(c.revoked_certs().contains(*q))).collect());
    d.kv("hasc", || { let mut c2 = c.clone(); c2.cache_serials(); queries.iter().map(|q| b01(c2.contains(*q))).collect() });
    d.kv("stale", || { let _ = c.is_stale(); "x".into() });
}

/// crl via=<new|set> iss= this= next= aki=<k<i>|hex> num= ik= ents=<sn@time,…|->
fn op_crl(w: &World, toks: &[&str]) -> R<String> {
    let m = kvs(toks)?;
    let via_set = match want(&m, "via")? { "new" => false, "set" => true, _ => return Err(Bad) };
    let iss = p_name(w, want(&m, "iss")?)?;
    let this = p_time(want(&m, "this")?)?;
    let next = p_time(want(&m, "next")?)?;
    let aki = p_kid(w, want(&m, "aki")?)?.ok_or(Bad)?;
    let num = p_serial(want(&m, "num")?)?;
    let ik = p_kidx(want(&m, "ik")?)?;
    let mut ents = Vec::new();
    let e = want(&m, "ents")?;
    if e != "-" {
        for it in e.split(',') {
            let (s, t) = it.split_once('@').ok_or(Bad)?;
            ents.push(CrlEntry::new(p_serial(s)?, p_time(t)?));
        }
    }
    let queries = crl_queries(&ents);
    let built = stage("build", || {
        let t = if via_set {
            let mut t = TbsCertList::new(RpkiSignatureAlgorithm::default(), w.keys[3].to_subject_name(), tm(1), tm(2),
                vec![CrlEntry::new(Serial::from(9u64), tm(3))], w.keys[3].key_identifier(), Serial::from(5u64));
            t.set_signature(RpkiSignatureAlgorithm::default());
            t.set_issuer(iss.clone());
            t.set_this_update(this);
            t.set_next_update(next);
            t.set_revoked_certs(ents.clone());
            t.set_authority_key_identifier(aki);
            t.set_crl_number(num);
            t.revoked_certs_mut().truncate(ents.len());
            t
        } else {
            TbsCertList::new(RpkiSignatureAlgorithm::default(), iss.clone(), this, next, ents.clone(), aki, num)
        };
        t.into_crl(&w.pool.signer, &w.pool.keys[ik].id)
    });
    let built = match built { Err(p) => return Ok(p), Ok(Err(_)) => return Err(Refused), Ok(Ok(c)) => c };
    let mk = Masker::new(w);
    let mut db = D::new();
    dump_crl(&mut db, &built, &queries);
    let der_bytes = match stage("encode", || built.to_captured().into_bytes()) { Ok(b) => b, Err(p) => return Ok(early(&mk, &db, p)) };
    stash(&der_bytes);
    let dec = match stage("decode", || Crl::decode(der_bytes.clone())) {
        Err(p) => return Ok(early(&mk, &db, p)), Ok(Err(_)) => return Ok(early(&mk, &db, "decode-err".into())), Ok(Ok(c)) => c };
    let mut dd = D::new();
    dump_crl(&mut dd, &dec, &queries);
    let valid = verdict(stage("validate", || dec.verify_signature(&w.keys[ik]).is_ok()));
    let reenc = stage("reencode", || {
        let outer = dec.to_captured().as_slice() == der_bytes.as_ref();
        let inner = Some(dec.as_cert_list().encode_ref().to_captured(Mode::Der).as_slice()) == inner_tbs(&der_bytes)
            && dec.signed_data().data().as_slice() == built.signed_data().data().as_slice();
        (outer, inner)
    }).ok();
    Ok(finish(&mk, Res { der_len: der_bytes.len(), reenc, built: Some(db), dec: dd, valid, extra: String::new() }))
}

//------------ manifest content ----------------------------------------------------------------

const MFT_BASE: &[u8] = b"rsync://h/m/d/";

fn dump_mftc(d: &mut D, c: &ManifestContent) {
    d.kv("num", || sh(c.manifest_number()));
    d.kv("this", || st(c.this_update()));
    d.kv("next", || st(c.next_update()));
    d.kv("halg", || b01(c.file_hash_alg().is_sha256()).into());
    d.kv("len", || c.len().to_string());
    d.kv("empty", || b01(c.is_empty()).into());
    d.kv("files", || list(c.iter().map(|f| format!("{}:{}", hex(f.file()), hex(f.hash()))).collect()));
    d.kv("uris", || { let base = uri::Rsync::from_slice(MFT_BASE).unwrap();
        list(c.iter_uris(&base).map(|(u, h)| format!("{}:{}:{}", hex(u.as_slice()), hex(h.as_slice()), b01(h.algorithm().is_sha256()))).collect()) });
    d.kv("stale", || { let _ = c.is_stale(); "x".into() });
}

fn p_files(s: &str) -> R<Vec<FileAndHash<Vec<u8>, Vec<u8>>>> {
    let mut v = Vec::new();
    if s != "-" {
        for it in s.split(';') {
            let (n, h) = it.split_once(':').ok_or(Bad)?;
            v.push(FileAndHash::new(p_hex(n)?, p_hex(h)?));
        }
    }
    Ok(v)
}

fn build_mftc(num: Serial, this: Time, next: Time, files: &[FileAndHash<Vec<u8>, Vec<u8>>]) -> ManifestContent {
    // the argument is any `IntoIterator`: the shape of the iterator (exact size, lower bound zero, chained) is
    // picked from the content so that replays are stable
    match (files.len() + num.into_array()[19] as usize) % 4 {
        0 => ManifestContent::new(num, this, next, DigestAlgorithm::sha256(), files.iter()),
        1 => ManifestContent::new(num, this, next, DigestAlgorithm::sha256(), files.iter().filter(|_| true)),
        2 => { let h = files.len() / 2; ManifestContent::new(num, this, next, DigestAlgorithm::sha256(), files[..h].iter().chain(files[h..].iter().filter(|_| true))) }
        _ => ManifestContent::new(num, this, next, DigestAlgorithm::sha256(), files.to_vec()),
    }
}

/// mftc <number-hex> <this> <next> <files>
fn op_mftc(w: &World, toks: &[&str]) -> R<String> {
    let [num, this, next, files] = toks else { return Err(Bad) };
    let (num, this, next, files) = (p_serial(num)?, p_time(this)?, p_time(next)?, p_files(files)?);
    let built = match stage("build", || build_mftc(num, this, next, &files)) { Ok(b) => b, Err(p) => return Ok(p) };
    let mk = Masker::new(w);
    let mut db = D::new();
    dump_mftc(&mut db, &built);
    let der_bytes = match stage("encode", || built.encode_ref().to_captured(Mode::Der).into_bytes()) { Ok(b) => b, Err(p) => return Ok(early(&mk, &db, p)) };
    let dec = match stage("decode", || Mode::Der.decode(der_bytes.clone(), ManifestContent::take_from)) {
        Err(p) => return Ok(early(&mk, &db, p)), Ok(Err(_)) => return Ok(early(&mk, &db, "decode-err".into())), Ok(Ok(c)) => c };
    let mut dd = D::new();
    dump_mftc(&mut dd, &dec);
    let reenc = stage("reencode", || {
        let same = dec.encode_ref().to_captured(Mode::Der).as_slice() == der_bytes.as_ref();
        (same, same)
    }).ok();
    Ok(finish(&mk, Res { der_len: der_bytes.len(), reenc, built: Some(db), dec: dd, valid: "na".into(), extra: String::new() }))
}

//------------ ROA content -------------------------------------------------------------------------

fn sroaaddr(a: RoaIpAddress, v4: bool) -> String {
    let bits = a.prefix().addr().to_bits();
    let (lo, hi) = a.range();
    let shift = if v4 { 96 } else { 0 };
    format!("{}/{}{}[{}-{}]", bits >> shift, a.prefix().addr_len(),
        match a.max_length() { Some(m) => format!("-{}", m), None => String::new() }, lo.to_bits() >> shift, hi.to_bits() >> shift)
}

fn dump_roac(d: &mut D, c: &RouteOriginAttestation) {
    d.kv("asid", || c.as_id().into_u32().to_string());
    d.kv("v4e", || b01(c.v4_addrs().is_empty()).into());
    d.kv("v6e", || b01(c.v6_addrs().is_empty()).into());
    d.kv("v4", || list(c.v4_addrs().iter().map(|a| sroaaddr(a, true)).collect()));
    d.kv("v6", || list(c.v6_addrs().iter().map(|a| sroaaddr(a, false)).collect()));
    d.kv("iter", || list(c.iter().map(|f| format!("{}:{}/{}-{}:{}:{}", if f.is_v4() { 4 } else { 6 },
        match f.address() { IpAddr::V4(a) => u32::from(a) as u128, IpAddr::V6(a) => u128::from(a) },
        f.address_length(), f.max_length(), f.prefix().addr_len(), f).replace(':', "_")).collect()));
    d.kv("orig", || list(c.iter_origins().map(|o| format!("{}/{}-{}@{}",
        match o.prefix.addr() { IpAddr::V4(a) => u32::from(a) as u128, IpAddr::V6(a) => u128::from(a) },
        o.prefix.prefix_len(), o.prefix.resolved_max_len(), o.asn.into_u32())).collect()));
}

type RoaAddr = (u128, u8, Option<u8>);

fn p_roaaddrs(s: &str, v4: bool) -> R<Vec<RoaAddr>> {
    let mut v = Vec::new();
    if s != "-" {
        for it in s.split(',') {
            let (b, l) = it.split_once('/').ok_or(Bad)?;
            let (l, ml) = match l.split_once('-') { Some((l, ml)) => (l, Some(p_num::<u8>(ml)?)), None => (l, None) };
            let bits: u128 = p_num(b)?;
            if v4 && bits > u32::MAX as u128 { return Err(Bad) }
            let len: u8 = p_num(l)?;
            if len > 128 { return Err(Bad) }
            v.push((bits, len, ml));
        }
    }
    Ok(v)
}

/// api 0: push_v4_addr / push_v6_addr, 1: push_addr(IpAddr), 2: push_v4(RoaIpAddress::new(Prefix::new)),
/// 3: extend_*_from_slice, 4: RoaBuilder::with_addresses(RoaIpAddressesBuilder)
fn build_roa(asid: u32, v4: &[RoaAddr], v6: &[RoaAddr], api: u8) -> RoaBuilder {
    let a4 = |b: u128| Ipv4Addr::from(b as u32);
    let a6 = |b: u128| Ipv6Addr::from(b);
    let r4: Vec<RoaIpAddress> = v4.iter().map(|(b, l, m)| RoaIpAddress::new(Prefix::new(a4(*b), *l), *m)).collect();
    let r6: Vec<RoaIpAddress> = v6.iter().map(|(b, l, m)| RoaIpAddress::new_addr(IpAddr::V6(a6(*b)), *l, *m)).collect();
    if api == 4 {
        let mut b4 = RoaIpAddressesBuilder::new();
        let mut b6 = RoaIpAddressesBuilder::default();
        for r in &r4 { b4.push(*r); }
        b6.extend(r6.iter().copied());
        let mut b = RoaBuilder::with_addresses(Asn::from_u32(!asid), b4, b6);
        b.set_as_id(Asn::from_u32(asid));
        return b
    }
    let mut b = RoaBuilder::new(Asn::from_u32(asid));
    match api {
        0 => {
            for (x, l, m) in v4 { b.push_v4_addr(a4(*x), *l, *m); }
            for (x, l, m) in v6 { b.push_v6_addr(a6(*x), *l, *m); }
        }
        1 => {
            // interleaved on purpose: the families are kept apart by the builder
            let n = v4.len().max(v6.len());
            for i in 0..n {
                if let Some((x, l, m)) = v6.get(i) { b.push_addr(IpAddr::V6(a6(*x)), *l, *m); }
                if let Some((x, l, m)) = v4.get(i) { b.push_addr(IpAddr::V4(a4(*x)), *l, *m); }
            }
        }
        2 => {
            for r in &r4 { b.push_v4(*r); }
            for r in &r6 { b.push_v6(*r); }
        }
        _ => {
            b.extend_v4_from_slice(&r4);
            b.v6_mut().extend_from_slice(&r6);
        }
    }
    b
}

/// A complete ROA around `content` made with the harness's own CMS encoder (keys 0 and 2).
fn wrap_cms(w: &World, ct: &[u64], content: &[u8]) -> Vec<u8> {
    let mut ee = w.pool.spec(2, 0, pki::Kind::Ee);
    ee.v4 = pki::Res::Inherit;
    w.pool.signed_object(ct, content, &ee, 0, 2, Some(T0))
}

/// roac <asid> <v4> <v6> [a<api>]
fn op_roac(w: &World, toks: &[&str]) -> R<String> {
    let (asid, v4, v6, api) = match toks {
        [a, b, c] => (a, b, c, 0u8),
        [a, b, c, d] => (a, b, c, p_num::<u8>(d.strip_prefix('a').ok_or(Bad)?)?),
        _ => return Err(Bad),
    };
    let (asid, v4, v6) = (p_num::<u32>(asid)?, p_roaaddrs(v4, true)?, p_roaaddrs(v6, false)?);
    let built = match stage("build", || build_roa(asid, &v4, &v6, api).to_attestation()) { Ok(b) => b, Err(p) => return Ok(p) };
    let mk = Masker::new(w);
    let mut db = D::new();
    dump_roac(&mut db, &built);
    let content = match stage("encode", || built.encode_ref().to_captured(Mode::Der).into_bytes()) { Ok(b) => b, Err(p) => return Ok(early(&mk, &db, p)) };
    let obj = Bytes::from(wrap_cms(w, pki::CT_ROA, &content));
    let dec = match stage("decode", || Roa::decode(obj.clone(), true)) {
        Err(p) => return Ok(early(&mk, &db, p)), Ok(Err(_)) => return Ok(early(&mk, &db, "decode-err".into())), Ok(Ok(c)) => c };
    let mut dd = D::new();
    dump_roac(&mut dd, dec.content());
    let reenc = stage("reencode", || {
        let outer = dec.to_captured().as_slice() == obj.as_ref();
        let inner = dec.content().encode_ref().to_captured(Mode::Der).as_slice() == content.as_ref();
        (outer, inner)
    }).ok();
    Ok(finish(&mk, Res { der_len: content.len(), reenc, built: Some(db), dec: dd, valid: "na".into(), extra: String::new() }))
}

//------------ ASPA content -------------------------------------------------------------------------

fn dump_aspac(d: &mut D, c: &AsProviderAttestation) {
    d.kv("cust", || c.customer_as().into_u32().to_string());
    d.kv("len", || c.provider_as_set().len().to_string());
    d.kv("prov", || list(c.provider_as_set().iter().map(|a| a.into_u32().to_string()).collect()));
    d.kv("set", || { let s = c.provider_as_set().to_set(); format!("{}#{}", list(s.iter().map(|a| a.into_u32().to_string()).collect()), s.len()) });
    d.kv("asres", || sasres(&c.as_resources()));
}

fn p_providers(s: &str) -> R<Vec<Asn>> {
    if s == "-" { return Ok(vec![]) }
    s.split(',').map(|x| p_num::<u32>(x).map(Asn::from_u32)).collect()
}

fn build_aspa(cust: u32, provs: &[Asn], via_add: bool) -> Result<AspaBuilder, ()> {
    if via_add {
        let mut b = AspaBuilder::empty(Asn::from_u32(cust));
        for p in provs { b.add_provider(*p).map_err(|_| ())?; }
        Ok(b)
    } else {
        AspaBuilder::new(Asn::from_u32(cust), provs.to_vec()).map_err(|_| ())
    }
}

fn std_sob() -> SignedObjectBuilder {
    let mut b = SignedObjectBuilder::new(Serial::from(12u64), Validity::new(tm(T0 - 1000), tm(T0 + 1000)),
        uri::Rsync::from_slice(b"rsync://h/m/0/c.crl").unwrap(), uri::Rsync::from_slice(b"rsync://h/m/0.cer").unwrap(),
        uri::Rsync::from_slice(b"rsync://h/m/0/o.obj").unwrap());
    b.set_signing_time(tm(T0));
    b
}

/// aspac <customer> <providers,…|-> [new|add]
fn op_aspac(w: &World, toks: &[&str]) -> R<String> {
    let (cust, provs, via_add) = match toks {
        [a, b] => (a, b, false),
        [a, b, c] => (a, b, match *c { "new" => false, "add" => true, _ => return Err(Bad) }),
        _ => return Err(Bad),
    };
    let (cust, provs) = (p_num::<u32>(cust)?, p_providers(provs)?);
    let signer = PoolSigner(w);
    let built = stage("build", || build_aspa(cust, &provs, via_add).map(|b| b.finalize(std_sob(), &signer, &w.pool.keys[0].id)));
    let built = match built { Err(p) => return Ok(p), Ok(Err(())) | Ok(Ok(Err(_))) => return Err(Refused), Ok(Ok(Ok(a))) => a };
    let mk = Masker::new(w);
    let mut db = D::new();
    dump_aspac(&mut db, built.content());
    let (obj, content) = match stage("encode", || (built.to_captured().into_bytes(), built.content().encode_ref().to_captured(Mode::Der).into_bytes())) {
        Ok(b) => b, Err(p) => return Ok(early(&mk, &db, p)) };
    let dec = match stage("decode", || Aspa::decode(obj.clone(), true)) {
        Err(p) => return Ok(early(&mk, &db, p)), Ok(Err(_)) => return Ok(early(&mk, &db, "decode-err".into())), Ok(Ok(c)) => c };
    let mut dd = D::new();
    dump_aspac(&mut dd, dec.content());
    let reenc = stage("reencode", || {
        let outer = dec.to_captured().as_slice() == obj.as_ref();
        let inner = dec.content().encode_ref().to_captured(Mode::Der).as_slice() == content.as_ref();
        (outer, inner)
    }).ok();
    Ok(finish(&mk, Res { der_len: content.len(), reenc, built: Some(db), dec: dd, valid: "na".into(), extra: String::new() }))
}

//------------ complete signed objects ----------------------------------------------------------------

struct SobSpec { b: SignedObjectBuilder, st_default: bool, fresh_one_off: bool, now: Time, wide: bool }

/// common tokens: sn= nb= na= crl= aia= so= iss=<N|name> sub=<N|name> st=<time|N> oo=<p|f> now=
///                [v4= v6= as=] (ignored by the typed builders, which overwrite them)
fn p_sob(w: &World, m: &[(&str, &str)]) -> R<SobSpec> {
    let nb = p_time(want(m, "nb")?)?;
    let na = p_time(want(m, "na")?)?;
    let mut b = SignedObjectBuilder::new(p_serial(want(m, "sn")?)?, Validity::new(nb, na),
        p_rsync(want(m, "crl")?)?, p_rsync(want(m, "aia")?)?, p_rsync(want(m, "so")?)?);
    b.set_issuer(p_oname(w, want(m, "iss")?)?);
    b.set_subject(p_oname(w, want(m, "sub")?)?);
    let st_s = want(m, "st")?;
    if st_s != "N" { b.set_signing_time(p_time(st_s)?); }
    if let Some(v) = opt(m, "v4") { sob_v4(&mut b, &p_ipspec(v, true)?); }
    if let Some(v) = opt(m, "v6") { sob_v6(&mut b, &p_ipspec(v, false)?); }
    if let Some(v) = opt(m, "as") { sob_as(&mut b, &p_asspec(v)?); }
    let fresh = match want(m, "oo")? { "p" => false, "f" => true, _ => return Err(Bad) };
    // `process` of ROAs and ASPAs looks at the wall clock; it is only run for windows around 2000..2100
    let wide = nb.timestamp() <= 946_684_800 && na.timestamp() >= 4_102_444_800;
    Ok(SobSpec { b, st_default: st_s == "N", fresh_one_off: fresh, now: p_time(want(m, "now")?)?, wide })
}

fn dump_sob_builder(d: &mut D, b: &SignedObjectBuilder) {
    d.kv("b.sn", || sh(b.serial_number()));
    d.kv("b.nb", || st(b.validity().not_before()));
    d.kv("b.na", || st(b.validity().not_after()));
    d.kv("b.iss", || match b.issuer() { Some(n) => name_hex(n), None => "N".into() });
    d.kv("b.sub", || match b.subject() { Some(n) => name_hex(n), None => "N".into() });
    d.kv("b.crl", || su(Some(b.crl_uri())));
    d.kv("b.aia", || su(Some(b.ca_issuer())));
    d.kv("b.so", || su(Some(b.signed_object())));
    d.kv("b.v4", || sipres(b.v4_resources(), true));
    d.kv("b.v6", || sipres(b.v6_resources(), false));
    d.kv("b.as", || sasres(b.as_resources()));
    d.kv("b.dig", || format!("{}{}", b01(b.digest_algorithm().is_sha256()), b01(b.has_ip_resources())));
}

fn dump_so(d: &mut D, o: &SignedObject) {
    d.kv("ct", || hex(o.content_type().as_ref()));
    d.kv("content", || hex(&o.content().to_bytes()));
    d.kv("st", || st(o.signing_time()));
    d.kv("dc", || match o.decode_content(|c| { let mut n = 0; while c.skip_one()?.is_some() { n += 1; } Ok(n) }) { Ok(n) => n.to_string(), Err(_) => "err".into() });
    d.sub("c.", |d| dump_cert(d, o.cert()));
}

enum Typed { So(Oid<Bytes>, Bytes), Mft(ManifestContent), Roa(RoaBuilder), Aspa(AspaBuilder) }
enum Obj { So(SignedObject), Mft(Manifest), Roa(Roa), Aspa(Aspa) }

impl Obj {
    fn cert(&self) -> &Cert { match self { Obj::So(o) => o.cert(), Obj::Mft(o) => o.cert(), Obj::Roa(o) => o.cert(), Obj::Aspa(o) => o.cert() } }
    fn der(&self) -> Bytes {
        match self { Obj::So(o) => o.encode_ref().to_captured(Mode::Der).into_bytes(), Obj::Mft(o) => o.to_captured().into_bytes(),
                     Obj::Roa(o) => o.to_captured().into_bytes(), Obj::Aspa(o) => o.to_captured().into_bytes() }
    }
    fn inner(&self) -> Bytes {
        match self {
            Obj::So(o) => o.content().to_bytes(),
            Obj::Mft(o) => o.content().encode_ref().to_captured(Mode::Der).into_bytes(),
            Obj::Roa(o) => o.content().encode_ref().to_captured(Mode::Der).into_bytes(),
            Obj::Aspa(o) => o.content().encode_ref().to_captured(Mode::Der).into_bytes(),
        }
    }
    fn dump(&self, d: &mut D) {
        match self {
            Obj::So(o) => dump_so(d, o),
            Obj::Mft(o) => { d.sub("m.", |d| dump_mftc(d, o.content())); d.sub("md.", |d| { let c: &ManifestContent = o; d.kv("len", || c.len().to_string()) }); d.sub("c.", |d| dump_cert(d, o.cert())); }
            Obj::Roa(o) => { d.sub("r.", |d| dump_roac(d, o.content())); d.sub("c.", |d| dump_cert(d, o.cert())); }
            Obj::Aspa(o) => { d.sub("a.", |d| dump_aspac(d, o.content())); d.sub("c.", |d| dump_cert(d, o.cert())); }
        }
    }
    fn decode(&self, b: Bytes) -> Result<Obj, ()> {
        match self {
            Obj::So(_) => SignedObject::decode(b, true).map(Obj::So).map_err(|_| ()),
            Obj::Mft(_) => Manifest::decode(b, true).map(Obj::Mft).map_err(|_| ()),
            Obj::Roa(_) => Roa::decode(b, true).map(Obj::Roa).map_err(|_| ()),
            Obj::Aspa(_) => Aspa::decode(b, true).map(Obj::Aspa).map_err(|_| ()),
        }
    }
    /// validation at the given time (through the generic signed object for ROAs and ASPAs, whose
    /// own `process` uses the wall clock)
    fn validate(&self, w: &World, der_bytes: &Bytes, now: Time) -> bool {
        match self {
            Obj::So(o) => o.clone().validate_at(&w.ta, true, now).is_ok(),
            Obj::Mft(o) => o.clone().validate_at(&w.ta, true, now).is_ok(),
            _ => match SignedObject::decode(der_bytes.clone(), true) { Ok(o) => o.validate_at(&w.ta, true, now).is_ok(), Err(_) => false },
        }
    }
    fn process(&self, w: &World) -> Option<bool> {
        match self {
            Obj::So(o) => Some(o.clone().process(&w.ta, true, |_| Ok(())).is_ok()),
            Obj::Roa(o) => Some(match o.clone().process(&w.ta, true, |_| Ok(())) {
                Ok((_, att)) => { let (mut a, mut b) = (D::new(), D::new()); dump_roac(&mut a, &att); dump_roac(&mut b, o.content()); a.s == b.s }
                Err(_) => false }),
            Obj::Aspa(o) => Some(match o.clone().process(&w.ta, true, |_| Ok(())) {
                Ok((_, att)) => { let (mut a, mut b) = (D::new(), D::new()); dump_aspac(&mut a, &att); dump_aspac(&mut b, o.content()); a.s == b.s }
                Err(_) => false }),
            Obj::Mft(_) => None,
        }
    }
}

fn finalize_typed<S: Signer<KeyId = KeyId>>(w: &World, signer: &S, b: SignedObjectBuilder, t: Typed) -> Result<Obj, ()> {
    let key = &w.pool.keys[0].id;
    match t {
        Typed::So(ct, content) => b.finalize(ct, content, signer, key).map(Obj::So).map_err(|_| ()),
        Typed::Mft(c) => c.into_manifest(b, signer, key).map(Obj::Mft).map_err(|_| ()),
        Typed::Roa(r) => r.finalize(b, signer, key).map(Obj::Roa).map_err(|_| ()),
        Typed::Aspa(a) => a.finalize(b, signer, key).map(Obj::Aspa).map_err(|_| ()),
    }
}

/// so   <common> ct=<hex of the OID content octets> content=<hex>
/// mft  <common> num= this= next= files=
/// roa  <common> asid= v4a= v6a= api=
/// aspa <common> cust= prov= pvia=<new|add>
fn op_sigobj(w: &World, ty: &str, toks: &[&str]) -> R<String> {
    let m = kvs(toks)?;
    let spec = p_sob(w, &m)?;
    let typed = match ty {
        "so" => Typed::So(Oid(Bytes::from(p_hex(want(&m, "ct")?)?)), Bytes::from(p_hex(want(&m, "content")?)?)),
        "mft" => {
            let files = p_files(want(&m, "files")?)?;
            let (num, this, next) = (p_serial(want(&m, "num")?)?, p_time(want(&m, "this")?)?, p_time(want(&m, "next")?)?);
            match stage("build", || build_mftc(num, this, next, &files)) { Ok(c) => Typed::Mft(c), Err(p) => return Ok(p) }
        }
        "roa" => {
            let (asid, v4, v6, api) = (p_num::<u32>(want(&m, "asid")?)?, p_roaaddrs(want(&m, "v4a")?, true)?,
                p_roaaddrs(want(&m, "v6a")?, false)?, p_num::<u8>(want(&m, "api")?)?);
            match stage("build", || build_roa(asid, &v4, &v6, api)) { Ok(c) => Typed::Roa(c), Err(p) => return Ok(p) }
        }
        "aspa" => {
            let (cust, provs) = (p_num::<u32>(want(&m, "cust")?)?, p_providers(want(&m, "prov")?)?);
            let via_add = match want(&m, "pvia")? { "new" => false, "add" => true, _ => return Err(Bad) };
            match stage("build", || build_aspa(cust, &provs, via_add)) { Ok(Ok(c)) => Typed::Aspa(c), Ok(Err(())) => return Err(Refused), Err(p) => return Ok(p) }
        }
        _ => return Err(Bad),
    };
    let mut db = D::new();
    dump_sob_builder(&mut db, &spec.b);
    let builder_dump = db.s.clone();
    let b = spec.b.clone();
    let built = stage("build", || {
        if spec.fresh_one_off { finalize_typed(w, &w.pool.signer, b, typed) } else { finalize_typed(w, &PoolSigner(w), b, typed) }
    });
    let built = match built { Err(p) => return Ok(p), Ok(Err(())) => return Err(Refused), Ok(Ok(o)) => o };
    let mut mk = Masker::new(w);
    let ee_key = built.cert().subject_public_key_info().clone();
    mk.add_key("ee", &ee_key);
    if spec.st_default {
        let t = match &built { Obj::So(o) => Some(o.signing_time()), _ => None };
        if let Some(t) = t { mk.add(format!("st={}", st(t)), "st=default"); mk.add(format!("st={}", t.timestamp()), "st=default-trunc"); }
    }
    let mut db = D::new();
    built.dump(&mut db);
    let der_bytes = match stage("encode", || built.der()) { Ok(b) => b, Err(p) => return Ok(early(&mk, &db, p)) };
    stash(&der_bytes);
    let dec = match stage("decode", || built.decode(der_bytes.clone())) {
        Err(p) => return Ok(early(&mk, &db, p)), Ok(Err(())) => return Ok(early(&mk, &db, "decode-err".into())), Ok(Ok(o)) => o };
    let mut dd = D::new();
    dec.dump(&mut dd);
    let valid = verdict(stage("validate", || dec.validate(w, &der_bytes, spec.now)));
    let mut extra = String::new();
    let vb = verdict(stage("validate", || built.validate(w, &der_bytes, spec.now)));
    if vb != valid { extra.push_str(&format!(" vbuilt={}", vb)); }
    if spec.wide {
        match stage("validate", || dec.process(w)) {
            Ok(Some(v)) => extra.push_str(if v { " proc=ok" } else { " proc=err" }),
            Ok(None) => {}
            Err(_) => extra.push_str(" proc=panic"),
        }
    }
    let reenc = stage("reencode", || {
        let outer = dec.der() == der_bytes;
        let content = match SignedObject::decode(der_bytes.clone(), true) { Ok(o) => o.content().to_bytes(), Err(_) => Bytes::new() };
        let inner = dec.inner() == content && built.inner() == content;
        (outer, inner)
    }).ok();
    // the builder's own accessors are part of the dump (they are inputs echoed back, the same on both sides)
    dd.s = format!("{};{}", dd.s, builder_dump);
    db.s = format!("{};{}", db.s, builder_dump);
    Ok(finish(&mk, Res { der_len: der_bytes.len(), reenc, built: Some(db), dec: dd, valid, extra }))
}

//------------ CSR ------------------------------------------------------------------------------------------

fn dump_csr(d: &mut D, c: &RpkiCaCsr) {
    d.kv("sub", || name_hex(c.subject()));
    d.kv("key", || hex(&c.public_key().to_info_bytes()));
    d.kv("bc", || b01(c.basic_ca()).into());
    d.kv("ku", || match c.key_usage() { KeyUsage::Ca => "ca", KeyUsage::Ee => "ee" }.into());
    d.kv("eku", || match c.extended_key_usage() { None => "N", Some(_) => "Y" }.into());
    d.kv("rep", || su(c.ca_repository()));
    d.kv("mft", || su(c.rpki_manifest()));
    d.kv("ntf", || sus(c.rpki_notify()));
    d.kv("attrs", || { let a = c.attributes(); format!("{:?}", a).len().min(1).to_string() });
}

/// csr key=<0..3> rep= mft= ntf=<uri|N>
fn op_csr(w: &World, toks: &[&str]) -> R<String> {
    let m = kvs(toks)?;
    let k = p_kidx(want(&m, "key")?)?;
    let (rep, mft, ntf) = (p_rsync(want(&m, "rep")?)?, p_rsync(want(&m, "mft")?)?, p_ohttps(want(&m, "ntf")?)?);
    let built = stage("build", || Csr::construct_rpki_ca(&w.pool.signer, &w.pool.keys[k].id, &rep, &mft, ntf.as_ref()));
    let built = match built { Err(p) => return Ok(p), Ok(Err(_)) => return Err(Refused), Ok(Ok(c)) => c };
    let mk = Masker::new(w);
    let der_bytes = built.into_bytes();
    stash(&der_bytes);
    let dec = match stage("decode", || RpkiCaCsr::decode(der_bytes.clone())) {
        Err(p) => return Ok(p), Ok(Err(_)) => return Ok("decode-err".into()), Ok(Ok(c)) => c };
    let mut dd = D::new();
    dump_csr(&mut dd, &dec);
    let valid = verdict(stage("validate", || dec.verify_signature().is_ok()));
    let reenc = stage("reencode", || { let s = dec.to_captured().as_slice() == der_bytes.as_ref(); (s, s) }).ok();
    Ok(finish(&mk, Res { der_len: der_bytes.len(), reenc, built: None, dec: dd, valid, extra: String::new() }))
}

//------------ identity certificates and protocol messages --------------------------------------------------------

fn dump_idcert(d: &mut D, c: &IdCert) {
    d.kv("sn", || sh(c.serial_number()));
    d.kv("sub", || name_hex(c.subject()));
    d.kv("nb", || st(c.validity().not_before()));
    d.kv("na", || st(c.validity().not_after()));
    d.kv("key", || hex(&c.public_key().to_info_bytes()));
    d.kv("key2", || b01(c.public_key() == c.subject_public_key_info()).into());
    d.kv("ski", || hex(c.subject_key_identifier().as_slice()));
    d.kv("ski2", || hex(c.subject_key_id().as_slice()));
    d.kv("aki", || skid(c.authority_key_id()));
}

/// idcert ta key=<i> nb= na= now=        idcert ee key=<i> ik=<i> nb= na= now=
fn op_idcert(w: &World, toks: &[&str]) -> R<String> {
    let (kind, rest) = toks.split_first().ok_or(Bad)?;
    let m = kvs(rest)?;
    let k = p_kidx(want(&m, "key")?)?;
    let validity = Validity::new(p_time(want(&m, "nb")?)?, p_time(want(&m, "na")?)?);
    let now = p_time(want(&m, "now")?)?;
    let ik = match *kind { "ta" => k, "ee" => p_kidx(want(&m, "ik")?)?, _ => return Err(Bad) };
    let built = stage("build", || if *kind == "ta" { IdCert::new_ta(validity, &w.pool.keys[k].id, &w.pool.signer) }
        else { IdCert::new_ee(&w.keys[k], validity, &w.pool.keys[ik].id, &w.pool.signer) });
    let built = match built { Err(p) => return Ok(p), Ok(Err(_)) => return Err(Refused), Ok(Ok(c)) => c };
    let mut mk = Masker::new(w);
    let mut sn_len = 20;
    if *kind == "ee" {
        mk.add(format!("sn={}", sh(built.serial_number())), "sn=random");
        sn_len = sh(built.serial_number()).len() / 2 + (built.serial_number().into_array()[20 - sh(built.serial_number()).len() / 2] >> 7) as usize;
    }
    let mut db = D::new();
    dump_idcert(&mut db, &built);
    let der_bytes = match stage("encode", || built.to_captured().into_bytes()) { Ok(b) => b, Err(p) => return Ok(early(&mk, &db, p)) };
    stash(&der_bytes);
    let dec = match stage("decode", || IdCert::decode(der_bytes.clone())) {
        Err(p) => return Ok(early(&mk, &db, p)), Ok(Err(_)) => return Ok(early(&mk, &db, "decode-err".into())), Ok(Ok(c)) => c };
    let mut dd = D::new();
    dump_idcert(&mut dd, &dec);
    let val = |c: &IdCert| if *kind == "ta" { c.validate_ta_at(now).is_ok() } else { c.validate_ee_at(&w.keys[ik], now).is_ok() };
    let valid = verdict(stage("validate", || val(&dec)));
    let vb = verdict(stage("validate", || val(&built)));
    let extra = if vb != valid { format!(" vbuilt={}", vb) } else { String::new() };
    let reenc = stage("reencode", || {
        let outer = dec.to_captured().as_slice() == der_bytes.as_ref() && dec.to_bytes() == der_bytes && dec == built;
        let inner = Some(TbsIdCert::encode_ref(&dec).to_captured(Mode::Der).as_slice()) == inner_tbs(&der_bytes);
        (outer, inner)
    }).ok();
    // a random serial may be shorter than 20 octets: report the length as if it had 20
    let der_len = der_bytes.len() + 20 - sn_len;
    Ok(finish(&mk, Res { der_len, reenc, built: Some(db), dec: dd, valid, extra }))
}

fn dump_sigmsg(d: &mut D, s: &SignedMessage) {
    d.kv("ct", || hex(s.content_type().as_ref()));
    d.kv("content", || hex(&s.content().to_bytes()));
}

fn create_msg<S: Signer<KeyId = KeyId>>(w: &World, signer: &S, data: Bytes, v: Validity, ik: usize) -> Result<SignedMessage, ()> {
    SignedMessage::create(data, v, &w.pool.keys[ik].id, signer).map_err(|_| ())
}

/// sigmsg data=<hex> nb= na= ik=<i> oo=<p|f> now=
fn op_sigmsg(w: &World, toks: &[&str]) -> R<String> {
    let m = kvs(toks)?;
    let data = Bytes::from(p_hex(want(&m, "data")?)?);
    let validity = Validity::new(p_time(want(&m, "nb")?)?, p_time(want(&m, "na")?)?);
    let ik = p_kidx(want(&m, "ik")?)?;
    let fresh = match want(&m, "oo")? { "p" => false, "f" => true, _ => return Err(Bad) };
    let now = p_time(want(&m, "now")?)?;
    let built = stage("build", || if fresh { create_msg(w, &w.pool.signer, data.clone(), validity, ik) }
        else { create_msg(w, &PoolSigner(w), data.clone(), validity, ik) });
    let built = match built { Err(p) => return Ok(p), Ok(Err(())) => return Err(Refused), Ok(Ok(c)) => c };
    let mk = Masker::new(w);
    let mut db = D::new();
    dump_sigmsg(&mut db, &built);
    let der_bytes = match stage("encode", || built.to_captured().into_bytes()) { Ok(b) => b, Err(p) => return Ok(early(&mk, &db, p)) };
    stash(&der_bytes);
    let dec = match stage("decode", || SignedMessage::decode(der_bytes.clone(), true)) {
        Err(p) => return Ok(early(&mk, &db, p)), Ok(Err(_)) => return Ok(early(&mk, &db, "decode-err".into())), Ok(Ok(c)) => c };
    let mut dd = D::new();
    dump_sigmsg(&mut dd, &dec);
    let valid = verdict(stage("validate", || dec.validate_at(&w.keys[ik], now).is_ok()));
    let vb = verdict(stage("validate", || built.validate_at(&w.keys[ik], now).is_ok()));
    let extra = if vb != valid { format!(" vbuilt={}", vb) } else { String::new() };
    let reenc = stage("reencode", || { let s = dec.to_captured().as_slice() == der_bytes.as_ref(); (s, s) }).ok();
    // lengths of the random EE serial and of the millisecond CRL number are not inputs: report the content length
    Ok(finish(&mk, Res { der_len: data.len(), reenc, built: Some(db), dec: dd, valid, extra }))
}

//------------ resource tagged attestations ---------------------------------------------------------------------------

fn dump_rta(d: &mut D, r: &rta::ResourceTaggedAttestation) {
    d.kv("keys", || list(r.subject_keys().iter().map(|k| hex(k.as_slice())).collect()));
    d.kv("v4", || sipblocks(r.v4_resources(), true));
    d.kv("v6", || sipblocks(r.v6_resources(), false));
    d.kv("as", || sasblocks(r.as_resources()));
    d.kv("dalg", || b01(r.digest_algorithm().is_sha256()).into());
    d.kv("md", || hex(r.message_digest().as_ref()));
}

/// rta keys=<k<i>|hex,…|-> v4=<items|-> v6= as= md=<hex> sigs=<key,…|-> st=<time>
fn op_rta(w: &World, toks: &[&str]) -> R<String> {
    let m = kvs(toks)?;
    let mut keys = Vec::new();
    let ks = want(&m, "keys")?;
    if ks != "-" { for k in ks.split(',') { keys.push(p_kid(w, k)?.ok_or(Bad)?); } }
    let blocks = |k: &str, v4: bool| -> R<Vec<IpBlock>> {
        match p_ipspec(&format!("S:{}", want(&m, k)?.trim_start_matches('-')), v4)? { IpSpec::Blocks(_, v) => Ok(v), _ => Err(Bad) } };
    let (v4, v6) = (blocks("v4", true)?, blocks("v6", false)?);
    let asb = match p_asspec(&format!("S:{}", want(&m, "as")?.trim_start_matches('-')))? { AsSpec::Blocks(_, v) => v, _ => return Err(Bad) };
    let md = p_hex(want(&m, "md")?)?;
    let mut sigs = Vec::new();
    let ss = want(&m, "sigs")?;
    if ss != "-" { for k in ss.split(',') { sigs.push(p_kidx(k)?); } }
    let stime = p_time(want(&m, "st")?)?;
    let built = stage("build", || {
        let mut b = rta::AttestationBuilder::new(DigestAlgorithm::sha256(), MessageDigest::from(OctetString::new(Bytes::from(md.clone()))));
        for k in &keys { b.push_key(*k); }
        for x in &v4 { b.push_v4(*x); }
        for x in &v6 { b.push_v6(*x); }
        for x in &asb { b.push_as(*x); }
        let mut rb = b.into_rta_builder();
        for k in &sigs { rb.sign(&w.pool.signer, &w.pool.keys[*k].id, stime).map_err(|_| ())?; }
        Ok::<_, ()>(rb.finalize())
    });
    let built = match built { Err(p) => return Ok(p), Ok(Err(())) => return Err(Refused), Ok(Ok(c)) => c };
    let mk = Masker::new(w);
    let mut db = D::new();
    dump_rta(&mut db, built.content());
    let (der_bytes, content) = match stage("encode", || (built.to_captured().into_bytes(), built.content().encode_ref().to_captured(Mode::Der).into_bytes())) {
        Ok(b) => b, Err(p) => return Ok(early(&mk, &db, p)) };
    stash(&der_bytes);
    let dec = match stage("decode", || rta::Rta::decode(der_bytes.clone(), true)) {
        Err(p) => return Ok(early(&mk, &db, p)), Ok(Err(_)) => return Ok(early(&mk, &db, "decode-err".into())), Ok(Ok(c)) => c };
    let mut dd = D::new();
    dump_rta(&mut dd, dec.content());
    let reenc = stage("reencode", || {
        let outer = dec.to_captured().as_slice() == der_bytes.as_ref();
        let inner = dec.content().encode_ref().to_captured(Mode::Der).as_slice() == content.as_ref();
        (outer, inner)
    }).ok();
    Ok(finish(&mk, Res { der_len: content.len(), reenc, built: Some(db), dec: dd, valid: "na".into(), extra: String::new() }))
}

//------------ generation ------------------------------------------------------------------------------------------------

const YEAR1: i64 = -62_135_596_800;
const Y1950: i64 = -631_152_000;
const Y2000: i64 = 946_684_800;
const Y2050: i64 = 2_524_608_000;
const Y2100: i64 = 4_102_444_800;
const Y9999_END: i64 = 253_402_300_799;

fn between(rng: &mut Rng, lo: i64, hi: i64) -> i64 { (lo as i128 + (rng.next() as i128 % (hi as i128 - lo as i128 + 1))) as i64 }

fn shuffle<T>(rng: &mut Rng, v: &mut [T]) {
    for i in (1..v.len()).rev() { let j = rng.below(i as u64 + 1) as usize; v.swap(i, j); }
}

fn hx(s: &str) -> String { hex(s.as_bytes()) }

fn g_serial(rng: &mut Rng) -> String {
    match rng.below(16) {
        0 => "00".into(), 1 => "01".into(), 2 => "7f".into(), 3 => "80".into(), 4 => "ff".into(), 5 => "0100".into(),
        6 => "8000000000000000".into(),
        7 => format!("7f{}", "ff".repeat(19)),
        8 => "010000000000000000".into(),
        9 => format!("01{}", "00".repeat(19)),
        10 => { let n = rng.range(1, 20) as usize; let mut b = rng.bytes(n); b[0] |= 1; if n == 20 { b[0] &= 0x7f; } hex(&b) }
        11 => { let mut b = rng.bytes(20); b[0] &= 0x7f; hex(&b) }
        12 => match rng.below(12) { 0 => format!("80{}", "00".repeat(19)), 1 => "00".repeat(21), 2 => format!("00{}", "ff".repeat(20)), 3 => "0001".into(), _ => hex(&rng.bytes(2)) },
        13 => format!("{:02x}", rng.below(256)),
        _ => { let n = rng.range(1, 8) as usize; hex(&rng.bytes(n)) }
    }
}

fn g_ts(rng: &mut Rng) -> i64 {
    match rng.below(14) {
        0 => Y1950, 1 => Y1950 - 1, 2 => Y2050 - 1, 3 => Y2050, 4 => Y9999_END, 5 => 0, 6 => YEAR1, 7 => 951_782_400,
        8 => T0 + between(rng, -100_000, 100_000),
        9 | 10 => between(rng, Y1950, Y2050 - 1),
        11 => between(rng, Y2050, Y9999_END),
        12 => between(rng, YEAR1, Y1950),
        _ => between(rng, Y2000, Y2100),
    }
}

fn with_nanos(rng: &mut Rng, ts: i64, p: u64) -> String {
    if rng.chance(1, p) {
        if ts.rem_euclid(60) == 59 && rng.chance(1, 3) { format!("{}.{}", ts, 1_000_000_000 + rng.below(1_000_000_000)) }
        else { format!("{}.{}", ts, rng.range(1, 999_999_999)) }
    } else { ts.to_string() }
}

fn g_time(rng: &mut Rng) -> String { let t = g_ts(rng); with_nanos(rng, t, 15) }

/// (not-before, not-after, now)
fn g_window(rng: &mut Rng, wide: bool) -> (String, String, String) {
    let (mut a, mut b) = if wide { (between(rng, Y1950, Y2000), if rng.bool() { Y9999_END } else { between(rng, Y2100, Y9999_END) }) } else { (g_ts(rng), g_ts(rng)) };
    if a > b { std::mem::swap(&mut a, &mut b); }
    match rng.below(24) { 0 | 1 => b = a, 2 => std::mem::swap(&mut a, &mut b), _ => {} }
    let now = if wide { T0 } else {
        match rng.below(20) { 0..=3 => a, 4..=7 => b, 8 => a - 1, 9 => b + 1, _ => (a as i128 + (b as i128 - a as i128) / 2) as i64 } };
    (with_nanos(rng, a, 20), with_nanos(rng, b, 20), now.to_string())
}

fn g_name(rng: &mut Rng, defaults: &[&str]) -> String {
    const CN: &[u64] = &[2, 5, 4, 3];
    const SN: &[u64] = &[2, 5, 4, 5];
    let attr = |oid: &[u64], v: Vec<u8>| der::seq(&[der::oid(oid), v]);
    let rdn = |attrs: &[Vec<u8>]| der::set_raw(attrs);
    match rng.below(30) {
        0 => hex(&der::seq(&[rdn(&[attr(CN, der::printable(b"C05 test CA"))])])),
        1 => hex(&der::seq(&[rdn(&[attr(CN, der::printable(b"router-1"))]), rdn(&[attr(SN, der::printable(b"0123ABCD"))])])),
        2 => hex(&der::seq(&[rdn(&[attr(CN, der::utf8("caf\u{e9}".as_bytes()))])])),
        3 => hex(&der::seq(&[rdn(&[attr(CN, der::printable(b"a")), attr(SN, der::printable(b"7"))])])),
        4 => hex(&der::seq(&[rdn(&[attr(CN, der::printable(&vec![b'x'; rng.range(100, 300) as usize]))])])),
        5 => hex(&der::seq(&[rdn(&[attr(&[2, 5, 4, 10], der::printable(b"Org only"))])])),
        6 => hex(&der::seq(&[rdn(&[attr(CN, der::printable(b""))])])),
        _ => rng.pick(defaults).to_string(),
    }
}

const RSYNC_DIRS: &[&str] = &["rsync://h/m/", "rsync://h/m/1/", "rsync://host.example/mod/dir/", "rsync://H.EXAMPLE:873/Mod/a_b/c-d/",
    "rsync://192.0.2.1/m/x/", "rsync://h/m/a%20b/~u/", "rsync://h/m/1"];
const RSYNC_FILES: &[&str] = &["rsync://h/m/0.cer", "rsync://h/m/0/c.crl", "rsync://h/m/1/m.mft", "rsync://host.example/mod/dir/x.roa",
    "rsync://H.EXAMPLE:873/Mod/a_b/c-d/f.asa", "rsync://h/m/a%20b/~u/o.obj", "RSYNC://h/m/UPPER.CER", "rsync://h/m/no-extension"];
const HTTPS: &[&str] = &["https://h/n.xml", "https://rrdp.example.net:8443/a/b/notification.xml", "HTTPS://H/", "https://h/a%20b/x.xml"];

fn g_rsync(rng: &mut Rng, dir: bool) -> String {
    match rng.below(60) {
        0 | 3 | 4 => hx(&format!("rsync://h/m/{}{}", "d/".repeat(rng.range(1, 120) as usize), if dir { "" } else { "f.cer" })),
        1 => hx(*rng.pick(&["http://h/m/x", "rsync://h/", "rsync://h/m/../x", "rsync://h/m/a b", "rsync://h/m//x", "rsync://h"])),
        2 => hx(*rng.pick(if dir { RSYNC_FILES } else { RSYNC_DIRS })),
        _ => hx(*rng.pick(if dir { RSYNC_DIRS } else { RSYNC_FILES })),
    }
}
fn g_https(rng: &mut Rng) -> String {
    match rng.below(40) { 0 => hx(*rng.pick(&["http://h/n.xml", "rsync://h/m/n.xml", "https://"])), _ => hx(*rng.pick(HTTPS)) }
}

fn wmax(width: u32) -> u128 { if width == 128 { u128::MAX } else { (1u128 << width) - 1 } }

/// ranges of every shape, then related ones (adjacent, overlapping, nested, duplicate)
fn g_ranges(rng: &mut Rng, width: u32, n: usize) -> Vec<(u128, u128)> {
    let max = wmax(width);
    let mut v: Vec<(u128, u128)> = Vec::new();
    for _ in 0..n {
        let r = match rng.below(13) {
            0 | 1 => { let len = rng.range(0, width as u64) as u32;
                let lo = if len == 0 { 0 } else { (rng.u128() & max) >> (width - len) << (width - len) };
                (lo, lo | if len == width { 0 } else { max >> len }) }
            2 => { let a = rng.u128() & max; (a, a) }
            3 => { let (a, b) = (rng.u128() & max, rng.u128() & max); (a.min(b), a.max(b)) }
            4 => (0, max),
            5 => (max, max),
            6 => (max - rng.below(1000) as u128, max),
            7 => (0, rng.below(1000) as u128),
            8 if !v.is_empty() => { let p = *rng.pick(&v); if p.1 < max { (p.1 + 1, (p.1 as u128).saturating_add(1 + rng.below(500) as u128).min(max)) } else { p } }
            9 if !v.is_empty() => { let p = *rng.pick(&v); if p.0 > 0 { (p.0.saturating_sub(1 + rng.below(500) as u128), p.0 - 1) } else { p } }
            10 if !v.is_empty() => { let p = *rng.pick(&v); let a = p.0 + rng.below(((p.1 - p.0).min(1000) + 1) as u64) as u128; (a, a.saturating_add(rng.below(2000) as u128).min(max)) }
            11 if !v.is_empty() => *rng.pick(&v),
            _ => { let a = rng.below(70000) as u128; (a, (a + rng.below(300) as u128).min(max)) }
        };
        v.push(r);
    }
    v
}

fn g_ipitems(rng: &mut Rng, v4: bool, ranges: &[(u128, u128)]) -> Vec<String> {
    let width = if v4 { 32 } else { 128 };
    ranges.iter().map(|(lo, hi)| {
        match pki::is_prefix(*lo, *hi, width) {
            Some(len) if rng.chance(2, 3) => {
                // Prefix::new clears host bits; sometimes pass some
                let a = if rng.chance(1, 10) && len < width { lo | (rng.u128() & (hi - lo)) } else { *lo };
                format!("p{}/{}", a, len)
            }
            _ => format!("{}{}-{}", if rng.bool() { "r" } else { "t" }, lo, hi),
        }
    }).collect()
}

fn g_asitems(rng: &mut Rng, ranges: &[(u128, u128)]) -> Vec<String> {
    ranges.iter().map(|(lo, hi)| if lo == hi && rng.chance(3, 4) { format!("i{}", lo) } else { format!("r{}-{}", lo, hi) }).collect()
}

fn g_count(rng: &mut Rng, big: usize) -> usize {
    match rng.below(12) { 0 => 0, 1 => 1, 2 => rng.range(10, big as u64) as usize, _ => rng.range(1, 6) as usize }
}

/// returns the spec and, when asked, a second spec with the same blocks in another order / through another api
fn g_ipspec(rng: &mut Rng, v4: bool, inherit: bool) -> (String, String) {
    match rng.below(10) {
        0 | 1 => ("M".into(), "M".into()),
        2 if inherit => { let s = if rng.bool() { "I" } else { "J" }; (s.into(), "I".into()) }
        _ => {
            let n = g_count(rng, 40);
            let ranges = g_ranges(rng, if v4 { 32 } else { 128 }, n);
            let mut items = g_ipitems(rng, v4, &ranges);
            if rng.bool() { shuffle(rng, &mut items); }
            let a = format!("{}:{}", rng.pick(&["B", "F", "S"]), items.join(","));
            shuffle(rng, &mut items);
            (a, format!("{}:{}", rng.pick(&["B", "F", "S"]), items.join(",")))
        }
    }
}
fn g_asspec(rng: &mut Rng, inherit: bool) -> (String, String) {
    match rng.below(10) {
        0 | 1 => ("M".into(), "M".into()),
        2 if inherit => { let s = if rng.bool() { "I" } else { "J" }; (s.into(), "I".into()) }
        _ => {
            let n = g_count(rng, 40);
            let ranges = g_ranges(rng, 32, n);
            let mut items = g_asitems(rng, &ranges);
            if rng.bool() { shuffle(rng, &mut items); }
            let a = format!("{}:{}", rng.pick(&["B", "F", "S"]), items.join(","));
            shuffle(rng, &mut items);
            (a, format!("{}:{}", rng.pick(&["B", "F", "S"]), items.join(",")))
        }
    }
}

fn gen_cert(ctx: &mut Ctx, rng: &mut Rng) {
    let kind = *rng.pick(&["ta", "ca", "ca", "ee", "ee", "dee", "rt", "mix"]);
    let mix = kind == "mix";
    let pick_opt = |rng: &mut Rng, yes: bool, v: String| -> Option<String> {
        if mix { if rng.bool() { Some(v) } else if rng.bool() { Some("N".into()) } else { None } }
        else if yes { Some(v) } else if rng.chance(1, 3) { Some("N".into()) } else { None }
    };
    let key = match kind { "ta" => rng.below(3).to_string(), "rt" => "ec".into(), "mix" => rng.pick(&["0", "1", "2", "3", "ec"]).to_string(), _ => rng.range(1, 2).to_string() };
    let ik = match kind { "ta" => key.clone(), "mix" => rng.below(4).to_string(), _ => "0".into() };
    let dflt_iss = format!("D{}", ik);
    let iss = g_name(rng, &[&dflt_iss]);
    let dflt_sub = format!("D{}", key);
    let sub = g_name(rng, &["N", "N", &dflt_sub]);
    let ca = matches!(kind, "ta" | "ca") || (mix && rng.bool());
    let ku = if ca { "ca" } else { "ee" };
    let oc = if rng.chance(1, 3) { "trim" } else { "refuse" };
    let (nb, na, now) = g_window(rng, false);
    let mut set: Vec<(String, String)> = Vec::new();
    let mut push = |k: &str, v: Option<String>| if let Some(v) = v { set.push((k.to_string(), v)); };
    push("bc", if mix { Some(rng.pick(&["N", "T", "F"]).to_string()) } else if ca { Some("T".into()) } else if rng.chance(1, 3) { Some("N".into()) } else { None });
    let aki = match kind { "ta" => if rng.bool() { Some(format!("k{}", key)) } else { None },
        "mix" => Some(match rng.below(4) { 0 => "N".into(), 1 => hex(&rng.bytes(20)), _ => format!("k{}", rng.below(4)) }),
        _ => Some("k0".into()) };
    push("aki", aki);
    push("eku", if kind == "rt" || (mix && rng.chance(1, 4)) { Some("R".into()) } else if rng.chance(1, 4) { Some("N".into()) } else { None });
    let issued = !matches!(kind, "ta");
    let v = g_rsync(rng, false); push("crl", pick_opt(rng, issued, v));
    let v = g_rsync(rng, false); push("aia", pick_opt(rng, issued, v));
    let v = g_rsync(rng, true); push("rep", pick_opt(rng, ca, v));
    let v = g_rsync(rng, false); push("mft", pick_opt(rng, ca, v));
    let v = g_rsync(rng, false); let yes = kind == "ee" || (kind == "dee" && rng.bool()); push("so", pick_opt(rng, yes, v));
    let v = g_https(rng); let yes = ca && rng.bool(); push("ntf", pick_opt(rng, yes, v));
    let inherit = kind != "ta";
    let (v4, v4b) = if kind == "rt" { ("M".to_string(), "M".to_string()) } else { g_ipspec(rng, true, inherit) };
    let (v6, v6b) = if kind == "rt" { ("M".to_string(), "M".to_string()) } else { g_ipspec(rng, false, inherit) };
    let (mut asn, mut asnb) = g_asspec(rng, inherit && kind != "rt");
    if kind == "rt" && asn == "M" { asn = "S:i64496,r65000-65010".into(); asnb = "B:r65000-65010,i64496".into(); }
    if v4 == "M" && v6 == "M" && asn == "M" && !rng.chance(1, 6) { asn = "F:i0,i4294967295".into(); asnb = "S:i4294967295,i0".into(); }
    let omit = |rng: &mut Rng, v: &str| v == "M" && rng.bool();
    let mut res: Vec<(String, String, String)> = Vec::new();
    if !omit(rng, &v4) { res.push(("v4".into(), v4, v4b)); }
    if !omit(rng, &v6) { res.push(("v6".into(), v6, v6b)); }
    if !omit(rng, &asn) { res.push(("as".into(), asn, asnb)); }
    let vkind = if mix { *rng.pick(&["ta", "ca", "ee", "dee", "rt", "none"]) } else { kind };
    let mut sn = g_serial(rng);
    // one random mutation of an otherwise conforming certificate
    if !mix && rng.chance(1, 6) && !set.is_empty() {
        let i = rng.below(set.len() as u64) as usize;
        match set[i].0.as_str() {
            "bc" => set[i].1 = rng.pick(&["N", "T", "F"]).to_string(),
            "aki" => set[i].1 = rng.pick(&["N", "k1", "k0"]).to_string(),
            "eku" => set[i].1 = rng.pick(&["N", "R"]).to_string(),
            _ => { if rng.bool() { set.remove(i); } else { sn = g_serial(rng); } }
        }
    }
    let via = if rng.chance(1, 3) { "set" } else { "new" };
    let head = format!("cert via={} sn={} nb={} na={} iss={} sub={} key={} ik={} ku={} oc={} kind={} now={}", via, sn, nb, na, iss, sub, key, ik, ku, oc, vkind, now);
    let mut toks: Vec<String> = set.iter().map(|(k, v)| format!("{}={}", k, v)).collect();
    toks.extend(res.iter().map(|(k, v, _)| format!("{}={}", k, v)));
    if rng.bool() { shuffle(rng, &mut toks); }
    emit(ctx, &format!("{} {}", head, toks.join(" ")).trim_end().to_string());
    if rng.chance(1, 4) {
        // the same inputs: other insertion order of the blocks, other api, other setter order, other constructor path
        let mut toks: Vec<String> = set.iter().map(|(k, v)| format!("{}={}", k, v)).collect();
        toks.extend(res.iter().map(|(k, _, v)| format!("{}={}", k, v)));
        shuffle(rng, &mut toks);
        let head = head.replacen(&format!("via={}", via), if via == "set" { "via=new" } else { "via=set" }, 1);
        emit(ctx, &format!("{} {}", head, toks.join(" ")).trim_end().to_string());
    }
}

fn gen_crl(ctx: &mut Ctx, rng: &mut Rng, big: usize) {
    let ik = rng.below(4);
    let dflt = format!("D{}", ik);
    let iss = g_name(rng, &[&dflt]);
    let aki = if rng.chance(1, 6) { hex(&rng.bytes(20)) } else { format!("k{}", if rng.chance(1, 8) { rng.below(4) } else { ik }) };
    let n = match rng.below(10) { 0 => 0, 1 => rng.range(100, big as u64) as usize, 2 | 3 => rng.range(6, 40) as usize, _ => rng.range(1, 5) as usize };
    let mut ents: Vec<(String, String)> = Vec::new();
    for _ in 0..n {
        if !ents.is_empty() && rng.chance(1, 8) { let e = rng.pick(&ents).clone(); ents.push(if rng.bool() { e } else { (e.0, g_time(rng)) }); continue }
        let mut s = g_serial(rng);
        if n > 20 || rng.chance(9, 10) { while unhex(&s).is_none_or(|b| Serial::from_slice(&b).is_err()) { s = g_serial(rng); } }
        ents.push((s, g_time(rng)));
    }
    if rng.chance(1, 3) { ents.sort_by_key(|e| { let mut b = unhex(&e.0).unwrap(); while b.len() < 24 { b.insert(0, 0); } b }); }
    let e = if ents.is_empty() { "-".to_string() } else { ents.iter().map(|(s, t)| format!("{}@{}", s, t)).collect::<Vec<_>>().join(",") };
    let via = if rng.chance(1, 3) { "set" } else { "new" };
    let (this, next) = (g_time(rng), g_time(rng));
    let num = g_serial(rng);
    emit(ctx, &format!("crl via={} iss={} this={} next={} aki={} num={} ik={} ents={}", via, iss, this, next, aki, num, ik, e));
    if !ents.is_empty() && rng.chance(1, 4) {
        shuffle(rng, &mut ents);
        let e = ents.iter().map(|(s, t)| format!("{}@{}", s, t)).collect::<Vec<_>>().join(",");
        emit(ctx, &format!("crl via={} iss={} this={} next={} aki={} num={} ik={} ents={}", if via == "set" { "new" } else { "set" }, iss, this, next, aki, num, ik, e));
    }
}

fn g_filename(rng: &mut Rng, hostile: bool, odd_ext: bool) -> Vec<u8> {
    const STEM: &[u8] = b"abcxyzABCXYZ0189-_";
    if hostile && rng.chance(1, 2) {
        return rng.pick(&[&b"a/b.roa"[..], b".", b"..", b"a.ro", b"a.roaa", b"a b.cer", b"", b"a.c3r", b".cer", b"a.b.cer", b"\xc3\xa9.cer", b"x.CER"]).to_vec()
    }
    let n = match rng.below(10) { 0 => rng.range(40, 200), _ => rng.range(1, 14) } as usize;
    let mut v: Vec<u8> = (0..n).map(|_| *rng.pick(STEM)).collect();
    v.push(b'.');
    // unregistered extensions are accepted by the library ("three letters") but not by RFC 9286
    if odd_ext && rng.bool() { v.extend_from_slice(*rng.pick(&[&b"xyz"[..], b"ZZZ", b"Cer"])); }
    else { v.extend_from_slice(*rng.pick(&[&b"cer"[..], b"roa", b"crl", b"mft", b"asa", b"gbr", b"tak", b"sig"])); }
    v
}

/// (number, this, next, files)
fn g_mft(rng: &mut Rng, big: usize) -> (String, String, String, String) {
    let (mut a, mut b) = (g_ts(rng), g_ts(rng));
    if a > b && rng.chance(9, 10) { std::mem::swap(&mut a, &mut b); }
    if rng.chance(1, 10) { b = a; }
    let hostile = rng.chance(1, 25);
    let odd_ext = rng.chance(1, 10);
    let odd_hash = rng.chance(1, 10);
    let n = g_count(rng, big);
    let mut files: Vec<(Vec<u8>, Vec<u8>)> = Vec::new();
    for _ in 0..n {
        if !files.is_empty() && rng.chance(1, 15) { let f = rng.pick(&files).clone(); files.push(f); continue }
        let hl = if odd_hash && rng.bool() { *rng.pick(&[0usize, 1, 20, 31, 33, 64]) } else { 32 };
        files.push((g_filename(rng, hostile, odd_ext), rng.bytes(hl)));
    }
    if rng.chance(1, 3) { files.sort(); }
    let f = if files.is_empty() { "-".to_string() } else { files.iter().map(|(n, h)| format!("{}:{}", hex(n), hex(h))).collect::<Vec<_>>().join(";") };
    let mut num = g_serial(rng);
    while unhex(&num).is_none_or(|b| Serial::from_slice(&b).is_err()) && rng.chance(9, 10) { num = g_serial(rng); }
    (num, with_nanos(rng, a, 20), with_nanos(rng, b, 20), f)
}

fn g_roaaddrs(rng: &mut Rng, v4: bool, n: usize, strict: bool) -> String {
    let width: u32 = if v4 { 32 } else { 128 };
    let max = wmax(width);
    let mut v: Vec<String> = Vec::new();
    let mut raw: Vec<(u128, u32)> = Vec::new();
    for _ in 0..n {
        if !v.is_empty() && rng.chance(1, 12) { let x = rng.pick(&v).clone(); v.push(x); continue }
        // a prefix related to one already listed (round 15, C05-21): the same network address with a shorter
        // (covering) or a longer (more specific) length, after or before the one it is related to
        let related = if !raw.is_empty() && rng.chance(1, 5) { Some(*rng.pick(&raw)) } else { None };
        let len = match related {
            Some((_, l)) => match rng.below(3) { 0 if l > 0 => rng.range(0, l as u64 - 1) as u32, 1 if l < width => rng.range(l as u64 + 1, width as u64) as u32, _ => l },
            None => match rng.below(8) { 0 => 0, 1 => width, 2 => *rng.pick(&[8u32, 16, 24, 32]), _ => rng.range(0, width as u64) as u32 },
        };
        let mut bits = match related { Some((b, _)) => b, None => match rng.below(6) { 0 => 0, 1 => max, _ => rng.u128() & max } };
        if len == 0 { bits = if rng.chance(1, 10) { bits } else { 0 }; }
        else if !rng.chance(1, 12) { bits = bits >> (width - len) << (width - len); }
        raw.push((bits, len));
        let ml = match rng.below(6) {
            0 | 1 => String::new(),
            2 => format!("-{}", len),
            3 => format!("-{}", width),
            4 if !strict && rng.chance(1, 3) => format!("-{}", if rng.bool() { len.saturating_sub(1) } else { width + 1 + rng.below(100) as u32 }),
            _ => format!("-{}", rng.range(len as u64, width as u64)),
        };
        v.push(format!("{}/{}{}", bits, if !strict && rng.chance(1, 60) { len + width } else { len }.min(128), ml));
    }
    if rng.chance(1, 3) { v.sort(); }
    if v.is_empty() { "-".into() } else { v.join(",") }
}

/// (asid, v4, v6, api)
fn g_roa(rng: &mut Rng, strict: bool) -> (u32, String, String, u64) {
    let asid = match rng.below(5) { 0 => 0, 1 => u32::MAX, _ => rng.next() as u32 };
    let (mut n4, mut n6) = (g_count(rng, 60), g_count(rng, 30));
    if rng.chance(1, 4) { n4 = 0; } else if rng.chance(1, 4) { n6 = 0; }
    if strict && n4 == 0 && n6 == 0 && !rng.chance(1, 20) { n4 = 1; }
    (asid, g_roaaddrs(rng, true, n4, strict), g_roaaddrs(rng, false, n6, strict), rng.below(5))
}

/// (customer, providers, via)
fn g_aspa(rng: &mut Rng, big: usize) -> (u32, String, &'static str) {
    let cust = match rng.below(5) { 0 => 0, 1 => u32::MAX, _ => rng.next() as u32 };
    let n = match rng.below(12) { 0 => 0, 1 => rng.range(50, big as u64) as usize, _ => rng.range(1, 8) as usize };
    let mut p: Vec<u32> = Vec::new();
    for _ in 0..n {
        let a = match rng.below(8) { 0 => 0, 1 => u32::MAX, 2 => rng.below(300) as u32, 3 if rng.chance(1, 6) => cust,
            4 if !p.is_empty() && rng.chance(1, 6) => *rng.pick(&p), _ => rng.next() as u32 };
        if a == cust && !rng.chance(1, 10) { continue }
        p.push(a);
    }
    if rng.chance(9, 10) { let mut q = p.clone(); q.sort(); q.dedup(); if q.len() != p.len() { p = q; shuffle(rng, &mut p); } }
    match rng.below(4) { 0 => p.sort(), 1 => { p.sort(); p.reverse(); } _ => {} }
    let s = if p.is_empty() { "-".to_string() } else { p.iter().map(|a| a.to_string()).collect::<Vec<_>>().join(",") };
    (cust, s, if rng.bool() { "new" } else { "add" })
}

fn g_common(rng: &mut Rng) -> String {
    let wide = rng.chance(3, 5);
    let (nb, na, now) = g_window(rng, wide);
    let iss = g_name(rng, &["N", "N", "N", "D0"]);
    let sub = g_name(rng, &["N", "N", "N", "D3"]);
    let st = if rng.chance(1, 25) { "N".to_string() } else { g_time(rng) };
    let mut sn = g_serial(rng);
    while unhex(&sn).is_none_or(|b| Serial::from_slice(&b).is_err()) && rng.chance(9, 10) { sn = g_serial(rng); }
    format!("sn={} nb={} na={} crl={} aia={} so={} iss={} sub={} st={} oo={} now={}", sn, nb, na, g_rsync(rng, false), g_rsync(rng, false), g_rsync(rng, false),
        iss, sub, st, if rng.chance(1, 40) { "f" } else { "p" }, now)
}

fn gen_sigobj(ctx: &mut Ctx, rng: &mut Rng, ty: &str) {
    let common = g_common(rng);
    match ty {
        "so" => {
            let arcs: Vec<u64> = match rng.below(4) { 0 => pki::CT_ROA.to_vec(), 1 => pki::CT_GBR.to_vec(),
                _ => { let mut v = vec![1, 2, 840, 113549, 1, 9, 16, 1]; for _ in 0..rng.range(1, 6) { v.push(rng.range(0, 0x0fff_ffff)); } v } };
            let o = der::oid(&arcs);
            let (h, n) = der::split_tlv(&o).unwrap();
            let clen = match rng.below(6) { 0 => 0, 1 => rng.range(200, 2000), _ => rng.range(1, 60) } as usize;
            let content = if rng.bool() { der::seq(&[der::octets(&rng.bytes(clen))]) } else { rng.bytes(clen) };
            let (v4, _) = g_ipspec(rng, true, true);
            let (v6, _) = g_ipspec(rng, false, true);
            let (mut asn, _) = g_asspec(rng, true);
            if v4 == "M" && v6 == "M" && asn == "M" && !rng.chance(1, 8) { asn = "I".into(); }
            let mut toks = vec![format!("v4={}", v4), format!("v6={}", v6), format!("as={}", asn)];
            toks.retain(|t| !t.ends_with("=M") || rng.bool());
            emit(ctx, &format!("so {} ct={} content={} {}", common, hex(&o[h..h + n]), hex(&content), toks.join(" ")).trim_end().to_string());
        }
        "mft" => { let (num, this, next, files) = g_mft(rng, 60); emit(ctx, &format!("mft {} num={} this={} next={} files={}", common, num, this, next, files)); }
        "roa" => { let (asid, v4, v6, api) = g_roa(rng, true); emit(ctx, &format!("roa {} asid={} v4a={} v6a={} api={}", common, asid, v4, v6, api)); }
        _ => { let (c, p, via) = g_aspa(rng, 100); emit(ctx, &format!("aspa {} cust={} prov={} pvia={}", common, c, p, via)); }
    }
}

//------------ conformance labels (generator side, independent of the library) ------------------------------------------

fn c_serial(s: &str) -> bool {
    match unhex(s) { Some(b) => !b.is_empty() && b.len() <= 20 && (b.len() < 20 || b[0] & 0x80 == 0), None => false }
}
fn uri_chars_ok(b: &[u8]) -> bool {
    b.iter().all(|c| matches!(*c, b'!' | b'$'..=b';' | b'=' | b'A'..=b'Z' | b'_' | b'a'..=b'z' | b'~'))
}
fn c_rsync(h: &str) -> bool {
    if h == "N" { return true }
    let Some(b) = unhex(h) else { return false };
    if !uri_chars_ok(&b) || b.len() < 8 || !b[..8].eq_ignore_ascii_case(b"rsync://") { return false }
    let parts: Vec<&[u8]> = b[8..].split(|c| *c == b'/').collect();
    if parts.len() < 3 || parts[0].is_empty() || parts[1].is_empty() { return false }
    for (i, seg) in parts.iter().enumerate() {
        if *seg == b"." || *seg == b".." { return false }
        if seg.is_empty() && i + 1 != parts.len() { return false }
    }
    true
}
fn c_https(h: &str) -> bool {
    if h == "N" { return true }
    let Some(b) = unhex(h) else { return false };
    uri_chars_ok(&b) && b.len() > 8 && b[..8].eq_ignore_ascii_case(b"https://") && b[8] != b'/'
}
fn t_floor(s: &str) -> i64 { s.split('.').next().unwrap().parse().unwrap() }
fn t_full(s: &str) -> (i64, u64) { let mut it = s.split('.'); (it.next().unwrap().parse().unwrap(), it.next().map(|n| n.parse().unwrap()).unwrap_or(0)) }

/// (passes the strict RPKI name check, passes the strict router name check, is a name the profile admits)
fn name_info(s: &str) -> (bool, bool, bool) {
    if s == "N" || s.starts_with('D') { return (true, true, true) }
    let Some(b) = unhex(s) else { return (false, false, false) };
    let Some((h, n)) = der::split_tlv(&b) else { return (false, false, false) };
    let (mut cn, mut sn, mut other, mut all_printable, mut cn_len) = (0, 0, 0, true, 0usize);
    let mut rdns = &b[h..h + n];
    while !rdns.is_empty() {
        let (h1, n1) = der::split_tlv(rdns).unwrap();
        let mut attrs = &rdns[h1..h1 + n1];
        while !attrs.is_empty() {
            let (h2, n2) = der::split_tlv(attrs).unwrap();
            let a = &attrs[h2..h2 + n2];
            let (ho, no) = der::split_tlv(a).unwrap();
            let oid = &a[ho..ho + no];
            let v = &a[ho + no..];
            let (hv, nv) = der::split_tlv(v).unwrap();
            if oid == [0x55, 4, 3] { cn += 1; cn_len = nv; if v[0] != 0x13 { all_printable = false; if v[0] != 0x0c { cn += 10; } } }
            else if oid == [0x55, 4, 5] { sn += 1; if v[0] != 0x13 { all_printable = false; if v[0] != 0x0c { sn += 10; } } }
            else { other += 1; }
            let _ = hv;
            attrs = &attrs[h2 + n2..];
        }
        rdns = &rdns[h1 + n1..];
    }
    let router = cn == 1 && sn <= 1;
    let rpki = router && all_printable;
    (rpki, router, router && other == 0 && (1..=64).contains(&cn_len))
}

/// None: missing; Some(inherit)
fn res_state(spec: Option<&str>) -> Option<bool> {
    match spec { None | Some("M") => None, Some("I") | Some("J") => Some(true),
        Some(s) => if s.split_once(':').is_some_and(|x| !x.1.is_empty()) { Some(false) } else { None } }
}

fn c_files(files: &str) -> bool {
    if files == "-" { return true }
    files.split(';').all(|f| {
        let (n, h) = f.split_once(':').unwrap();
        let (n, h) = (unhex(n).unwrap(), unhex(h).unwrap());
        let Some(dot) = n.iter().position(|c| *c == b'.') else { return false };
        dot >= 1 && n[..dot].iter().all(|c| c.is_ascii_alphanumeric() || *c == b'-' || *c == b'_')
            && [&b"asa"[..], b"cer", b"crl", b"gbr", b"mft", b"roa", b"sig", b"tak"].contains(&&n[dot + 1..]) && h.len() == 32
    })
}
fn c_mft(num: &str, this: &str, next: &str, files: &str) -> bool { c_serial(num) && t_full(this) <= t_full(next) && c_files(files) }

/// (all addresses conform, number of addresses)
fn c_roaaddrs(s: &str, width: u32) -> (bool, usize) {
    if s == "-" { return (true, 0) }
    let mut ok = true;
    let mut n = 0;
    for it in s.split(',') {
        n += 1;
        let (_, l) = it.split_once('/').unwrap();
        let (l, ml) = match l.split_once('-') { Some((l, m)) => (l.parse::<u32>().unwrap(), Some(m.parse::<u32>().unwrap())), None => (l.parse::<u32>().unwrap(), None) };
        if l > width || ml.is_some_and(|m| m < l || m > width) { ok = false; }
    }
    (ok, n)
}
fn c_roa(v4: &str, v6: &str) -> bool { let (a, n4) = c_roaaddrs(v4, 32); let (b, n6) = c_roaaddrs(v6, 128); a && b && n4 + n6 > 0 }
fn c_aspa(cust: &str, prov: &str) -> bool {
    if prov == "-" { return false }
    let mut p: Vec<&str> = prov.split(',').collect();
    let n = p.len();
    p.sort(); p.dedup();
    p.len() == n && n <= 16380 && !p.contains(&cust)
}

fn ok_err(b: bool) -> &'static str { if b { "ok" } else { "err" } }

/// (conf, vexp) of an op as emitted by `generate`
fn classify(op: &str) -> (bool, &'static str) {
    let t: Vec<&str> = op.split(' ').collect();
    let kv: Vec<(&str, &str)> = t[1..].iter().filter_map(|x| x.split_once('=')).collect();
    let get = |k: &str| kv.iter().rev().find(|(a, _)| *a == k).map(|x| x.1);
    let val = |k: &str| get(k).unwrap_or("N");
    let window = || { let now: i64 = val("now").parse().unwrap(); t_floor(val("nb")) <= now && now <= t_floor(val("na")) };
    match t[0] {
        "mftc" => (c_mft(t[1], t[2], t[3], t[4]), "na"),
        "roac" => (c_roa(t[2], t[3]), "na"),
        "aspac" => (c_aspa(t[1], t[2]), "na"),
        "cert" => {
            let (kind, key, ik) = (val("kind"), val("key"), val("ik"));
            let rt = kind == "rt";
            let (iss, sub) = (name_info(val("iss")), name_info(val("sub")));
            let (v4, v6, asn) = (res_state(get("v4")), res_state(get("v6")), res_state(get("as")));
            let uris = ["crl", "aia", "rep", "mft", "so"].iter().all(|k| c_rsync(val(k))) && c_https(val("ntf"));
            let conf = c_serial(val("sn")) && uris && iss.2 && sub.2 && (sub.0 || rt) && (v4.is_some() || v6.is_some() || asn.is_some());
            let has = |k: &str| val(k) != "N";
            let issued = val("aki") == "k0" && ik == "0" && has("aia") && has("crl");
            let basics = iss.0 && sub.0 && key != "ec" && val("eku") == "N";
            let ca_basics = val("bc") == "T" && val("ku") == "ca" && has("rep") && has("mft") && !has("so");
            let ee_basics = val("bc") == "N" && val("ku") == "ee" && !has("rep") && !has("mft");
            let vexp = match kind {
                "ta" => ok_err(basics && ca_basics && (val("aki") == "N" || val("aki") == format!("k{}", key)) && !has("crl") && !has("aia")
                    && window() && v4 != Some(true) && v6 != Some(true) && asn != Some(true) && ik == key),
                "ca" => ok_err(basics && ca_basics && issued && window()),
                "ee" => ok_err(basics && ee_basics && has("so") && issued && window()),
                "dee" => ok_err(basics && ee_basics && issued && window()),
                "rt" => ok_err(iss.0 && sub.1 && key == "ec" && val("bc") == "N" && val("ku") == "ee" && val("eku") == "R" && !has("rep") && !has("mft")
                    && !has("so") && !has("ntf") && v4.is_none() && v6.is_none() && asn == Some(false) && issued && window()),
                _ => "na",
            };
            (conf, vexp)
        }
        "crl" => {
            let ents = val("ents");
            (c_serial(val("num")) && name_info(val("iss")).2 && (ents == "-" || ents.split(',').all(|e| c_serial(e.split('@').next().unwrap()))), "ok")
        }
        "so" | "mft" | "roa" | "aspa" => {
            let (iss, sub) = (name_info(val("iss")), name_info(val("sub")));
            let typed = match t[0] {
                "so" => res_state(get("v4")).is_some() || res_state(get("v6")).is_some() || res_state(get("as")).is_some(),
                "mft" => c_mft(val("num"), val("this"), val("next"), val("files")),
                "roa" => c_roa(val("v4a"), val("v6a")),
                _ => c_aspa(val("cust"), val("prov")),
            };
            let conf = c_serial(val("sn")) && ["crl", "aia", "so"].iter().all(|k| c_rsync(val(k))) && iss.2 && sub.2 && iss.0 && sub.0 && typed;
            (conf, ok_err(iss.0 && sub.0 && window()))
        }
        "csr" => (c_rsync(val("rep")) && c_rsync(val("mft")) && c_https(val("ntf")), "ok"),
        "idcert" => { let own = t[1] == "ee" && val("key") == val("ik"); (!own, ok_err(window() && !own)) }
        "sigmsg" => (true, ok_err(window())),
        "rta" => {
            let keys = val("keys");
            let mut k: Vec<&str> = keys.split(',').collect();
            let n = k.len();
            k.sort(); k.dedup();
            (keys != "-" && k.len() == n && val("md").len() == 64 && (val("v4") != "-" || val("v6") != "-" || val("as") != "-"), "na")
        }
        _ => (false, "na"),
    }
}

/// Adds the labels `[subsec=1] vexp= conf=` and runs the case.
fn emit(ctx: &mut Ctx, op: &str) {
    let (conf, vexp) = classify(op);
    // times with a sub-second part (and the default signing time, which is the wall clock) lose it in the encoding
    let subsec = op.contains('.') || op.contains(" st=N");
    ctx.case(&format!("{}{} vexp={} conf={}", op, if subsec { " subsec=1" } else { "" }, vexp, if conf { 1 } else { 0 }));
    if matches!(op.split(' ').next(), Some("cert" | "crl" | "so" | "mft" | "roa" | "aspa" | "idcert" | "sigmsg" | "csr" | "rta")) {
        ctx.case(&format!("bytes {}", op));
    }
}

//------------ content codecs tied to the Lean models (Model/Roa.lean) ---------------------------------------

fn show_roa_iter(a: &rpki::repository::roa::RoaIpAddresses) -> String {
    match catch_unwind(AssertUnwindSafe(|| a.iter().map(|x| format!("{}/{}{}", x.prefix().addr().to_bits(), x.prefix().addr_len(),
        match x.max_length() { Some(m) => format!("-{}", m), None => String::new() })).collect::<Vec<_>>())) {
        Ok(v) => if v.is_empty() { "-".into() } else { v.join(",") },
        Err(_) => "panic".into(),
    }
}

fn show_prov_iter(c: &AsProviderAttestation) -> String {
    match catch_unwind(AssertUnwindSafe(|| c.provider_as_set().iter().map(|a| a.into_u32().to_string()).collect::<Vec<_>>())) {
        Ok(v) => if v.is_empty() { "-".into() } else { v.join(",") },
        Err(_) => "panic".into(),
    }
}

/// roax <asid> <v4> <v6>   => <hex of RouteOriginAttestation::encode_ref> <v4 iter> <v6 iter>
/// road <hex of eContent>  => ok <asid> <v4 iter> <v6 iter> | err        (Roa::decode over the harness's CMS envelope)
/// aspax <customer> <providers> => <hex of AsProviderAttestation::encode_ref> <iter> <len> | dup
/// aspad <hex of eContent> => ok <customer> <iter> <len> | err
pub fn exec_codec(toks: &[&str]) -> String {
    let w = world();
    let r: R<String> = (|| match toks {
        ["roax", asid, v4, v6] => {
            let (asid, v4, v6) = (p_num::<u32>(asid)?, p_roaaddrs(v4, true)?, p_roaaddrs(v6, false)?);
            let built = match stage("build", || build_roa(asid, &v4, &v6, 0).to_attestation()) { Ok(b) => b, Err(p) => return Ok(p) };
            let content = match stage("encode", || built.encode_ref().to_captured(Mode::Der).into_bytes()) { Ok(b) => b, Err(p) => return Ok(p) };
            Ok(format!("{} {} {}", hex(&content), show_roa_iter(built.v4_addrs()), show_roa_iter(built.v6_addrs())))
        }
        ["road", h] => {
            let content = p_hex(h)?;
            let obj = Bytes::from(wrap_cms(w, pki::CT_ROA, &content));
            match stage("decode", || Roa::decode(obj.clone(), true)) {
                Err(p) => Ok(p),
                Ok(Err(_)) => Ok("err".into()),
                Ok(Ok(r)) => Ok(format!("ok {} {} {}", r.content().as_id().into_u32(), show_roa_iter(r.content().v4_addrs()), show_roa_iter(r.content().v6_addrs()))),
            }
        }
        ["aspax", cust, provs] | ["aspaxa", cust, provs] => {
            // aspax: AspaBuilder::new(all providers); aspaxa: AspaBuilder::empty() and add_provider one by one, in the order given
            let via_add = toks[0] == "aspaxa";
            let (cust, provs) = (p_num::<u32>(cust)?, p_providers(provs)?);
            let signer = PoolSigner(w);
            let built = stage("build", || build_aspa(cust, &provs, via_add).map(|b| b.finalize(std_sob(), &signer, &w.pool.keys[0].id)));
            let built = match built { Err(p) => return Ok(p), Ok(Err(())) => return Ok("dup".into()), Ok(Ok(Err(_))) => return Err(Refused), Ok(Ok(Ok(a))) => a };
            let content = match stage("encode", || built.content().encode_ref().to_captured(Mode::Der).into_bytes()) { Ok(b) => b, Err(p) => return Ok(p) };
            Ok(format!("{} {} {}", hex(&content), show_prov_iter(built.content()), built.content().provider_as_set().len()))
        }
        ["aspad", h] => {
            let content = p_hex(h)?;
            let obj = Bytes::from(wrap_cms(w, pki::CT_ASPA, &content));
            match stage("decode", || Aspa::decode(obj.clone(), true)) {
                Err(p) => Ok(p),
                Ok(Err(_)) => Ok("err".into()),
                Ok(Ok(a)) => Ok(format!("ok {} {} {}", a.content().customer_as().into_u32(), show_prov_iter(a.content()), a.content().provider_as_set().len())),
            }
        }
        _ => Err(Bad),
    })();
    match r { Ok(s) => s, Err(Bad) => "bad-op".into(), Err(Refused) => "build-err".into() }
}

/// generator for the codec ops: builder inputs (conforming and not) and eContent from the independent encoder
/// with the deviations a hostile or sloppy producer makes
pub fn generate_codec(ctx: &mut Ctx) {
    let mut rng = Rng::new(ctx.seed ^ 0xC05C);
    let n = if ctx.tier_thorough { 6000 } else { 700 };
    let item = |rng: &mut Rng, v4: bool, strict: bool| -> (u128, u8, Option<u8>) {
        let w: u8 = if v4 { 32 } else { 128 };
        let len = match rng.below(8) { 0 => 0, 1 => w, 2 => 8, 3 => w - 1, 4 => 1, 5 => 7, 6 => 9, _ => rng.range(0, w as u64) as u8 };
        let len = if !strict && rng.chance(1, 6) { if v4 { rng.range(33, 128) as u8 } else { 128 } } else { len };
        let bits: u128 = if v4 { rng.next() as u32 as u128 } else { rng.u128() };
        let bits = match rng.below(5) { 0 => 0, 1 => if v4 { u32::MAX as u128 } else { u128::MAX }, _ => bits };
        let ml = match rng.below(5) {
            0 | 1 => None,
            2 => Some(len.min(w)),
            3 => Some(w),
            _ => if strict { Some(rng.range(len.min(w) as u64, w as u64) as u8) } else { Some(rng.below(256) as u8) },
        };
        (bits, len, ml)
    };
    let show = |v: &[(u128, u8, Option<u8>)]| if v.is_empty() { "-".to_string() } else {
        v.iter().map(|(b, l, m)| format!("{}/{}{}", b, l, m.map(|m| format!("-{}", m)).unwrap_or_default())).collect::<Vec<_>>().join(",") };
    for _ in 0..n {
        let strict = !rng.chance(1, 5);
        let asid = match rng.below(6) { 0 => 0, 1 => u32::MAX, 2 => 127, 3 => 128, 4 => 0x8000_0000, _ => rng.next() as u32 };
        let k4 = match rng.below(6) { 0 => 0, 1 => rng.range(10, 60), _ => rng.range(1, 4) } as usize;
        let k6 = match rng.below(6) { 0 | 1 => 0, 2 => rng.range(10, 40), _ => rng.range(1, 3) } as usize;
        let v4: Vec<_> = (0..k4).map(|_| item(&mut rng, true, strict)).collect();
        let v6: Vec<_> = (0..k6).map(|_| item(&mut rng, false, strict)).collect();
        ctx.case(&format!("roax {} {} {}", asid, show(&v4), show(&v6)));
        // the same through the independent encoder; half of the cases carry exactly one kind of deviation
        let dv = if rng.chance(1, 2) { rng.below(12) } else { 99 };
        let enc_item = |width: u32, it: &(u128, u8, Option<u8>), rng: &mut Rng| -> Vec<u8> {
            let (bits, len, ml) = *it;
            let len = (len as u32).min(width);
            let be: Vec<u8> = if width == 32 { (bits as u32).to_be_bytes().to_vec() } else { bits.to_be_bytes().to_vec() };
            let nbytes = ((len + 7) / 8) as usize;
            let unused = (nbytes as u32 * 8 - len) as u8;
            let mut oct = be[..nbytes].to_vec();
            // host bits in the last octet: cleared unless we want the DER violation
            if unused > 0 && !(dv == 0 && rng.chance(1, 3)) { let l = oct.len(); oct[l - 1] &= 0xffu8 << unused; }
            let mut parts = vec![der::bits(if dv == 1 && rng.chance(1, 3) { rng.below(12) as u8 } else { unused }, &oct)];
            if let Some(m) = ml { parts.push(if dv == 2 && rng.chance(1, 2) { match rng.below(3) { 0 => der::tlv(2, &[0, m]), 1 => der::tlv(2, &[]), _ => der::tlv(2, &[0, 0, m]) } } else { der::uint_u64(m as u64) }); }
            if dv == 3 && rng.chance(1, 3) { parts.push(der::null()); }
            der::seq(&parts)
        };
        let fam = |code: &[u8], items: Vec<Vec<u8>>| der::seq(&[der::octets(code), der::seq(&items)]);
        let i4: Vec<Vec<u8>> = v4.iter().map(|i| enc_item(32, i, &mut rng)).collect();
        let i6: Vec<Vec<u8>> = v6.iter().map(|i| enc_item(128, i, &mut rng)).collect();
        let mut fams = Vec::new();
        let order = rng.below(10);
        if order == 0 { if !i6.is_empty() { fams.push(fam(&[0, 2], i6.clone())); } if !i4.is_empty() { fams.push(fam(&[0, 1], i4.clone())); } }
        else { if !i4.is_empty() || order == 1 { fams.push(fam(&[0, 1], i4.clone())); } if !i6.is_empty() || order == 2 { fams.push(fam(&[0, 2], i6.clone())); } }
        if dv == 4 {
            match rng.below(5) {
                0 => if let Some(f) = fams.first().cloned() { fams.push(f) },
                1 => fams.push(fam(&[0, 3], i4.clone())),
                2 => fams.push(fam(&[0, 1, 1], i4.clone())),
                3 => fams.push(fam(&[1], vec![])),
                _ => fams.push(der::seq(&[der::octets(&[0, 1])])),
            }
        }
        let asn = if dv == 5 { match rng.below(5) { 0 => der::tlv(2, &[0, 0, 0, 0, 1]), 1 => der::tlv(2, &[0x80]), 2 => der::tlv(2, &[0, 0x7f]), 3 => der::tlv(2, &[1, 0, 0, 0, 0]),
            _ => der::tlv(2, &[0, 0xff, 0xff, 0xff, 0xff]) } } else { der::uint_u64(asid as u64) };
        let mut parts = Vec::new();
        if dv == 6 { match rng.below(4) { 0 => parts.push(der::ctx(0, true, &der::uint_u64(0))), 1 => parts.push(der::ctx(0, true, &der::uint_u64(1))),
            2 => parts.push(der::ctx(0, false, &[0])), _ => parts.push(der::ctx(0, true, &der::cat(&[der::uint_u64(0), der::null()]))) } }
        parts.push(asn);
        parts.push(der::seq(&fams));
        if dv == 7 { parts.push(der::null()); }
        let mut d = der::seq(&parts);
        match dv {
            8 | 9 => { let i = rng.below(d.len() as u64) as usize; d[i] ^= 1 << rng.below(8); }
            10 => { d.push(0); }
            11 => { let i = rng.below(d.len() as u64) as usize; d.truncate(i); }
            _ => {}
        }
        ctx.case(&format!("road {}", hex(&d)));
        // ASPA
        let cust = match rng.below(5) { 0 => 0, 1 => u32::MAX, _ => rng.range(1, 70000) as u32 };
        let kp = match rng.below(8) { 0 => 0, 1 => rng.range(50, 300), _ => rng.range(1, 6) } as usize;
        let mut provs: Vec<u32> = (0..kp).map(|_| match rng.below(6) { 0 => 0, 1 => u32::MAX, 2 => cust, 3 => rng.below(300) as u32, _ => rng.next() as u32 }).collect();
        if strict { provs.retain(|p| *p != cust); provs.sort(); provs.dedup(); }
        ctx.case(&format!("aspax {} {}", cust, if provs.is_empty() { "-".into() } else { provs.iter().map(|p| p.to_string()).collect::<Vec<_>>().join(",") }));
        {
            // the same through add_provider, in an order of its own, sometimes repeating the first, the last or the largest
            let mut q = provs.clone();
            for i in (1..q.len()).rev() { let j = rng.below(i as u64 + 1) as usize; q.swap(i, j); }
            if !q.is_empty() && rng.chance(1, 3) {
                let d = match rng.below(3) { 0 => q[0], 1 => *q.last().unwrap(), _ => *q.iter().max().unwrap() };
                let at = rng.below(q.len() as u64 + 1) as usize; q.insert(at, d);
            }
            ctx.case(&format!("aspaxa {} {}", cust, if q.is_empty() { "-".into() } else { q.iter().map(|p| p.to_string()).collect::<Vec<_>>().join(",") }));
        }
        let mut pv = provs.clone();
        let dv = if rng.chance(1, 2) { rng.below(9) } else { 99 };
        if dv != 0 { pv.retain(|p| *p != cust); pv.sort(); pv.dedup(); } else if rng.bool() { pv.sort(); }
        if pv.is_empty() && dv != 1 { pv.push(if cust == 5 { 6 } else { 5 }); }
        let pitems: Vec<Vec<u8>> = pv.iter().map(|p| if dv == 2 && rng.chance(1, 4) { match rng.below(2) { 0 => der::tlv(2, &[0, 0, *p as u8]), _ => der::octets(&[1]) } } else { der::uint_u64(*p as u64) }).collect();
        let mut parts = Vec::new();
        if dv == 3 { match rng.below(4) { 0 => {}, 1 => parts.push(der::ctx(0, true, &der::uint_u64(0))), 2 => parts.push(der::ctx(0, true, &der::uint_u64(2))),
            _ => parts.push(der::ctx(0, true, &der::cat(&[der::uint_u64(1), der::null()]))) } } else { parts.push(der::ctx(0, true, &der::uint_u64(1))) }
        parts.push(der::uint_u64(cust as u64));
        parts.push(der::seq(&pitems));
        if dv == 4 { parts.push(der::null()); }
        let mut d = der::seq(&parts);
        match dv {
            5 | 6 => { let i = rng.below(d.len() as u64) as usize; d[i] ^= 1 << rng.below(8); }
            7 => { d.push(0); }
            8 => { let i = rng.below(d.len() as u64) as usize; d.truncate(i); }
            _ => {}
        }
        ctx.case(&format!("aspad {}", hex(&d)));
    }
    // the provider count limit
    for k in [16379u32, 16380, 16381] {
        let items: Vec<Vec<u8>> = (1..=k).map(|p| der::uint_u64(p as u64)).collect();
        let d = der::seq(&[der::ctx(0, true, &der::uint_u64(1)), der::uint_u64(70000), der::seq(&items)]);
        ctx.case(&format!("aspad {}", hex(&d)));
    }
}

pub fn generate(ctx: &mut Ctx) {
    let mut rng = Rng::new(ctx.seed ^ 0xC05);
    let k = if ctx.tier_thorough { 10 } else { 1 };
    let big = if ctx.tier_thorough { 4 } else { 1 };
    // fixed corner cases first
    for sn in ["00", "01", "7f", "80", "ff", "0100", "8000000000000000"] {
        for (nb, na) in [(Y1950, Y2050 - 1), (Y1950 - 1, Y2050), (YEAR1, Y9999_END), (Y2050, Y9999_END)] {
            emit(ctx, &format!("cert via=new sn={} nb={} na={} iss=D0 sub=N key=1 ik=0 ku=ca oc=refuse kind=ca now={} bc=T aki=k0 crl={} aia={} rep={} mft={} v4=B:p0/0 v6=S:r0-{} as=F:r0-4294967295",
                sn, nb, na, T0, hx("rsync://h/m/0/c.crl"), hx("rsync://h/m/0.cer"), hx("rsync://h/m/1/"), hx("rsync://h/m/1/m.mft"), u128::MAX));
        }
    }
    emit(ctx, &format!("cert via=new sn=7f{} nb={} na={} iss=D0 sub=N key=1 ik=0 ku=ee oc=trim kind=ee now={} aki=k0 crl={} aia={} so={} v4=F:p4294967295/32,p0/32 v6=B:p{}/128,p0/128 as=S:i0,i4294967295",
        "ff".repeat(19), Y1950, Y9999_END, T0, hx("rsync://h/m/0/c.crl"), hx("rsync://h/m/0.cer"), hx("rsync://h/m/0/o.roa"), u128::MAX));
    for _ in 0..1300 * k { gen_cert(ctx, &mut rng); }
    for _ in 0..300 * k { gen_crl(ctx, &mut rng, 300); }
    for _ in 0..500 * k {
        let (num, this, next, files) = g_mft(&mut rng, 100 * big);
        emit(ctx, &format!("mftc {} {} {} {}", num, this, next, files));
    }
    for _ in 0..500 * k {
        let strict = !rng.chance(1, 8);
        let (asid, v4, v6, api) = g_roa(&mut rng, strict);
        emit(ctx, &format!("roac {} {} {} a{}", asid, v4, v6, api));
    }
    for _ in 0..300 * k {
        let (c, p, via) = g_aspa(&mut rng, 300 * big);
        emit(ctx, &format!("aspac {} {} {}", c, p, via));
    }
    // one more provider than the profile allows (the builder does not count)
    emit(ctx, &format!("aspac 70000 {} new", (1..=16381).map(|i| i.to_string()).collect::<Vec<_>>().join(",")));
    for _ in 0..250 * k { gen_sigobj(ctx, &mut rng, "so"); }
    for _ in 0..150 * k { gen_sigobj(ctx, &mut rng, "mft"); }
    for _ in 0..200 * k { gen_sigobj(ctx, &mut rng, "roa"); }
    for _ in 0..150 * k { gen_sigobj(ctx, &mut rng, "aspa"); }
    for _ in 0..40 * k {
        let ntf = if rng.bool() { g_https(&mut rng) } else { "N".into() };
        emit(ctx, &format!("csr key={} rep={} mft={} ntf={}", rng.below(4), g_rsync(&mut rng, true), g_rsync(&mut rng, false), ntf));
    }
    for _ in 0..60 * k {
        let (nb, na, now) = g_window(&mut rng, false);
        if rng.bool() { emit(ctx, &format!("idcert ta key={} nb={} na={} now={}", rng.below(4), nb, na, now)); }
        else { emit(ctx, &format!("idcert ee key={} ik={} nb={} na={} now={}", rng.below(4), rng.below(4), nb, na, now)); }
    }
    for _ in 0..60 * k {
        let (nb, na, now) = g_window(&mut rng, false);
        let n = match rng.below(5) { 0 => 0, 1 => rng.range(300, 3000), _ => rng.range(1, 200) } as usize;
        emit(ctx, &format!("sigmsg data={} nb={} na={} ik={} oo={} now={}", hex(&rng.bytes(n)), nb, na, rng.below(3), if rng.chance(1, 20) { "f" } else { "p" }, now));
    }
    for _ in 0..100 * k {
        let nk = if rng.chance(1, 10) { 0 } else { rng.range(1, 4) };
        let mut keys: Vec<String> = (0..nk).map(|_| if rng.chance(1, 3) { hex(&rng.bytes(20)) } else { format!("k{}", rng.below(4)) }).collect();
        if rng.bool() { keys.sort(); }
        let items = |v: Vec<String>| if v.is_empty() { "-".to_string() } else { v.join(",") };
        let n = g_count(&mut rng, 20); let r4 = g_ranges(&mut rng, 32, n);
        let n = g_count(&mut rng, 20); let r6 = g_ranges(&mut rng, 128, n);
        let n = g_count(&mut rng, 20); let ra = g_ranges(&mut rng, 32, n);
        let (mut i4, mut i6, mut ia) = (g_ipitems(&mut rng, true, &r4), g_ipitems(&mut rng, false, &r6), g_asitems(&mut rng, &ra));
        shuffle(&mut rng, &mut i4); shuffle(&mut rng, &mut i6); shuffle(&mut rng, &mut ia);
        let sigs: Vec<String> = (0..rng.below(3)).map(|_| rng.below(4).to_string()).collect();
        let mdlen = if rng.chance(1, 10) { *rng.pick(&[0usize, 20]) } else { 32 };
        emit(ctx, &format!("rta keys={} v4={} v6={} as={} md={} sigs={} st={}", items(keys), items(i4), items(i6), items(ia), hex(&rng.bytes(mdlen)), items(sigs), g_time(&mut rng)));
    }
}
pub fn exec(toks: &[&str]) -> String {
    // labels from the generator: not inputs of the computation, echoed at the end of the result
    let (mut subsec, mut vexp, mut conf) = (None, None, None);
    let mut rest: Vec<&str> = Vec::with_capacity(toks.len());
    for t in toks {
        match *t {
            "subsec=1" => subsec = Some(*t),
            "vexp=ok" | "vexp=err" | "vexp=na" => vexp = Some(*t),
            "conf=0" | "conf=1" => conf = Some(*t),
            _ => if t.starts_with("subsec=") || t.starts_with("vexp=") || t.starts_with("conf=") { return "bad-op".into() } else { rest.push(*t) }
        }
    }
    let mut res = exec_op(&rest);
    if res != "bad-op" {
        for l in [subsec, vexp, conf].into_iter().flatten() { res.push(' '); res.push_str(l); }
    }
    res
}

fn exec_op(toks: &[&str]) -> String {
    if toks.is_empty() { return "bad-op".into() }
    let w = world();
    if toks[0] == "bytes" && toks.len() > 1 {
        // the object the operation builds, through the library decoder and (in the driver) the Lean decoder model
        LAST_DER.with(|l| *l.borrow_mut() = None);
        let _ = exec(&toks[1..]);
        let Some(d) = LAST_DER.with(|l| l.borrow_mut().take()) else { return "nothing-built".into() };
        let h = hex(&d);
        let line = match toks[1] {
            "cert" => crate::certd::exec(&["certd", &h]),
            "crl" => crate::certd::exec_crl(&["crld", &h]),
            "so" | "mft" | "roa" | "aspa" => crate::certd::exec_cms(&["cmsd", toks[1], &h]),
            "idcert" => crate::certd::exec_idc(&["idcd", &h]),
            "sigmsg" => crate::certd::exec_smsg(&["smsgd", &h]),
            "csr" => crate::csrd::exec_csr(&["csrd", "csr", &h]),
            "rta" => crate::rtad::exec_rta(&["rtad", &h]),
            _ => return "bad-op".into(),
        };
        return format!("{} | {}", h, line);
    }
    let r = match toks[0] {
        "cert" => op_cert(w, &toks[1..]),
        "crl" => op_crl(w, &toks[1..]),
        "mftc" => op_mftc(w, &toks[1..]),
        "roac" => op_roac(w, &toks[1..]),
        "aspac" => op_aspac(w, &toks[1..]),
        "so" | "mft" | "roa" | "aspa" => op_sigobj(w, toks[0], &toks[1..]),
        "csr" => op_csr(w, &toks[1..]),
        "idcert" => op_idcert(w, &toks[1..]),
        "sigmsg" => op_sigmsg(w, &toks[1..]),
        "rta" => op_rta(w, &toks[1..]),
        _ => Err(Bad),
    };
    match r { Ok(s) => s, Err(Bad) => "bad-op".into(), Err(Refused) => "build-err".into() }
}


