//! `certd <hex>` — `Cert::decode` against the Lean certificate decoder (`Model/CertDer.lean`).
//!
//! The implementation side prints every field the public accessors give and the ten `inspect_*`
//! verdicts in one canonical line (or `err`); the model prints the same line from its own decoding of the
//! same octets.  Used by C04 (mutants of every kind), C01 (every certificate of every generated chain) and
//! C05 (library-built certificates).
use crate::c01::{show_as, show_ip};
use crate::der::{self, Node};
use crate::pki::{self, Kind, Pool, Res};
use crate::rng::{hex, unhex, Rng};
use crate::Ctx;
use bcder::encode::Values;
use bcder::Mode;
use bytes::Bytes;
use rpki::repository::cert::{Cert, KeyUsage};
use rpki::repository::resources::{AsResources, IpResources};
use rpki::repository::x509::Name;

fn name_hex(n: &Name) -> String { name_hex_mode(n, Mode::Der) }
/// the captured octets of a name; a name decoded in BER mode can only be written in BER mode
pub fn name_hex_mode(n: &Name, mode: Mode) -> String { hex(n.encode_ref().to_captured(mode).as_slice()) }

fn show_ipres(r: &IpResources, v4: bool) -> String {
    if r.is_inherited() { "I".into() } else if !r.is_present() { "M".into() }
    else { show_ip(&r.to_blocks().unwrap(), v4) }
}

fn show_asres(r: &AsResources) -> String {
    if r.is_inherited() { "I".into() } else if !r.is_present() { "M".into() }
    else { show_as(&r.to_blocks().unwrap()) }
}

fn opt_hex(b: Option<&[u8]>) -> String { match b { Some(b) => hex(b), None => "N".into() } }

fn b01(b: bool) -> char { if b { '1' } else { '0' } }

pub fn show_cert(c: &Cert) -> String { show_cert_mode(c, Mode::Der) }

pub fn show_cert_mode(c: &Cert, mode: Mode) -> String {
    let mut insp = String::new();
    for strict in [true, false] {
        insp.push(b01(c.inspect_ta(strict).is_ok()));
        insp.push(b01(c.inspect_ca(strict).is_ok()));
        insp.push(b01(c.inspect_ee(strict).is_ok()));
        insp.push(b01(c.inspect_detached_ee(strict).is_ok()));
        insp.push(b01(c.inspect_router(strict).is_ok()));
    }
    let aki = c.authority_key_identifier();
    let parts: Vec<String> = vec![
        "ok".into(),
        hex(&c.serial_number().into_array()),
        name_hex_mode(c.issuer(), mode),
        name_hex_mode(c.subject(), mode),
        c.validity().not_before().timestamp().to_string(),
        c.validity().not_after().timestamp().to_string(),
        if c.subject_public_key_info().allow_rpki_cert() { "r".into() } else { "e".into() },
        hex(c.subject_public_key_info().key_identifier().as_slice()),
        match c.basic_ca() { Some(true) => "T".into(), Some(false) => "F".into(), None => "N".into() },
        hex(c.subject_key_identifier().as_slice()),
        opt_hex(aki.as_ref().map(|k| k.as_slice())),
        match c.key_usage() { KeyUsage::Ca => "c".into(), KeyUsage::Ee => "e".into() },
        match c.extended_key_usage() { None => "N".into(), Some(e) => if e.inspect_router().is_ok() { "1".into() } else { "0".into() } },
        opt_hex(c.crl_uri().map(|u| u.as_slice())),
        opt_hex(c.ca_issuer().map(|u| u.as_slice())),
        opt_hex(c.ca_repository().map(|u| u.as_slice())),
        opt_hex(c.rpki_manifest().map(|u| u.as_slice())),
        opt_hex(c.signed_object().map(|u| u.as_slice())),
        opt_hex(c.rpki_notify().map(|u| u.as_slice())),
        b01(c.overclaim() == rpki::repository::cert::Overclaim::Trim).to_string(),
        show_ipres(c.v4_resources(), true),
        show_ipres(c.v6_resources(), false),
        show_asres(c.as_resources()),
        insp,
    ];
    parts.join(" ")
}

pub fn exec(toks: &[&str]) -> String {
    if toks.len() != 2 { return "bad-op".into() }
    let Some(data) = unhex(toks[1]) else { return "bad-op".into() };
    match Cert::decode(Bytes::from(data)) {
        Ok(c) => show_cert(&c),
        Err(_) => "err".into(),
    }
}

//------------ generation ----------------------------------------------------

/// the list of extension nodes of a certificate tree
fn exts(nodes: &mut Vec<Node>) -> Option<&mut Vec<Node>> {
    let tbs = nodes.get_mut(0)?.kids.as_mut()?.get_mut(0)?;
    let x = tbs.kids.as_mut()?.last_mut()?;
    if x.tag != 0xa3 { return None }
    x.kids.as_mut()?.get_mut(0)?.kids.as_mut()
}

fn tbs_kids(nodes: &mut Vec<Node>) -> Option<&mut Vec<Node>> {
    nodes.get_mut(0)?.kids.as_mut()?.get_mut(0)?.kids.as_mut()
}

fn prim(tag: u8, content: &[u8]) -> Node { Node { tag, kids: None, lead: vec![], content: content.to_vec(), long_len: false } }
fn cons(tag: u8, kids: Vec<Node>) -> Node { Node { tag, kids: Some(kids), lead: vec![], content: vec![], long_len: false } }
/// the values of `bytes` as nodes; a value whose content does not parse keeps it as opaque octets
fn raw(bytes: &[u8]) -> Vec<Node> {
    if let Some(n) = der::parse_nodes(bytes) { return n }
    let mut out = Vec::new();
    let mut off = 0;
    while off < bytes.len() {
        let Some((h, n)) = der::split_tlv(&bytes[off..]) else { break };
        let c = &bytes[off + h..off + h + n];
        let kids = if bytes[off] & 0x20 != 0 { der::parse_nodes(c) } else { None };
        out.push(Node { tag: bytes[off], kids, lead: vec![], content: c.to_vec(), long_len: false });
        off += h + n;
    }
    out
}

fn oid_node(arcs: &[u64]) -> Node { raw(&der::oid(arcs)).remove(0) }

fn ext_node(oid: &[u64], critical: Option<bool>, value: Vec<u8>) -> Node {
    let mut k = vec![oid_node(oid)];
    if let Some(c) = critical { k.push(prim(0x01, &[if c { 0xff } else { 0 }])); }
    k.push(prim(0x04, &value));
    cons(0x30, k)
}

/// Hand-made variations that reach the branches of the extension readers, the name readers and the outer
/// envelope; every enclosing length is written again.
pub fn structured(orig: &[u8]) -> Vec<Vec<u8>> {
    let mut out: Vec<Vec<u8>> = Vec::new();
    let Some(base) = der::parse_nodes(orig) else { return out };
    let mut push = |n: &Vec<Node>| out.push(der::encode_nodes(n));
    let n_ext = { let mut b = base.clone(); exts(&mut b).map(|e| e.len()).unwrap_or(0) };
    for i in 0..n_ext {
        // criticality: absent <-> TRUE, explicit FALSE, a BOOLEAN that is not DER
        for variant in 0..5 {
            let mut t = base.clone();
            let e = exts(&mut t).unwrap();
            let k = e[i].kids.as_mut().unwrap();
            let has = k.len() == 3;
            match variant {
                0 => { if has { k.remove(1); } else { k.insert(1, prim(0x01, &[0xff])); } }
                1 => { if has { k[1].content = vec![0]; } else { k.insert(1, prim(0x01, &[0])); } }
                2 => { if has { k[1].content = vec![1]; } else { k.insert(1, prim(0x01, &[1])); } }
                3 => { let n = e[i].clone(); e.insert(i, n); }                       // the extension twice
                _ => { e.remove(i); }                                                // the extension missing
            }
            push(&t);
        }
        // whatever follows the first value inside the OCTET STRING
        for tail in [&[0u8][..], &[0x05, 0x00], &[0x30, 0x80], &[0xff, 0xff, 0xff]] {
            let mut t = base.clone();
            let e = exts(&mut t).unwrap();
            let v = e[i].kids.as_mut().unwrap().last_mut().unwrap();
            let mut c = match &v.kids { Some(k) => der::encode_nodes(k), None => v.content.clone() };
            c.extend_from_slice(tail);
            v.kids = None; v.content = c;
            push(&t);
        }
        // the value wrapped once more / emptied
        {
            let mut t = base.clone();
            let e = exts(&mut t).unwrap();
            let v = e[i].kids.as_mut().unwrap().last_mut().unwrap();
            v.kids = None; v.content = vec![];
            push(&t);
        }
        // moved to the front and to the end
        {
            let mut t = base.clone();
            let e = exts(&mut t).unwrap();
            let x = e.remove(i); e.insert(0, x);
            push(&t);
            let mut t = base.clone();
            let e = exts(&mut t).unwrap();
            let x = e.remove(i); e.push(x);
            push(&t);
        }
    }
    // unknown extensions, critical or not, with any content
    for (crit, val) in [(None, vec![0x05u8, 0x00]), (Some(false), vec![]), (Some(true), vec![0x05, 0x00]), (None, vec![0xff; 3])] {
        for at_end in [false, true] {
            let mut t = base.clone();
            if let Some(e) = exts(&mut t) {
                let x = ext_node(&[1, 3, 6, 1, 4, 1, 99999, 1], crit, val.clone());
                if at_end { e.push(x) } else { e.insert(0, x) }
                push(&t);
            }
        }
    }
    // replacements for whole extensions
    let uri = |u: &str| der::ctx(6, false, u.as_bytes());
    let ad = |o: &[u64], gn: Vec<u8>| der::seq(&[der::oid(o), gn]);
    let mut repl: Vec<(&[u64], Option<bool>, Vec<u8>)> = Vec::new();
    // basic constraints
    for v in [der::seq(&[]), der::seq(&[der::boolean(false)]), der::seq(&[der::boolean(true), der::uint_u64(0)]),
              der::seq(&[der::uint_u64(3)]), der::seq(&[der::boolean(true), der::null()]), der::set_raw(&[der::boolean(true)])] {
        repl.push((pki::CE_BC, Some(true), v));
    }
    // key usage
    for (u, b) in [(1u8, vec![0x06u8]), (7, vec![0x80]), (0, vec![0x06]), (1, vec![0x86]), (2, vec![0x04]), (6, vec![0x80]),
                   (7, vec![0x80, 0x00]), (0, vec![]), (1, vec![0x06, 0x00]), (5, vec![0xa0]), (1, vec![0x02])] {
        repl.push((pki::CE_KU, Some(true), der::bits(u, &b)));
    }
    // key identifiers of other lengths, constructed forms
    for n in [0usize, 19, 21, 32] {
        repl.push((pki::CE_SKI, None, der::octets(&vec![7u8; n])));
        repl.push((pki::CE_AKI, None, der::seq(&[der::ctx(0, false, &vec![7u8; n])])));
    }
    repl.push((pki::CE_AKI, None, der::seq(&[])));
    repl.push((pki::CE_AKI, None, der::seq(&[der::ctx(0, false, &[7u8; 20]), der::ctx(2, false, &[1])])));
    repl.push((pki::CE_AKI, None, der::seq(&[der::ctx(1, true, &uri("rsync://h/m/x")), der::ctx(0, false, &[7u8; 20])])));
    repl.push((pki::CE_AKI, None, der::seq(&[der::ctx(0, true, &der::octets(&[7u8; 20]))])));
    // extended key usage
    repl.push((pki::CE_EKU, None, der::seq(&[])));
    repl.push((pki::CE_EKU, None, der::seq(&[der::oid(&[1, 3, 6, 1, 5, 5, 7, 3, 1])])));
    repl.push((pki::CE_EKU, None, der::seq(&[der::oid(&[1, 3, 6, 1, 5, 5, 7, 3, 1]), der::oid(pki::KP_BGPSEC_ROUTER)])));
    repl.push((pki::CE_EKU, None, der::seq(&[der::oid(pki::KP_BGPSEC_ROUTER), der::null()])));
    repl.push((pki::CE_EKU, None, der::seq(&[der::tlv(0x06, &[0x2b, 0x86])])));
    // CRL distribution points
    let dp = |names: Vec<Vec<u8>>| der::seq(&[der::seq(&[der::ctx(0, true, &der::ctx(0, true, &der::cat(&names)))])]);
    repl.push((pki::CE_CRLDP, None, dp(vec![uri("rsync://h/m/a.crl"), uri("https://h/a.crl")])));
    repl.push((pki::CE_CRLDP, None, dp(vec![uri("https://h/a.crl"), uri("rsync://h/m/a.crl")])));
    repl.push((pki::CE_CRLDP, None, dp(vec![uri("rsync://h/m/a.crl"), uri("rsync://h/m/b.crl")])));
    repl.push((pki::CE_CRLDP, None, dp(vec![uri("https://h/a.crl")])));
    repl.push((pki::CE_CRLDP, None, dp(vec![])));
    repl.push((pki::CE_CRLDP, None, dp(vec![uri("rsync://h/m/a\u{e9}.crl")])));
    repl.push((pki::CE_CRLDP, None, dp(vec![der::ctx(6, true, &der::octets(b"rsync://h/m/a.crl"))])));
    repl.push((pki::CE_CRLDP, None, dp(vec![uri("rsync://h/m/a.crl"), der::ctx(2, false, b"h")])));
    repl.push((pki::CE_CRLDP, None, dp(vec![uri("rsync://h/m/a/../b.crl")])));
    repl.push((pki::CE_CRLDP, None, dp(vec![uri("RSYNC://H/m/a.crl")])));
    repl.push((pki::CE_CRLDP, None, der::seq(&[der::seq(&[der::ctx(0, true, &der::ctx(0, true, &uri("rsync://h/m/a.crl")))]),
                                               der::seq(&[der::ctx(0, true, &der::ctx(0, true, &uri("rsync://h/m/b.crl")))])])));
    repl.push((pki::CE_CRLDP, None, der::seq(&[der::seq(&[der::ctx(0, true, &der::ctx(0, true, &uri("rsync://h/m/a.crl"))),
                                                          der::ctx(1, false, &[0])])])));
    repl.push((pki::CE_CRLDP, None, der::seq(&[der::seq(&[der::ctx(0, true, &der::ctx(1, true, &uri("rsync://h/m/a.crl")))])])));
    // authority information access
    repl.push((pki::PE_AIA, None, der::seq(&[ad(pki::AD_CA_ISSUERS, uri("rsync://h/m/i.cer")), ad(pki::AD_CA_ISSUERS, uri("rsync://h/m/j.cer"))])));
    repl.push((pki::PE_AIA, None, der::seq(&[der::seq(&[der::oid(pki::AD_CA_ISSUERS), uri("https://h/i.cer"), uri("rsync://h/m/i.cer")])])));
    repl.push((pki::PE_AIA, None, der::seq(&[ad(pki::AD_CA_REPOSITORY, uri("rsync://h/m/i.cer"))])));
    repl.push((pki::PE_AIA, None, der::seq(&[ad(pki::AD_CA_ISSUERS, uri("https://h/i.cer"))])));
    repl.push((pki::PE_AIA, None, der::seq(&[])));
    // subject information access
    let unknown_ad: &[u64] = &[1, 3, 6, 1, 5, 5, 7, 48, 99];
    repl.push((pki::PE_SIA, None, der::seq(&[])));
    repl.push((pki::PE_SIA, None, der::seq(&[ad(unknown_ad, uri("x"))])));
    repl.push((pki::PE_SIA, None, der::seq(&[der::seq(&[der::oid(unknown_ad)])])));
    repl.push((pki::PE_SIA, None, der::seq(&[der::seq(&[der::oid(unknown_ad), der::seq(&[der::null(), der::tlv(0x30, &[0x30, 0x80, 0x05, 0x00, 0x00, 0x00])])])])));
    repl.push((pki::PE_SIA, None, der::seq(&[der::seq(&[der::oid(unknown_ad), der::tlv(0x30, &[0x05, 0x01])])])));
    repl.push((pki::PE_SIA, None, der::seq(&[ad(pki::AD_CA_REPOSITORY, uri("rsync://h/m/1/")), ad(pki::AD_CA_REPOSITORY, uri("rsync://h/m/2/")),
        ad(pki::AD_RPKI_MANIFEST, uri("https://h/m.mft")), ad(pki::AD_RPKI_MANIFEST, uri("rsync://h/m/1/m.mft")),
        ad(pki::AD_RPKI_NOTIFY, uri("rsync://h/m/n.xml")), ad(pki::AD_RPKI_NOTIFY, uri("https://h/n.xml")), ad(pki::AD_RPKI_NOTIFY, uri("https://h/o.xml"))])));
    repl.push((pki::PE_SIA, None, der::seq(&[ad(pki::AD_SIGNED_OBJECT, uri("http://h/o.roa")), ad(pki::AD_SIGNED_OBJECT, uri("rsync://h/m/o.roa"))])));
    repl.push((pki::PE_SIA, None, der::seq(&[der::seq(&[der::oid(pki::AD_SIGNED_OBJECT), uri("rsync://h/m/o.roa"), uri("rsync://h/m/p.roa")])])));
    repl.push((pki::PE_SIA, None, der::seq(&[der::seq(&[der::oid(pki::AD_SIGNED_OBJECT), der::ctx(2, false, b"h")])])));
    repl.push((pki::PE_SIA, None, der::seq(&[ad(pki::AD_SIGNED_OBJECT, uri("rsync://h/m/o\u{80}.roa"))])));
    repl.push((pki::PE_SIA, None, der::seq(&[ad(pki::AD_SIGNED_OBJECT, uri("rsync://h/m//o.roa"))])));
    // certificate policies
    let qual = der::seq(&[der::seq(&[der::oid(&[1, 3, 6, 1, 5, 5, 7, 2, 1]), der::ia5(b"https://h/cps")])]);
    repl.push((pki::CE_POLICIES, Some(true), der::seq(&[der::seq(&[der::oid(pki::CP_RESOURCES), qual.clone()])])));
    repl.push((pki::CE_POLICIES, Some(true), der::seq(&[der::seq(&[der::oid(pki::CP_RESOURCES_V2), der::tlv(0x30, &[0x30, 0x80, 0x00, 0x00])])])));
    repl.push((pki::CE_POLICIES, Some(true), der::seq(&[der::seq(&[der::oid(pki::CP_RESOURCES), der::tlv(0x30, &[0x30, 0x80, 0x00])])])));
    repl.push((pki::CE_POLICIES, Some(true), der::seq(&[der::seq(&[der::oid(pki::CP_RESOURCES), der::tlv(0x30, &[0x00, 0x00])])])));
    repl.push((pki::CE_POLICIES, Some(true), der::seq(&[der::seq(&[der::oid(pki::CP_RESOURCES)]), der::seq(&[der::oid(pki::CP_RESOURCES_V2)])])));
    repl.push((pki::CE_POLICIES, Some(true), der::seq(&[der::seq(&[der::oid(&[2, 5, 29, 32, 0])])])));
    repl.push((pki::CE_POLICIES, Some(true), der::seq(&[])));
    // IP resources
    let fam = |afi: &[u8], v: Vec<u8>| der::seq(&[der::octets(afi), v]);
    let p4 = der::bits(0, &[10]);
    let p6 = der::bits(0, &[0x20, 0x01, 0x0d, 0xb8]);
    for oid in [pki::PE_IP, pki::PE_IP_V2] {
        repl.push((oid, Some(true), der::seq(&[fam(&[0, 1], der::seq(&[p4.clone()])), fam(&[0, 1], der::null())])));
        repl.push((oid, Some(true), der::seq(&[fam(&[0, 2], der::seq(&[p6.clone()])), fam(&[0, 1], der::seq(&[p4.clone()]))])));
        repl.push((oid, Some(true), der::seq(&[fam(&[0, 1, 1], der::seq(&[p4.clone()]))])));
        repl.push((oid, Some(true), der::seq(&[fam(&[0, 3], der::seq(&[p4.clone()]))])));
        repl.push((oid, Some(true), der::seq(&[])));
        repl.push((oid, Some(true), der::seq(&[fam(&[0, 1], der::seq(&[]))])));
        repl.push((oid, Some(true), der::seq(&[fam(&[0, 1], der::seq(&[der::bits(0, &[10, 0, 0, 0, 0])]))])));
        repl.push((oid, Some(true), der::seq(&[fam(&[0, 1], der::seq(&[der::bits(7, &[10, 0, 0, 0, 0x80])]))])));
        repl.push((oid, Some(true), der::seq(&[fam(&[0, 2], der::seq(&[der::bits(0, &[0x20; 16]), der::bits(1, &[0x20; 16])]))])));
        repl.push((oid, Some(true), der::seq(&[fam(&[0, 1], der::seq(&[der::seq(&[der::bits(0, &[10, 0, 0, 5]), der::bits(0, &[10, 0, 0, 3])])]))])));
        repl.push((oid, Some(true), der::seq(&[fam(&[0, 1], der::seq(&[der::seq(&[der::bits(0, &[10, 0, 0, 1]), der::bits(0, &[10, 0, 0, 3])]), p4.clone(),
            der::seq(&[der::bits(1, &[10, 0, 0, 4]), der::bits(0, &[11])])]))])));
        repl.push((oid, Some(true), der::seq(&[fam(&[0, 1], der::null()), fam(&[0, 2], der::tlv(0x05, &[0]))])));
        repl.push((oid, Some(true), der::seq(&[fam(&[0, 1], der::tlv(0x25, &[]))])));
        repl.push((oid, None, der::seq(&[fam(&[0, 1], der::seq(&[p4.clone()]))])));
    }
    for oid in [pki::PE_AS, pki::PE_AS_V2] {
        repl.push((oid, Some(true), der::seq(&[der::ctx(0, true, &der::seq(&[]))])));
        repl.push((oid, Some(true), der::seq(&[der::ctx(0, true, &der::seq(&[der::uint_u64(5), der::seq(&[der::uint_u64(7), der::uint_u64(6)])]))])));
        repl.push((oid, Some(true), der::seq(&[der::ctx(0, true, &der::seq(&[der::uint_u64(5), der::seq(&[der::uint_u64(1), der::uint_u64(4)]), der::uint_u64(6)]))])));
        repl.push((oid, Some(true), der::seq(&[der::ctx(0, true, &der::seq(&[der::uint_u64(1 << 32)]))])));
        repl.push((oid, Some(true), der::seq(&[der::ctx(1, true, &der::null())])));
        repl.push((oid, Some(true), der::seq(&[der::ctx(0, true, &der::null()), der::ctx(1, true, &der::null())])));
        repl.push((oid, Some(true), der::seq(&[])));
    }
    for (oid, crit, val) in repl {
        let mut t = base.clone();
        let Some(e) = exts(&mut t) else { break };
        let want = raw(&der::oid(oid));
        let pos = e.iter().position(|x| x.kids.as_ref().and_then(|k| k.first()).map(|o| o.content == want[0].content).unwrap_or(false));
        let x = ext_node(oid, crit, val);
        match pos { Some(p) => e[p] = x, None => { let at = e.len().saturating_sub(1); e.insert(at, x) } }
        push(&t);
    }
    // --- the TBS fields in front of the extensions
    let name_of = |attrs: Vec<Vec<u8>>| der::seq(&[der::set_raw(&attrs)]);
    let atv = |o: &[u64], v: Vec<u8>| der::seq(&[der::oid(o), v]);
    let names: Vec<Vec<u8>> = vec![
        name_of(vec![atv(pki::CN, der::printable(b"A b-9"))]),
        name_of(vec![atv(pki::CN, der::printable(b"A_b"))]),
        name_of(vec![atv(pki::CN, der::utf8("caf\u{e9}".as_bytes()))]),
        name_of(vec![atv(pki::CN, der::utf8(&[0xc0, 0x80]))]),
        name_of(vec![atv(pki::CN, der::utf8(&[0xe0, 0x80, 0x80]))]),
        name_of(vec![atv(pki::CN, der::utf8(&[0xed, 0xa0, 0x80]))]),
        name_of(vec![atv(pki::CN, der::utf8(&[0xf4, 0x90, 0x80, 0x80]))]),
        name_of(vec![atv(pki::CN, der::utf8(&[0xf0, 0x9f, 0x98, 0x80]))]),
        name_of(vec![atv(pki::CN, der::utf8(&[0xc3, 0xff]))]),
        name_of(vec![atv(pki::CN, der::utf8(&[0xf8, 0x88, 0x80, 0x80]))]),
        name_of(vec![atv(pki::CN, der::utf8(&[0xc3]))]),
        name_of(vec![atv(pki::CN, der::ia5(b"abc"))]),
        name_of(vec![atv(pki::CN, der::printable(b"A")), atv(&[2, 5, 4, 5], der::printable(b"12"))]),
        name_of(vec![atv(&[2, 5, 4, 5], der::printable(b"12"))]),
        name_of(vec![atv(pki::CN, der::printable(b"A")), atv(pki::CN, der::printable(b"B"))]),
        name_of(vec![atv(pki::CN, der::printable(b"A")), atv(&[2, 5, 4, 10], der::printable(b"Org"))]),
        name_of(vec![atv(pki::CN, der::tlv(0x30, &[0x30, 0x80, 0x05, 0x00, 0x00, 0x00]))]),
        name_of(vec![atv(pki::CN, der::tlv(0x33, &[0x13, 0x01, 0x41]))]),
        name_of(vec![der::seq(&[der::oid(pki::CN)])]),
        name_of(vec![der::seq(&[der::oid(pki::CN), der::printable(b"A"), der::null()])]),
        name_of(vec![]),
        der::seq(&[]),
        der::seq(&[der::set_raw(&[atv(pki::CN, der::printable(b"A"))]), der::set_raw(&[atv(&[2, 5, 4, 5], der::printable(b"7"))])]),
        der::seq(&[der::set_raw(&[atv(pki::CN, der::printable(b"A"))]), der::seq(&[])]),
        name_of(vec![atv(pki::CN, der::tlv(0x1f, &[]))]),
        name_of(vec![atv(pki::CN, vec![0x1f, 0x81, 0x01, 0x00])]),
        name_of(vec![atv(pki::CN, vec![0x1f, 0x81, 0x81, 0x81, 0x81, 0x00])]),
    ];
    for which in [3usize, 5] {
        for nm in &names {
            let mut t = base.clone();
            if let Some(k) = tbs_kids(&mut t) { if k.len() > which { let r = raw(nm); if r.len() == 1 { k[which] = r.into_iter().next().unwrap(); push(&t); } } }
        }
    }
    // version, serial, inner and outer algorithm identifier, validity, key
    let alg_variants: Vec<Vec<u8>> = vec![
        der::seq(&[der::oid(pki::SHA256_RSA)]),
        der::seq(&[der::oid(pki::SHA256_RSA), der::null()]),
        der::seq(&[der::oid(pki::SHA256_RSA), der::tlv(0x05, &[0])]),
        der::seq(&[der::oid(pki::SHA256_RSA), der::null(), der::null()]),
        der::seq(&[der::oid(pki::RSA), der::null()]),
        der::seq(&[der::oid(pki::SHA256_RSA), der::tlv(0x25, &[])]),
        der::seq(&[der::oid(pki::SHA256_RSA), der::seq(&[])]),
    ];
    for a in &alg_variants {
        let mut t = base.clone();
        if let Some(k) = tbs_kids(&mut t) { if k.len() > 2 { k[2] = raw(a).remove(0); push(&t); } }
        let mut t = base.clone();
        if let Some(k) = t.get_mut(0).and_then(|c| c.kids.as_mut()) { if k.len() > 1 { k[1] = raw(a).remove(0); push(&t); } }
        let mut t = base.clone();
        if let (Some(_), true) = (tbs_kids(&mut t), true) {
            tbs_kids(&mut t).unwrap()[2] = raw(a).remove(0);
            t[0].kids.as_mut().unwrap()[1] = raw(a).remove(0);
            push(&t);
        }
    }
    for v in [der::ctx(0, true, &der::uint_u64(1)), der::ctx(0, true, &der::tlv(0x02, &[0, 2])), der::ctx(0, true, &der::cat(&[der::uint_u64(2), der::null()])),
              der::ctx(0, false, &[2]), der::ctx(1, true, &der::uint_u64(2)), der::ctx(0, true, &[])] {
        let mut t = base.clone();
        if let Some(k) = tbs_kids(&mut t) { let r = raw(&v); if r.len() == 1 { k[0] = r.into_iter().next().unwrap(); push(&t); } }
    }
    { let mut t = base.clone(); if let Some(k) = tbs_kids(&mut t) { k.remove(0); push(&t); } }
    let times: Vec<Vec<u8>> = vec![
        der::seq(&[der::utc_time(1999, 12, 31, 23, 59, 59), der::gen_time(2050, 1, 1, 0, 0, 0)]),
        der::seq(&[der::gen_time(2049, 12, 31, 23, 59, 59), der::utc_time(2049, 12, 31, 23, 59, 59)]),
        der::seq(&[der::utc_time(1950, 1, 1, 0, 0, 0), der::gen_time(9999, 12, 31, 23, 59, 59)]),
        der::seq(&[der::gen_time(1, 1, 1, 0, 0, 0), der::gen_time(1969, 12, 31, 23, 59, 59)]),
        der::seq(&[der::gen_time(2024, 2, 29, 12, 0, 0), der::gen_time(2100, 2, 28, 12, 0, 0)]),
        der::seq(&[der::gen_time(2023, 2, 29, 12, 0, 0), der::gen_time(2100, 2, 28, 12, 0, 0)]),
        der::seq(&[der::gen_time(2024, 2, 29, 12, 0, 0), der::gen_time(2100, 2, 29, 12, 0, 0)]),
        der::seq(&[der::gen_time(2024, 2, 29, 12, 0, 60), der::gen_time(2100, 2, 28, 12, 0, 0)]),
        der::seq(&[der::gen_time(2024, 2, 29, 12, 0, 0)]),
        der::seq(&[der::gen_time(2024, 2, 29, 12, 0, 0), der::gen_time(2025, 1, 1, 0, 0, 0), der::gen_time(2026, 1, 1, 0, 0, 0)]),
        der::seq(&[der::tlv(0x37, &der::utc_time(2020, 1, 1, 0, 0, 0)[2..]), der::gen_time(2025, 1, 1, 0, 0, 0)]),
        der::seq(&[der::gen_time(2030, 1, 1, 0, 0, 0), der::gen_time(2025, 1, 1, 0, 0, 0)]),
    ];
    for v in &times {
        let mut t = base.clone();
        if let Some(k) = tbs_kids(&mut t) { if k.len() > 4 { let r = raw(v); if r.len() == 1 { k[4] = r.into_iter().next().unwrap(); push(&t); } } }
    }
    let ec = |params: Vec<u8>, bits: Vec<u8>| der::seq(&[der::seq(&[der::oid(&[1, 2, 840, 10045, 2, 1]), params]), bits]);
    let rsa = |tail: Vec<Vec<u8>>, bits: Vec<u8>| { let mut a = vec![der::oid(pki::RSA)]; a.extend(tail); der::seq(&[der::seq(&a), bits]) };
    let keys: Vec<Vec<u8>> = vec![
        ec(der::oid(&[1, 2, 840, 10045, 3, 1, 7]), der::bits(0, &[4u8; 65])),
        ec(der::oid(&[1, 3, 132, 0, 34]), der::bits(0, &[4u8; 65])),
        ec(der::null(), der::bits(0, &[4u8; 65])),
        rsa(vec![], der::bits(0, &[1, 2, 3])),
        rsa(vec![der::null()], der::bits(3, &[1, 2, 0xf8])),
        rsa(vec![der::null()], der::bits(0, &[])),
        rsa(vec![der::null(), der::null()], der::bits(0, &[1])),
        rsa(vec![der::oid(pki::RSA)], der::bits(0, &[1])),
        rsa(vec![der::null()], der::octets(&[1])),
        rsa(vec![der::null()], der::tlv(0x23, &der::bits(0, &[1]))),
        der::seq(&[der::seq(&[der::oid(&[1, 2, 840, 10045, 4, 3, 2])]), der::bits(0, &[1])]),
    ];
    for v in &keys {
        let mut t = base.clone();
        if let Some(k) = tbs_kids(&mut t) { if k.len() > 6 { let r = raw(v); if r.len() == 1 { k[6] = r.into_iter().next().unwrap(); push(&t); } } }
    }
    // outer envelope: what follows the certificate, the TBS in other forms, signature bit strings
    { let mut d = orig.to_vec(); d.extend_from_slice(&[0x05, 0x00]); out.push(d); }
    { let mut d = orig.to_vec(); d.push(0xff); out.push(d); }
    for sig in [der::bits(0, &[]), der::bits(7, &[0x80]), der::bits(3, &[0xff]), der::octets(&[1, 2, 3]), der::tlv(0x23, &der::bits(0, &[1]))] {
        let mut t = base.clone();
        if let Some(k) = t.get_mut(0).and_then(|c| c.kids.as_mut()) { if k.len() > 2 { k[2] = raw(&sig).remove(0); out.push(der::encode_nodes(&t)); } }
    }
    { let mut t = base.clone(); if let Some(k) = t.get_mut(0).and_then(|c| c.kids.as_mut()) { k.push(prim(0x05, &[])); out.push(der::encode_nodes(&t)); } }
    { let mut t = base.clone(); if let Some(k) = t.get_mut(0).and_then(|c| c.kids.as_mut()) { if !k.is_empty() { k[0].tag = 0x31; out.push(der::encode_nodes(&t)); } } }
    // the TBS as an indefinite-length value (capture_one skips it, the TBS reader refuses it)
    if let Some((h, n)) = der::split_tlv(orig) {
        let body = &orig[h..h + n];
        if let Some((th, tn)) = der::split_tlv(body) {
            let mut inner = vec![0x30u8, 0x80];
            inner.extend_from_slice(&body[th..th + tn]);
            inner.extend_from_slice(&[0, 0]);
            inner.extend_from_slice(&body[th + tn..]);
            out.push(der::tlv(0x30, &inner));
        }
    }
    out
}

/// Certificates of every kind from the independent encoder (valid by construction).
pub fn cert_seeds(pool: &Pool) -> Vec<Vec<u8>> {
    let mut v = Vec::new();
    let mut ta = pool.spec(0, 0, Kind::Ta);
    ta.v4 = Res::Blocks(vec![(0x0A00_0000, 0x0AFF_FFFF), (0xC000_0201, 0xC000_02F0)]);
    ta.v6 = Res::Blocks(vec![(0x2001_0db8u128 << 96, (0x2001_0db8u128 << 96) | 0xffff)]);
    ta.asn = Res::Blocks(vec![(0, 5), (64496, 64511), (4294967295, 4294967295)]);
    ta.rpki_notify = Some("https://h/n.xml".into());
    v.push(pool.issue(&ta, 0));
    let mut ca = pool.spec(1, 0, Kind::Ca);
    ca.trim = true; ca.v4 = Res::Inherit; ca.v6 = Res::Blocks(vec![(0, u128::MAX)]); ca.asn = Res::Blocks(vec![]);
    v.push(pool.issue(&ca, 0));
    let mut ee = pool.spec(2, 1, Kind::Ee);
    ee.v4 = Res::Inherit; ee.asn = Res::Inherit;
    v.push(pool.issue(&ee, 1));
    let mut rt = pool.spec(2, 1, Kind::Router);
    rt.spki = pool.ec_spki.clone(); rt.ski = pool.ec_ski.clone(); rt.asn = Res::Blocks(vec![(64496, 64496)]);
    rt.subject = "ROUTER-0000FBF0".into();
    v.push(pool.issue(&rt, 1));
    for path in ["repository/ta.cer", "repository/ca1.cer", "repository/router.cer", "compat/res_incorrect.cer"] {
        if let Ok(b) = std::fs::read(format!("/repo/test-data/{}", path)) { v.push(b); }
    }
    v
}

pub fn generate_into(ctx: &mut Ctx, mutate: &dyn Fn(&mut Rng, &[u8], &[Vec<u8>]) -> Vec<u8>, systematic: &dyn Fn(&[u8]) -> Vec<Vec<u8>>) {
    let mut rng = Rng::new(ctx.seed ^ 0xCE47D);
    let pool = Pool::new(3);
    let seeds = cert_seeds(&pool);
    let per = if ctx.id == "C01" { if ctx.tier_thorough { 400 } else { 40 } } else if ctx.tier_thorough { 3000 } else { 300 };
    for data in &seeds {
        ctx.case(&format!("certd {}", hex(data)));
        for d in structured(data) { ctx.case(&format!("certd {}", hex(&d))); }
        for d in systematic(data) { ctx.case(&format!("certd {}", hex(&d))); }
        for _ in 0..per {
            let mut d = mutate(&mut rng, data, &seeds);
            if rng.chance(1, 5) { d = mutate(&mut rng, &d, &seeds); }
            if d.len() > 20_000 { d.truncate(20_000); }
            ctx.case(&format!("certd {}", hex(&d)));
        }
    }
}

//============ cmsd: SignedObject::decode (strict) against Model/CmsDer.lean =====================

use rpki::repository::aspa::Aspa;
use rpki::repository::manifest::Manifest;
use rpki::repository::roa::Roa;
use rpki::repository::sigobj::SignedObject;

/// `cmsd <ty> <hex>` => `<typed decode ok|err> <SignedObject fields | err>`
pub fn exec_cms(toks: &[&str]) -> String {
    if toks.len() != 3 { return "bad-op".into() }
    let Some(data) = unhex(toks[2]) else { return "bad-op".into() };
    let b = Bytes::from(data);
    let typed = match toks[1] {
        "so" => SignedObject::decode(b.clone(), true).is_ok(),
        "roa" => Roa::decode(b.clone(), true).is_ok(),
        "aspa" => Aspa::decode(b.clone(), true).is_ok(),
        "mft" => Manifest::decode(b.clone(), true).is_ok(),
        _ => return "bad-op".into(),
    };
    let so = match SignedObject::decode(b, true) {
        Ok(o) => format!("ok {} {} {} | {}", hex(o.content_type().as_ref()), hex(&o.content().to_bytes()),
                         o.signing_time().timestamp(), show_cert(o.cert())),
        Err(_) => "err".into(),
    };
    format!("{} {}", if typed { "ok" } else { "err" }, so)
}

/// SignedData children of a CMS tree: [version, digestAlgorithms, encapContentInfo, [0] certificates, signerInfos]
fn sd_kids(nodes: &mut Vec<Node>) -> Option<&mut Vec<Node>> {
    let ci = nodes.get_mut(0)?.kids.as_mut()?;
    let c0 = ci.get_mut(1)?.kids.as_mut()?;
    c0.get_mut(0)?.kids.as_mut()
}

/// SignerInfo children: [version, sid, digestAlgorithm, [0] signedAttrs, signatureAlgorithm, signature]
fn si_kids(nodes: &mut Vec<Node>) -> Option<&mut Vec<Node>> {
    let sd = sd_kids(nodes)?;
    let sis = sd.last_mut()?.kids.as_mut()?;
    sis.get_mut(0)?.kids.as_mut()
}

fn one(bytes: &[u8]) -> Option<Node> { let r = raw(bytes); if r.len() == 1 { r.into_iter().next() } else { None } }

pub fn structured_cms(orig: &[u8]) -> Vec<Vec<u8>> {
    let mut out: Vec<Vec<u8>> = Vec::new();
    let Some(base) = der::parse_nodes(orig) else { return out };
    { let mut t = base.clone(); if sd_kids(&mut t).map(|k| k.len()).unwrap_or(0) < 5 { return out } }
    let attr = |o: &[u64], v: Vec<u8>| pki::attr(o, v);
    // --- SignedData level
    let sd_repl: Vec<(usize, Vec<u8>)> = vec![
        (0, der::uint_u64(1)), (0, der::uint_u64(4)), (0, der::tlv(0x02, &[0, 3])), (0, der::tlv(0x02, &[])),
        (1, der::set_raw(&[])), (1, der::set_raw(&[der::seq(&[der::oid(pki::SHA256)]), der::seq(&[der::oid(pki::SHA256)])])),
        (1, der::set_raw(&[der::seq(&[der::oid(pki::SHA256), der::null()])])),
        (1, der::set_raw(&[der::seq(&[der::oid(pki::SHA256), der::null(), der::null()])])),
        (1, der::set_raw(&[der::seq(&[der::oid(&[1, 3, 14, 3, 2, 26])])])),
        (1, der::seq(&[der::seq(&[der::oid(pki::SHA256)])])),
        (2, der::seq(&[der::oid(pki::CT_ROA)])),
        (2, der::seq(&[der::oid(pki::CT_ROA), der::ctx(0, true, &[])])),
        (2, der::seq(&[der::oid(pki::CT_GBR), der::ctx(0, true, &der::octets(b"x"))])),
        (2, der::seq(&[der::oid(pki::CT_GBR), der::ctx(0, true, &der::cat(&[der::octets(b"x"), der::octets(b"y")]))])),
        (2, der::seq(&[der::oid(pki::CT_GBR), der::ctx(0, true, &der::tlv(0x24, &der::octets(b"x")))])),
        (2, der::seq(&[der::oid(pki::CT_GBR), der::ctx(0, false, b"x")])),
        (2, der::seq(&[der::oid(pki::CT_GBR), der::ctx(0, true, &der::octets(b"x")), der::null()])),
        (2, der::seq(&[der::tlv(0x06, &[0x2a, 0x86]), der::ctx(0, true, &der::octets(b"x"))])),
        (3, der::ctx(0, true, &[])), (3, der::ctx(1, true, &der::seq(&[]))), (3, der::ctx(0, false, &[1, 2, 3])),
        (4, der::set_raw(&[])), (4, der::seq(&[])),
    ];
    for (i, v) in &sd_repl {
        let mut t = base.clone();
        if let (Some(k), Some(n)) = (sd_kids(&mut t), one(v)) { if k.len() > *i { k[*i] = n; out.push(der::encode_nodes(&t)); } }
    }
    // two certificates, a CRL set after the certificates, two signer infos, an element after the signer infos
    { let mut t = base.clone(); if let Some(k) = sd_kids(&mut t) { if let Some(c) = k[3].kids.as_mut() { if let Some(f) = c.first().cloned() { c.push(f); out.push(der::encode_nodes(&t)); } } } }
    { let mut t = base.clone(); if let Some(k) = sd_kids(&mut t) { k.insert(4, cons(0xa1, vec![])); out.push(der::encode_nodes(&t)); } }
    { let mut t = base.clone(); if let Some(k) = sd_kids(&mut t) { if let Some(s) = k.last_mut().and_then(|x| x.kids.as_mut()) { if let Some(f) = s.first().cloned() { s.push(f); out.push(der::encode_nodes(&t)); } } } }
    { let mut t = base.clone(); if let Some(k) = sd_kids(&mut t) { k.push(prim(0x05, &[])); out.push(der::encode_nodes(&t)); } }
    { let mut t = base.clone(); if let Some(k) = sd_kids(&mut t) { k.remove(3); out.push(der::encode_nodes(&t)); } }
    // --- SignerInfo level
    let si_repl: Vec<(usize, Vec<u8>)> = vec![
        (0, der::uint_u64(1)), (0, der::tlv(0x02, &[0, 3])),
        (1, der::ctx(0, false, &[7u8; 19])), (1, der::ctx(0, false, &[7u8; 21])), (1, der::ctx(0, true, &der::octets(&[7u8; 20]))),
        (1, der::seq(&[pki::name("x"), der::uint_u64(1)])), (1, der::octets(&[7u8; 20])),
        (2, der::seq(&[der::oid(pki::SHA256), der::null()])), (2, der::seq(&[der::oid(&[1, 3, 14, 3, 2, 26])])), (2, der::seq(&[])),
        (4, der::seq(&[der::oid(pki::RSA)])), (4, der::seq(&[der::oid(pki::SHA256_RSA), der::null()])), (4, der::seq(&[der::oid(pki::SHA256_RSA)])),
        (4, der::seq(&[der::oid(pki::SHA256)])), (4, der::seq(&[der::oid(pki::RSA), der::null(), der::null()])),
        (4, der::seq(&[der::oid(pki::RSA), der::tlv(0x05, &[0])])),
        (5, der::octets(&[])), (5, der::tlv(0x24, &der::octets(&[1, 2]))), (5, der::bits(0, &[1, 2])),
    ];
    for (i, v) in &si_repl {
        let mut t = base.clone();
        if let (Some(k), Some(n)) = (si_kids(&mut t), one(v)) { if k.len() > *i { k[*i] = n; out.push(der::encode_nodes(&t)); } }
    }
    { let mut t = base.clone(); if let Some(k) = si_kids(&mut t) { k.push(cons(0xa1, vec![])); out.push(der::encode_nodes(&t)); } }
    { let mut t = base.clone(); if let Some(k) = si_kids(&mut t) { if k.len() > 3 { k.remove(3); out.push(der::encode_nodes(&t)); } } }
    // --- signed attributes: every subset, order, duplicate, foreign attributes, values of the wrong shape
    let ct_oid: Vec<u64> = {
        // eContentType of the object
        let mut t = base.clone();
        let c = sd_kids(&mut t).and_then(|k| k[2].kids.as_ref().and_then(|e| e.first().map(|o| o.content.clone()))).unwrap_or_default();
        // back to arcs is not needed: attributes are assembled from raw octets below
        let _ = c; vec![]
    };
    let _ = ct_oid;
    let (cur_attrs, ct_raw): (Vec<Node>, Vec<u8>) = {
        let mut t = base.clone();
        let ct = sd_kids(&mut t).and_then(|k| k[2].kids.as_ref().and_then(|e| e.first().map(|o| der::tlv(0x06, &o.content)))).unwrap_or_default();
        (si_kids(&mut t).and_then(|k| k.get(3).and_then(|a| a.kids.clone())).unwrap_or_default(), ct)
    };
    let find = |o: &[u64]| -> Option<Node> {
        let want = der::oid(o);
        cur_attrs.iter().find(|a| a.kids.as_ref().and_then(|k| k.first()).map(|x| der::tlv(0x06, &x.content) == want).unwrap_or(false)).cloned()
    };
    let (a_ct, a_md, a_st) = (find(pki::AT_CONTENT_TYPE), find(pki::AT_MESSAGE_DIGEST), find(pki::AT_SIGNING_TIME));
    if let (Some(a_ct), Some(a_md), Some(a_st)) = (a_ct, a_md, a_st) {
        let n = |b: Vec<u8>| one(&b).unwrap();
        let bst = n(attr(pki::AT_BINARY_SIGNING_TIME, der::uint_u64(1_700_000_000)));
        let unk = n(attr(&[1, 2, 3, 4], der::null()));
        let sets: Vec<Vec<Node>> = vec![
            vec![a_md.clone(), a_st.clone(), a_ct.clone()], vec![a_st.clone(), a_ct.clone(), a_md.clone()],
            vec![a_ct.clone(), a_md.clone()], vec![a_ct.clone(), a_st.clone()], vec![a_md.clone(), a_st.clone()], vec![],
            vec![a_ct.clone(), a_ct.clone(), a_md.clone(), a_st.clone()], vec![a_ct.clone(), a_md.clone(), a_md.clone(), a_st.clone()],
            vec![a_ct.clone(), a_md.clone(), a_st.clone(), a_st.clone()],
            vec![a_ct.clone(), a_md.clone(), a_st.clone(), bst.clone()], vec![a_ct.clone(), a_md.clone(), a_st.clone(), unk.clone()],
            vec![unk.clone(), a_ct.clone(), a_md.clone(), a_st.clone()],
            vec![n(attr(pki::AT_CONTENT_TYPE, der::oid(pki::CT_GBR))), a_md.clone(), a_st.clone()],
            vec![n(attr(pki::AT_CONTENT_TYPE, der::oid(pki::CT_ROA))), a_md.clone(), a_st.clone()],
            vec![n(der::seq(&[der::oid(pki::AT_CONTENT_TYPE), der::set_raw(&[ct_raw.clone(), ct_raw.clone()])])), a_md.clone(), a_st.clone()],
            vec![n(der::seq(&[der::oid(pki::AT_CONTENT_TYPE), der::set_raw(&[])])), a_md.clone(), a_st.clone()],
            vec![n(der::seq(&[der::oid(pki::AT_CONTENT_TYPE), der::seq(&[ct_raw.clone()])])), a_md.clone(), a_st.clone()],
            vec![n(der::seq(&[der::oid(pki::AT_CONTENT_TYPE), der::set_raw(&[ct_raw.clone()]), der::null()])), a_md.clone(), a_st.clone()],
            vec![a_ct.clone(), n(attr(pki::AT_MESSAGE_DIGEST, der::octets(&[]))), a_st.clone()],
            vec![a_ct.clone(), n(attr(pki::AT_MESSAGE_DIGEST, der::octets(&[0u8; 31]))), a_st.clone()],
            vec![a_ct.clone(), n(attr(pki::AT_MESSAGE_DIGEST, der::tlv(0x24, &der::octets(&[0u8; 32])))), a_st.clone()],
            vec![a_ct.clone(), a_md.clone(), n(attr(pki::AT_SIGNING_TIME, der::gen_time(2024, 2, 29, 1, 2, 3)))],
            vec![a_ct.clone(), a_md.clone(), n(attr(pki::AT_SIGNING_TIME, der::utc_time(1950, 1, 1, 0, 0, 0)))],
            vec![a_ct.clone(), a_md.clone(), n(attr(pki::AT_SIGNING_TIME, der::gen_time(2023, 2, 29, 1, 2, 3)))],
            vec![a_ct.clone(), a_md.clone(), n(attr(pki::AT_SIGNING_TIME, der::uint_u64(5)))],
        ];
        for set in sets {
            let mut t = base.clone();
            if let Some(k) = si_kids(&mut t) { if k.len() > 3 { k[3].kids = Some(set); out.push(der::encode_nodes(&t)); } }
        }
        // the attribute set as a primitive, as a SET
        for tag in [0x80u8, 0x31, 0xa1] {
            let mut t = base.clone();
            if let Some(k) = si_kids(&mut t) { if k.len() > 3 { k[3].tag = tag; out.push(der::encode_nodes(&t)); } }
        }
    }
    // --- ContentInfo
    { let mut t = base.clone(); if let Some(ci) = t.get_mut(0).and_then(|c| c.kids.as_mut()) { ci[0] = oid_node(&[1, 2, 840, 113549, 1, 7, 1]); out.push(der::encode_nodes(&t)); } }
    { let mut t = base.clone(); if let Some(ci) = t.get_mut(0).and_then(|c| c.kids.as_mut()) { ci.push(prim(0x05, &[])); out.push(der::encode_nodes(&t)); } }
    { let mut t = base.clone(); if let Some(ci) = t.get_mut(0).and_then(|c| c.kids.as_mut()) { if let Some(c0) = ci[1].kids.as_mut() { c0.push(prim(0x05, &[])); out.push(der::encode_nodes(&t)); } } }
    { let mut d = orig.to_vec(); d.extend_from_slice(&[0x05, 0x00]); out.push(d); }
    { let mut d = orig.to_vec(); d.push(0xff); out.push(d); }
    // the embedded certificate in the hand-made variations of `structured` (a few of them)
    {
        let mut t = base.clone();
        if let Some(k) = sd_kids(&mut t) {
            if let Some(cert) = k[3].kids.as_ref().and_then(|c| c.first()) {
                let cert_der = der::encode_nodes(std::slice::from_ref(cert));
                for (i, v) in structured(&cert_der).into_iter().enumerate() {
                    if i % 9 != 0 { continue }
                    let mut t2 = base.clone();
                    if let (Some(k2), Some(nn)) = (sd_kids(&mut t2), one(&v)) { k2[3].kids = Some(vec![nn]); out.push(der::encode_nodes(&t2)); }
                }
            }
        }
    }
    out
}

pub fn generate_cms_into(ctx: &mut Ctx, seeds: &[(&'static str, Vec<u8>)], mutate: &dyn Fn(&mut Rng, &[u8], &[Vec<u8>]) -> Vec<u8>,
                         systematic: &dyn Fn(&[u8]) -> Vec<Vec<u8>>) {
    let mut rng = Rng::new(ctx.seed ^ 0xC355D);
    let all: Vec<Vec<u8>> = seeds.iter().map(|s| s.1.clone()).collect();
    let per = if ctx.id == "C02" || ctx.id == "C14" { if ctx.tier_thorough { 300 } else { 30 } } else if ctx.tier_thorough { 1500 } else { 150 };
    for (entry, data) in seeds {
        let ty = match *entry { "roa" => "roa", "aspa" => "aspa", "mft" => "mft", "so" => "so", _ => continue };
        if data.len() > 6000 { continue }
        ctx.case(&format!("cmsd {} {}", ty, hex(data)));
        for other in ["so", "roa", "aspa", "mft"] { if other != ty { ctx.case(&format!("cmsd {} {}", other, hex(data))); } }
        for d in structured_cms(data) { ctx.case(&format!("cmsd {} {}", ty, hex(&d))); }
        if ctx.id != "C02" && ctx.id != "C14" { for d in systematic(data) { ctx.case(&format!("cmsd {} {}", ty, hex(&d))); } }
        for _ in 0..per {
            let mut d = mutate(&mut rng, data, &all);
            if rng.chance(1, 5) { d = mutate(&mut rng, &d, &all); }
            if d.len() > 20_000 { d.truncate(20_000); }
            ctx.case(&format!("cmsd {} {}", ty, hex(&d)));
        }
    }
}

//============ crld: Crl::decode against Model/CrlDer.lean ===========================================

use rpki::repository::crl::Crl;

pub fn show_crl(c: &Crl) -> String {
    let entries: Vec<String> = c.revoked_certs().iter().map(|e| format!("{}@{}", hex(&e.user_certificate.into_array()), e.revocation_date.timestamp())).collect();
    format!("ok {} {} {} {} {} {} {}", name_hex(c.issuer()), c.this_update().timestamp(), c.next_update().timestamp(),
        hex(c.authority_key_identifier().as_slice()), hex(&c.crl_number().into_array()), entries.len(),
        if entries.is_empty() { "-".to_string() } else { entries.join(",") })
}

pub fn exec_crl(toks: &[&str]) -> String {
    if toks.len() != 2 { return "bad-op".into() }
    let Some(data) = unhex(toks[1]) else { return "bad-op".into() };
    match Crl::decode(Bytes::from(data)) {
        Ok(c) => show_crl(&c),
        Err(_) => "err".into(),
    }
}

pub fn structured_crl(orig: &[u8]) -> Vec<Vec<u8>> {
    let mut out: Vec<Vec<u8>> = Vec::new();
    let Some(base) = der::parse_nodes(orig) else { return out };
    // TBS children: [version, signature, issuer, thisUpdate, nextUpdate, (revoked)?, [0] extensions]
    let n_tbs = { let mut b = base.clone(); tbs_kids(&mut b).map(|k| k.len()).unwrap_or(0) };
    if n_tbs < 6 { return out }
    let has_revoked = n_tbs >= 7;
    let ext_at = n_tbs - 1;
    let e = |o: &[u64], crit: Option<bool>, v: Vec<u8>| pki::ext(o, crit.unwrap_or(false), &v);
    let aki = |n: usize| der::seq(&[der::ctx(0, false, &vec![7u8; n])]);
    let ext_lists: Vec<Vec<Vec<u8>>> = vec![
        vec![e(pki::CE_AKI, None, aki(20)), e(pki::CE_CRLNUM, None, der::uint_u64(5))],
        vec![e(pki::CE_CRLNUM, None, der::uint_u64(5)), e(pki::CE_AKI, None, aki(20))],
        vec![e(pki::CE_AKI, Some(true), aki(20)), e(pki::CE_CRLNUM, Some(true), der::uint_u64(5))],
        vec![e(pki::CE_AKI, None, aki(20))], vec![e(pki::CE_CRLNUM, None, der::uint_u64(5))], vec![],
        vec![e(pki::CE_AKI, None, aki(20)), e(pki::CE_AKI, None, aki(20)), e(pki::CE_CRLNUM, None, der::uint_u64(5))],
        vec![e(pki::CE_AKI, None, aki(20)), e(pki::CE_CRLNUM, None, der::uint_u64(5)), e(pki::CE_CRLNUM, None, der::uint_u64(6))],
        vec![e(pki::CE_AKI, None, aki(19)), e(pki::CE_CRLNUM, None, der::uint_u64(5))],
        vec![e(pki::CE_AKI, None, der::seq(&[])), e(pki::CE_CRLNUM, None, der::uint_u64(5))],
        vec![e(pki::CE_AKI, None, der::seq(&[der::ctx(0, false, &[7u8; 20]), der::ctx(2, false, &[1])])), e(pki::CE_CRLNUM, None, der::uint_u64(5))],
        vec![e(pki::CE_AKI, None, der::cat(&[aki(20), vec![0xff]])), e(pki::CE_CRLNUM, None, der::cat(&[der::uint_u64(5), vec![0x05, 0x00]]))],
        vec![e(pki::CE_AKI, None, aki(20)), e(pki::CE_CRLNUM, None, der::uint(&[0x7f; 20]))],
        vec![e(pki::CE_AKI, None, aki(20)), e(pki::CE_CRLNUM, None, der::tlv(0x02, &[0x7f; 21]))],
        vec![e(pki::CE_AKI, None, aki(20)), e(pki::CE_CRLNUM, None, der::tlv(0x02, &[0x80]))],
        vec![e(pki::CE_AKI, None, aki(20)), e(pki::CE_CRLNUM, None, der::uint_u64(0))],
        vec![e(pki::CE_AKI, None, aki(20)), e(pki::CE_CRLNUM, None, der::uint_u64(5)), e(&[2, 5, 29, 28], None, der::seq(&[]))],
        vec![e(pki::CE_AKI, None, aki(20)), e(pki::CE_CRLNUM, None, der::uint_u64(5)), e(&[2, 5, 29, 28], Some(true), der::seq(&[]))],
    ];
    for l in &ext_lists {
        let mut t = base.clone();
        if let (Some(k), Some(n)) = (tbs_kids(&mut t), one(&der::ctx(0, true, &der::seq(l)))) { k[ext_at] = n; out.push(der::encode_nodes(&t)); }
    }
    { let mut t = base.clone(); if let Some(k) = tbs_kids(&mut t) { k.remove(ext_at); out.push(der::encode_nodes(&t)); } }
    { let mut t = base.clone(); if let Some(k) = tbs_kids(&mut t) { k.push(prim(0x05, &[])); out.push(der::encode_nodes(&t)); } }
    // revoked certificates
    let entry = |s: &[u8], t: Vec<u8>| der::seq(&[der::uint(s), t]);
    let lists: Vec<Option<Vec<u8>>> = vec![
        None, Some(der::seq(&[])),
        Some(der::seq(&[entry(&[1], der::utc_time(2020, 1, 1, 0, 0, 0))])),
        Some(der::seq(&[entry(&[1], der::utc_time(2020, 1, 1, 0, 0, 0)), entry(&[1], der::gen_time(2050, 1, 1, 0, 0, 0)), entry(&[0], der::utc_time(1950, 1, 1, 0, 0, 0))])),
        Some(der::seq(&[entry(&[0x7f; 20], der::utc_time(2020, 1, 1, 0, 0, 0))])),
        Some(der::seq(&[der::seq(&[der::tlv(0x02, &[0x7f; 21]), der::utc_time(2020, 1, 1, 0, 0, 0)])])),
        Some(der::seq(&[der::seq(&[der::uint(&[5]), der::utc_time(2020, 1, 1, 0, 0, 0), der::seq(&[])])])),
        Some(der::seq(&[der::seq(&[der::uint(&[5])])])),
        Some(der::seq(&[der::seq(&[der::uint(&[5]), der::gen_time(2023, 2, 29, 0, 0, 0)])])),
        Some(der::seq(&[entry(&[5], der::utc_time(2020, 1, 1, 0, 0, 0)), der::null()])),
        Some(der::set_raw(&[entry(&[5], der::utc_time(2020, 1, 1, 0, 0, 0))])),
    ];
    for l in &lists {
        let mut t = base.clone();
        if let Some(k) = tbs_kids(&mut t) {
            if has_revoked { k.remove(5); }
            if let Some(v) = l { if let Some(n) = one(v) { k.insert(5, n); } }
            out.push(der::encode_nodes(&t));
        }
    }
    // version, algorithm identifiers (inner / outer / both), times
    for v in [der::uint_u64(0), der::uint_u64(2), der::tlv(0x02, &[0, 1]), der::ctx(0, true, &der::uint_u64(1))] {
        let mut t = base.clone();
        if let (Some(k), Some(n)) = (tbs_kids(&mut t), one(&v)) { k[0] = n; out.push(der::encode_nodes(&t)); }
    }
    { let mut t = base.clone(); if let Some(k) = tbs_kids(&mut t) { k.remove(0); out.push(der::encode_nodes(&t)); } }
    for a in [der::seq(&[der::oid(pki::SHA256_RSA)]), der::seq(&[der::oid(pki::SHA256_RSA), der::null()]), der::seq(&[der::oid(pki::RSA), der::null()])] {
        let mut t = base.clone();
        if let (Some(k), Some(n)) = (tbs_kids(&mut t), one(&a)) { k[1] = n; out.push(der::encode_nodes(&t)); }
        let mut t = base.clone();
        if let (Some(k), Some(n)) = (t.get_mut(0).and_then(|c| c.kids.as_mut()), one(&a)) { if k.len() > 1 { k[1] = n; out.push(der::encode_nodes(&t)); } }
        let mut t = base.clone();
        if let Some(n) = one(&a) {
            if let Some(k) = tbs_kids(&mut t) { k[1] = n.clone(); }
            if let Some(k) = t.get_mut(0).and_then(|c| c.kids.as_mut()) { if k.len() > 1 { k[1] = n; } }
            out.push(der::encode_nodes(&t));
        }
    }
    for (i, v) in [(3usize, der::gen_time(2049, 12, 31, 23, 59, 59)), (3, der::utc_time(1950, 1, 1, 0, 0, 0)), (4, der::gen_time(9999, 12, 31, 23, 59, 59)),
                   (4, der::gen_time(2023, 2, 29, 0, 0, 0)), (4, der::null()), (3, der::tlv(0x37, &der::utc_time(2020, 1, 1, 0, 0, 0)[2..]))] {
        let mut t = base.clone();
        if let (Some(k), Some(n)) = (tbs_kids(&mut t), one(&v)) { k[i] = n; out.push(der::encode_nodes(&t)); }
    }
    { let mut d = orig.to_vec(); d.extend_from_slice(&[0x05, 0x00]); out.push(d); }
    out
}

pub fn generate_crl_into(ctx: &mut Ctx, seeds: &[(&'static str, Vec<u8>)], mutate: &dyn Fn(&mut Rng, &[u8], &[Vec<u8>]) -> Vec<u8>,
                         systematic: &dyn Fn(&[u8]) -> Vec<Vec<u8>>) {
    let mut rng = Rng::new(ctx.seed ^ 0xC71D);
    let all: Vec<Vec<u8>> = seeds.iter().map(|s| s.1.clone()).collect();
    let per = if ctx.tier_thorough { 3000 } else { 300 };
    for (entry, data) in seeds {
        if *entry != "crl" { continue }
        ctx.case(&format!("crld {}", hex(data)));
        for d in structured_crl(data) { ctx.case(&format!("crld {}", hex(&d))); }
        if data.len() < 3000 { for d in systematic(data) { ctx.case(&format!("crld {}", hex(&d))); } }
        for _ in 0..per {
            let mut d = mutate(&mut rng, data, &all);
            if rng.chance(1, 5) { d = mutate(&mut rng, &d, &all); }
            if d.len() > 20_000 { d.truncate(20_000); }
            ctx.case(&format!("crld {}", hex(&d)));
        }
    }
}

//============ idcd / smsgd: IdCert::decode and SignedMessage::decode (strict) against Model/SigMsgDer.lean =====

use rpki::ca::idcert::IdCert;
use rpki::ca::sigmsg::SignedMessage;

pub fn exec_idc(toks: &[&str]) -> String {
    if toks.len() != 2 { return "bad-op".into() }
    let Some(data) = unhex(toks[1]) else { return "bad-op".into() };
    match IdCert::decode(Bytes::from(data)) {
        Ok(c) => format!("ok {} {} {} {} {} {} {} {}", hex(&c.serial_number().into_array()), name_hex(c.subject()),
            c.validity().not_before().timestamp(), c.validity().not_after().timestamp(),
            if c.public_key().allow_rpki_cert() { "r" } else { "e" }, hex(c.public_key().key_identifier().as_slice()),
            hex(c.subject_key_identifier().as_slice()), opt_hex(c.authority_key_id().as_ref().map(|k| k.as_slice()))),
        Err(_) => "err".into(),
    }
}

pub fn exec_smsg(toks: &[&str]) -> String {
    if toks.len() != 2 { return "bad-op".into() }
    let Some(data) = unhex(toks[1]) else { return "bad-op".into() };
    match SignedMessage::decode(Bytes::from(data), true) {
        Ok(m) => format!("ok {}", hex(&m.content().to_bytes())),
        Err(_) => "err".into(),
    }
}

pub fn structured_idc(orig: &[u8]) -> Vec<Vec<u8>> {
    let mut out = Vec::new();
    let Some(base) = der::parse_nodes(orig) else { return out };
    let n_tbs = { let mut b = base.clone(); tbs_kids(&mut b).map(|k| k.len()).unwrap_or(0) };
    if n_tbs < 7 { return out }
    let e = |o: &[u64], crit: Option<bool>, v: Vec<u8>| { let mut p = vec![der::oid(o)]; if let Some(c) = crit { p.push(der::boolean(c)); } p.push(der::octets(&v)); der::seq(&p) };
    let ski = der::octets(&[9u8; 20]);
    let aki = |parts: Vec<Vec<u8>>| der::seq(&parts);
    let k0 = der::ctx(0, false, &[7u8; 20]);
    let lists: Vec<Vec<Vec<u8>>> = vec![
        vec![e(pki::CE_SKI, None, ski.clone())],
        vec![],
        vec![e(pki::CE_SKI, Some(true), ski.clone()), e(pki::CE_SKI, None, ski.clone())],
        vec![e(pki::CE_SKI, None, der::octets(&[9u8; 19]))],
        vec![e(pki::CE_BC, Some(true), der::seq(&[])), e(pki::CE_SKI, None, ski.clone())],
        vec![e(pki::CE_BC, None, der::seq(&[der::boolean(true), der::uint_u64(3)])), e(pki::CE_SKI, None, ski.clone())],
        vec![e(pki::CE_BC, None, der::seq(&[der::uint_u64(3)])), e(pki::CE_SKI, None, ski.clone())],
        vec![e(pki::CE_BC, None, der::seq(&[der::boolean(true), der::uint(&[0xff; 8])])), e(pki::CE_SKI, None, ski.clone())],
        vec![e(pki::CE_BC, None, der::seq(&[der::boolean(true), der::uint(&[1, 0, 0, 0, 0, 0, 0, 0, 0])])), e(pki::CE_SKI, None, ski.clone())],
        vec![e(pki::CE_BC, None, der::seq(&[der::boolean(true), der::tlv(0x02, &[0x80])])), e(pki::CE_SKI, None, ski.clone())],
        vec![e(pki::CE_BC, None, der::seq(&[der::boolean(true), der::uint_u64(1), der::null()])), e(pki::CE_SKI, None, ski.clone())],
        vec![e(pki::CE_BC, None, der::seq(&[der::boolean(true)])), e(pki::CE_BC, None, der::seq(&[])), e(pki::CE_SKI, None, ski.clone())],
        vec![e(pki::CE_SKI, None, ski.clone()), e(pki::CE_AKI, None, aki(vec![k0.clone()]))],
        vec![e(pki::CE_SKI, None, ski.clone()), e(pki::CE_AKI, None, aki(vec![]))],
        vec![e(pki::CE_SKI, None, ski.clone()), e(pki::CE_AKI, None, aki(vec![k0.clone()])), e(pki::CE_AKI, None, aki(vec![]))],
        vec![e(pki::CE_SKI, None, ski.clone()), e(pki::CE_AKI, None, aki(vec![])), e(pki::CE_AKI, None, aki(vec![der::ctx(0, false, &[8u8; 20])]))],
        vec![e(pki::CE_SKI, None, ski.clone()), e(pki::CE_AKI, None, aki(vec![k0.clone(), der::ctx(1, true, &der::ctx(4, true, &pki::name("x"))), der::ctx(2, false, &[1])]))],
        vec![e(pki::CE_SKI, None, ski.clone()), e(pki::CE_AKI, None, aki(vec![der::ctx(1, true, &der::null()), k0.clone()]))],
        vec![e(pki::CE_SKI, None, ski.clone()), e(pki::CE_AKI, None, aki(vec![k0.clone(), vec![0x30, 0x80, 0x00, 0x00]]))],
        vec![e(pki::CE_SKI, None, ski.clone()), e(pki::CE_AKI, None, aki(vec![k0.clone(), vec![0x30, 0x80, 0x00]]))],
        vec![e(pki::CE_SKI, None, ski.clone()), e(pki::CE_AKI, None, aki(vec![der::ctx(0, false, &[7u8; 19])]))],
        vec![e(pki::CE_SKI, None, ski.clone()), e(pki::CE_AKI, None, aki(vec![der::ctx(0, true, &der::octets(&[7u8; 20]))]))],
        vec![e(pki::CE_SKI, None, ski.clone()), e(pki::CE_KU, Some(true), der::bits(7, &[0x80])), e(&[1, 2, 3], Some(true), vec![0xff])],
        vec![e(pki::CE_SKI, None, der::cat(&[ski.clone(), vec![1, 2, 3]]))],
    ];
    for l in &lists {
        let mut t = base.clone();
        if let (Some(k), Some(n)) = (tbs_kids(&mut t), one(&der::ctx(3, true, &der::seq(l)))) {
            let at = k.len() - 1;
            if k[at].tag == 0xa3 { k[at] = n; } else { k.push(n); }
            out.push(der::encode_nodes(&t));
        }
    }
    { let mut t = base.clone(); if let Some(k) = tbs_kids(&mut t) { let at = k.len() - 1; if k[at].tag == 0xa3 { k.remove(at); out.push(der::encode_nodes(&t)); } } }
    { let mut t = base.clone(); if let Some(k) = tbs_kids(&mut t) { k.push(prim(0x05, &[])); out.push(der::encode_nodes(&t)); } }
    for a in [der::seq(&[der::oid(pki::SHA256_RSA)]), der::seq(&[der::oid(pki::RSA), der::null()])] {
        let mut t = base.clone();
        if let (Some(k), Some(n)) = (tbs_kids(&mut t), one(&a)) { k[2] = n; out.push(der::encode_nodes(&t)); }
        let mut t = base.clone();
        if let (Some(k), Some(n)) = (t.get_mut(0).and_then(|c| c.kids.as_mut()), one(&a)) { if k.len() > 1 { k[1] = n; out.push(der::encode_nodes(&t)); } }
    }
    out
}

/// SignedData children of a signed message: [version, digestAlgorithms, encapContentInfo, [0] certificates, [1] crls, signerInfos]
pub fn structured_smsg(orig: &[u8]) -> Vec<Vec<u8>> {
    let mut out = Vec::new();
    let Some(base) = der::parse_nodes(orig) else { return out };
    { let mut t = base.clone(); if sd_kids(&mut t).map(|k| k.len()).unwrap_or(0) < 6 { return out } }
    // the embedded certificate and CRL in their hand-made variations
    let (cert_der, crl_der) = {
        let mut t = base.clone();
        let k = sd_kids(&mut t).unwrap();
        (k[3].kids.as_ref().and_then(|c| c.first()).map(|c| der::encode_nodes(std::slice::from_ref(c))).unwrap_or_default(),
         k[4].kids.as_ref().and_then(|c| c.first()).map(|c| der::encode_nodes(std::slice::from_ref(c))).unwrap_or_default())
    };
    for v in structured_idc(&cert_der) {
        let mut t = base.clone();
        if let (Some(k), Some(n)) = (sd_kids(&mut t), one(&v)) { k[3].kids = Some(vec![n]); out.push(der::encode_nodes(&t)); }
    }
    for v in structured_crl(&crl_der) {
        let mut t = base.clone();
        if let (Some(k), Some(n)) = (sd_kids(&mut t), one(&v)) { k[4].kids = Some(vec![n]); out.push(der::encode_nodes(&t)); }
    }
    // shapes of the two sets
    let variants: Vec<(usize, Vec<u8>)> = vec![
        (3, der::ctx(0, true, &der::cat(&[cert_der.clone(), cert_der.clone()]))),
        (3, der::ctx(0, true, &[])),
        (3, der::ctx(0, true, &der::tlv(0x31, &cert_der[der::split_tlv(&cert_der).map(|x| x.0).unwrap_or(0)..]))),
        (3, der::ctx(0, true, &der::tlv(0xa0, &cert_der[der::split_tlv(&cert_der).map(|x| x.0).unwrap_or(0)..]))),
        (4, der::ctx(1, true, &der::cat(&[crl_der.clone(), crl_der.clone()]))),
        (4, der::ctx(1, true, &[])),
        (4, der::ctx(0, true, &crl_der)),
        (2, der::seq(&[der::oid(pki::CT_ROA), der::ctx(0, true, &der::octets(b"x"))])),
        (2, der::seq(&[der::oid(pki::CT_PROTOCOL), der::ctx(0, true, &der::tlv(0x24, &der::octets(b"x")))])),
        (2, der::seq(&[der::oid(pki::CT_PROTOCOL)])),
    ];
    for (i, v) in &variants {
        let mut t = base.clone();
        if let (Some(k), Some(n)) = (sd_kids(&mut t), one(v)) { k[*i] = n; out.push(der::encode_nodes(&t)); }
    }
    { let mut t = base.clone(); if let Some(k) = sd_kids(&mut t) { k.remove(4); out.push(der::encode_nodes(&t)); } }
    { let mut t = base.clone(); if let Some(k) = sd_kids(&mut t) { k.swap(3, 4); out.push(der::encode_nodes(&t)); } }
    // signed attributes: foreign attributes are tolerated here, missing or duplicated ones are not
    let cur_attrs: Vec<Node> = { let mut t = base.clone(); si_kids(&mut t).and_then(|k| k.get(3).and_then(|a| a.kids.clone())).unwrap_or_default() };
    if cur_attrs.len() >= 3 {
        let n = |b: Vec<u8>| one(&b).unwrap();
        let unk = n(pki::attr(&[1, 2, 3, 4], der::null()));
        let bst = n(pki::attr(pki::AT_BINARY_SIGNING_TIME, der::uint_u64(1_700_000_000)));
        let weird = n(der::seq(&[der::oid(&[1, 2, 3, 4]), vec![0x30, 0x80, 0x00, 0x00]]).into_iter().collect());
        let mut sets: Vec<Vec<Node>> = Vec::new();
        let mut a = cur_attrs.clone(); a.push(unk.clone()); sets.push(a);
        let mut a = cur_attrs.clone(); a.insert(0, bst.clone()); a.push(unk.clone()); sets.push(a);
        let mut a = cur_attrs.clone(); a.push(weird); sets.push(a);
        let mut a = cur_attrs.clone(); a.push(n(der::seq(&[der::oid(&[1, 2, 3, 4])]))); sets.push(a);
        for i in 0..cur_attrs.len() { let mut a = cur_attrs.clone(); a.remove(i); sets.push(a); let mut a = cur_attrs.clone(); let x = a[i].clone(); a.push(x); sets.push(a); }
        for set in sets {
            let mut t = base.clone();
            if let Some(k) = si_kids(&mut t) { if k.len() > 3 { k[3].kids = Some(set); out.push(der::encode_nodes(&t)); } }
        }
    }
    out
}

pub fn generate_msg_into(ctx: &mut Ctx, seeds: &[(&'static str, Vec<u8>)], mutate: &dyn Fn(&mut Rng, &[u8], &[Vec<u8>]) -> Vec<u8>,
                         systematic: &dyn Fn(&[u8]) -> Vec<Vec<u8>>) {
    let mut rng = Rng::new(ctx.seed ^ 0x51D3);
    let all: Vec<Vec<u8>> = seeds.iter().map(|s| s.1.clone()).collect();
    let per = if ctx.id == "C10" { if ctx.tier_thorough { 300 } else { 30 } } else if ctx.tier_thorough { 1500 } else { 150 };
    for (entry, data) in seeds {
        let (op, structured): (&str, Vec<Vec<u8>>) = match *entry {
            "idcert" => ("idcd", structured_idc(data)),
            "sigmsg" => ("smsgd", if data.len() < 8000 { structured_smsg(data) } else { Vec::new() }),
            _ => continue,
        };
        ctx.case(&format!("{} {}", op, hex(data)));
        for d in structured { ctx.case(&format!("{} {}", op, hex(&d))); }
        if ctx.id != "C10" && data.len() < 4000 { for d in systematic(data) { ctx.case(&format!("{} {}", op, hex(&d))); } }
        let per = if data.len() > 8000 { per / 10 } else { per };
        for _ in 0..per {
            let mut d = mutate(&mut rng, data, &all);
            if rng.chance(1, 5) { d = mutate(&mut rng, &d, &all); }
            if d.len() > 80_000 { d.truncate(80_000); }
            ctx.case(&format!("{} {}", op, hex(&d)));
        }
    }
}
