//! C07 — RTR PDU codec (src/rtr/pdu.rs).
use crate::c13::parse_pfx;
use crate::rng::{hex, unhex, Rng};
use crate::Ctx;
use futures_util::FutureExt;
use rpki::crypto::keys::KeyIdentifier;
use rpki::resources::addr::MaxLenPrefix;
use rpki::resources::asn::Asn;
use rpki::rtr::payload::{Action, Aspa, Payload, RouteOrigin, RouterKey, Timing};
use rpki::rtr::pdu;
use rpki::rtr::state::{Serial, State};
use std::pin::Pin;
use std::task::{Context, Poll};
use tokio::io::{AsyncRead, ReadBuf};

/// A reader that hands out its data in scheduled chunk sizes and then reports end of file.
pub struct Chunked {
    pub data: Vec<u8>,
    pub pos: usize,
    pub sched: Vec<usize>,
    pub idx: usize,
}

impl AsyncRead for Chunked {
    fn poll_read(mut self: Pin<&mut Self>, _cx: &mut Context<'_>, buf: &mut ReadBuf<'_>) -> Poll<std::io::Result<()>> {
        let chunk = if self.idx < self.sched.len() { self.sched[self.idx].max(1) } else { usize::MAX };
        self.idx += 1;
        let avail = self.data.len() - self.pos;
        let n = buf.remaining().min(chunk).min(avail);
        let start = self.pos;
        buf.put_slice(&self.data[start..start + n]);
        self.pos += n;
        Poll::Ready(Ok(()))
    }
}

fn run<F: std::future::Future>(f: F) -> Option<F::Output> {
    f.now_or_never()
}

pub fn parse_item(s: &str) -> Option<Payload> {
    let f: Vec<&str> = s.split(':').collect();
    match f.as_slice() {
        ["O", p, ml, asn] => {
            let p = parse_pfx(p)?;
            let ml = if *ml == "-" { None } else { Some(ml.parse::<u8>().ok()?) };
            Some(Payload::Origin(RouteOrigin::new(MaxLenPrefix::new(p, ml).ok()?, Asn::from_u32(asn.parse().ok()?))))
        }
        ["K", ski, asn, info] => {
            let ski = KeyIdentifier::try_from(&unhex(ski)?[..]).ok()?;
            Some(Payload::RouterKey(RouterKey::new(ski, Asn::from_u32(asn.parse().ok()?), pdu::RouterKeyInfo::try_from(unhex(info)?).ok()?)))
        }
        ["A", c, ps] => {
            let ps: Vec<Asn> = if *ps == "-" { vec![] } else { ps.split(',').map(|x| x.parse::<u32>().ok().map(Asn::from_u32)).collect::<Option<Vec<_>>>()? };
            Some(Payload::Aspa(Aspa::new(Asn::from_u32(c.parse().ok()?), pdu::ProviderAsns::try_from_iter(ps).ok()?)))
        }
        _ => None,
    }
}

pub fn show_item(p: &Payload) -> String {
    match p {
        Payload::Origin(o) => {
            let (fam, addr) = match o.prefix.addr() {
                std::net::IpAddr::V4(a) => (4, u32::from(a) as u128),
                std::net::IpAddr::V6(a) => (6, u128::from(a)),
            };
            format!("O:{}/{}/{}:{}:{}", fam, addr, o.prefix.prefix_len(),
                match o.prefix.max_len() { Some(m) => m.to_string(), None => "-".into() }, o.asn.into_u32())
        }
        Payload::RouterKey(k) => format!("K:{}:{}:{}", hex(k.key_identifier.as_slice()), k.asn.into_u32(), hex(k.key_info.as_slice())),
        Payload::Aspa(a) => {
            let ps: Vec<String> = a.providers.iter().map(|x| x.into_u32().to_string()).collect();
            format!("A:{}:{}", a.customer.into_u32(), if ps.is_empty() { "-".into() } else { ps.join(",") })
        }
    }
}

/// A sink like a plain socket wrapper: it implements `poll_write` only (so a vectored write reaches it one
/// buffer at a time) and takes at most `max` octets per call.
struct PlainSink { out: Vec<u8>, max: usize }
impl tokio::io::AsyncWrite for PlainSink {
    fn poll_write(mut self: std::pin::Pin<&mut Self>, _cx: &mut std::task::Context<'_>, buf: &[u8]) -> std::task::Poll<std::io::Result<usize>> {
        let n = buf.len().min(self.max.max(1));
        self.out.extend_from_slice(&buf[..n]);
        std::task::Poll::Ready(Ok(n))
    }
    fn poll_flush(self: std::pin::Pin<&mut Self>, _cx: &mut std::task::Context<'_>) -> std::task::Poll<std::io::Result<()>> { std::task::Poll::Ready(Ok(())) }
    fn poll_shutdown(self: std::pin::Pin<&mut Self>, _cx: &mut std::task::Context<'_>) -> std::task::Poll<std::io::Result<()>> { std::task::Poll::Ready(Ok(())) }
}

fn write_pdu(p: &pdu::Payload) -> Vec<u8> {
    let mut out: Vec<u8> = Vec::new();
    run(p.write(&mut out)).unwrap().unwrap();
    // what reaches the wire must not depend on the kind of sink: a plain one, and one that takes 7 octets at a time
    for max in [usize::MAX, 7] {
        let mut sink = PlainSink { out: Vec::new(), max };
        let ok = matches!(run(p.write(&mut sink)), Some(Ok(())));
        if !ok || sink.out != out {
            // make the difference visible to the checker: the octets that actually arrived at this sink
            return sink.out;
        }
    }
    out
}

fn show_pdu(p: &pdu::Payload) -> String {
    let bytes = write_pdu(p);
    let sess = u16::from_be_bytes([bytes[2], bytes[3]]);
    match p {
        pdu::Payload::V4(x) => format!("v4 {} {} {} {} {} {} {} {}", x.version(), sess, x.flags(), x.prefix_len(), x.max_len(),
            u32::from(x.prefix()), x.asn().into_u32(), hex(&bytes)),
        pdu::Payload::V6(x) => format!("v6 {} {} {} {} {} {} {} {}", x.version(), sess, x.flags(), x.prefix_len(), x.max_len(),
            u128::from(x.prefix()), x.asn().into_u32(), hex(&bytes)),
        pdu::Payload::RouterKey(x) => format!("key {} {} {} {} {} {}", x.version(), x.flags(), hex(&x.key_identifier()),
            x.asn().into_u32(), hex(x.key_info().as_ref()), hex(&bytes)),
        pdu::Payload::Aspa(x) => format!("aspa {} {} {} {} {}", x.version(), x.flags(), x.customer().into_u32(),
            hex(x.providers().as_ref()), hex(&bytes)),
        _ => "other".into(),
    }
}

fn show_eod(e: &pdu::EndOfData) -> String {
    let t = match e.timing() { Some(t) => format!("{},{},{}", t.refresh, t.retry, t.expire), None => "-".into() };
    format!("eod {} {} {} {} {}", e.version(), e.session(), u32::from(e.serial()), t, hex(e.as_ref()))
}

fn io_err(e: &std::io::Error) -> &'static str {
    match e.kind() {
        std::io::ErrorKind::UnexpectedEof => "err eof",
        std::io::ErrorKind::InvalidData => "err invalid",
        _ => "err other",
    }
}

fn show_action(a: Action) -> &'static str {
    match a { Action::Announce => "announce", Action::Withdraw => "withdraw" }
}

static HANGS: std::sync::atomic::AtomicUsize = std::sync::atomic::AtomicUsize::new(0);

/// Runs `f` on its own thread; a case that does not finish within two seconds is a hang.
fn guarded<F: FnOnce() -> String + Send + 'static>(f: F) -> String {
    if HANGS.load(std::sync::atomic::Ordering::SeqCst) >= 3 {
        return "skipped-after-hangs".into();
    }
    let (tx, rx) = std::sync::mpsc::channel();
    std::thread::spawn(move || {
        let r = std::panic::catch_unwind(std::panic::AssertUnwindSafe(f)).unwrap_or_else(|_| "panic".into());
        let _ = tx.send(r);
    });
    match rx.recv_timeout(std::time::Duration::from_secs(2)) {
        Ok(r) => r,
        Err(_) => { HANGS.fetch_add(1, std::sync::atomic::Ordering::SeqCst); "hang".into() }
    }
}

pub fn exec(toks: &[&str]) -> String {
    match toks {
        ["pdu", ver, flags, item] => {
            let (v, f): (u8, u8) = (ver.parse().unwrap(), flags.parse().unwrap());
            let item = match parse_item(item) { Some(i) => i, None => return "bad-op".into() };
            let p = pdu::Payload::new(v, f, item.as_ref());
            let bytes = write_pdu(&p);
            let mut r = &bytes[..];
            let back = match run(pdu::Payload::read(&mut r)) {
                Some(Ok(Ok(Some(q)))) => {
                    if !r.is_empty() { "trailing".to_string() }
                    else if q != p || q.version() != v || q.flags() != f { "differs".to_string() }
                    else { match q.to_payload() {
                        Ok((a, it)) => format!("ok {} {}", show_action(a), show_item(&it)),
                        Err(_) => "ok to_payload-error".into(),
                    } }
                }
                _ => "unreadable".into(),
            };
            format!("{} {}", hex(&bytes), back)
        }
        ["pduif", ver, flags, item] => {
            let (v, f): (u8, u8) = (ver.parse().unwrap(), flags.parse().unwrap());
            let item = match parse_item(item) { Some(i) => i, None => return "bad-op".into() };
            match pdu::Payload::new_if_supported(v, f, item.as_ref()) {
                Some(p) => hex(&write_pdu(&p)),
                None => "none".into(),
            }
        }
        ["rd", hx] => {
            let b = match unhex(hx) { Some(b) => b, None => return "bad-op".into() };
            guarded(move || {
                let mut r = &b[..];
                match run(pdu::Payload::read(&mut r)) {
                    Some(Ok(Ok(Some(p)))) => {
                        // every accessor and the conversion must be callable without panicking
                        let _ = p.to_payload();
                        if let pdu::Payload::Aspa(a) = &p { let _ = a.providers().iter().count(); }
                        format!("ok {} consumed={}", show_pdu(&p), b.len() - r.len())
                    }
                    Some(Ok(Ok(None))) => "ok none".into(),
                    Some(Ok(Err(eod))) => format!("ok {} consumed={}", show_eod(&eod), b.len() - r.len()),
                    Some(Err(e)) => io_err(&e).into(),
                    None => "pending".into(),
                }
            })
        }
        ["rdfix", kind, hx] => {
            let b = match unhex(hx) { Some(b) => b, None => return "bad-op".into() };
            let kind = kind.to_string();
            guarded(move || {
                let mut r = &b[..];
                macro_rules! rd { ($t:ty) => { match run(<$t>::read(&mut r)) {
                    Some(Ok(x)) => format!("ok {} {} {} consumed={}", x.version(), x.session(), hex(&x.as_ref()[8..]), b.len() - r.len()),
                    Some(Err(e)) => io_err(&e).into(),
                    None => "pending".into(),
                } } }
                match kind.as_str() {
                    "notify" => rd!(pdu::SerialNotify),
                    "squery" => rd!(pdu::SerialQuery),
                    "rquery" => rd!(pdu::ResetQuery),
                    "cresp" => rd!(pdu::CacheResponse),
                    "creset" => rd!(pdu::CacheReset),
                    _ => "bad-op".into(),
                }
            })
        }
        ["tryfix", kind, hx] => {
            let b = match unhex(hx) { Some(b) => b, None => return "bad-op".into() };
            let kind = kind.to_string();
            guarded(move || {
                let mut r = &b[..];
                macro_rules! rd { ($t:ty) => { match run(<$t>::try_read(&mut r)) {
                    Some(Ok(Ok(x))) => format!("ok {} {} {} consumed={}", x.version(), x.session(), hex(&x.as_ref()[8..]), b.len() - r.len()),
                    Some(Ok(Err(h))) => format!("hdr {} consumed={}", hex(h.as_ref()), b.len() - r.len()),
                    Some(Err(e)) => io_err(&e).into(),
                    None => "pending".into(),
                } } }
                match kind.as_str() {
                    "notify" => rd!(pdu::SerialNotify),
                    "squery" => rd!(pdu::SerialQuery),
                    "rquery" => rd!(pdu::ResetQuery),
                    "cresp" => rd!(pdu::CacheResponse),
                    "creset" => rd!(pdu::CacheReset),
                    _ => "bad-op".into(),
                }
            })
        }
        ["ctl", kind, ver, sess, serial, timing] => {
            let v: u8 = ver.parse().unwrap();
            let state = State::from_parts(sess.parse().unwrap(), Serial(serial.parse().unwrap()));
            let tm: Vec<u32> = if *timing == "-" { vec![] } else { timing.split(',').map(|x| x.parse().unwrap()).collect() };
            macro_rules! rt { ($val:expr, $t:ty, $chk:expr) => {{
                let x = $val;
                let bytes = x.as_ref().to_vec();
                let mut r = &bytes[..];
                let ok = match run(<$t>::read(&mut r)) { Some(Ok(y)) => y == x && r.is_empty() && $chk(&y), _ => false };
                format!("{} {}", hex(&bytes), if ok { "ok" } else { "mismatch" })
            }} }
            match *kind {
                "notify" => rt!(pdu::SerialNotify::new(v, state), pdu::SerialNotify, |y: &pdu::SerialNotify| y.version() == v && y.session() == state.session()),
                "squery" => rt!(pdu::SerialQuery::new(v, state), pdu::SerialQuery, |y: &pdu::SerialQuery| y.version() == v && y.session() == state.session()),
                "rquery" => rt!(pdu::ResetQuery::new(v), pdu::ResetQuery, |y: &pdu::ResetQuery| y.version() == v),
                "cresp" => rt!(pdu::CacheResponse::new(v, state), pdu::CacheResponse, |y: &pdu::CacheResponse| y.version() == v && y.session() == state.session()),
                "creset" => rt!(pdu::CacheReset::new(v), pdu::CacheReset, |y: &pdu::CacheReset| y.version() == v),
                "eod" => {
                    let t = Timing { refresh: *tm.first().unwrap_or(&0), retry: *tm.get(1).unwrap_or(&0), expire: *tm.get(2).unwrap_or(&0) };
                    let x = pdu::EndOfData::new(v, state, t);
                    let bytes = x.as_ref().to_vec();
                    let mut r = &bytes[..];
                    let ok = match run(pdu::Payload::read(&mut r)) {
                        Some(Ok(Err(y))) => y == x && r.is_empty() && y.version() == v && y.session() == state.session() && y.serial() == state.serial()
                            && (v == 0 && y.timing().is_none() || v > 0 && y.timing().map(|u| (u.refresh, u.retry, u.expire)) == Some((t.refresh, t.retry, t.expire))),
                        _ => false,
                    };
                    format!("{} {}", hex(&bytes), if ok { "ok" } else { "mismatch" })
                }
                _ => "bad-op".into(),
            }
        }
        ["err", ver, code, pduhx, texthx] => {
            let e = pdu::Error::new(ver.parse().unwrap(), code.parse().unwrap(), unhex(pduhx).unwrap(), unhex(texthx).unwrap());
            hex(e.as_ref())
        }
        ["skip", hdrhx, shx, sched] => {
            let hb = unhex(hdrhx).unwrap();
            let s = unhex(shx).unwrap();
            let sched: Vec<usize> = if *sched == "-" { vec![] } else { sched.split(',').map(|x| x.parse().unwrap()).collect() };
            guarded(move || {
                let mut hr = &hb[..];
                let header = match run(pdu::Header::read(&mut hr)) { Some(Ok(h)) => h, _ => return "bad-op".into() };
                let mut rd = Chunked { data: s, pos: 0, sched, idx: 0 };
                match run(pdu::Error::skip_payload(header, &mut rd)) {
                    Some(Ok(())) => format!("ok consumed={}", rd.pos),
                    Some(Err(e)) => io_err(&e).into(),
                    None => "pending".into(),
                }
            })
        }
        _ => "bad-op".into(),
    }
}

pub const SKI_A: &str = "0102030405060708090a0b0c0d0e0f1011121314";

pub fn item_pool(rng: &mut Rng) -> Vec<String> {
    let mut v: Vec<String> = Vec::new();
    for p in ["4/0/0", "4/167772160/8", "4/3232235776/24", "4/4294967295/32", "4/2147483648/1", "6/0/0",
              "6/42540766411282592856903984951653826560/32", "6/340282366920938463463374607431768211455/128", "6/170141183460469231731687303715884105728/1"] {
        let plen: u32 = p.rsplit('/').next().unwrap().parse().unwrap();
        let fmax = if p.starts_with('4') { 32 } else { 128 };
        for ml in [None, Some(plen), Some(fmax), Some((plen + fmax) / 2)] {
            for asn in [0u32, 1, 65536, u32::MAX] {
                v.push(format!("O:{}:{}:{}", p, match ml { Some(m) => m.to_string(), None => "-".into() }, asn));
            }
        }
    }
    for klen in [0usize, 1, 2, 91, 255, 256, 300] {
        v.push(format!("K:{}:{}:{}", SKI_A, rng.next() as u32, hex(&rng.bytes(klen))));
    }
    v.push(format!("K:{}:0:-", "ffffffffffffffffffffffffffffffffffffffff"));
    // counts around every power of two up to the limit: provider lists whose octet length sits on a buffer boundary
    for n in [0usize, 1, 2, 3, 63, 64, 65, 127, 128, 129, 255, 256, 257, 511, 512, 513, 1023, 1024, 1025, 2048, 4096, 8192, 16379, 16380] {
        let ps: Vec<String> = (0..n).map(|i| ((i as u32).wrapping_mul(2654435761)).to_string()).collect();
        v.push(format!("A:{}:{}", rng.next() as u32, if ps.is_empty() { "-".into() } else { ps.join(",") }));
    }
    v.push("A:4294967295:4294967295,0".into());
    v
}

pub fn generate(ctx: &mut Ctx) {
    let mut rng = Rng::new(ctx.seed ^ 0xC07);
    let thorough = ctx.tier_thorough;
    let items = item_pool(&mut rng);
    let mut encoded: Vec<Vec<u8>> = Vec::new();
    for it in &items {
        for v in [0u8, 1, 2, 3, 255] {
            for f in [0u8, 1, 2, 3, 254, 255] {
                if it.len() > 2000 && !(v == 2 && f <= 1) { continue; }
                ctx.case(&format!("pdu {} {} {}", v, f, it));
                ctx.case(&format!("pduif {} {} {}", v, f, it));
            }
        }
        if it.len() <= 2000 {
            if let Some(p) = parse_item(it) {
                for v in [0u8, 2] { encoded.push(write_pdu(&pdu::Payload::new(v, 1, p.as_ref()))); }
            }
        }
    }
    // control PDUs
    for kind in ["notify", "squery", "rquery", "cresp", "creset", "eod"] {
        for v in [0u8, 1, 2, 3, 255] {
            for (sess, serial) in [(0u16, 0u32), (1, 1), (0xfffe, 0x7fffffff), (0xffff, 0xffffffff), (0x1234, 0x80000000)] {
                for tm in ["0,0,0", "3600,600,7200", "4294967295,1,86400"] {
                    ctx.case(&format!("ctl {} {} {} {} {}", kind, v, sess, serial, tm));
                }
            }
        }
    }
    for v in [0u8, 1, 2] { for code in [0u16, 3, 4, 65535] {
        for (p, t) in [("-", "-"), ("0002000000000008", "-"), ("-", "68656c6c6f"), ("0002000000000008", "c3a9")] {
            ctx.case(&format!("err {} {} {} {}", v, code, p, t));
        }
    }}
    // End of Data in both layouts for the truncation / corruption sweeps
    for v in [0u8, 1, 2] {
        let e = pdu::EndOfData::new(v, State::from_parts(7, Serial(9)), Timing { refresh: 1, retry: 2, expire: 3 });
        encoded.push(e.as_ref().to_vec());
    }
    // every truncation point of every encoded PDU
    for b in &encoded {
        for k in 0..=b.len() {
            if b.len() > 400 && k > 40 && k + 3 < b.len() && k % 37 != 0 { continue; }
            ctx.case(&format!("rd {}", hex(&b[..k])));
        }
        // trailing bytes are left alone
        let mut t = b.clone(); t.extend_from_slice(&[0xde, 0xad]);
        ctx.case(&format!("rd {}", hex(&t)));
    }
    // three-PDU sequences truncated anywhere (first PDU of the remainder is what is read)
    for _ in 0..(if thorough { 400 } else { 40 }) {
        let mut s = Vec::new();
        for _ in 0..3 { let b = rng.pick(&encoded); if b.len() < 200 { s.extend_from_slice(b); } }
        for k in 0..=s.len() { ctx.case(&format!("rd {}", hex(&s[..k]))); }
    }
    // header field corruption: type, version, length
    for b in &encoded {
        // (a PDU the library wrote short is reported by the `wr` operation above; nothing to corrupt here)
        if b.len() > 400 || b.len() < 12 { continue; }
        for ty in 0..=12u8 { let mut c = b.clone(); c[1] = ty; ctx.case(&format!("rd {}", hex(&c))); }
        for v in [0u8, 1, 2, 3, 128, 255] { let mut c = b.clone(); c[0] = v; ctx.case(&format!("rd {}", hex(&c))); }
        let len = u32::from_be_bytes([b[4], b[5], b[6], b[7]]);
        for nl in [0u32, 1, 7, 8, 9, len.wrapping_sub(4), len.wrapping_sub(1), len + 1, len + 3, len + 4, 1 << 16, 1 << 20] {
            let mut c = b.clone(); c[4..8].copy_from_slice(&nl.to_be_bytes());
            ctx.case(&format!("rd {}", hex(&c)));
        }
        // hostile field values: prefix length / max length / flags
        if b[1] == 4 || b[1] == 6 {
            for plen in [0u8, 1, 32, 33, 128, 129, 255] { for mlen in [0u8, 31, 32, 33, 128, 129, 255] {
                let mut c = b.clone(); c[9] = plen; c[10] = mlen; c[11] = 0xff;
                ctx.case(&format!("rd {}", hex(&c)));
            }}
        }
    }
    // large announced lengths for the variable PDUs, short input
    for ty in [9u8, 11] { for nl in [u32::MAX, 1 << 24, 12 + 4 * 65536, 12 + 4 * 16381] {
        let mut c = vec![2u8, ty, 1, 0]; c.extend_from_slice(&nl.to_be_bytes()); c.extend_from_slice(&[0u8; 40]);
        ctx.case(&format!("rd {}", hex(&c)));
    }}
    // an ASPA PDU with more providers than the builder admits, complete
    {
        let n: u32 = 16381;
        let mut c = vec![2u8, 11, 1, 0]; c.extend_from_slice(&(12 + 4 * n).to_be_bytes()); c.extend_from_slice(&[0, 0, 0, 5]);
        for i in 0..n { c.extend_from_slice(&i.to_be_bytes()); }
        ctx.case(&format!("rd {}", hex(&c)));
    }
    // control PDU readers: truncations, wrong type/length
    for (kind, ty, size) in [("notify", 0u8, 12usize), ("squery", 1, 12), ("rquery", 2, 8), ("cresp", 3, 8), ("creset", 8, 8)] {
        let mut b = vec![1u8, ty, 0x12, 0x34, 0, 0, 0, size as u8];
        b.extend((0..size - 8).map(|i| i as u8 + 1));
        for k in 0..=b.len() { ctx.case(&format!("rdfix {} {}", kind, hex(&b[..k]))); }
        for k in 0..=b.len() { ctx.case(&format!("tryfix {} {}", kind, hex(&b[..k]))); }
        for t2 in 0..=11u8 { let mut c = b.clone(); c[1] = t2; ctx.case(&format!("rdfix {} {}", kind, hex(&c))); }
        for t2 in 0..=11u8 { let mut c = b.clone(); c[1] = t2; ctx.case(&format!("tryfix {} {}", kind, hex(&c))); }
        for nl in [0u8, 7, 8, 9, 12, 13, 24] { let mut c = b.clone(); c[7] = nl; ctx.case(&format!("rdfix {} {}", kind, hex(&c))); }
        for nl in [0u8, 7, 8, 9, 12, 13, 24] { let mut c = b.clone(); c[7] = nl; ctx.case(&format!("tryfix {} {}", kind, hex(&c))); }
        let mut c = b.clone(); c[4] = 1; ctx.case(&format!("rdfix {} {}", kind, hex(&c)));
        let mut c = b.clone(); c[4] = 1; ctx.case(&format!("tryfix {} {}", kind, hex(&c)));
        // an Error PDU's header in front: whole, truncated, with a body behind it, with odd lengths
        for len in [0u8, 8, 16, 200] { for k in [3usize, 8, 12] {
            let mut c = vec![1u8, 10, 0, 2, 0, 0, 0, len]; c.extend_from_slice(&[0, 0, 0, 0, 0, 0, 0, 0]); c.truncate(k);
            ctx.case(&format!("tryfix {} {}", kind, hex(&c)));
        }}
    }
    // skip_payload: every truncation of the error PDU body under several chunk schedules
    for total in [0u32, 7, 8, 9, 16, 24, 1031, 1032, 1033, 2100] {
        let hdr = { let mut h = vec![1u8, 10, 0, 3]; h.extend_from_slice(&total.to_be_bytes()); h };
        let body_len = total.saturating_sub(8) as usize;
        let body: Vec<u8> = (0..body_len).map(|i| i as u8).collect();
        let cuts: Vec<usize> = if body_len <= 32 { (0..=body_len).collect() } else { vec![0, 1, body_len / 2, 1023, 1024, 1025, body_len - 1, body_len].into_iter().filter(|c| *c <= body_len).collect() };
        for k in cuts {
            for sched in ["-", "1", "1,1,1,1,1,1,1,1", "3,1000,1", "1024", "5000"] {
                ctx.case(&format!("skip {} {} {}", hex(&hdr), hex(&body[..k]), sched));
            }
            let mut extra = body[..k].to_vec();
            if k == body_len { extra.extend_from_slice(&[1, 2, 3]); ctx.case(&format!("skip {} {} {}", hex(&hdr), hex(&extra), "2,2")); }
        }
    }
    // random byte strings
    for _ in 0..(if thorough { 200_000 } else { 20_000 }) {
        let n = rng.below(48) as usize;
        let mut b = rng.bytes(n);
        if n >= 8 && rng.chance(3, 4) {
            b[0] = rng.below(4) as u8; b[1] = *rng.pick(&[4u8, 6, 7, 9, 11, 0, 10]);
            let l = if rng.bool() { n as u32 } else { rng.below(64) as u32 };
            b[4..8].copy_from_slice(&l.to_be_bytes());
        }
        ctx.case(&format!("rd {}", hex(&b)));
    }
}
