//! Certification requests through the library decoder, one line per request, for the comparison with the Lean
//! model `CsrDer.decodeCsr` (`csrd <csr|bcsr> <hex>`), and the hand-made variations of a request aimed at each
//! branch of `CsrContent::take_from`, `RpkiCaCsrAttributes::take_from` and `BgpsecCsrAttributes::take_from`.

use bytes::Bytes;
use bcder::Mode;
use rpki::ca::csr::{BgpsecCsr, RpkiCaCsr};
use rpki::repository::cert::KeyUsage;
use rpki::repository::x509::Name;
use crate::rng::{hex, unhex, Rng};
use crate::Ctx;
use crate::{der, pki};
use bcder::encode::Values;

const EXTENSION_REQUEST: &[u64] = &[1, 2, 840, 113549, 1, 9, 14];
const ECDSA_SHA256: &[u64] = &[1, 2, 840, 10045, 4, 3, 2];

fn name_hex(n: &Name) -> String { hex(n.encode_ref().to_captured(Mode::Der).as_slice()) }
fn opt_hex(b: Option<&[u8]>) -> String { match b { Some(b) => hex(b), None => "N".into() } }

pub fn exec_csr(toks: &[&str]) -> String {
    if toks.len() != 3 { return "bad-op".into() }
    let Some(data) = unhex(toks[2]) else { return "bad-op".into() };
    match toks[1] {
        "csr" => match RpkiCaCsr::decode(Bytes::from(data)) {
            Ok(c) => format!("ok {} {} {} {} {} {} {} {} {}", name_hex(c.subject()),
                if c.public_key().allow_rpki_cert() { "r" } else { "e" }, hex(c.public_key().key_identifier().as_slice()),
                if c.basic_ca() { "T" } else { "F" },
                match c.key_usage() { KeyUsage::Ca => "c", KeyUsage::Ee => "e" },
                match c.extended_key_usage() { None => "N", Some(e) => if e.inspect_router().is_ok() { "1" } else { "0" } },
                opt_hex(c.ca_repository().map(|u| u.as_slice())), opt_hex(c.rpki_manifest().map(|u| u.as_slice())),
                opt_hex(c.rpki_notify().map(|u| u.as_slice()))),
            Err(_) => "err".into(),
        },
        "bcsr" => match BgpsecCsr::decode(Bytes::from(data)) {
            Ok(c) => format!("ok {} {} {} {}", name_hex(c.subject()),
                if c.public_key().allow_rpki_cert() { "r" } else { "e" }, hex(c.public_key().key_identifier().as_slice()),
                match c.attributes().extended_key_usage() { None => "N", Some(e) => if e.inspect_router().is_ok() { "1" } else { "0" } }),
            Err(_) => "err".into(),
        },
        _ => "bad-op".into(),
    }
}

/// the top-level pieces of a request: (version, subject, key, attributes), algorithm, signature — each as the
/// octets of one value
fn pieces(orig: &[u8]) -> Option<([Vec<u8>; 4], Vec<u8>, Vec<u8>)> {
    let (h, n) = der::split_tlv(orig)?;
    let body = &orig[h..h + n];
    let mut top = Vec::new();
    let mut off = 0;
    while off < body.len() { let (h, n) = der::split_tlv(&body[off..])?; top.push(body[off..off + h + n].to_vec()); off += h + n; }
    if top.len() != 3 { return None }
    let (h, n) = der::split_tlv(&top[0])?;
    let info = &top[0][h..h + n];
    let mut parts = Vec::new();
    let mut off = 0;
    while off < info.len() { let (h, n) = der::split_tlv(&info[off..])?; parts.push(info[off..off + h + n].to_vec()); off += h + n; }
    if parts.len() != 4 { return None }
    Some(([parts[0].clone(), parts[1].clone(), parts[2].clone(), parts[3].clone()], top[1].clone(), top[2].clone()))
}

fn assemble(info: &[Vec<u8>], alg: &[u8], sig: &[u8]) -> Vec<u8> {
    der::seq(&[der::seq(info), alg.to_vec(), sig.to_vec()])
}

fn ext(o: &[u64], crit: Option<bool>, v: Vec<u8>) -> Vec<u8> {
    let mut p = vec![der::oid(o)];
    if let Some(c) = crit { p.push(der::boolean(c)); }
    p.push(der::octets(&v));
    der::seq(&p)
}

fn attrs_of(exts: &[Vec<u8>]) -> Vec<u8> {
    der::ctx(0, true, &der::seq(&[der::oid(EXTENSION_REQUEST), der::set_raw(&[der::seq(exts)])]))
}

pub fn structured_csr(orig: &[u8]) -> Vec<Vec<u8>> {
    let mut out = Vec::new();
    let Some((info, alg, sig)) = pieces(orig) else { return out };
    let gn = |u: &str| der::ctx(6, false, u.as_bytes());
    let ad = |o: &[u64], u: &str| der::seq(&[der::oid(o), gn(u)]);
    let bc_t = der::seq(&[der::boolean(true)]);
    let ku_ca = der::bits(1, &[0x06]);
    let ku_ee = der::bits(7, &[0x80]);
    let sia = |ads: Vec<Vec<u8>>| der::seq(&ads);
    let sia_full = sia(vec![ad(pki::AD_CA_REPOSITORY, "rsync://h/m/"), ad(pki::AD_RPKI_MANIFEST, "rsync://h/m/a.mft"), ad(pki::AD_RPKI_NOTIFY, "https://h/n.xml")]);
    let eku_r = der::seq(&[der::oid(pki::KP_BGPSEC_ROUTER)]);
    let eku_o = der::seq(&[der::oid(&[1, 3, 6, 1, 5, 5, 7, 3, 1])]);
    let std3 = |b: Vec<u8>, k: Vec<u8>, s: Vec<u8>| vec![ext(pki::CE_BC, Some(true), b), ext(pki::CE_KU, Some(true), k), ext(pki::PE_SIA, Some(false), s)];
    let lists: Vec<Vec<Vec<u8>>> = vec![
        std3(bc_t.clone(), ku_ca.clone(), sia_full.clone()),
        // criticality absent / the other way round: read and ignored
        vec![ext(pki::CE_BC, None, bc_t.clone()), ext(pki::CE_KU, Some(false), ku_ca.clone()), ext(pki::PE_SIA, Some(true), sia_full.clone())],
        // order is free
        vec![ext(pki::PE_SIA, None, sia_full.clone()), ext(pki::CE_KU, None, ku_ca.clone()), ext(pki::CE_BC, None, bc_t.clone())],
        // each of the three missing
        vec![ext(pki::CE_KU, None, ku_ca.clone()), ext(pki::PE_SIA, None, sia_full.clone())],
        vec![ext(pki::CE_BC, None, bc_t.clone()), ext(pki::PE_SIA, None, sia_full.clone())],
        vec![ext(pki::CE_BC, None, bc_t.clone()), ext(pki::CE_KU, None, ku_ca.clone())],
        vec![],
        // duplicates
        vec![ext(pki::CE_BC, None, bc_t.clone()), ext(pki::CE_BC, None, bc_t.clone()), ext(pki::CE_KU, None, ku_ca.clone()), ext(pki::PE_SIA, None, sia_full.clone())],
        vec![ext(pki::CE_BC, None, bc_t.clone()), ext(pki::CE_KU, None, ku_ca.clone()), ext(pki::CE_KU, None, ku_ee.clone()), ext(pki::PE_SIA, None, sia_full.clone())],
        vec![ext(pki::CE_BC, None, bc_t.clone()), ext(pki::CE_KU, None, ku_ca.clone()), ext(pki::PE_SIA, None, sia_full.clone()), ext(pki::PE_SIA, None, sia_full.clone())],
        // basic constraints shapes
        std3(der::seq(&[]), ku_ca.clone(), sia_full.clone()),
        std3(der::seq(&[der::boolean(false)]), ku_ca.clone(), sia_full.clone()),
        std3(der::seq(&[der::boolean(true), der::uint_u64(0)]), ku_ca.clone(), sia_full.clone()),
        std3(der::seq(&[der::uint_u64(0)]), ku_ca.clone(), sia_full.clone()),
        std3(der::seq(&[der::boolean(true), der::null()]), ku_ca.clone(), sia_full.clone()),
        std3(der::cat(&[bc_t.clone(), vec![1, 2, 3]]), ku_ca.clone(), sia_full.clone()),
        std3(vec![0x01, 0x01, 0x7f], ku_ca.clone(), sia_full.clone()),
        // key usage shapes
        std3(bc_t.clone(), ku_ee.clone(), sia_full.clone()),
        std3(bc_t.clone(), der::bits(0, &[0x06]), sia_full.clone()),
        std3(bc_t.clone(), der::bits(1, &[0x86]), sia_full.clone()),
        std3(bc_t.clone(), der::bits(1, &[0x06, 0x00]), sia_full.clone()),
        std3(bc_t.clone(), der::bits(7, &[0x00]), sia_full.clone()),
        std3(bc_t.clone(), vec![0x03, 0x00], sia_full.clone()),
        std3(bc_t.clone(), vec![0x03, 0x01, 0x00], sia_full.clone()),
        // subject information access shapes
        std3(bc_t.clone(), ku_ca.clone(), sia(vec![])),
        std3(bc_t.clone(), ku_ca.clone(), sia(vec![ad(pki::AD_CA_REPOSITORY, "rsync://h/m/")])),
        std3(bc_t.clone(), ku_ca.clone(), sia(vec![ad(pki::AD_RPKI_MANIFEST, "rsync://h/m/a.mft")])),
        std3(bc_t.clone(), ku_ca.clone(), sia(vec![ad(pki::AD_RPKI_NOTIFY, "https://h/n.xml")])),
        std3(bc_t.clone(), ku_ca.clone(), sia(vec![ad(pki::AD_SIGNED_OBJECT, "rsync://h/m/o.roa")])),
        std3(bc_t.clone(), ku_ca.clone(), sia(vec![ad(pki::AD_CA_REPOSITORY, "https://h/m/"), ad(pki::AD_CA_REPOSITORY, "rsync://h/m/")])),
        std3(bc_t.clone(), ku_ca.clone(), sia(vec![ad(pki::AD_CA_REPOSITORY, "rsync://h/m/"), ad(pki::AD_CA_REPOSITORY, "rsync://h/other/")])),
        std3(bc_t.clone(), ku_ca.clone(), sia(vec![ad(pki::AD_CA_REPOSITORY, "rsync://h"), ad(pki::AD_RPKI_MANIFEST, "rsync://h/m/a.mft")])),
        std3(bc_t.clone(), ku_ca.clone(), sia(vec![ad(pki::AD_RPKI_NOTIFY, "rsync://h/m/"), ad(pki::AD_CA_REPOSITORY, "rsync://h/m/")])),
        std3(bc_t.clone(), ku_ca.clone(), sia(vec![ad(&[1, 2, 3], "rsync://h/m/"), ad(pki::AD_CA_REPOSITORY, "rsync://h/m/")])),
        std3(bc_t.clone(), ku_ca.clone(), sia(vec![der::seq(&[der::oid(pki::AD_CA_REPOSITORY), der::ctx(2, false, b"h")]), ad(pki::AD_CA_REPOSITORY, "rsync://h/m/")])),
        std3(bc_t.clone(), ku_ca.clone(), sia(vec![der::seq(&[der::oid(pki::AD_CA_REPOSITORY), gn("rsync://h/m/"), der::null()])])),
        std3(bc_t.clone(), ku_ca.clone(), sia(vec![ad(pki::AD_CA_REPOSITORY, "rsync://h/m/\u{e9}")])),
        std3(bc_t.clone(), ku_ca.clone(), der::cat(&[sia_full.clone(), vec![0xff]])),
        // extended key usage
        { let mut l = std3(bc_t.clone(), ku_ca.clone(), sia_full.clone()); l.push(ext(pki::CE_EKU, None, eku_r.clone())); l },
        { let mut l = std3(bc_t.clone(), ku_ca.clone(), sia_full.clone()); l.push(ext(pki::CE_EKU, Some(true), eku_o.clone())); l },
        { let mut l = std3(bc_t.clone(), ku_ca.clone(), sia_full.clone()); l.push(ext(pki::CE_EKU, None, der::seq(&[]))); l },
        { let mut l = std3(bc_t.clone(), ku_ca.clone(), sia_full.clone()); l.push(ext(pki::CE_EKU, None, der::seq(&[der::oid(&[1, 3, 6, 1, 5, 5, 7, 3, 1]), der::oid(pki::KP_BGPSEC_ROUTER)]))); l },
        { let mut l = std3(bc_t.clone(), ku_ca.clone(), sia_full.clone()); l.push(ext(pki::CE_EKU, None, eku_r.clone())); l.push(ext(pki::CE_EKU, None, eku_r.clone())); l },
        { let mut l = std3(bc_t.clone(), ku_ca.clone(), sia_full.clone()); l.push(ext(pki::CE_EKU, None, der::seq(&[der::null()]))); l },
        vec![ext(pki::CE_EKU, None, eku_r.clone())],
        vec![ext(pki::CE_EKU, None, eku_o.clone())],
        // an extension the request may not carry, a malformed one
        { let mut l = std3(bc_t.clone(), ku_ca.clone(), sia_full.clone()); l.push(ext(pki::CE_SKI, None, der::octets(&[9u8; 20]))); l },
        { let mut l = std3(bc_t.clone(), ku_ca.clone(), sia_full.clone()); l.push(ext(&[1, 2, 3], None, der::null())); l },
        { let mut l = std3(bc_t.clone(), ku_ca.clone(), sia_full.clone()); l.push(der::seq(&[der::oid(pki::CE_EKU)])); l },
        { let mut l = std3(bc_t.clone(), ku_ca.clone(), sia_full.clone()); l.push(der::seq(&[der::oid(pki::CE_EKU), der::boolean(false), der::octets(&eku_r), der::null()])); l },
        { let mut l = std3(bc_t.clone(), ku_ca.clone(), sia_full.clone()); l.push(der::seq(&[der::oid(pki::CE_EKU), der::tlv(0x24, &der::octets(&eku_r))])); l },
        { let mut l = std3(bc_t.clone(), ku_ca.clone(), sia_full.clone()); l.push(der::seq(&[der::oid(pki::CE_EKU), vec![1, 1, 1], der::octets(&eku_r)])); l },
    ];
    for l in &lists {
        out.push(assemble(&[info[0].clone(), info[1].clone(), info[2].clone(), attrs_of(l)], &alg, &sig));
    }
    // the shape of the attribute set
    let x3 = std3(bc_t.clone(), ku_ca.clone(), sia_full.clone());
    let one_attr = |id: &[u64], set: Vec<u8>| der::seq(&[der::oid(id), set]);
    let shapes: Vec<Vec<u8>> = vec![
        der::ctx(0, true, &[]),
        der::ctx(0, true, &der::cat(&[one_attr(EXTENSION_REQUEST, der::set_raw(&[der::seq(&x3)])), one_attr(EXTENSION_REQUEST, der::set_raw(&[der::seq(&x3)]))])),
        der::ctx(0, true, &one_attr(&[1, 2, 840, 113549, 1, 9, 7], der::set_raw(&[der::printable(b"pw")]))),
        der::ctx(0, true, &der::cat(&[one_attr(&[1, 2, 840, 113549, 1, 9, 7], der::set_raw(&[der::printable(b"pw")])), one_attr(EXTENSION_REQUEST, der::set_raw(&[der::seq(&x3)]))])),
        der::ctx(0, true, &one_attr(EXTENSION_REQUEST, der::set_raw(&[]))),
        der::ctx(0, true, &one_attr(EXTENSION_REQUEST, der::set_raw(&[der::seq(&x3), der::seq(&x3)]))),
        der::ctx(0, true, &one_attr(EXTENSION_REQUEST, der::seq(&[der::seq(&x3)]))),
        der::ctx(0, true, &der::seq(&[der::oid(EXTENSION_REQUEST), der::set_raw(&[der::seq(&x3)]), der::null()])),
        der::ctx(0, true, &der::seq(&[der::oid(EXTENSION_REQUEST)])),
        der::ctx(1, true, &one_attr(EXTENSION_REQUEST, der::set_raw(&[der::seq(&x3)]))),
        der::tlv(0x80, &[]),
        der::set_raw(&[one_attr(EXTENSION_REQUEST, der::set_raw(&[der::seq(&x3)]))]),
    ];
    for s in &shapes {
        out.push(assemble(&[info[0].clone(), info[1].clone(), info[2].clone(), s.clone()], &alg, &sig));
    }
    // the fields in front, the algorithm, the signature, the end of each SEQUENCE
    let a3 = attrs_of(&x3);
    for v in [der::uint_u64(1), vec![2, 2, 0, 0], vec![2, 1, 0x80], der::boolean(false), vec![2, 0]] {
        out.push(assemble(&[v, info[1].clone(), info[2].clone(), a3.clone()], &alg, &sig));
    }
    out.push(assemble(&[info[1].clone(), info[2].clone(), a3.clone()], &alg, &sig));
    out.push(assemble(&[info[0].clone(), info[2].clone(), a3.clone()], &alg, &sig));
    out.push(assemble(&[info[0].clone(), info[1].clone(), a3.clone()], &alg, &sig));
    out.push(assemble(&[info[0].clone(), info[1].clone(), info[2].clone()], &alg, &sig));
    out.push(assemble(&[info[0].clone(), info[1].clone(), info[2].clone(), a3.clone(), der::null()], &alg, &sig));
    out.push(assemble(&[info[0].clone(), der::seq(&[]), info[2].clone(), a3.clone()], &alg, &sig));
    out.push(assemble(&[info[0].clone(), pki::name("x"), info[2].clone(), a3.clone()], &alg, &sig));
    for a in [der::seq(&[der::oid(pki::SHA256_RSA)]), der::seq(&[der::oid(pki::SHA256_RSA), der::null()]), der::seq(&[der::oid(pki::SHA256_RSA), der::null(), der::null()]),
              der::seq(&[der::oid(ECDSA_SHA256)]), der::seq(&[der::oid(ECDSA_SHA256), der::null()]), der::seq(&[der::oid(pki::RSA), der::null()]), der::seq(&[])] {
        out.push(assemble(&info, &a, &sig));
    }
    for s in [der::bits(0, &[]), der::bits(7, &[0x80]), vec![3, 0], der::octets(&[1, 2, 3]), der::tlv(0x23, &der::bits(0, &[1]))] {
        out.push(assemble(&info, &alg, &s));
    }
    out.push(der::seq(&[der::seq(&info), alg.clone()]));
    out.push(der::seq(&[der::seq(&info), alg.clone(), sig.clone(), der::null()]));
    out.push(der::seq(&[]));
    out.push(der::cat(&[assemble(&info, &alg, &sig), vec![0xde, 0xad]]));
    // indefinite length inside the request info: the capture accepts it, the parser of the captured octets does not
    out.push(der::seq(&[der::cat(&[vec![0x30, 0x80], der::cat(&info), vec![0, 0]]), alg.clone(), sig.clone()]));
    out
}

pub fn generate_csr_into(ctx: &mut Ctx, seeds: &[(&'static str, Vec<u8>)], mutate: &dyn Fn(&mut Rng, &[u8], &[Vec<u8>]) -> Vec<u8>,
                         systematic: &dyn Fn(&[u8]) -> Vec<Vec<u8>>) {
    let mut rng = Rng::new(ctx.seed ^ 0xC5E0);
    let all: Vec<Vec<u8>> = seeds.iter().map(|s| s.1.clone()).collect();
    let per = if ctx.tier_thorough { 2500 } else { 250 };
    for (entry, data) in seeds {
        if *entry != "csr" && *entry != "bcsr" { continue }
        // every request through both instantiations: the other one fails on the signature algorithm or the attributes
        for ty in ["csr", "bcsr"] {
            ctx.case(&format!("csrd {} {}", ty, hex(data)));
            for d in structured_csr(data) { ctx.case(&format!("csrd {} {}", ty, hex(&d))); }
        }
        for d in systematic(data) { ctx.case(&format!("csrd {} {}", entry, hex(&d))); }
        for _ in 0..per {
            let mut d = mutate(&mut rng, data, &all);
            if rng.chance(1, 5) { d = mutate(&mut rng, &d, &all); }
            if d.len() > 80_000 { d.truncate(80_000); }
            ctx.case(&format!("csrd {} {}", entry, hex(&d)));
        }
    }
}
