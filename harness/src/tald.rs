//! Trust anchor locators and bare public keys through the library (`tald <hex>`, `keyd <hex>`), one line per input,
//! for the comparison with the Lean models `Tal.decodeTal` / `Tal.decodeKey`, and hand-made variations of a TAL
//! aimed at each branch of `Tal::read_named` (comment lines, line ends, the empty line, the Base64 text).

use bytes::Bytes;
use rpki::crypto::PublicKey;
use rpki::repository::tal::{Tal, TalUri};
use crate::rng::{hex, unhex, Rng};
use crate::Ctx;

fn show_uris<'a>(it: impl Iterator<Item = &'a TalUri>) -> String {
    let v: Vec<String> = it.map(|u| format!("{}:{}", if u.is_rsync() { "r" } else { "h" }, hex(u.as_str().as_bytes()))).collect();
    if v.is_empty() { "-".into() } else { v.join(",") }
}

pub fn exec_tal(toks: &[&str]) -> String {
    if toks.len() != 2 { return "bad-op".into() }
    let Some(data) = unhex(toks[1]) else { return "bad-op".into() };
    let mut rd = data.as_slice();
    match Tal::read_named("t".into(), &mut rd) {
        Ok(mut t) => {
            let before = show_uris(t.uris());
            let k = t.key_info().clone();
            t.prefer_https();
            format!("ok {} {} {} {}", before, if k.allow_rpki_cert() { "r" } else { "e" }, hex(k.key_identifier().as_slice()), show_uris(t.uris()))
        }
        Err(_) => "err".into(),
    }
}

pub fn exec_key(toks: &[&str]) -> String {
    if toks.len() != 2 { return "bad-op".into() }
    let Some(data) = unhex(toks[1]) else { return "bad-op".into() };
    match PublicKey::decode(Bytes::from(data)) {
        Ok(k) => format!("ok {} {} {}", if k.allow_rpki_cert() { "r" } else { "e" }, hex(k.key_identifier().as_slice()), k.bits().len()),
        Err(_) => "err".into(),
    }
}

fn b64(data: &[u8]) -> String { rpki::util::base64::Xml.encode(data) }

/// `key`: the DER of a public key
pub fn structured_tal(key: &[u8], ec_key: &[u8]) -> Vec<Vec<u8>> {
    let k = b64(key);
    let wrap = |s: &str| -> String { s.as_bytes().chunks(64).map(|c| std::str::from_utf8(c).unwrap()).collect::<Vec<_>>().join("\n") };
    let r1 = "rsync://h.example/m/ta.cer";
    let r2 = "rsync://other.example/m/x/ta.cer";
    let h1 = "https://h.example/ta/ta.cer";
    let h2 = "HTTPS://H.example/ta.cer";
    let mut v: Vec<String> = vec![
        format!("{}\n\n{}\n", r1, wrap(&k)),
        format!("{}\n\n{}", r1, k),
        format!("{}\r\n\r\n{}\r\n", r1, wrap(&k).replace('\n', "\r\n")),
        format!("# a comment\n#another\n{}\n{}\n\n{}\n", r1, h1, wrap(&k)),
        format!("#\n{}\n\n{}\n", h1, k),
        format!("# no line feed after the comment"),
        format!("#c\n"),
        format!(""),
        format!("\n{}\n", k),
        format!("\r\n{}\n", k),
        format!("{}\n{}", r1, k),
        format!("{}", r1),
        format!("{}\n", r1),
        format!("{}\n\n", r1),
        format!("{}\n{}\n{}\n{}\n\n{}\n", r1, h1, r2, h2, k),
        format!("{}\n{}\n{}\n{}\n\n{}\n", h1, r1, h2, r2, k),
        format!("{}\n #not a comment here\n\n{}\n", r1, k),
        format!("{}\n#not a comment here\n\n{}\n", r1, k),
        format!(" {}\n\n{}\n", r1, k),
        format!("{} \n\n{}\n", r1, k),
        format!("{}\r\r\n\n{}\n", r1, k),
        format!("{}\r\n\r\r\n{}\n", r1, k),
        format!("http://h.example/ta.cer\n\n{}\n", k),
        format!("rsync://h.example/\n\n{}\n", k),
        format!("rsync://h.example/m\n\n{}\n", k),
        format!("rsync://h.example/m/\n\n{}\n", k),
        format!("rsync://h.example/m/../ta.cer\n\n{}\n", k),
        format!("rsync:///m/ta.cer\n\n{}\n", k),
        format!("https://\n\n{}\n", k),
        format!("https://h.example/a b\n\n{}\n", k),
        format!("{}\n\n{}\n", "rsync://h.example/m/t\u{e4}.cer", k),
        // the Base64 text
        format!("{}\n\n{}\n", r1, k.chars().map(|c| format!("{} ", c)).collect::<String>()),
        format!("{}\n\n\t{}\x0c\r\n", r1, k),
        format!("{}\n\n{}\n", r1, k.trim_end_matches('=')),
        format!("{}\n\n{}=\n", r1, k),
        format!("{}\n\n{}====\n", r1, k),
        format!("{}\n\n{}A\n", r1, k),
        format!("{}\n\n{}AAAA\n", r1, k),
        format!("{}\n\n{}\n", r1, k.replace('+', "-").replace('/', "_")),
        format!("{}\n\n{}\n", r1, k.replacen('A', "*", 1)),
        format!("{}\n\n{}\n\n{}\n", r1, &k[..k.len() / 2 / 4 * 4], &k[k.len() / 2 / 4 * 4..]),
        format!("{}\n\n{}\n", r1, b64(ec_key)),
        format!("{}\n\n{}\n", r1, b64(&[key, &[1u8, 2, 3][..]].concat())),
        format!("{}\n\n{}\n", r1, b64(&key[..key.len() - 1])),
        format!("{}\n\n{}\n", r1, b64(&[0x30, 0x00])),
        format!("{}\n\n{}\n", r1, b64(&[])),
        format!("{}\n\n", r1),
    ];
    // canonical padding: the unused bits of the last symbol
    for tail in [&[0x55u8][..], &[0x55, 0xaa][..]] {
        let data = [key, tail].concat();
        let good = b64(&data);
        v.push(format!("{}\n\n{}\n", r1, good));
        let mut bad = good.clone().into_bytes();
        let at = bad.iter().rposition(|c| *c != b'=').unwrap();
        bad[at] = if bad[at] == b'B' { b'C' } else { bad[at] + 1 };
        v.push(format!("{}\n\n{}\n", r1, String::from_utf8_lossy(&bad)));
    }
    let mut out: Vec<Vec<u8>> = v.into_iter().map(|s| s.into_bytes()).collect();
    out.push([r1.as_bytes(), b"\n\n", &[0xff, 0xfe][..], k.as_bytes(), b"\n"].concat());
    out.push([r1.as_bytes(), b"\n\n", k.as_bytes(), &[0xc3, 0xa4][..], b"\n"].concat());
    out.push([&[0xffu8][..], r1.as_bytes(), b"\n\n", k.as_bytes(), b"\n"].concat());
    out
}

pub fn structured_key(key: &[u8], ec_key: &[u8]) -> Vec<Vec<u8>> {
    use crate::der;
    let rsa_alg = der::seq(&[der::oid(crate::pki::RSA), der::null()]);
    let ec_alg = der::seq(&[der::oid(&[1, 2, 840, 10045, 2, 1]), der::oid(&[1, 2, 840, 10045, 3, 1, 7])]);
    let bits = der::bits(0, &[1, 2, 3, 4]);
    vec![
        key.to_vec(), ec_key.to_vec(), [key, &[0xde, 0xad][..]].concat(), key[..key.len() - 1].to_vec(),
        der::seq(&[rsa_alg.clone(), bits.clone()]),
        der::seq(&[ec_alg.clone(), bits.clone()]),
        der::seq(&[der::seq(&[der::oid(crate::pki::RSA)]), bits.clone()]),
        der::seq(&[der::seq(&[der::oid(crate::pki::RSA), der::null(), der::null()]), bits.clone()]),
        der::seq(&[der::seq(&[der::oid(crate::pki::SHA256_RSA), der::null()]), bits.clone()]),
        der::seq(&[der::seq(&[der::oid(&[1, 2, 840, 10045, 2, 1])]), bits.clone()]),
        der::seq(&[der::seq(&[der::oid(&[1, 2, 840, 10045, 2, 1]), der::null()]), bits.clone()]),
        der::seq(&[der::seq(&[der::oid(&[1, 2, 840, 10045, 2, 1]), der::oid(&[1, 3, 132, 0, 34])]), bits.clone()]),
        der::seq(&[der::seq(&[der::oid(&[1, 2, 840, 10045, 2, 1]), der::oid(&[1, 2, 840, 10045, 3, 1, 7]), der::null()]), bits.clone()]),
        der::seq(&[rsa_alg.clone(), der::bits(3, &[1, 2, 0xf8])]),
        der::seq(&[rsa_alg.clone(), der::bits(3, &[1, 2, 0xff])]),
        der::seq(&[rsa_alg.clone(), vec![3, 1, 0]]),
        der::seq(&[rsa_alg.clone(), vec![3, 1, 1]]),
        der::seq(&[rsa_alg.clone(), vec![3, 0]]),
        der::seq(&[rsa_alg.clone(), vec![3, 2, 8, 0]]),
        der::seq(&[rsa_alg.clone(), der::tlv(0x23, &bits)]),
        der::seq(&[rsa_alg.clone(), der::octets(&[1, 2, 3])]),
        der::seq(&[rsa_alg.clone(), bits.clone(), der::null()]),
        der::seq(&[rsa_alg.clone()]),
        der::seq(&[bits.clone(), rsa_alg.clone()]),
        der::seq(&[]),
        der::tlv(0x31, &der::cat(&[rsa_alg.clone(), bits.clone()])),
        [&[0x30u8, 0x80][..], &rsa_alg, &bits, &[0, 0][..]].concat(),
        [&[0x30u8, 0x81, (rsa_alg.len() + bits.len()) as u8][..], &rsa_alg, &bits].concat(),
    ]
}

pub fn generate_tal_into(ctx: &mut Ctx, seeds: &[(&'static str, Vec<u8>)], mutate: &dyn Fn(&mut Rng, &[u8], &[Vec<u8>]) -> Vec<u8>,
                         systematic: &dyn Fn(&[u8]) -> Vec<Vec<u8>>) {
    let mut rng = Rng::new(ctx.seed ^ 0x7A1D);
    let all: Vec<Vec<u8>> = seeds.iter().map(|s| s.1.clone()).collect();
    let per = if ctx.tier_thorough { 2500 } else { 250 };
    let key = seeds.iter().find(|s| s.0 == "key").map(|s| s.1.clone());
    let pool = crate::pki::Pool::new(1);
    let ec = pool.ec_spki.clone();
    if let Some(key) = &key {
        for d in structured_tal(key, &ec) { ctx.case(&format!("tald {}", hex(&d))); }
        for d in structured_key(key, &ec) { ctx.case(&format!("keyd {}", hex(&d))); }
    }
    for (entry, data) in seeds {
        let op = match *entry { "tal" => "tald", "key" => "keyd", _ => continue };
        ctx.case(&format!("{} {}", op, hex(data)));
        if *entry == "key" { for d in systematic(data) { ctx.case(&format!("{} {}", op, hex(&d))); } }
        for i in 0..per {
            let mut d = if *entry == "tal" && i % 2 == 0 { text_mutate(&mut rng, data) } else { mutate(&mut rng, data, &all) };
            if rng.chance(1, 5) { d = mutate(&mut rng, &d, &all); }
            if d.len() > 80_000 { d.truncate(80_000); }
            ctx.case(&format!("{} {}", op, hex(&d)));
        }
    }
}

/// small edits that keep a TAL a text: change, insert or delete one character from the alphabet that matters
fn text_mutate(rng: &mut Rng, data: &[u8]) -> Vec<u8> {
    const ALPHA: &[u8] = b"\n\r #=+/AZaz09-_:.%\t\x0c";
    let mut d = data.to_vec();
    for _ in 0..(1 + rng.below(3)) {
        if d.is_empty() { d.push(*rng.pick(ALPHA)); continue }
        let at = rng.below(d.len() as u64) as usize;
        match rng.below(4) {
            0 => d[at] = *rng.pick(ALPHA),
            1 => d.insert(at, *rng.pick(ALPHA)),
            2 => { d.remove(at); }
            _ => { let n = (rng.below(8) as usize).min(d.len() - at); d.drain(at..at + n); }
        }
    }
    d
}
