//! C08 — RTR server connection: answers depend on the bytes only (src/rtr/server.rs).
use crate::rng::{hex, unhex, Rng};
use crate::sock::{settle, Pipe, Sock};
use crate::Ctx;
use rpki::rtr::payload::{Action, PayloadRef, Timing};
use rpki::rtr::server::{NotifySender, PayloadDiff, PayloadSet, PayloadSource, Server};
use rpki::rtr::state::{Serial, State};
use std::sync::{Arc, Mutex};

#[derive(Clone)]
pub struct FixedSource {
    pub ready: bool,
    pub session: u16,
    pub serial: u32,
    pub known: Vec<u32>,
    /// which answers were asked for: 'f' full, 'd' diff
    pub log: Arc<Mutex<Vec<char>>>,
}

pub struct Empty;
impl PayloadSet for Empty { fn next(&mut self) -> Option<PayloadRef<'_>> { None } }
impl PayloadDiff for Empty { fn next(&mut self) -> Option<(PayloadRef<'_>, Action)> { None } }

impl PayloadSource for FixedSource {
    type Set = Empty;
    type Diff = Empty;
    fn ready(&self) -> bool { self.ready }
    fn notify(&self) -> State { State::from_parts(self.session, Serial(self.serial)) }
    fn full(&self) -> (State, Empty) { self.log.lock().unwrap().push('f'); (self.notify(), Empty) }
    fn diff(&self, state: State) -> Option<(State, Empty)> {
        if state.session() == self.session && self.known.contains(&u32::from(state.serial())) {
            self.log.lock().unwrap().push('d');
            Some((self.notify(), Empty))
        } else { None }
    }
    fn timing(&self) -> Timing { Timing::default() }
}

/// Parses the server's output into response tokens.
pub fn tokens(out: &[u8], kinds: &[char]) -> Vec<String> {
    let mut v = Vec::new();
    let mut i = 0;
    let mut kind_idx = 0;
    let mut open: Option<(u8, u16)> = None; // inside Cache Response … End of Data
    while i + 8 <= out.len() {
        let ver = out[i];
        let ty = out[i + 1];
        let sess = u16::from_be_bytes([out[i + 2], out[i + 3]]);
        let len = u32::from_be_bytes([out[i + 4], out[i + 5], out[i + 6], out[i + 7]]) as usize;
        if len < 8 || i + len > out.len() { v.push(format!("TRUNCATED{}", hex(&out[i..]))); return v; }
        let body = &out[i + 8..i + len];
        match ty {
            3 => { if open.is_some() { v.push("NESTED".into()); } open = Some((ver, sess)); }
            7 => {
                let serial = u32::from_be_bytes([body[0], body[1], body[2], body[3]]);
                match open.take() {
                    Some((v0, s0)) if v0 == ver && s0 == sess => {
                        let k = kinds.get(kind_idx).copied().unwrap_or('?'); kind_idx += 1;
                        v.push(format!("D{}.{}.{}.{}", ver, sess, serial, k));
                    }
                    _ => v.push("STRAY-EOD".into()),
                }
            }
            8 => { if open.is_some() { v.push("RESET-INSIDE".into()); } v.push(format!("R{}", ver)); }
            10 => {
                if open.is_some() { v.push("ERROR-INSIDE".into()); }
                let plen = u32::from_be_bytes([body[0], body[1], body[2], body[3]]) as usize;
                let p = body.get(4..4 + plen).map(hex).unwrap_or_else(|| "BAD".into());
                v.push(format!("E{}.{}.{}", ver, sess, p));
            }
            0 => {
                let serial = u32::from_be_bytes([body[0], body[1], body[2], body[3]]);
                if open.is_some() { v.push("NOTIFY-INSIDE".into()); }
                v.push(format!("N{}.{}.{}", ver, sess, serial));
            }
            _ => { if open.is_none() { v.push(format!("STRAY{}", ty)); } }
        }
        i += len;
    }
    if i != out.len() { v.push(format!("TRAILING{}", hex(&out[i..]))); }
    if open.is_some() { v.push("UNFINISHED".into()); }
    v
}

pub fn parse_src(s: &str) -> Option<FixedSource> {
    // ready:session:serial:known,known
    let f: Vec<&str> = s.split(':').collect();
    if f.len() != 4 { return None; }
    Some(FixedSource {
        ready: f[0] == "1",
        session: f[1].parse().ok()?,
        serial: f[2].parse().ok()?,
        known: if f[3] == "-" { vec![] } else { f[3].split(',').map(|x| x.parse().ok()).collect::<Option<Vec<u32>>>()? },
        log: Arc::new(Mutex::new(Vec::new())),
    })
}

pub fn exec(toks: &[&str]) -> String {
    match toks {
        ["case", src, evs @ ..] => {
            let src = match parse_src(src) { Some(s) => s, None => return "bad-op".into() };
            let evs: Vec<String> = evs.iter().map(|s| s.to_string()).collect();
            let rt = tokio::runtime::Builder::new_current_thread().build().unwrap();
            rt.block_on(async move {
                let to_server = Pipe::default();
                let from_server = Pipe::default();
                let sock = Sock { rx: to_server.clone(), tx: from_server.clone() };
                let mut notify = NotifySender::new();
                let listener = futures_util::stream::iter(vec![Ok::<Sock, std::io::Error>(sock)]);
                let server = Server::new(listener, notify.clone(), src.clone());
                let handle = tokio::spawn(server.run());
                settle(&[&to_server, &from_server]).await;
                for e in &evs {
                    if e == "n" { notify.notify(); }
                    else if e == "e" { to_server.close(); }
                    else if let Some(h) = e.strip_prefix('c') {
                        match unhex(h) { Some(b) => to_server.push(&b), None => return "bad-op".to_string() }
                    } else { return "bad-op".to_string(); }
                    settle(&[&to_server, &from_server]).await;
                }
                let out = from_server.take_log();
                handle.abort();
                let kinds = src.log.lock().unwrap().clone();
                let t = tokens(&out, &kinds);
                if t.is_empty() { "-".to_string() } else { t.join(" ") }
            })
        }
        _ => "bad-op".into(),
    }
}

fn query_pool() -> Vec<(String, Vec<u8>)> {
    let mut v: Vec<(String, Vec<u8>)> = Vec::new();
    let hdr = |ver: u8, ty: u8, sess: u16, len: u32| { let mut h = vec![ver, ty]; h.extend_from_slice(&sess.to_be_bytes()); h.extend_from_slice(&len.to_be_bytes()); h };
    for ver in [0u8, 1, 2] {
        v.push((format!("reset{}", ver), hdr(ver, 2, 0, 8)));
        for (sess, serial) in [(7u16, 5u32), (7, 4), (7, 99), (8, 5)] {
            let mut b = hdr(ver, 1, sess, 12); b.extend_from_slice(&serial.to_be_bytes());
            v.push((format!("serial{}", ver), b));
        }
    }
    v.push(("reset-badlen".into(), hdr(1, 2, 0, 12)));
    v.push(("serial-badlen".into(), hdr(1, 1, 7, 8)));
    v.push(("badver".into(), hdr(3, 2, 0, 8)));
    v.push(("badver255".into(), hdr(255, 1, 7, 12)));
    v.push(("unknown-pdu".into(), hdr(1, 4, 0, 20)));
    v.push(("cache-response".into(), hdr(1, 3, 7, 8)));
    v.push(("garbage".into(), vec![0xde, 0xad, 0xbe, 0xef, 0, 1, 2, 3]));
    { let mut e = hdr(1, 10, 2, 16); e.extend_from_slice(&[0, 0, 0, 0, 0, 0, 0, 0]); v.push(("error-pdu".into(), e)); }
    v
}

fn emit_schedule(ctx: &mut Ctx, src: &str, stream: &[u8], cuts: &[usize], notifies: &[usize], eof: bool) {
    // cuts: sorted positions strictly inside the stream; notifies: indices of chunk boundaries (0 = before the first chunk)
    let mut evs: Vec<String> = Vec::new();
    let mut bounds = vec![0usize];
    bounds.extend_from_slice(cuts);
    bounds.push(stream.len());
    for i in 0..bounds.len() - 1 {
        if notifies.contains(&i) { evs.push("n".into()); }
        if bounds[i + 1] > bounds[i] { evs.push(format!("c{}", hex(&stream[bounds[i]..bounds[i + 1]]))); }
    }
    if notifies.contains(&(bounds.len() - 1)) { evs.push("n".into()); }
    if eof { evs.push("e".into()); }
    ctx.case(&format!("case {} {}", src, evs.join(" ")));
}

pub fn generate(ctx: &mut Ctx) {
    let mut rng = Rng::new(ctx.seed ^ 0xC08);
    let thorough = ctx.tier_thorough;
    let pool = query_pool();
    let srcs = ["1:7:5:4,5", "0:7:5:4,5", "1:7:5:-"];
    // streams of one or two queries: every single cut x a notify at every boundary (or none)
    let mut streams: Vec<Vec<u8>> = Vec::new();
    for (_, q) in &pool { streams.push(q.clone()); }
    for (_, a) in &pool { for (_, b) in &pool {
        if thorough || rng.chance(1, 6) { let mut s = a.clone(); s.extend_from_slice(b); streams.push(s); }
    }}
    for s in &streams {
        let src = srcs[(s.len() + s[0] as usize) % srcs.len()];
        emit_schedule(ctx, src, s, &[], &[], false);
        emit_schedule(ctx, src, s, &[], &[0], true);
        emit_schedule(ctx, src, s, &[], &[1], false);
        for c in 1..s.len() {
            emit_schedule(ctx, src, s, &[c], &[], false);
            emit_schedule(ctx, src, s, &[c], &[1], false);
            if thorough { emit_schedule(ctx, src, s, &[c], &[0, 1, 2], true); }
        }
    }
    // longer streams: random 2-3 cuts and notify subsets
    let n = if thorough { 600_000 } else { 40_000 };
    for _ in 0..n {
        let k = rng.range(1, 4) as usize;
        let mut s = Vec::new();
        for _ in 0..k { s.extend_from_slice(&rng.pick(&pool).1); }
        if rng.chance(1, 8) { let cut = rng.below(s.len() as u64) as usize; s.truncate(cut.max(1)); }
        let ncuts = rng.below(4) as usize;
        let mut cuts: Vec<usize> = if s.len() < 2 { vec![] } else { (0..ncuts).map(|_| rng.range(1, s.len() as u64 - 1) as usize).collect() };
        cuts.sort(); cuts.dedup();
        let nb = cuts.len() + 2;
        let notifies: Vec<usize> = (0..nb).filter(|_| rng.chance(1, 3)).collect();
        let src: &str = *rng.pick(&srcs);
        let eof = rng.chance(1, 3);
        emit_schedule(ctx, src, &s, &cuts, &notifies, eof);
    }
    // byte-at-a-time delivery with a notify after every byte
    for (_, a) in pool.iter().take(8) {
        let mut s = a.clone(); s.extend_from_slice(&pool[0].1);
        let cuts: Vec<usize> = (1..s.len()).collect();
        let all: Vec<usize> = (0..=s.len()).collect();
        emit_schedule(ctx, srcs[0], &s, &cuts, &[], false);
        emit_schedule(ctx, srcs[0], &s, &cuts, &all, false);
    }
}
