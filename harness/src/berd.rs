//! The `strict = false` entry points (`SignedObject` / `Roa` / `Aspa` / `Manifest` / `SignedMessage::decode(.., false)`),
//! which decode in BER mode, against the mode-parametrized Lean model (`Gen/BerModel.lean` at `ber = true`):
//! `cmsdr <ty> <hex>`, `smsgdr <hex>`.  Inputs: the library-made and captured objects re-encoded with the liberties
//! BER gives (indefinite lengths, over-long lengths, constructed OCTET STRINGs, other truth values, set unused
//! bits), hand-made variations and random mutants of those.

use bytes::Bytes;
use bcder::Mode;
use rpki::ca::sigmsg::SignedMessage;
use rpki::repository::aspa::Aspa;
use rpki::repository::manifest::Manifest;
use rpki::repository::roa::Roa;
use rpki::repository::sigobj::SignedObject;
use crate::der::{self, Node};
use crate::rng::{hex, unhex, Rng};
use crate::Ctx;

pub fn exec_cms_relaxed(toks: &[&str]) -> String {
    if toks.len() != 3 { return "bad-op".into() }
    let Some(data) = unhex(toks[2]) else { return "bad-op".into() };
    let b = Bytes::from(data);
    let typed = match toks[1] {
        "so" => SignedObject::decode(b.clone(), false).is_ok(),
        "roa" => Roa::decode(b.clone(), false).is_ok(),
        "aspa" => Aspa::decode(b.clone(), false).is_ok(),
        "mft" => Manifest::decode(b.clone(), false).is_ok(),
        _ => return "bad-op".into(),
    };
    let so = match SignedObject::decode(b, false) {
        Ok(o) => format!("ok {} {} {} | {}", hex(o.content_type().as_ref()), hex(&o.content().to_bytes()),
                         o.signing_time().timestamp(), crate::certd::show_cert_mode(o.cert(), Mode::Ber)),
        Err(_) => "err".into(),
    };
    format!("{} {}", if typed { "ok" } else { "err" }, so)
}

pub fn exec_smsg_relaxed(toks: &[&str]) -> String {
    if toks.len() != 2 { return "bad-op".into() }
    let Some(data) = unhex(toks[1]) else { return "bad-op".into() };
    match SignedMessage::decode(Bytes::from(data), false) {
        Ok(m) => format!("ok {}", hex(&m.content().to_bytes())),
        Err(_) => "err".into(),
    }
}

fn ber_len(out: &mut Vec<u8>, l: usize, long: bool) {
    if !long { out.extend(der::len(l)); return }
    if l < 0x80 { out.extend([0x81, l as u8]); }
    else if l < 0x100 { out.extend([0x82, 0, l as u8]); }
    else if l < 0x10000 { out.extend([0x83, 0, (l >> 8) as u8, l as u8]); }
    else { out.extend([0x84, 0, (l >> 16) as u8, (l >> 8) as u8, l as u8]); }
}

/// an OCTET STRING (or implicitly tagged one) in the constructed form: its octets in one to three nested segments
fn split_octets(rng: &mut Rng, tag: u8, c: &[u8], depth: u32) -> Vec<u8> {
    let mut body = Vec::new();
    let parts = 1 + rng.below(3) as usize;
    let mut at = 0;
    for i in 0..parts {
        let end = if i + 1 == parts { c.len() } else { at + rng.below((c.len() - at) as u64 + 1) as usize };
        let seg = &c[at..end];
        if depth < 2 && rng.chance(1, 4) { body.extend(split_octets(rng, 0x04, seg, depth + 1)); }
        else { body.push(0x04); ber_len(&mut body, seg.len(), rng.chance(1, 6)); body.extend(seg); }
        at = end;
    }
    let mut out = vec![tag | 0x20];
    if rng.chance(1, 3) { out.push(0x80); out.extend(body); out.extend([0, 0]); }
    else { ber_len(&mut out, body.len(), rng.chance(1, 6)); out.extend(body); }
    out
}

/// the forest written with BER's liberties; `rate` in 1/16: how often a node takes one
pub fn ber_encode(nodes: &[Node], rng: &mut Rng, rate: u64) -> Vec<u8> {
    let mut out = Vec::new();
    for n in nodes {
        let really_constructed = n.tag & 0x20 != 0;
        let lib = rng.below(16) < rate;
        let c = match &n.kids {
            // the children of a constructed value may take liberties; what a primitive value wraps is read in DER mode
            Some(k) if really_constructed => ber_encode(k, rng, rate),
            Some(k) => { let mut v = n.lead.clone(); v.extend(der::encode_nodes(k)); v }
            None => n.content.clone(),
        };
        if !lib { out.push(n.tag); ber_len(&mut out, c.len(), false); out.extend(&c); continue }
        if really_constructed {
            match rng.below(3) {
                0 => { out.push(n.tag); out.push(0x80); out.extend(&c); out.extend([0, 0]); }
                _ => { out.push(n.tag); ber_len(&mut out, c.len(), true); out.extend(&c); }
            }
        } else if n.tag == 0x04 || n.tag == 0x80 || n.tag == 0x13 || n.tag == 0x0c {
            if rng.chance(2, 3) { out.extend(split_octets(rng, n.tag, &c, 0)); }
            else { out.push(n.tag); ber_len(&mut out, c.len(), true); out.extend(&c); }
        } else if n.tag == 0x01 && c.len() == 1 {
            out.extend([0x01, 0x01, if c[0] == 0 { 0 } else { 1 + rng.below(255) as u8 }]);
        } else if n.tag == 0x03 && c.len() >= 2 && rng.bool() {
            // unused bits that are not zero
            let mut c = c.clone();
            c[0] = 1 + rng.below(7) as u8;
            let last = c.len() - 1;
            c[last] |= 1;
            out.push(0x03); ber_len(&mut out, c.len(), false); out.extend(&c);
        } else {
            out.push(n.tag); ber_len(&mut out, c.len(), true); out.extend(&c);
        }
    }
    out
}

/// the forest in DER except for one liberty of kind `kind` at the `target`-th node (pre-order, counting only the
/// nodes outside wrapped DER); `None` when the node cannot take it
fn ber_encode_one(nodes: &[Node], target: usize, kind: u32, counter: &mut usize, hit: &mut bool) -> Vec<u8> {
    let mut out = Vec::new();
    for n in nodes {
        let me = *counter;
        *counter += 1;
        let really_constructed = n.tag & 0x20 != 0;
        let c = match &n.kids {
            Some(k) if really_constructed => ber_encode_one(k, target, kind, counter, hit),
            Some(k) => { let mut v = n.lead.clone(); v.extend(der::encode_nodes(k)); v }
            None => n.content.clone(),
        };
        if me != target { out.push(n.tag); ber_len(&mut out, c.len(), false); out.extend(&c); continue }
        let stringy = matches!(n.tag, 0x04 | 0x80 | 0x13 | 0x0c | 0x16 | 0x03 | 0x06 | 0x02 | 0x17 | 0x18);
        match kind {
            0 if really_constructed => { *hit = true; out.push(n.tag); out.push(0x80); out.extend(&c); out.extend([0, 0]); }
            1 => { *hit = true; out.push(n.tag); ber_len(&mut out, c.len(), true); out.extend(&c); }
            2 if really_constructed => { *hit = true; out.push(n.tag); out.push(0x80); out.extend(&c); out.extend([0, 0x81, 0]); }
            3 if !really_constructed && stringy => {
                // the constructed form with the octets in two primitive OCTET STRING segments
                *hit = true;
                let cut = c.len() / 2;
                let mut body = der::octets(&c[..cut]); body.extend(der::octets(&c[cut..]));
                out.push(n.tag | 0x20); ber_len(&mut out, body.len(), false); out.extend(body);
            }
            4 if !really_constructed && stringy => {
                // the same with indefinite length and a nested constructed segment
                *hit = true;
                let cut = c.len() / 2;
                let mut inner = vec![0x24, 0x80]; inner.extend(der::octets(&c[..cut])); inner.extend([0, 0]);
                let mut body = inner; body.extend(der::octets(&c[cut..]));
                out.push(n.tag | 0x20); out.push(0x80); out.extend(body); out.extend([0, 0]);
            }
            5 if n.tag == 0x01 && c.len() == 1 && c[0] != 0 => { *hit = true; out.extend([0x01, 0x01, 0x01]); }
            5 if n.tag == 0x03 && c.len() >= 2 => {
                *hit = true;
                let mut c = c.clone(); c[0] = 3; let l = c.len() - 1; c[l] |= 5;
                out.push(0x03); ber_len(&mut out, c.len(), false); out.extend(&c);
            }
            5 if !really_constructed => { *hit = true; out.push(n.tag); out.push(0x80); out.extend(&c); out.extend([0, 0]); }
            _ => { out.push(n.tag); ber_len(&mut out, c.len(), false); out.extend(&c); }
        }
    }
    out
}

/// every node of the object with every liberty it can take, one at a time
pub fn systematic_ber(orig: &[u8]) -> Vec<Vec<u8>> {
    let mut out = Vec::new();
    let Some(tree) = der::parse_nodes(orig) else { return out };
    let total = { let mut c = 0; let mut h = false; let _ = ber_encode_one(&tree, usize::MAX, 0, &mut c, &mut h); c };
    for target in 0..total {
        for kind in 0..6 {
            let (mut c, mut hit) = (0, false);
            let d = ber_encode_one(&tree, target, kind, &mut c, &mut hit);
            if hit { out.push(d); }
        }
    }
    out
}

pub fn generate_ber_into(ctx: &mut Ctx, seeds: &[(&'static str, Vec<u8>)], mutate: &dyn Fn(&mut Rng, &[u8], &[Vec<u8>]) -> Vec<u8>) {
    let mut rng = Rng::new(ctx.seed ^ 0xBE12);
    let all: Vec<Vec<u8>> = seeds.iter().map(|s| s.1.clone()).collect();
    let per = if ctx.tier_thorough { 400 } else { 40 };
    for (entry, data) in seeds {
        let (op, ty): (&str, &str) = match *entry {
            "roa" | "aspa" | "mft" | "so" => ("cmsdr", *entry),
            "sigmsg" => ("smsgdr", ""),
            _ => continue,
        };
        if data.len() > 20_000 { continue }
        let line = |d: &[u8]| if ty.is_empty() { format!("{} {}", op, hex(d)) } else { format!("{} {} {}", op, ty, hex(d)) };
        ctx.case(&line(data));
        // the hand-made variations of the strict stream, now through the relaxed entry point
        let structured = if op == "cmsdr" { crate::certd::structured_cms(data) } else { crate::certd::structured_smsg(data) };
        for d in structured.iter() { ctx.case(&line(d)); }
        let Some(tree) = der::parse_nodes(data) else { continue };
        // one liberty at one node, for every node: on the smaller objects, and a sample of it on the others
        let sys = systematic_ber(data);
        let step = if data.len() < 2600 || ctx.tier_thorough { 1 } else { 5 };
        for d in sys.iter().step_by(step) { ctx.case(&line(d)); }
        for i in 0..per {
            // every node / few nodes take a liberty; then, for a part of the cases, a mutation on top
            let rate = match i % 4 { 0 => 16, 1 => 1, 2 => 3, _ => 8 };
            let mut d = ber_encode(&tree, &mut rng, rate);
            if i % 3 == 2 { d = mutate(&mut rng, &d, &all); }
            if d.len() > 80_000 { d.truncate(80_000); }
            ctx.case(&line(&d));
        }
        // liberties on top of the hand-made variations
        for v in structured.iter().take(if ctx.tier_thorough { 400 } else { 60 }) {
            if let Some(t) = der::parse_nodes(v) { let d = ber_encode(&t, &mut rng, 4); ctx.case(&line(&d)); }
        }
    }
}

/// BER liberties that leave every signed octet string as it is: the to-be-signed part of every embedded certificate
/// and the signed attributes are written as they are, no value changes (truth values, unused bits) anywhere - only the
/// form of lengths and strings elsewhere.  `path` is the position of `nodes` in the object.
fn ber_encode_safe_at(nodes: &[Node], rng: &mut Rng, rate: u64, path: &mut Vec<usize>) -> Vec<u8> {
    let mut out = Vec::new();
    for (i, n) in nodes.iter().enumerate() {
        path.push(i);
        // [0, 1, 0, 3, k, 0]: the to-be-signed part of the k-th certificate; [0, 1, 0, last, k, 3]: signed attributes
        // under SignedData [0, 1, 0]: child 3 certificates, then (messages) CRLs, last signer infos; of each member the
        // first child is the to-be-signed part (of a signer info: the version), the fourth the signed attributes
        let protected = path.len() == 6 && path[..3] == [0, 1, 0] && path[3] >= 3 && (path[5] == 0 || path[5] == 3);
        let really_constructed = n.tag & 0x20 != 0;
        if protected {
            out.extend(der::encode_nodes(std::slice::from_ref(n)));
            path.pop();
            continue;
        }
        let c = match &n.kids {
            Some(k) if really_constructed => ber_encode_safe_at(k, rng, rate, path),
            Some(k) => { let mut v = n.lead.clone(); v.extend(der::encode_nodes(k)); v }
            None => n.content.clone(),
        };
        let lib = rng.below(16) < rate;
        if !lib { out.push(n.tag); ber_len(&mut out, c.len(), false); out.extend(&c); }
        else if really_constructed {
            if rng.below(3) == 0 { out.push(n.tag); out.push(0x80); out.extend(&c); out.extend([0, 0]); }
            else { out.push(n.tag); ber_len(&mut out, c.len(), true); out.extend(&c); }
        } else if (n.tag == 0x04 || n.tag == 0x80) && rng.chance(2, 3) {
            out.extend(split_octets(rng, n.tag, &c, 0));
        } else {
            out.push(n.tag); ber_len(&mut out, c.len(), true); out.extend(&c);
        }
        path.pop();
    }
    out
}

pub fn ber_encode_safe(obj: &[u8], rng: &mut Rng, rate: u64) -> Option<Vec<u8>> {
    let tree = der::parse_nodes(obj)?;
    Some(ber_encode_safe_at(&tree, rng, rate, &mut Vec::new()))
}
