//! One splitmix64 state drives every random choice.

#[derive(Clone)]
pub struct Rng(pub u64);

impl Rng {
    pub fn new(seed: u64) -> Self {
        // the state must not be an affine function of the seed with the stream's own increment
        // (else seed s+1 is seed s advanced by one step): scramble it first
        let mut z = seed.wrapping_add(0x1234_5678_9ABC_DEF1);
        z = (z ^ (z >> 30)).wrapping_mul(0xBF58476D1CE4E5B9);
        z = (z ^ (z >> 27)).wrapping_mul(0x94D049BB133111EB);
        Rng(z ^ (z >> 31))
    }
    pub fn next(&mut self) -> u64 {
        self.0 = self.0.wrapping_add(0x9E3779B97F4A7C15);
        let mut z = self.0;
        z = (z ^ (z >> 30)).wrapping_mul(0xBF58476D1CE4E5B9);
        z = (z ^ (z >> 27)).wrapping_mul(0x94D049BB133111EB);
        z ^ (z >> 31)
    }
    pub fn below(&mut self, n: u64) -> u64 {
        if n == 0 { 0 } else { self.next() % n }
    }
    pub fn range(&mut self, lo: u64, hi: u64) -> u64 {
        lo + self.below(hi - lo + 1)
    }
    pub fn bool(&mut self) -> bool {
        self.next() & 1 == 1
    }
    pub fn chance(&mut self, num: u64, den: u64) -> bool {
        self.below(den) < num
    }
    pub fn pick<'a, T>(&mut self, xs: &'a [T]) -> &'a T {
        &xs[self.below(xs.len() as u64) as usize]
    }
    pub fn u128(&mut self) -> u128 {
        ((self.next() as u128) << 64) | self.next() as u128
    }
    pub fn bytes(&mut self, n: usize) -> Vec<u8> {
        (0..n).map(|_| self.next() as u8).collect()
    }
}

pub fn hex(bs: &[u8]) -> String {
    if bs.is_empty() {
        return "-".to_string();
    }
    let mut s = String::with_capacity(bs.len() * 2);
    for b in bs {
        s.push_str(&format!("{:02x}", b));
    }
    s
}

pub fn unhex(s: &str) -> Option<Vec<u8>> {
    if s == "-" {
        return Some(Vec::new());
    }
    if s.len() % 2 != 0 {
        return None;
    }
    let b = s.as_bytes();
    let mut out = Vec::with_capacity(b.len() / 2);
    for i in (0..b.len()).step_by(2) {
        let h = (b[i] as char).to_digit(16)?;
        let l = (b[i + 1] as char).to_digit(16)?;
        out.push((h * 16 + l) as u8);
    }
    Some(out)
}
