//! Verification harness: drives the real rpki-rs code through the line
//! protocol described in /verif/DESIGN.md §1.2.
//!
//!   vh gen <ID> <quick|thorough> <seed> [<shard> <nshards>]
//!       generate cases for property ID, execute each on the implementation,
//!       print `ID <op…> => <result>` per case.
//!   vh replay
//!       read `ID <op…>[ => …]` lines from stdin, execute each, print the same
//!       format.
mod rng;
mod c16;
mod c13;
mod c12;
mod c17;
mod c15;
mod c07;
mod sock;
mod c08;
mod c06;
mod c03;
mod der;
mod c14;
mod pki;
mod c01;
mod c02;
mod c10;
mod c09;
mod c04;
mod c11;
mod c11b;
mod c05;
mod c05b;
mod certd;
mod csrd;
mod tald;
mod rtad;
mod berd;

use std::io::{BufRead, Write};

#[global_allocator]
static ALLOC: c04::Counting = c04::Counting;

pub struct Ctx<'a> {
    pub id: &'static str,
    pub tier_thorough: bool,
    pub seed: u64,
    pub shard: u64,
    pub nshards: u64,
    counter: u64,
    out: &'a mut dyn Write,
    exec: fn(&[&str]) -> String,
}

impl<'a> Ctx<'a> {
    /// Runs `op` on the implementation and prints the case line, if this
    /// case belongs to our shard.
    pub fn case(&mut self, op: &str) {
        let mine = self.counter % self.nshards == self.shard;
        self.counter += 1;
        if !mine {
            return;
        }
        let toks: Vec<&str> = op.split(' ').collect();
        let res = run_exec(self.exec, &toks);
        writeln!(self.out, "{} {} => {}", self.id, op, res).unwrap();
    }
}

pub fn run_exec(exec: fn(&[&str]) -> String, toks: &[&str]) -> String {
    match std::panic::catch_unwind(|| exec(toks)) {
        Ok(s) => s,
        Err(_) => "panic".to_string(),
    }
}

type Gen = fn(&mut Ctx);
type Exec = fn(&[&str]) -> String;

fn lookup(id: &str) -> Option<(&'static str, Gen, Exec)> {
    match id {
        "C16" => Some(("C16", c16::generate, c16::exec)),
        "C13" => Some(("C13", c13::generate, c13::exec)),
        "C12" => Some(("C12", c12::generate, c12::exec)),
        "C17" => Some(("C17", c17::generate, c17::exec)),
        "C15" => Some(("C15", c15::generate, c15::exec)),
        "C07" => Some(("C07", c07::generate, c07::exec)),
        "C08" => Some(("C08", c08::generate, c08::exec)),
        "C06" => Some(("C06", c06::generate, c06::exec)),
        "C03" => Some(("C03", c03::generate, c03::exec)),
        "C14" => Some(("C14", c14_generate, c14_exec)),
        "C01" => Some(("C01", c01_generate, c01_exec)),
        "C02" => Some(("C02", c02_generate, c02_exec)),
        "C10" => Some(("C10", c10_generate, c10_exec)),
        "C09" => Some(("C09", c09::generate, c09::exec)),
        "C04" => Some(("C04", c04_generate, c04_exec)),
        "C11" => Some(("C11", c11_generate, c11_exec)),
        "C05" => Some(("C05", c05_generate, c05_exec)),
        _ => None,
    }
}

fn c01_generate(ctx: &mut Ctx) {
    c01::generate(ctx);
    // the decoder the validation rests on: every hand-made variation of every field and extension
    certd::generate_into(ctx, &c04::mutate_any, &|_| Vec::new());
}

fn c01_exec(toks: &[&str]) -> String {
    if toks.first() == Some(&"certd") { certd::exec(toks) } else { c01::exec(toks) }
}

fn c02_generate(ctx: &mut Ctx) {
    c02::generate(ctx);
    // the decoder of the envelope: hand-made variations of SignedData, SignerInfo, the signed attributes
    let pool = pki::Pool::new(3);
    certd::generate_cms_into(ctx, &c04::seeds(&pool), &c04::mutate_any, &|_| Vec::new());
}

fn c02_exec(toks: &[&str]) -> String {
    if toks.first() == Some(&"cmsd") { certd::exec_cms(toks) } else { c02::exec(toks) }
}

fn c10_generate(ctx: &mut Ctx) {
    c10::generate(ctx);
    let pool = pki::Pool::new(3);
    certd::generate_msg_into(ctx, &c04::seeds(&pool), &c04::mutate_any, &|_| Vec::new());
}

fn c10_exec(toks: &[&str]) -> String {
    match toks.first() {
        Some(&"idcd") => certd::exec_idc(toks),
        Some(&"smsgd") => certd::exec_smsg(toks),
        _ => c10::exec(toks),
    }
}

fn c14_generate(ctx: &mut Ctx) {
    c14::generate(ctx);
    // whole manifest objects: Manifest::decode (envelope, certificate, attributes, content) against CmsDer.decodeTyped
    let pool = pki::Pool::new(3);
    let seeds: Vec<(&'static str, Vec<u8>)> = c04::seeds(&pool).into_iter().filter(|s| s.0 == "mft").collect();
    certd::generate_cms_into(ctx, &seeds, &c04::mutate_any, &|_| Vec::new());
    // the same objects through `Manifest::decode(.., strict = false)` with BER's liberties
    berd::generate_ber_into(ctx, &seeds, &c04::mutate_any);
}

fn c14_exec(toks: &[&str]) -> String {
    match toks.first() {
        Some(&"cmsd") => certd::exec_cms(toks),
        Some(&"cmsdr") => berd::exec_cms_relaxed(toks),
        _ => c14::exec(toks),
    }
}

fn c04_generate(ctx: &mut Ctx) {
    c04::generate(ctx);
    certd::generate_into(ctx, &c04::mutate_any, &c04::systematic);
    let pool = pki::Pool::new(3);
    let seeds = c04::seeds(&pool);
    certd::generate_cms_into(ctx, &seeds, &c04::mutate_any, &c04::systematic);
    certd::generate_crl_into(ctx, &seeds, &c04::mutate_any, &c04::systematic);
    certd::generate_msg_into(ctx, &seeds, &c04::mutate_any, &c04::systematic);
    csrd::generate_csr_into(ctx, &seeds, &c04::mutate_any, &c04::systematic);
    tald::generate_tal_into(ctx, &seeds, &c04::mutate_any, &c04::systematic);
    rtad::generate_rta_into(ctx, &seeds, &c04::mutate_any, &c04::systematic);
    berd::generate_ber_into(ctx, &seeds, &c04::mutate_any);
}

fn c04_exec(toks: &[&str]) -> String {
    match toks.first() {
        Some(&"certd") => certd::exec(toks),
        Some(&"cmsd") => certd::exec_cms(toks),
        Some(&"crld") => certd::exec_crl(toks),
        Some(&"idcd") => certd::exec_idc(toks),
        Some(&"smsgd") => certd::exec_smsg(toks),
        Some(&"csrd") => csrd::exec_csr(toks),
        Some(&"tald") => tald::exec_tal(toks),
        Some(&"keyd") => tald::exec_key(toks),
        Some(&"rtad") => rtad::exec_rta(toks),
        Some(&"cmsdr") => berd::exec_cms_relaxed(toks),
        Some(&"smsgdr") => berd::exec_smsg_relaxed(toks),
        _ => c04::exec(toks),
    }
}

fn c11_generate(ctx: &mut Ctx) {
    c11::generate(ctx);
    c11b::generate_into(ctx);
}

fn c11_exec(toks: &[&str]) -> String {
    if matches!(toks.first(), Some(&"pubx") | Some(&"idx") | Some(&"prvx")) { c11b::exec(toks) } else { c11::exec(toks) }
}

fn c05_generate(ctx: &mut Ctx) {
    c05::generate(ctx);
    c05b::generate_into(ctx);
    c05::generate_codec(ctx);
}

fn c05_exec(toks: &[&str]) -> String {
    match toks.first() {
        Some(&"crlx") => c05b::exec(toks),
        Some(&"roax") | Some(&"road") | Some(&"aspax") | Some(&"aspaxa") | Some(&"aspad") => c05::exec_codec(toks),
        _ => c05::exec(toks),
    }
}

fn main() {
    if std::env::var_os("VH_PANIC").is_none() {
        std::panic::set_hook(Box::new(|_| {}));
    }
    let args: Vec<String> = std::env::args().collect();
    let stdout = std::io::stdout();
    let mut out = std::io::BufWriter::with_capacity(1 << 16, stdout.lock());
    match args.get(1).map(|s| s.as_str()) {
        Some("gen") => {
            let (id, generate, exec) = lookup(&args[2]).expect("unknown property");
            let thorough = args[3] == "thorough";
            let seed: u64 = args[4].parse().expect("seed");
            let (shard, nshards) = if args.len() > 6 {
                (args[5].parse().unwrap(), args[6].parse().unwrap())
            } else {
                (0, 1)
            };
            let mut ctx = Ctx {
                id, tier_thorough: thorough, seed, shard, nshards,
                counter: 0, out: &mut out, exec,
            };
            generate(&mut ctx);
        }
        Some("replay") => {
            let stdin = std::io::stdin();
            for line in stdin.lock().lines() {
                let line = line.unwrap();
                let line = line.trim_end();
                if line.is_empty() || line.starts_with('#') {
                    continue;
                }
                let op = match line.find(" => ") {
                    Some(i) => &line[..i],
                    None => line,
                };
                let mut toks: Vec<&str> = op.split(' ').collect();
                let id = toks.remove(0);
                let res = match lookup(id) {
                    Some((_, _, exec)) => run_exec(exec, &toks),
                    None => "unknown-property".to_string(),
                };
                writeln!(out, "{} => {}", op, res).unwrap();
            }
        }
        _ => {
            eprintln!("usage: vh gen <ID> <tier> <seed> [shard n] | vh replay");
            std::process::exit(2);
        }
    }
    out.flush().unwrap();
}
