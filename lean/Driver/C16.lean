import Driver.Common
import Rpki.Model.Serial
namespace Driver.C16
open Driver Rpki.Serial

/-- Run-length encoding of `f d` for `d = 0 .. n-1` as `start:value` pairs. -/
def rle (n : Nat) (f : Nat → String) : String := Id.run do
  let mut out := ""
  let mut prev := ""
  for d in [0:n] do
    let v := f d
    if d = 0 || v != prev then
      out := out ++ (if d = 0 then "" else ",") ++ toString d ++ ":" ++ v
      prev := v
  return out

def specRle : String := "0:eq,1:lt,2147483648:none,2147483649:gt"

def handle (toks : List String) (impl : String) : Verdict :=
  match toks with
  | ["cmp", a, b] =>
    match a.toNat?, b.toNat? with
    | some a, some b =>
      if a < W ∧ b < W then
        { model := some (showOrd (pcmp a b)),
          oracle := if impl == showOrd (table (diff a b)) then none
                    else some s!"table says {showOrd (table (diff a b))}" }
      else badOp "range"
    | _, _ => badOp "num"
  | ["add", a, n] =>
    match a.toNat?, n.toNat? with
    | some a, some n =>
      if a < W ∧ n < W then
        let m := match add a n with | some s => s!"ok {s}" | none => "panic"
        let o : Option String :=
          if n ≤ 2147483647 then
            match (impl.splitOn " ") with
            | ["ok", s] => match s.toNat? with
              | some s => if n ≥ 1 ∧ table (diff a s) ≠ some .lt then some "sum not greater"
                          else if n = 0 ∧ s ≠ a then some "add 0 changed the value" else none
              | none => some "unparseable"
            | _ => some "panicked on a permitted increment"
          else none
        { model := some m, oracle := o }
      else badOp "range"
    | _, _ => badOp "num"
  | ["wire", a] =>
    match a.toNat? with
    | some a =>
      if a < W then
        let m := " ".intercalate ((wire a).map toString)
        { model := some m }
      else badOp "range"
    | none => badOp "num"
  | ["unwire", b3, b2, b1, b0] =>
    match b3.toNat?, b2.toNat?, b1.toNat?, b0.toNat? with
    | some b3, some b2, some b1, some b0 =>
      match unwire [b3, b2, b1, b0] with
      | some v => { model := some (toString v) }
      | none => badOp "range"
    | _, _, _, _ => badOp "num"
  | ["sweep", base, n] =>
    match base.toNat?, n.toNat? with
    | some a, some n =>
      if a < W ∧ n ≤ W then
        let m := rle n (fun d => showOrd (pcmp a ((a + d) % W)))
        { model := some m,
          oracle := if n = W ∧ impl != specRle then some s!"expected {specRle}" else none }
      else badOp "range"
    | _, _ => badOp "num"
  | _ => badOp "unknown op"

end Driver.C16
