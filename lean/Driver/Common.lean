/-
Line protocol shared by every property (see DESIGN.md §1.2).

A line is `<ID> <op> <args…> => <impl result>`.  For each line the driver
computes the model's result for the op, compares it with the implementation's
result (stream M) and evaluates the executable Spec predicate of the property on
the implementation's result (stream O).
-/
namespace Driver

structure Verdict where
  /-- model result, `none` when the op is oracle-only -/
  model  : Option String := none
  /-- `some why` when the property predicate fails on the implementation's result -/
  oracle : Option String := none
  /-- `some why` when the op line itself could not be understood -/
  bad    : Option String := none
  /-- `some model` when a *part* of the implementation's result disagrees with the model (counted and
  reported like a whole-line model disagreement) -/
  mismatch : Option String := none

def Verdict.ofModel (m : String) : Verdict := { model := some m }
def badOp (why : String) : Verdict := { bad := some why }

def hexVal (c : Char) : Option Nat :=
  if '0' ≤ c ∧ c ≤ '9' then some (c.toNat - '0'.toNat)
  else if 'a' ≤ c ∧ c ≤ 'f' then some (c.toNat - 'a'.toNat + 10)
  else if 'A' ≤ c ∧ c ≤ 'F' then some (c.toNat - 'A'.toNat + 10)
  else none

/-- lowercase-hex byte string; `-` is the empty string -/
def parseHex (s : String) : Option (List UInt8) :=
  if s = "-" then some [] else
  let rec go : List Char → List UInt8 → Option (List UInt8)
    | [], acc => some acc.reverse
    | [_], _ => none
    | a :: b :: rest, acc =>
      match hexVal a, hexVal b with
      | some x, some y => go rest (UInt8.ofNat (x * 16 + y) :: acc)
      | _, _ => none
  go s.toList []

def hexDigit (n : Nat) : Char :=
  if n < 10 then Char.ofNat (n + 48) else Char.ofNat (n - 10 + 97)

def toHex (bs : List UInt8) : String :=
  if bs.isEmpty then "-" else
  String.ofList (bs.flatMap fun b => [hexDigit (b.toNat / 16), hexDigit (b.toNat % 16)])

def showOrd : Option Ordering → String
  | some .lt => "lt" | some .eq => "eq" | some .gt => "gt" | none => "none"

def showOpt {α} (f : α → String) : Option α → String
  | some a => "+" ++ f a | none => "-"

def showBool (b : Bool) : String := if b then "true" else "false"

end Driver
