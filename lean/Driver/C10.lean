import Driver.Common
import Driver.C01
import Rpki.Model.SigMsg
import Rpki.Model.Sha
import Rpki.Model.SigMsgDer
import Driver.CertShow
import Rpki.Gen.BerModel
namespace Driver.C10
open Driver Rpki.SigObj Rpki.SigMsg

def hexB (s : String) : Option (List Nat) := (parseHex s).map (·.map UInt8.toNat)
def optHex (s : String) : Option (Option (List Nat)) := if s = "N" then some none else (hexB s).map some
def digest := Rpki.Sha.sha256N

structure Parsed where
  dec : Bool
  m : Msg
  peer : List Nat

def parseFacts (s : String) : Option Parsed :=
  match s.splitOn ":" with
  | [dec, ct, content, attrs, sid, sigkey, siginput, peer, ee, crl] =>
    match hexB ct, hexB content, hexB attrs, hexB sid, hexB siginput, hexB peer, ee.splitOn ",", crl.splitOn "," with
    | some ct, some content, some attrs, some sid, some siginput, some peer,
      [esig, enb, ena, eski, ekid, eaki, ebc, eser], [calg, csig, cthis, cnext, caki, crev] =>
      match Driver.C01.parseInt enb, Driver.C01.parseInt ena, hexB eski, hexB ekid, optHex eaki, hexB eser,
            Driver.C01.parseInt cthis, Driver.C01.parseInt cnext, optHex caki,
            (if crev = "-" then some [] else (crev.splitOn ";").mapM hexB) with
      | some enb, some ena, some eski, some ekid, some eaki, some eser, some cthis, some cnext, some caki, some crev =>
        some { dec := dec = "1", peer := peer,
               m := { attrs := attrs, contentType := ct, content := content, sid := sid, sigKeyOk := sigkey = "1",
                      sigInput := siginput,
                      ee := { sigOk := esig = "1", validity := ⟨enb, ena⟩, ski := eski, keyId := ekid, aki := eaki,
                              basicCa := if ebc = "T" then some true else if ebc = "F" then some false else none,
                              serial := eser },
                      crl := { algMatch := calg = "1", sigOk := csig = "1", thisUpdate := cthis, nextUpdate := cnext,
                               aki := caki, revoked := crev } } }
      | _, _, _, _, _, _, _, _, _, _ => none
    | _, _, _, _, _, _, _, _ => none
  | _ => none

/-- the statement of the property on the ground-truth facts -/
def specOk (p : Parsed) (when : Int) : Bool :=
  let m := p.m
  match parseAttrs false m.attrs with
  | none => false
  | some (ct, md, _) =>
    ct == m.contentType && m.contentType == protocolCt &&
    md == digest m.content &&                                        -- digest attribute matches the content
    m.sigKeyOk && m.sigInput == Rpki.Der.tlv 0x31 m.attrs &&         -- signature over the DER of all signed attributes
    m.sid == m.ee.ski && m.ee.ski == m.ee.keyId &&
    m.ee.sigOk && m.ee.validity.nb ≤ when && when ≤ m.ee.validity.na && m.ee.basicCa != some true &&
    (match m.ee.aki with | some a => a == p.peer | none => true) &&
    m.crl.algMatch && m.crl.sigOk && m.crl.thisUpdate ≤ when && when ≤ m.crl.nextUpdate &&
    (match m.crl.aki with | some a => a == p.peer | none => true) &&
    !(m.crl.revoked.contains m.ee.serial)

def handle (toks : List String) (impl : String) : Verdict :=
  -- a verdict followed by ` ALT=<wrapper>`: the protocol wrapper and SignedMessage disagree on the same octets
  if (impl.splitOn " ALT=").length > 1 then
    { oracle := some s!"ProvisioningCms / PublicationCms and SignedMessage give different verdicts for the same message: {impl}" }
  else
  match toks with
  | ["idcd", h] =>
    match hexB h with
    | none => badOp "hex"
    | some b => { model := some (Driver.CertShow.idcLine b), oracle := if impl = "panic" then some "IdCert::decode panicked" else none }
  | ["smsgd", h] =>
    match hexB h with
    | none => badOp "hex"
    | some b => { model := some (Driver.CertShow.smsgLine b), oracle := if impl = "panic" then some "SignedMessage::decode panicked" else none }
  | op :: when :: facts :: _ =>
    -- `msg`: `SignedMessage::decode(.., strict = true)`; `msgr`: the relaxed mode, which the protocol wrappers
    -- `ProvisioningCms` / `PublicationCms` use (the mode-parametrized model at ber = true)
    if op ≠ "msg" ∧ op ≠ "msgr" then badOp "unknown op" else
    let ber := op = "msgr"
    match Driver.C01.parseInt when with
    | none => badOp "when"
    | some when =>
      if facts.startsWith "lib:" then
        match facts.splitOn ":" with
        | [_, _, nb, na, issuer, peer] =>
          match Driver.C01.parseInt nb, Driver.C01.parseInt na with
          | some nb, some na =>
            let want := if issuer = peer ∧ nb ≤ when ∧ when ≤ na then "ok" else "err"
            { model := some want,
              oracle := if impl = want then none
                else if want = "ok" then some "a message created by the library does not validate within its validity under its own key"
                else some "a message created by the library validates outside its validity or under another key" }
          | _, _ => badOp "lib facts"
        | _ => badOp "lib facts"
      else match parseFacts facts with
      | none => badOp "facts"
      | some p =>
        -- the model reads the message from its octets (`SigMsgDer.decodeSigMsg`: envelope, identity certificate,
        -- CRL, signed attributes); the generator's facts supply only the verdicts of the signature primitive
        let model := match toks.getLast?.bind hexB with
          | none => "bad-op"
          | some mb =>
            match Rpki.SigMsgDer.decodeSigMsgM ber mb with
            | none => "err"
            | some d =>
              let m := Rpki.SigMsgDer.toMsgM ber d p.m.sigKeyOk p.m.sigInput p.m.ee.sigOk p.m.crl.sigOk
              if validateAt digest m p.peer when then "ok" else "err"
        let spec := p.dec && specOk p when
        { model := some model,
          oracle :=
            if impl = "panic" then some "validation panicked"
            else if impl = "ok" ∧ !spec then some "accepted although one of the conditions (digest, signature over the DER of all signed attributes, EE certificate under the peer key/current/not CA, CRL under the peer key/current, not revoked) is violated"
            else if impl = "err" ∧ spec then some "a correctly signed message meeting every condition was rejected"
            else none }
  | _ => badOp "unknown op"

end Driver.C10
