import Driver.Common
import Driver.CertShow
import Rpki.Model.CertEnc
import Rpki.Model.CrlEnc
import Rpki.Model.CmsEnc
import Rpki.Model.IdEnc
import Rpki.Model.SigMsgEnc
import Rpki.Model.CsrEnc
import Rpki.Model.RtaEnc
import Rpki.Model.Manifest
import Rpki.Model.Crl
import Rpki.Model.Roa
import Rpki.Gen.Consts
import Driver.C14
namespace Driver.C05
open Driver

def tokOf (toks : List String) (pre : String) : Option String :=
  (toks.find? (·.startsWith pre)).map (fun t => (t.drop pre.length).toString)

def hexB (s : String) : Option (List Nat) := (parseHex s).map (·.map UInt8.toNat)

/-- manifest content ops: the Lean decoder model read the spec's own values back from … nothing:
the harness does not print the DER, so the model is used on the *inputs*: conformity of file names
and times as the property's profile demands -/
def mftConforms (toks : List String) : Bool :=
  match toks with
  | [_num, this, next, files] =>
    let whole (t : String) : Option Int :=
      match t.splitOn "." with
      | [a] | [a, _] => if a.startsWith "-" then (a.drop 1).toNat?.map (fun n => -(n : Int)) else a.toNat?.map (fun n => (n : Int))
      | _ => none
    let namesOk := files = "-" || (files.splitOn ";").all fun f =>
      match (f.splitOn ":").head? with
      | some n => (match hexB n with | some b => Rpki.Manifest.validName b | none => false)
      | none => false
    (match whole this, whole next with | some a, some b => decide (a ≤ b) | _, _ => false) && namesOk
  | _ => false

def parseSerial (h : String) : Option (List Nat) :=
  (hexB h).map fun b => List.replicate (20 - b.length) 0 ++ b

/-- `crlx`: the library's encoder of the revocation list against the Lean codec model -/
def handleCrl (entries probes impl : String) : Verdict :=
  let es : Option (List Rpki.Crl.Entry) :=
    if entries = "-" then some [] else
    (entries.splitOn ",").mapM fun e => match e.splitOn "@" with
      | [s, t] => match parseSerial s, t.toInt?.bind Driver.C14.civilOf with
        | some s, some c => some ⟨s, c⟩ | _, _ => none
      | _ => none
  let ps : Option (List (List Nat)) := if probes = "-" then some [] else (probes.splitOn ",").mapM parseSerial
  match es, ps with
  | some es, some ps =>
    let list := Rpki.Crl.encodeList es
    let der := if es.isEmpty then [] else Rpki.Der.tlv Rpki.Der.tagSeq list
    let bits := String.ofList (ps.map fun p => if es.any (fun e => e.serial == p) then '1' else '0')
    let bits := if bits.isEmpty then "-" else bits
    let want := s!"{toHex (der.map UInt8.ofNat)} {bits} {bits} {es.length}"
    { model := some want,
      oracle :=
        match impl.splitOn " " with
        | [h, b1, b2, n] =>
          -- stated on the library's own octets: the model reader lists exactly the entries given to the builder,
          -- and both lookups answer membership
          match hexB h with
          | none => some "unreadable"
          | some d =>
            let content := if d.isEmpty then some [] else (Rpki.Der.takeCons Rpki.Der.tagSeq d).map (·.1)
            match content.bind Rpki.Crl.entries with
            | none => some "the revocation list the builder wrote cannot be iterated"
            | some got =>
              if got ≠ es then some "the revocation list read back differs from the builder's entries"
              else if b1 ≠ bits then some "Crl::contains disagrees with membership of the serial"
              else if b2 ≠ bits then some "Crl::contains after cache_serials disagrees with membership of the serial"
              else if n.toNat? ≠ some es.length then some "the iterator yields another number of entries"
              else none
        | _ => if impl = "panic" then some "panicked" else some "unreadable result" }
  | _, _ => badOp "crlx args"


/-! ### ROA / ASPA eContent codec ops (`Model/Roa.lean`) -/

def parseAddrs (shift : Nat) (s : String) : Option (List Rpki.Roa.Addr) :=
  if s = "-" then some [] else
  (s.splitOn ",").mapM fun it =>
    match it.splitOn "/" with
    | [b, l] =>
      let (l, ml) := match l.splitOn "-" with
        | [l, m] => (l, some m)
        | _ => (l, none)
      match b.toNat?, l.toNat?, ml.map String.toNat? with
      | some b, some l, none => some ⟨Rpki.IpDer.toMin (b * 2 ^ shift) l, l, none⟩
      | some b, some l, some (some m) => some ⟨Rpki.IpDer.toMin (b * 2 ^ shift) l, l, some m⟩
      | _, _, _ => none
    | _ => none

def showAddrs : Option (List Rpki.Roa.Addr) → String
  | none => "panic"
  | some [] => "-"
  | some l => ",".intercalate (l.map fun a => s!"{a.addr}/{a.len}" ++ (match a.maxLen with | some m => s!"-{m}" | none => ""))

def showNats : Option (List Nat) → String
  | none => "panic"
  | some [] => "-"
  | some l => ",".intercalate (l.map toString)

def parseNats (s : String) : Option (List Nat) :=
  if s = "-" then some [] else (s.splitOn ",").mapM String.toNat?

def insertSorted (x : Nat) : List Nat → List Nat
  | [] => [x]
  | y :: ys => if x ≤ y then x :: y :: ys else y :: insertSorted x ys
def sortNats (l : List Nat) : List Nat := l.foldr insertSorted []
def strictlyIncreasing : List Nat → Bool
  | a :: b :: rest => a < b && strictlyIncreasing (b :: rest)
  | _ => true

/-- what a successfully decoded ROA promises about every address of a family of width `W` -/
def addrsSound (W : Nat) (l : List Rpki.Roa.Addr) : Bool :=
  l.all fun a => Rpki.Roa.addrOk W a && Rpki.IpDer.toMin a.addr a.len == a.addr && a.addr < 2 ^ 128 &&
    (W == 128 || a.addr % 2 ^ 96 == 0)

def handleCodec (toks0 : List String) (impl : String) : Option Verdict :=
  -- `aspaxa` (add_provider one by one) has the same contract as `aspax` (AspaBuilder::new)
  let toks := match toks0 with | "aspaxa" :: r => "aspax" :: r | t => t
  let hexOut (b : List Nat) := toHex (b.map UInt8.ofNat)
  match toks with
  | ["roax", asid, v4, v6] =>
    some <| match asid.toNat?, parseAddrs 96 v4, parseAddrs 0 v6 with
    | some asid, some a4, some a6 =>
      let c : Rpki.Roa.Content := ⟨asid, Rpki.Roa.encodeAddrs a4, Rpki.Roa.encodeAddrs a6⟩
      let conforming := a4.all (Rpki.Roa.addrOk 32) && a6.all (Rpki.Roa.addrOk 128)
      { model := some s!"{hexOut (Rpki.Roa.encodeContent c)} {showAddrs (Rpki.Roa.iter c.v4)} {showAddrs (Rpki.Roa.iter c.v6)}",
        oracle :=
          if impl.startsWith "panic" then (if conforming then some "building or encoding a ROA from profile-conforming addresses panicked" else none)
          else match impl.splitOn " " with
          | [h, i4, i6] =>
            if i4 = "panic" ∨ i6 = "panic" then some "iterating the addresses of a built ROA panicked"
            else if i4 ≠ showAddrs (some a4) ∨ i6 ≠ showAddrs (some a6) then some "the built ROA does not list the addresses given to the builder"
            else if !conforming then none
            else match hexB h with
            | none => some "unreadable"
            | some der =>
              match Rpki.Roa.decodeContent der with
              | none => some "the eContent written for profile-conforming addresses is not accepted by the decoder"
              | some d => if d = c then none else some "the eContent decodes to other values than were built"
          | _ => some "unreadable result" }
    | _, _, _ => badOp "roax args"
  | ["road", h] =>
    some <| match hexB h with
    | none => badOp "hex"
    | some der =>
      let m := match Rpki.Roa.decodeContent der with
        | none => "err"
        | some c => s!"ok {c.asId} {showAddrs (Rpki.Roa.iter c.v4)} {showAddrs (Rpki.Roa.iter c.v6)}"
      { model := some m,
        oracle :=
          if impl = "err" then none
          else if impl.startsWith "panic" then some "decoding ROA eContent panicked"
          else match impl.splitOn " " with
          | ["ok", a, i4, i6] =>
            if i4 = "panic" ∨ i6 = "panic" then some "iterating the addresses of a decoded ROA panicked"
            else match a.toNat?, parseAddrs 0 i4, parseAddrs 0 i6 with
            | some a, some l4, some l6 =>
              if a ≥ 2 ^ 32 then some "AS number out of range"
              else if !(addrsSound 32 l4 && addrsSound 128 l6) then
                some "a decoded ROA lists an address whose length or maxLength is outside its family, or with host bits set"
              else none
            | _, _, _ => some "unreadable result"
          | _ => some "unreadable result" }
  | ["aspax", cust, provs] =>
    some <| match cust.toNat?, parseNats provs with
    | some cust, some ps =>
      let sorted := sortNats ps
      let dup := !strictlyIncreasing sorted
      let cap := Rpki.Roa.encodeProviders sorted
      let conforming := !dup && !sorted.isEmpty && !sorted.contains cust && sorted.length ≤ Rpki.Consts.aspaObjMaxLen
      { model := some (if dup then "dup" else s!"{hexOut (Rpki.Roa.encodeAspa cust cap)} {showNats (Rpki.Roa.iterProviders cap)} {sorted.length}"),
        oracle :=
          if impl.startsWith "panic" then (if conforming then some "building an ASPA from conforming inputs panicked" else none)
          else if impl = "dup" then (if dup then none else some "the builder reports a duplicate where there is none")
          else match impl.splitOn " " with
          | [h, it, n] =>
            if dup then some "the builder accepted a duplicate provider"
            else if it = "panic" then some "iterating the providers of a built ASPA panicked"
            else if it ≠ showNats (some sorted) ∨ n.toNat? ≠ some sorted.length then some "the built ASPA does not list the providers given to the builder, in order"
            else if !conforming then none
            else match hexB h with
            | none => some "unreadable"
            | some der =>
              if Rpki.Roa.decodeAspa Rpki.Consts.aspaObjMaxLen der = some ⟨cust, cap, sorted.length⟩ then none
              else some "the ASPA eContent written for conforming inputs does not decode to the values built"
          | _ => some "unreadable result" }
    | _, _ => badOp "aspax args"
  | ["aspad", h] =>
    some <| match hexB h with
    | none => badOp "hex"
    | some der =>
      let m := match Rpki.Roa.decodeAspa Rpki.Consts.aspaObjMaxLen der with
        | none => "err"
        | some a => s!"ok {a.customer} {showNats (Rpki.Roa.iterProviders a.providers)} {a.count}"
      { model := some m,
        oracle :=
          if impl = "err" then none
          else if impl.startsWith "panic" then some "decoding ASPA eContent panicked"
          else match impl.splitOn " " with
          | ["ok", c, it, n] =>
            if it = "panic" then some "iterating the providers of a decoded ASPA panicked"
            else match c.toNat?, parseNats it, n.toNat? with
            | some c, some ps, some n =>
              if ps.isEmpty ∨ !strictlyIncreasing ps ∨ ps.contains c ∨ ps.length ≠ n ∨ n > 16380 ∨ ps.any (· ≥ 2 ^ 32) then
                some "a decoded ASPA has an empty, unordered, duplicate-carrying, self-referencing or oversized provider set, or a wrong len()"
              else none
            | _, _, _ => some "unreadable result"
          | _ => some "unreadable result" }
  | _ => none

def handle (toks : List String) (impl : String) : Verdict :=
  match handleCodec toks impl with
  | some v => v
  | none =>
  match toks with
  | "bytes" :: kind :: _ =>
    -- the object a builder produced: the library decoder's reading of it (second half of the result) must be the
    -- Lean decoder model's reading of the same octets
    match impl.splitOn " | " with
    | h :: rest =>
      let lib := " | ".intercalate rest
      match hexB h with
      | none => if impl = "nothing-built" then {} else badOp "hex"
      | some b =>
        let m := if kind = "cert" then Driver.CertShow.certLine b
          else if kind = "crl" then Driver.CertShow.crlLine b
          else if kind = "idcert" then Driver.CertShow.idcLine b
          else if kind = "sigmsg" then Driver.CertShow.smsgLine b
          else if kind = "csr" then Driver.CertShow.csrLine "csr" b
          else if kind = "rta" then Driver.CertShow.rtaLine b
          else Driver.CertShow.cmsLine kind b
        -- a certificate the library built (or any canonical one): writing the decoded fields again with the model of
        -- `TbsCert::encode_ref` must give the to-be-signed octets the library wrote
        let enc : Option String :=
          if kind = "cert" then
            match Rpki.CertDer.decodeCert b with
            | some d =>
              if Rpki.CertEnc.encodeTbs d ≠ d.tbs then some "CertEnc.encodeTbs of the decoded fields differs from the to-be-signed octets"
              else if Rpki.CertEnc.encodeCert d d.signature ≠ b then some "CertEnc.encodeCert of the decoded fields differs from the certificate's octets"
              else none
            | none => none
          else if kind = "crl" then
            -- `TbsCertList::encode_ref` / `Crl::encode_ref` (Model/CrlEnc.lean)
            match Rpki.CrlDer.decodeCrl b with
            | some d =>
              if Rpki.CrlEnc.encodeTbsCrl d ≠ d.tbs then some "CrlEnc.encodeTbsCrl of the decoded fields differs from the to-be-signed octets"
              else if Rpki.CrlEnc.encodeCrl d d.signature ≠ b then some "CrlEnc.encodeCrl of the decoded fields differs from the CRL's octets"
              else none
            | none => none
          else if kind = "so" ∨ kind = "roa" ∨ kind = "aspa" ∨ kind = "mft" then
            -- `SignedObject::encode_ref` (Model/CmsEnc.lean) around `Cert::encode_ref` of the EE certificate
            match Rpki.CmsDer.decodeSigObj b with
            | some o =>
              if Rpki.CmsEnc.encodeSigObj o.contentType o.content (Rpki.CertEnc.encodeCert o.cert o.cert.signature) o.sid o.attrs o.signature ≠ b then
                some "CmsEnc.encodeSigObj of the decoded parts differs from the signed object's octets"
              else none
            | none => none
          else if kind = "csr" then
            -- `Csr::construct_rpki_ca` (Model/CsrEnc.lean)
            match Rpki.CsrDer.decodeCsr false b with
            | some d =>
              match d.sia with
              | some sia =>
                match sia.caRepository, sia.rpkiManifest with
                | some repo, some mft =>
                  if Rpki.CsrEnc.encodeCsr d.subject d.keyAlg d.keyUnused d.keyBits repo mft sia.rpkiNotify d.signature ≠ b then
                    some "CsrEnc.encodeCsr of the decoded fields differs from the request's octets"
                  else none
                | _, _ => some "a built request without both URIs"
              | none => none
            | none => none
          else if kind = "rta" then
            -- `ResourceTaggedAttestation::encode_ref` (Model/RtaEnc.lean): the content octets of the object
            match Rpki.RtaDer.decodeRta b with
            | some r =>
              if Rpki.RtaEnc.encodeAttestation r.att ≠ r.content then
                some "RtaEnc.encodeAttestation of the decoded attestation differs from the content octets"
              else if Rpki.RtaEnc.encodeRta r.content (r.certs.map fun d => Rpki.CertEnc.encodeCert d d.signature)
                  (r.crls.map fun d => Rpki.CrlEnc.encodeCrl d d.signature) r.signers ≠ b then
                some "RtaEnc.encodeRta of the decoded parts differs from the object's octets"
              else none
            | none => none
          else if kind = "idcert" then
            -- `IdCert::encode_ref` (Model/IdEnc.lean)
            match Rpki.SigMsgDer.decodeIdCert b with
            | some d =>
              if Rpki.IdEnc.encodeIdCert d d.signature ≠ b then some "IdEnc.encodeIdCert of the decoded fields differs from the identity certificate's octets"
              else none
            | none => none
          else if kind = "sigmsg" then
            -- `SignedMessage::encode_ref` (Model/SigMsgEnc.lean) around the identity certificate and the CRL
            match Rpki.SigMsgDer.decodeSigMsg b with
            | some m =>
              if Rpki.SigMsgEnc.encodeSigMsg m.content (Rpki.IdEnc.encodeIdCert m.cert m.cert.signature)
                  (Rpki.SigMsgEnc.encodeMsgCrl m.crl m.crl.signature) m.sid m.attrs m.signature ≠ b then
                some "SigMsgEnc.encodeSigMsg of the decoded parts differs from the message's octets"
              else none
            | none => none
          else none
        { mismatch := if m = lib then enc else some m,
          oracle := if lib = "panic" then some "decoding a library-built object panicked" else none }
    | [] => badOp "result"
  | ["crlx", entries, probes] => handleCrl entries probes impl
  | op :: _ =>
    let r := impl.splitOn " "
    let conf := tokOf r "conf="
    let vexp := tokOf r "vexp="
    let subsec := tokOf r "subsec=" = some "1"
    -- cases replayed without a conformity marker are judged as conforming
    let conforming := conf ≠ some "0"
    let head := r.headD ""
    { oracle :=
        if impl = "panic" then some "the harness case panicked outside a stage"
        else if head.startsWith "panic@" then
          let stage := (head.drop 6).toString
          if stage = "build" ∨ stage = "accessors-built" then
            (if conforming then some s!"{op}: {stage} panicked for profile-conforming builder inputs" else none)
          else some s!"{op}: stage {stage} panicked"
        else if head = "build-err" then
          (if conforming then some s!"{op}: the builder refused profile-conforming inputs" else none)
        else if head = "decode-err" then
          (if conforming then some s!"{op}: the library's decoder rejects the object its own builder produced from conforming inputs" else none)
        else if head = "ok" then
          let reenc := tokOf r "reenc:"
          let acc := tokOf r "acc:"
          let valid := tokOf r "valid:"
          if (r.any (fun t => t.endsWith "=PANIC")) then some s!"{op}: an accessor panicked"
          else if !conforming then none
          else if reenc ≠ some "same" then some s!"{op}: re-encoding the decoded object does not reproduce the bytes ({(tokOf r "why=").getD ""})"
          else if acc = some "differs" then
            some (if subsec then s!"{op}: the built object and its decoded twin answer a time accessor differently (sub-second part of an input time)"
                  else s!"{op}: the built object and its decoded twin answer an accessor differently")
          else if vexp.isSome ∧ vexp ≠ some "na" ∧ valid ≠ vexp ∧ !subsec then
            some s!"{op}: validation says {valid.getD "?"} where the inputs demand {vexp.getD "?"}"
          -- `process` (run only for windows that hold the wall clock) also checks the content against the EE
          -- certificate the builder made for it: what the builder produced from conforming inputs must pass
          else if valid = some "ok" ∧ vexp = some "ok" ∧ tokOf r "proc=" = some "err" then
            some s!"{op}: process() rejects the object the library's own builder made from conforming inputs although validate_at accepts it"
          else if tokOf r "proc=" = some "panic" then some s!"{op}: process() panicked"
          else none
        else if head = "bad-op" then none
        else some "unreadable result",
      bad := if head = "bad-op" then some "bad-op" else none }
  | _ => badOp "empty"

end Driver.C05
