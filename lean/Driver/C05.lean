import Driver.Common
import Rpki.Model.Manifest
import Rpki.Model.Crl
import Driver.C14
namespace Driver.C05
open Driver

def tokOf (toks : List String) (pre : String) : Option String :=
  (toks.find? (·.startsWith pre)).map (fun t => (t.drop pre.length).toString)

def hexB (s : String) : Option (List Nat) := (parseHex s).map (·.map UInt8.toNat)

/-- manifest content ops: the Lean decoder model read the spec's own values back from … nothing:
the harness does not print the DER, so the model is used on the *inputs*: conformity of file names
and times as the property's profile demands -/
def mftConforms (toks : List String) : Bool :=
  match toks with
  | [_num, this, next, files] =>
    let whole (t : String) : Option Int :=
      match t.splitOn "." with
      | [a] | [a, _] => if a.startsWith "-" then (a.drop 1).toNat?.map (fun n => -(n : Int)) else a.toNat?.map (fun n => (n : Int))
      | _ => none
    let namesOk := files = "-" || (files.splitOn ";").all fun f =>
      match (f.splitOn ":").head? with
      | some n => (match hexB n with | some b => Rpki.Manifest.validName b | none => false)
      | none => false
    (match whole this, whole next with | some a, some b => decide (a ≤ b) | _, _ => false) && namesOk
  | _ => false

def parseSerial (h : String) : Option (List Nat) :=
  (hexB h).map fun b => List.replicate (20 - b.length) 0 ++ b

/-- `crlx`: the library's encoder of the revocation list against the Lean codec model -/
def handleCrl (entries probes impl : String) : Verdict :=
  let es : Option (List Rpki.Crl.Entry) :=
    if entries = "-" then some [] else
    (entries.splitOn ",").mapM fun e => match e.splitOn "@" with
      | [s, t] => match parseSerial s, t.toInt?.bind Driver.C14.civilOf with
        | some s, some c => some ⟨s, c⟩ | _, _ => none
      | _ => none
  let ps : Option (List (List Nat)) := if probes = "-" then some [] else (probes.splitOn ",").mapM parseSerial
  match es, ps with
  | some es, some ps =>
    let list := Rpki.Crl.encodeList es
    let der := if es.isEmpty then [] else Rpki.Der.tlv Rpki.Der.tagSeq list
    let bits := String.ofList (ps.map fun p => if es.any (fun e => e.serial == p) then '1' else '0')
    let bits := if bits.isEmpty then "-" else bits
    let want := s!"{toHex (der.map UInt8.ofNat)} {bits} {bits} {es.length}"
    { model := some want,
      oracle :=
        match impl.splitOn " " with
        | [h, b1, b2, n] =>
          -- stated on the library's own octets: the model reader lists exactly the entries given to the builder,
          -- and both lookups answer membership
          match hexB h with
          | none => some "unreadable"
          | some d =>
            let content := if d.isEmpty then some [] else (Rpki.Der.takeCons Rpki.Der.tagSeq d).map (·.1)
            match content.bind Rpki.Crl.entries with
            | none => some "the revocation list the builder wrote cannot be iterated"
            | some got =>
              if got ≠ es then some "the revocation list read back differs from the builder's entries"
              else if b1 ≠ bits then some "Crl::contains disagrees with membership of the serial"
              else if b2 ≠ bits then some "Crl::contains after cache_serials disagrees with membership of the serial"
              else if n.toNat? ≠ some es.length then some "the iterator yields another number of entries"
              else none
        | _ => if impl = "panic" then some "panicked" else some "unreadable result" }
  | _, _ => badOp "crlx args"

def handle (toks : List String) (impl : String) : Verdict :=
  match toks with
  | ["crlx", entries, probes] => handleCrl entries probes impl
  | op :: _ =>
    let r := impl.splitOn " "
    let conf := tokOf r "conf="
    let vexp := tokOf r "vexp="
    let subsec := tokOf r "subsec=" = some "1"
    -- cases replayed without a conformity marker are judged as conforming
    let conforming := conf ≠ some "0"
    let head := r.headD ""
    { oracle :=
        if impl = "panic" then some "the harness case panicked outside a stage"
        else if head.startsWith "panic@" then
          let stage := (head.drop 6).toString
          if stage = "build" ∨ stage = "accessors-built" then
            (if conforming then some s!"{op}: {stage} panicked for profile-conforming builder inputs" else none)
          else some s!"{op}: stage {stage} panicked"
        else if head = "build-err" then
          (if conforming then some s!"{op}: the builder refused profile-conforming inputs" else none)
        else if head = "decode-err" then
          (if conforming then some s!"{op}: the library's decoder rejects the object its own builder produced from conforming inputs" else none)
        else if head = "ok" then
          let reenc := tokOf r "reenc:"
          let acc := tokOf r "acc:"
          let valid := tokOf r "valid:"
          if (r.any (fun t => t.endsWith "=PANIC")) then some s!"{op}: an accessor panicked"
          else if !conforming then none
          else if reenc ≠ some "same" then some s!"{op}: re-encoding the decoded object does not reproduce the bytes ({(tokOf r "why=").getD ""})"
          else if acc = some "differs" then
            some (if subsec then s!"{op}: the built object and its decoded twin answer a time accessor differently (sub-second part of an input time)"
                  else s!"{op}: the built object and its decoded twin answer an accessor differently")
          else if vexp.isSome ∧ vexp ≠ some "na" ∧ valid ≠ vexp ∧ !subsec then
            some s!"{op}: validation says {valid.getD "?"} where the inputs demand {vexp.getD "?"}"
          else none
        else if head = "bad-op" then none
        else some "unreadable result",
      bad := if head = "bad-op" then some "bad-op" else none }
  | _ => badOp "empty"

end Driver.C05
