import Driver.Common
import Rpki.Model.CertDer
import Rpki.Model.CmsDer
import Rpki.Model.CrlDer
import Rpki.Model.SigMsgDer
import Rpki.Model.CsrDer
import Rpki.Model.Tal
import Rpki.Model.RtaDer
import Rpki.Gen.BerModel
/-! the canonical one-line rendering of a decoded certificate shared by the `certd` ops (C04, C01, C05);
the harness prints the same line from the library's accessors (`harness/src/certd.rs`) -/
namespace Driver.CertShow
open Driver Rpki.Chain Rpki.CertDer

def hexN (b : List Nat) : String := toHex (b.map UInt8.ofNat)
def optHex : Option (List Nat) → String | some b => hexN b | none => "N"

def showBlocks (c : List Blk) : String :=
  if c.isEmpty then "-" else ",".intercalate (c.map fun b => s!"{b.lo}-{b.hi}")

def showClaim : Claim → String
  | .missing => "M" | .inherit => "I" | .blocks c => showBlocks c

def b01 (b : Bool) : String := if b then "1" else "0"

/-- the ten `inspect_*` verdicts: ta, ca, ee, detached ee, router — strict, then relaxed -/
def inspectBits (d : Decoded) : String :=
  let one (strict : Bool) : String :=
    let f := toFacts d false strict true
    let fr := toFacts d true strict true
    b01 (Rpki.Cert.inspectTa f) ++ b01 (Rpki.Cert.inspectCa f) ++ b01 (Rpki.Cert.inspectEe f) ++
    b01 (Rpki.Cert.inspectDetachedEe f) ++ b01 (Rpki.Cert.inspectRouter fr)
  one true ++ one false

def showDecoded (d : Decoded) : String :=
  let bc := match d.basicCa with | some true => "T" | some false => "F" | none => "N"
  let eku := match d.eku with | none => "N" | some true => "1" | some false => "0"
  " ".intercalate [
    "ok", hexN d.serial, hexN d.issuer, hexN d.subject, toString d.validity.nb, toString d.validity.na,
    (if d.keyAlg == .rsa then "r" else "e"), hexN (keyIdentifier d), bc, hexN d.ski, optHex d.aki,
    (if d.keyUsage == .ca then "c" else "e"), eku, optHex d.crlUri, optHex d.caIssuer,
    optHex d.sia.caRepository, optHex d.sia.rpkiManifest, optHex d.sia.signedObject, optHex d.sia.rpkiNotify,
    b01 d.trim, showClaim (shiftV4 d.v4), showClaim d.v6, showClaim d.asn, inspectBits d ]

def certLine (b : List Nat) : String :=
  match decodeCert b with
  | some d => showDecoded d
  | none => "err"

/-- `cmsd <ty> <hex>`: typed decoding verdict, then the fields of the signed object -/
def cmsLine (ty : String) (b : List Nat) : String :=
  let typed := if (Rpki.CmsDer.decodeTyped ty b).isSome then "ok" else "err"
  let so := match Rpki.CmsDer.decodeSigObj b with
    | none => "err"
    | some o => s!"ok {hexN o.contentType} {hexN o.content} {civilToEpoch o.signingTime} | {showDecoded o.cert}"
  s!"{typed} {so}"

/-- `crld <hex>` -/
def crlLine (b : List Nat) : String :=
  match Rpki.CrlDer.decodeCrl b with
  | none => "err"
  | some d =>
    match Rpki.Crl.entries d.revoked with
    | none => "iter-fails"
    | some es =>
      let items := es.map fun e => s!"{hexN e.serial}@{civilToEpoch e.date}"
      s!"ok {hexN d.issuer} {civilToEpoch d.thisUpdate} {civilToEpoch d.nextUpdate} {hexN d.aki} {hexN d.number} {es.length} {if items.isEmpty then "-" else ",".intercalate items}"

/-- `idcd <hex>` -/
def idcLine (b : List Nat) : String :=
  match Rpki.SigMsgDer.decodeIdCert b with
  | none => "err"
  | some d =>
    s!"ok {hexN d.serial} {hexN d.subject} {d.validity.nb} {d.validity.na} {if d.keyAlg == .rsa then "r" else "e"} {hexN (Rpki.Sha.sha1N d.keyBits)} {hexN d.ski} {optHex d.aki}"

/-- `smsgd <hex>` -/
def smsgLine (b : List Nat) : String :=
  match Rpki.SigMsgDer.decodeSigMsg b with
  | none => "err"
  | some m => s!"ok {hexN m.content}"

/-- `csrd <csr|bcsr> <hex>` -/
def csrLine (ty : String) (b : List Nat) : String :=
  let router := ty = "bcsr"
  match Rpki.CsrDer.decodeCsr router b with
  | none => "err"
  | some d =>
    let eku := match d.eku with | none => "N" | some true => "1" | some false => "0"
    let head := s!"ok {hexN d.subject} {if d.keyAlg == .rsa then "r" else "e"} {hexN (Rpki.Sha.sha1N d.keyBits)}"
    if router then s!"{head} {eku}"
    else
      let bc := match d.basicCa with | some true => "T" | some false => "F" | none => "N"
      let ku := match d.keyUsage with | some .ca => "c" | some .ee => "e" | none => "N"
      let sia := d.sia.getD {}
      s!"{head} {bc} {ku} {eku} {optHex sia.caRepository} {optHex sia.rpkiManifest} {optHex sia.rpkiNotify}"

def showTalUris (l : List Rpki.Tal.TalUri) : String :=
  if l.isEmpty then "-" else ",".intercalate (l.map fun u => match u with | .rsync b => "r:" ++ hexN b | .https b => "h:" ++ hexN b)

/-- `tald <hex>` -/
def talLine (b : List Nat) : String :=
  match Rpki.Tal.decodeTal b with
  | none => "err"
  | some (uris, alg, _, bits) =>
    s!"ok {showTalUris uris} {if alg == .rsa then "r" else "e"} {hexN (Rpki.Sha.sha1N bits)} {showTalUris (Rpki.Tal.preferHttps uris)}"

/-- `keyd <hex>` -/
def keyLine (b : List Nat) : String :=
  match Rpki.Tal.decodeKey b with
  | none => "err"
  | some (alg, _, bits) => s!"ok {if alg == .rsa then "r" else "e"} {hexN (Rpki.Sha.sha1N bits)} {bits.length}"

/-- `rtad <hex>` -/
def rtaLine (b : List Nat) : String :=
  match Rpki.RtaDer.decodeRta b with
  | none => "err"
  | some r =>
    let keys := if r.att.keys.isEmpty then "-" else ",".intercalate (r.att.keys.map hexN)
    s!"ok {keys} {showClaim (shiftV4 (.blocks r.att.v4))} {showBlocks r.att.v6} {showBlocks r.att.asn} {hexN r.att.digest} {r.certs.length} {r.crls.length} {r.signers.length}"

/-! the same lines from the mode-parametrized model (`Gen/BerModel.lean`) -/

def inspectBitsM (ber : Bool) (d : Decoded) : String :=
  let one (strict : Bool) : String :=
    let f := toFactsM ber d false strict true
    let fr := toFactsM ber d true strict true
    b01 (Rpki.Cert.inspectTa f) ++ b01 (Rpki.Cert.inspectCa f) ++ b01 (Rpki.Cert.inspectEe f) ++
    b01 (Rpki.Cert.inspectDetachedEe f) ++ b01 (Rpki.Cert.inspectRouter fr)
  one true ++ one false

def showDecodedM (ber : Bool) (d : Decoded) : String :=
  let bc := match d.basicCa with | some true => "T" | some false => "F" | none => "N"
  let eku := match d.eku with | none => "N" | some true => "1" | some false => "0"
  " ".intercalate [
    "ok", hexN d.serial, hexN d.issuer, hexN d.subject, toString d.validity.nb, toString d.validity.na,
    (if d.keyAlg == .rsa then "r" else "e"), hexN (keyIdentifier d), bc, hexN d.ski, optHex d.aki,
    (if d.keyUsage == .ca then "c" else "e"), eku, optHex d.crlUri, optHex d.caIssuer,
    optHex d.sia.caRepository, optHex d.sia.rpkiManifest, optHex d.sia.signedObject, optHex d.sia.rpkiNotify,
    b01 d.trim, showClaim (shiftV4 d.v4), showClaim d.v6, showClaim d.asn, inspectBitsM ber d ]

/-- `cmsdr <ty> <hex>` (`ber = true`); at `ber = false` the line of `cmsd` -/
def cmsLineM (ber : Bool) (ty : String) (b : List Nat) : String :=
  let typed := if (Rpki.CmsDer.decodeTypedM ber ty b).isSome then "ok" else "err"
  let so := match Rpki.CmsDer.decodeSigObjM ber b with
    | none => "err"
    | some o => s!"ok {hexN o.contentType} {hexN o.content} {civilToEpoch o.signingTime} | {showDecodedM ber o.cert}"
  s!"{typed} {so}"

/-- `smsgdr <hex>` -/
def smsgLineM (ber : Bool) (b : List Nat) : String :=
  match Rpki.SigMsgDer.decodeSigMsgM ber b with
  | none => "err"
  | some m => s!"ok {hexN m.content}"

def certLineM (ber : Bool) (b : List Nat) : String :=
  match decodeCertM ber b with
  | some d => showDecodedM ber d
  | none => "err"

def idcLineM (ber : Bool) (b : List Nat) : String :=
  match Rpki.SigMsgDer.decodeIdCertM ber b with
  | none => "err"
  | some d =>
    s!"ok {hexN d.serial} {hexN d.subject} {d.validity.nb} {d.validity.na} {if d.keyAlg == .rsa then "r" else "e"} {hexN (Rpki.Sha.sha1N d.keyBits)} {hexN d.ski} {optHex d.aki}"

end Driver.CertShow
