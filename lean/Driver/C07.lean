import Driver.Common
import Driver.C13
import Rpki.Model.RtrPdu
namespace Driver.C07
open Driver Rpki.Rtr Rpki.Consts

def hexN (b : Bytes) : String := toHex (b.map UInt8.ofNat)
def parseHexN (s : String) : Option Bytes := (parseHex s).map (·.map UInt8.toNat)

def showItem : Item → String
  | .v4 h f pl ml _ p a => s!"v4 {h.version} {h.session} {f} {pl} {ml} {p} {a}"
  | .v6 h f pl ml _ p a => s!"v6 {h.version} {h.session} {f} {pl} {ml} {p} {a}"
  | .key h ski a info => s!"key {h.version} {h.session / 256} {hexN ski} {a} {hexN info}"
  | .aspa h c ps => s!"aspa {h.version} {h.session / 256} {c} {hexN ps}"
  | .eod0 h s => s!"eod {h.version} {h.session} {s} -"
  | .eod1 h s r1 r2 e => s!"eod {h.version} {h.session} {s} {r1},{r2},{e}"

def parseItem (s : String) : Option PayloadItem :=
  match s.splitOn ":" with
  | ["O", p, ml, asn] =>
    match p.splitOn "/", Driver.C13.parseMl ml, asn.toNat? with
    | [f, a, l], some ml, some asn =>
      match a.toNat?, l.toNat? with
      | some a, some l => some (.origin (f = "4") a l ml asn)
      | _, _ => none
    | _, _, _ => none
  | ["K", ski, asn, info] =>
    match parseHexN ski, asn.toNat?, parseHexN info with
    | some s, some a, some i => some (.routerKey s a i)
    | _, _, _ => none
  | ["A", c, ps] =>
    match c.toNat?, Driver.C13.parseList ps with
    | some c, some ps => some (.aspa c (ps.flatMap (be 4)))
    | _, _ => none
  | _ => none

def showPItem : PayloadItem → String
  | .origin v4 a l ml asn => s!"O:{if v4 then "4" else "6"}/{a}/{l}:{match ml with | some m => toString m | none => "-"}:{asn}"
  | .routerKey s a i => s!"K:{hexN s}:{a}:{hexN i}"
  | .aspa c ps =>
    let rec chunks : Nat → Bytes → List Nat
      | 0, _ => []
      | fuel + 1, b => if b.length < 4 then [] else unbe (b.take 4) :: chunks fuel (b.drop 4)
    let l := chunks (ps.length + 1) ps
    s!"A:{c}:{if l.isEmpty then "-" else ",".intercalate (l.map toString)}"

def showAction : Action → String | .announce => "announce" | .withdraw => "withdraw"

def showRead (orig : Bytes) : Except RErr (Item × Bytes) → String
  | .ok (it, rest) => s!"ok {showItem it} {hexN it.encode} consumed={orig.length - rest.length}"
  | .error .eof => "err eof"
  | .error .invalid => "err invalid"

/-- spec for items: same values after an announce; after a withdraw an ASPA carries no providers -/
def expectBack (flags : Nat) (p : PayloadItem) : PayloadItem :=
  match p with
  | .aspa c _ => if flags % 2 = 1 then p else .aspa c []
  | .origin v4 a l ml asn => .origin v4 a l (some (ml.getD l)) asn
  | _ => p

def handle (toks : List String) (impl : String) : Verdict :=
  match toks with
  | ["pdu", ver, flags, item] =>
    match ver.toNat?, flags.toNat?, parseItem item with
    | some v, some f, some p =>
      let it := newPdu v f p
      let bytes := it.encode
      let back := match readPayload bytes with
        | .ok (it', []) => if it' = it then
            (match toPayload it' with
             | some (a, p') => s!"ok {showAction a} {showPItem p'}"
             | none => "ok to_payload-error")
          else "differs"
        | .ok _ => "trailing"
        | .error _ => "unreadable"
      let lenField := unbe ((bytes.drop 4).take 4)
      let spec := s!"ok {showAction (Action.fromFlags f)} {showPItem (expectBack f p)}"
      { model := some s!"{hexN bytes} {back}",
        oracle :=
          match impl.splitOn " " with
          | hx :: rest =>
            match parseHexN hx with
            | some ib =>
              if unbe ((ib.drop 4).take 4) ≠ ib.length then some "length field is not the number of bytes written"
              else if ib.getD 0 0 ≠ v then some "version not on the wire"
              else if " ".intercalate rest ≠ spec ∧ lenField = bytes.length then some s!"round trip should give {spec}"
              else none
            | none => some "unparseable"
          | _ => some "unparseable" }
    | _, _, _ => badOp "args"
  | ["pduif", ver, flags, item] =>
    match ver.toNat?, flags.toNat?, parseItem item with
    | some v, some f, some p =>
      { model := some (match newIfSupported v f p with | some it => hexN it.encode | none => "none"),
        oracle := if (impl = "none") = (p.minVersion > v) then none else some "version gating wrong" }
    | _, _, _ => badOp "args"
  | ["rd", hx] =>
    match parseHexN hx with
    | some b =>
      let r := readPayload b
      -- oracle: an accepted PDU consumed exactly its announced length, never more than the input
      let o : Option String :=
        if impl = "skipped-after-hangs" then none
        else if impl.startsWith "ok " then
          match (impl.splitOn "consumed=")[1]? |>.bind String.toNat? with
          | some n => if n > b.length then some "consumed more than available"
                      else if n ≠ unbe ((b.drop 4).take 4) then some "consumed a different number of bytes than the length field"
                      else match r with
                        | .error _ => some "accepted a PDU whose header announces a wrong type, length or version"
                        | .ok _ => none
          | none => some "unparseable"
        else if impl = "err eof" ∨ impl = "err invalid" then
          (match r with
           | .ok _ => some "rejected a well-formed PDU"
           | .error _ => none)
        else some s!"reader did not end in a value or an error: {impl}"
      { model := some (showRead b r), oracle := o }
    | none => badOp "hex"
  | ["rdfix", kind, hx] =>
    match parseHexN hx with
    | some b =>
      let spec : Option (Nat × Nat) :=
        if kind = "notify" then some (pduSerialNotify, sizeSerialNotify)
        else if kind = "squery" then some (pduSerialQuery, sizeSerialQuery)
        else if kind = "rquery" then some (pduResetQuery, sizeResetQuery)
        else if kind = "cresp" then some (pduCacheResponse, sizeCacheResponse)
        else if kind = "creset" then some (pduCacheReset, sizeCacheReset)
        else none
      match spec with
      | some (pdu, size) =>
        let m := match readFixed pdu size b with
          | .ok (h, body, rest) => s!"ok {h.version} {h.session} {hexN body} consumed={b.length - rest.length}"
          | .error .eof => "err eof"
          | .error .invalid => "err invalid"
        { model := some m,
          oracle := if impl.startsWith "ok " ∨ impl = "err eof" ∨ impl = "err invalid" ∨ impl = "skipped-after-hangs" then none
                    else some s!"reader did not end in a value or an error: {impl}" }
      | none => badOp "kind"
    | none => badOp "hex"
  | ["tryfix", kind, hx] =>
    match parseHexN hx with
    | some b =>
      let spec : Option (Nat × Nat) :=
        if kind = "notify" then some (pduSerialNotify, sizeSerialNotify)
        else if kind = "squery" then some (pduSerialQuery, sizeSerialQuery)
        else if kind = "rquery" then some (pduResetQuery, sizeResetQuery)
        else if kind = "cresp" then some (pduCacheResponse, sizeCacheResponse)
        else if kind = "creset" then some (pduCacheReset, sizeCacheReset)
        else none
      match spec with
      | some (pdu, size) =>
        let m := match tryReadFixed pdu size b with
          | .ok (.inl (h, body), rest) => s!"ok {h.version} {h.session} {hexN body} consumed={b.length - rest.length}"
          | .ok (.inr h, rest) => s!"hdr {hexN (encHdr h)} consumed={b.length - rest.length}"
          | .error .eof => "err eof"
          | .error .invalid => "err invalid"
        -- the statement itself, without the model: a complete header that announces another PDU type
        -- (other than Error, type 10 of RFC 8210, whose header `try_read` hands back) must end in an error
        let wrongType : Bool := match b with
          | _ :: t :: _ => decide (b.length ≥ 8 ∧ t ≠ pdu ∧ t ≠ 10)
          | _ => false
        { model := some m,
          oracle := if wrongType ∧ impl ≠ "err invalid" ∧ impl ≠ "skipped-after-hangs" then
                      some s!"the header announces PDU type {b.getD 1 0}, not {pdu}: try_read must end in an error"
                    else if impl.startsWith "ok " ∨ impl.startsWith "hdr " ∨ impl = "err eof" ∨ impl = "err invalid" ∨ impl = "skipped-after-hangs" then none
                    else some s!"reader did not end in a value or an error: {impl}" }
      | none => badOp "kind"
    | none => badOp "hex"
  | ["ctl", kind, ver, sess, serial, timing] =>
    match ver.toNat?, sess.toNat?, serial.toNat?, Driver.C13.parseList timing with
    | some v, some se, some sr, some tm =>
      let bytes : Option Bytes :=
        if kind = "notify" then some (encHdr ⟨v, pduSerialNotify, se, sizeSerialNotify⟩ ++ be 4 sr)
        else if kind = "squery" then some (encHdr ⟨v, pduSerialQuery, se, sizeSerialQuery⟩ ++ be 4 sr)
        else if kind = "rquery" then some (encHdr ⟨v, pduResetQuery, 0, sizeResetQuery⟩)
        else if kind = "cresp" then some (encHdr ⟨v, pduCacheResponse, se, sizeCacheResponse⟩)
        else if kind = "creset" then some (encHdr ⟨v, pduCacheReset, 0, sizeCacheReset⟩)
        else if kind = "eod" then
          some (if v = 0 then (Item.eod0 ⟨0, pduEndOfData, se, sizeEndOfDataV0⟩ sr).encode
                else (Item.eod1 ⟨v, pduEndOfData, se, sizeEndOfDataV1⟩ sr (tm.getD 0 0) (tm.getD 1 0) (tm.getD 2 0)).encode)
        else none
      match bytes with
      | some b =>
        let rt : String :=
          if kind = "eod" then
            (match readPayload b with
             | .ok (it, []) => if it.encode = b then "ok" else "mismatch"
             | _ => "mismatch")
          else
            (match readFixed (b.getD 1 0) b.length b with
             | .ok (_, _, []) => "ok"
             | _ => "mismatch")
        { model := some s!"{hexN b} {rt}",
          oracle := match impl.splitOn " " with
            | [hx, r] => match parseHexN hx with
              | some ib => if unbe ((ib.drop 4).take 4) ≠ ib.length then some "length field is not the number of bytes written"
                           else if r ≠ "ok" ∧ v ≤ 2 then some "control PDU does not read back with the same version/session/serial/timing"
                           else none
              | none => some "unparseable"
            | _ => some "unparseable" }
      | none => badOp "kind"
    | _, _, _, _ => badOp "args"
  | ["err", ver, code, pduhx, texthx] =>
    match ver.toNat?, code.toNat?, parseHexN pduhx, parseHexN texthx with
    | some v, some c, some p, some t => { model := some (hexN (encodeError v c p t)) }
    | _, _, _, _ => badOp "args"
  | ["skip", hdrhx, shx, sched] =>
    match parseHexN hdrhx, parseHexN shx, Driver.C13.parseList sched with
    | some hb, some s, some sc =>
      if hb.length ≠ 8 then badOp "header" else
      let h := decHdr hb
      let m := match skipPayload (h.length + 2) h s sc with
        | some (.ok rest) => s!"ok consumed={s.length - rest.length}"
        | some (.error .eof) => "err eof"
        | some (.error .invalid) => "err invalid"
        | none => "hang"
      let spec : String :=
        if h.length < 8 then "err invalid"
        else if s.length ≥ h.length - 8 then s!"ok consumed={h.length - 8}" else "err eof"
      { model := some m, oracle := if impl = spec ∨ impl = "skipped-after-hangs" then none else some s!"must end with {spec}" }
    | _, _, _ => badOp "args"
  | _ => badOp "unknown op"

end Driver.C07
