import Driver.Common
import Rpki.Model.Prefix
import Rpki.Model.AsnSet
import Rpki.Model.PfxText
import Rpki.Model.JsonRead
namespace Driver.C13
open Driver Rpki.Prefix Rpki.AsnSet Rpki.Consts

def okIs {ε α : Type} [DecidableEq α] (r : Except ε α) (v : α) : Bool :=
  match r with | .ok q => decide (q = v) | .error _ => false

def hexBytes (b : List Nat) : String := toHex (b.map UInt8.ofNat)

def tErr : Rpki.PfxText.TErr → String
  | .empty => "empty" | .missingLen => "missinglen" | .invalidAddr => "addr" | .invalidLen => "len"
  | .invalidPrefix .lenOverflow => "overflow" | .invalidPrefix .nonZeroHost => "nonzero"

def showTPfx : Except Rpki.PfxText.TErr Pfx → String
  | .ok p => s!"ok:{if p.isV4 then 4 else 6}:{p.len}:{p.bits}"
  | .error e => s!"err:{tErr e}"

def showTMlp : Except Rpki.PfxText.MTErr Mlp → String
  | .ok m => s!"ok:{if m.pfx.isV4 then 4 else 6}:{m.pfx.len}:{m.pfx.bits}:{match m.ml with | some k => toString k | none => "-"}"
  | .error (.invalidPrefix e) => s!"err:pfx-{tErr e}"
  | .error .invalidMaxLenFormat => "err:mlfmt"
  | .error (.invalidMaxLenValue .overflow) => "err:mloverflow"
  | .error (.invalidMaxLenValue .underflow) => "err:mlunderflow"

def showPErr : PErr → String
  | .lenOverflow => "err overflow" | .nonZeroHost => "err nonzero"

/-- canonical rendering of a constructed prefix: family, length, low and high address bits -/
def showPfx (p : Pfx) : String :=
  let fam := if p.isV4 then "4" else "6"
  -- for IPv4 the implementation's max_addr drops the low 96 bits
  let hi := if p.isV4 then p.hi / 2 ^ 96 * 2 ^ 96 else p.hi
  s!"ok {fam} {p.len} {p.lo} {hi}"

def showRes : Except PErr Pfx → String
  | .ok p => showPfx p | .error e => showPErr e

/-- parse `4/<addr>/<len>` or `6/<addr>/<len>` with the strict constructor -/
def parsePfx (s : String) : Option Pfx :=
  match s.splitOn "/" with
  | [f, a, l] =>
    match a.toNat?, l.toNat? with
    | some a, some l =>
      if l > 255 then none else
      if f = "4" then (if a < 2 ^ 32 then (newV4 a l).toOption else none)
      else if f = "6" then (if a < A then (newV6 a l).toOption else none)
      else none
    | _, _ => none
  | _ => none

def parseMl (s : String) : Option (Option Nat) :=
  if s = "-" then some none else (s.toNat?).bind fun n => if n ≤ 255 then some (some n) else none

def parseList (s : String) : Option (List Nat) :=
  if s = "-" then some [] else (s.splitOn ",").mapM (·.toNat?)

def showList (l : List Nat) : String :=
  if l.isEmpty then "-" else ",".intercalate (l.map toString)

def ordStr (o : Ordering) : String := showOrd (some o)

/-- key of the trie post-order: family, last address, host-bit count -/
def key (p : Pfx) : Nat × Nat × Nat := (if p.isV4 then 0 else 1, p.hi, 128 - p.len)

def cmpKey (a b : Nat × Nat × Nat) : Ordering :=
  (compare a.1 b.1).then ((compare a.2.1 b.2.1).then (compare a.2.2 b.2.2))

def strictSorted : List Nat → Bool
  | [] => true
  | [_] => true
  | a :: b :: r => a < b && strictSorted (b :: r)

def mkOrigin (p : Pfx) (ml : Option Nat) (asn : Nat) : Origin := ⟨mlpSat p ml, asn⟩

def handle (toks : List String) (impl : String) : Verdict :=
  match toks with
  | ["mlp", p, ml] =>
    match parsePfx p, parseMl ml with
    | some p, some ml =>
      let r := match mlpNew p ml with
        | .ok m => s!"ok {m.resolved}"
        | .error .overflow => "err overflow"
        | .error .underflow => "err underflow"
      let fmax := if p.isV4 then 32 else 128
      let spec := match ml with
        | none => s!"ok {p.len}"
        | some m => if p.len ≤ m ∧ m ≤ fmax then s!"ok {m}" else "err"
      { model := some r,
        oracle := if impl = spec ∨ (spec = "err" ∧ impl.startsWith "err") then none else some s!"spec says {spec}" }
    | _, _ => badOp "args"
  | ["mlpsat", p, ml] =>
    match parsePfx p, parseMl ml with
    | some p, some ml =>
      let m := mlpSat p ml
      let fmax := if p.isV4 then 32 else 128
      let ok : Bool := match m.ml with | none => ml.isNone | some v => decide (p.len ≤ v ∧ v ≤ fmax)
      { model := some (showOpt toString m.ml),
        oracle := if impl = showOpt toString m.ml ∧ ok then none else some "saturating_new result not a valid max-len" }
    | _, _ => badOp "args"
  | ["aserde", n] =>
    match n.toNat? with
    | some n =>
      let d := Rpki.ResText.decimal n
      Verdict.ofModel s!"u={hexBytes d} b={hexBytes (34 :: d ++ [34])} s={hexBytes (34 :: Rpki.PfxText.fmtAsn n ++ [34])} back=true"
    | none => badOp "n"
  | ["aany", hx] =>
    match parseHex hx with
    | some bs =>
      let b := bs.map (·.toNat)
      let sh : Option Nat → String := fun o => match o with | some n => toString n | none => "err"
      let j := Rpki.JsonRead.readText b
      let u : Option Nat := match j with | some (.num n) => if n < 4294967296 then some n else none | _ => none
      let st : Option Nat := match j with | some (.str t) => Rpki.ResText.parseAsn t | _ => none
      Verdict.ofModel s!"u32={sh u} str={sh st} any={sh (match j with | some (.num _) => u | _ => st)}"
    | none => badOp "hex"
  | ["ptext", hx] =>
    match parseHex hx with
    | some bs =>
      let b := bs.map (·.toNat)
      let a := match Rpki.ResText.parseAsn b with | some n => toString n | none => "err"
      Verdict.ofModel s!"s={showTPfx (Rpki.PfxText.parsePfx false b)} r={showTPfx (Rpki.PfxText.parsePfx true b)} m={showTMlp (Rpki.PfxText.parseMlp b)} a={a}"
    | none => badOp "hex"
  | ["pfmt", p, ml, asn] =>
    match parsePfx p, parseMl ml, asn.toNat? with
    | some p, some ml, some asn =>
      let m := mlpSat p ml
      let tp := Rpki.PfxText.fmtPfx p
      let tm := Rpki.PfxText.fmtMlp m
      let ta := Rpki.PfxText.fmtAsn asn
      -- the statement on the implementation's own text: it must parse back (by the model's readers, which the
      -- `ptext` lines tie to the library's) to the value it was written for
      let implParts := impl.splitOn " "
      let back : Option String := match implParts with
        | [ip, im, ia] =>
          (match parseHex ip, parseHex im, parseHex ia with
           | some bp, some bm, some ba =>
             if !okIs (Rpki.PfxText.parsePfx false (bp.map (·.toNat))) p then some "the prefix text does not denote the prefix"
             else if !okIs (Rpki.PfxText.parseMlp (bm.map (·.toNat))) m then some "the max-length prefix text does not denote the value"
             else if Rpki.ResText.parseAsn (ba.map (·.toNat)) ≠ some asn then some "the AS number text does not denote the number"
             else none
           | _, _, _ => some "unparseable")
        | _ => some "unparseable"
      { model := some s!"{hexBytes tp} {hexBytes tm} {hexBytes ta}", oracle := back }
    | _, _, _ => badOp "args"
  | ["text", _, _] =>
    { oracle := if impl = "ok" then none else some "text form does not parse back to the same value" }
  | [op, a, l] =>
    match a.toNat?, l.toNat? with
    | some a, some l =>
      if l > 255 then badOp "len" else
      if op = "pfx4" ∨ op = "rel4" then
        if a < 2 ^ 32 then
          let r := if op = "pfx4" then newV4 a l else newV4Relaxed a l
          -- oracle (spec, independent of the model's code path):
          let spec : String :=
            if l > 32 then "err overflow"
            else if op = "pfx4" then
              (if (a * 2 ^ 96) % 2 ^ (128 - l) ≠ 0 then "err nonzero"
               else s!"ok 4 {l} {a * 2 ^ 96} {(a + 2 ^ (32 - l) - 1) * 2 ^ 96}")
            else
              let lo := a / 2 ^ (32 - l) * 2 ^ (32 - l)
              s!"ok 4 {l} {lo * 2 ^ 96} {(lo + 2 ^ (32 - l) - 1) * 2 ^ 96}"
          { model := some (showRes r), oracle := if impl = spec then none else some s!"spec says {spec}" }
        else badOp "addr"
      else if op = "pfx6" ∨ op = "rel6" then
        if a < A then
          let r := if op = "pfx6" then newV6 a l else newV6Relaxed a l
          let spec : String :=
            if l > 128 then "err overflow"
            else if op = "pfx6" then
              (if a % 2 ^ (128 - l) ≠ 0 then "err nonzero"
               else s!"ok 6 {l} {a} {a + 2 ^ (128 - l) - 1}")
            else
              let lo := a / 2 ^ (128 - l) * 2 ^ (128 - l)
              s!"ok 6 {l} {lo} {lo + 2 ^ (128 - l) - 1}"
          { model := some (showRes r), oracle := if impl = spec then none else some s!"spec says {spec}" }
        else badOp "addr"
      else if op = "covers" ∨ op = "cmp" then badOp "args" else badOp "unknown op"
    | _, _ =>
      -- covers / cmp take two prefix tokens
      match parsePfx a, parsePfx l with
      | some p, some q =>
        if op = "covers" then
          let spec := (p.isV4 == q.isV4) && decide (p.lo ≤ q.lo) && decide (q.hi ≤ p.hi)
          { model := some (showBool (covers p q)),
            oracle := if impl = showBool spec then none else some s!"range inclusion says {spec}" }
        else if op = "cmp" then
          let c := cmp p q
          let e := decide (p = q)
          let spec := cmpKey (key p) (key q)
          let specStr := s!"{ordStr spec} {showBool (spec == .eq)}"
          let moreSpecific : Option String :=
            if covers q p ∧ p ≠ q ∧ ¬ impl.startsWith "lt" then some "more specific prefix not ordered first" else none
          { model := some s!"{ordStr c} {showBool e}",
            oracle := if impl ≠ specStr then some s!"trie post-order key says {specStr}" else moreSpecific }
        else badOp "unknown op"
      | _, _ => badOp "prefix token"
  | ["mlcmp", p, ml, q, ml2] =>
    match parsePfx p, parseMl ml, parsePfx q, parseMl ml2 with
    | some p, some ml, some q, some ml2 =>
      let a := mlpSat p ml; let b := mlpSat q ml2
      { model := some s!"{ordStr (mlpCmp a b)} {showBool (decide (a = b))}" }
    | _, _, _, _ => badOp "args"
  | ["origin", p, ml, asn, q, ml2, asn2] =>
    match parsePfx p, parseMl ml, asn.toNat?, parsePfx q, parseMl ml2, asn2.toNat? with
    | some p, some ml, some asn, some q, some ml2, some asn2 =>
      let a := mkOrigin p ml asn; let b := mkOrigin q ml2 asn2
      let c := originCmp a b
      -- spec: lexicographic on (prefix order, effective max length, asn)
      let spec := (cmpKey (key p) (key q)).then ((compare a.mlp.resolved b.mlp.resolved).then (compare asn asn2))
      let specStr := s!"{ordStr spec} {showBool (spec == .eq)}"
      { model := some s!"{ordStr c} {showBool (originEq a b)}",
        oracle := if impl = specStr then none else some s!"lexicographic spec says {specStr}" }
    | _, _, _, _, _, _ => badOp "args"
  | ["triple", _, _, _] =>
    { oracle := if impl = "ok" then none else some "cmp is not transitive/antisymmetric on this triple" }
  | ["set-from", xs] =>
    match parseList xs with
    | some xs =>
      let r := fromIter asnSetDedup xs
      let implL := parseList impl
      let o : Option String := match implL with
        | none => some "unparseable"
        | some il =>
          if ¬ strictSorted il then some "result not strictly sorted (duplicate or disorder)"
          else if ¬ (xs.all (il.contains ·) ∧ il.all (xs.contains ·)) then some "result is not the set of the items"
          else none
      { model := some (showList r), oracle := o }
    | none => badOp "list"
  | ["set-op", op, l, r] =>
    match parseList l, parseList r with
    | some l, some r =>
      if ¬ (strictSorted l ∧ strictSorted r) then badOp "operands not sets" else
      let (m, spec) : List Nat × (Nat → Bool) :=
        if op = "union" then (union l r, fun x => l.contains x || r.contains x)
        else if op = "inter" then (inter l r, fun x => l.contains x && r.contains x)
        else if op = "diff" then (diff l r, fun x => l.contains x && !r.contains x)
        else (symDiff l r, fun x => l.contains x != r.contains x)
      let o : Option String := match parseList impl with
        | none => some "unparseable"
        | some il =>
          if ¬ strictSorted il then some "result not strictly sorted"
          else if ¬ (il.all spec ∧ (l ++ r).all (fun x => spec x → il.contains x)) then some "result is not the mathematical set"
          else none
      { model := some (showList m), oracle := o }
    | _, _ => badOp "list"
  | _ => badOp "unknown op"

end Driver.C13
