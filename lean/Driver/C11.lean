import Driver.Common
import Rpki.Model.XmlDoc
namespace Driver.C11
open Driver Rpki.Xml Rpki.XmlDoc

def hexB (s : String) : Option (List Nat) := (parseHex s).map (·.map UInt8.toNat)
def hexN (b : List Nat) : String := toHex (b.map UInt8.ofNat)

/-- a line consisting of white space only (an empty text written on its own line) -/
def hasBlankLine : List Nat → Bool
  | [] => false
  | 10 :: rest => (match rest.dropWhile (fun c => c = 32) with | 10 :: _ => true | _ => false) || hasBlankLine rest
  | _ :: rest => hasBlankLine rest

mutual
/-- every attribute value and text of the tree un-escapes (only predefined entities, no raw `<`) -/
partial def nodeTextsOk : Node → Bool
  | .text t => (unescapeAll t).isSome
  | .elem _ attrs body =>
    attrs.all (fun a => (unescapeAll a.2).isSome) &&
    (match body with | none => true | some kids => kidsTextsOk kids)
partial def kidsTextsOk : Nodes → Bool
  | .nil => true
  | .cons n ns => nodeTextsOk n && kidsTextsOk ns
end

/-- the document the library wrote: well-formed for the reference reader, entity-clean, and
reproduced byte for byte by the generic writer model from the tree that was read -/
def docCheck (xml : List Nat) : Option String :=
  match parseDoc xml with
  | none => some "the written document is not well-formed for the reference reader"
  | some t =>
    if xml.any (fun c => c < 32 && c != 9 && c != 10 && c != 13) then
      some "the written document contains a control character that XML 1.0 cannot represent"
    else if !nodeTextsOk t then some "the written document contains a raw `<` or an `&` that is not a predefined entity"
    else if writeDoc t = xml ∨ hasBlankLine xml then none
    else some "re-writing the tree read by the reference reader gives other bytes"

def handle (toks : List String) (impl : String) : Verdict :=
  match toks with
  | ["xml", kind, origin, _] =>
    if impl = "panic" then { oracle := some s!"the {kind} parser or writer panicked" }
    else if impl = "err" then
      { oracle := if origin = "api1" ∨ origin = "api0" then some "the document the library wrote for an API-made message is rejected by its own parser" else none }
    else match impl.splitOn " " with
    | ["ok", xml1, same, idem, org] =>
      match hexB xml1 with
      | none => badOp "hex"
      | some x =>
        let api := org = "api1" ∨ org = "api0"
        { oracle :=
            if org = "api0" then some "an API-made message is not parsed back to an equal message"
            else if same ≠ "same" then some s!"a decoded {kind} message, written again, does not parse back to an equal message ({same})"
            else if api ∧ idem ≠ "idem" then some "writing the parsed-back API-made message gives other bytes than the first writing"
            else docCheck x }
    | _ => { oracle := some "unreadable result" }
  | _ => badOp "unknown op"

end Driver.C11
