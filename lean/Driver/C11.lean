import Driver.Common
import Rpki.Model.XmlDoc
import Rpki.Model.PubMsg
import Rpki.Model.IdxMsg
import Rpki.Model.ProvMsg
import Driver.C14
namespace Driver.C11
open Driver Rpki.Xml Rpki.XmlDoc

def hexB (s : String) : Option (List Nat) := (parseHex s).map (·.map UInt8.toNat)
def hexN (b : List Nat) : String := toHex (b.map UInt8.ofNat)

/-- a line consisting of white space only (an empty text written on its own line) -/
def hasBlankLine : List Nat → Bool
  | [] => false
  | 10 :: rest => (match rest.dropWhile (fun c => c = 32) with | 10 :: _ => true | _ => false) || hasBlankLine rest
  | _ :: rest => hasBlankLine rest

mutual
/-- every attribute value and text of the tree un-escapes (only predefined entities, no raw `<`) -/
partial def nodeTextsOk : Node → Bool
  | .text t => (unescapeAll t).isSome
  | .elem _ attrs body =>
    attrs.all (fun a => (unescapeAll a.2).isSome) &&
    (match body with | none => true | some kids => kidsTextsOk kids)
partial def kidsTextsOk : Nodes → Bool
  | .nil => true
  | .cons n ns => nodeTextsOk n && kidsTextsOk ns
end

/-- the document the library wrote: well-formed for the reference reader, entity-clean, and
reproduced byte for byte by the generic writer model from the tree that was read -/
def docCheck (xml : List Nat) : Option String :=
  match parseDoc xml with
  | none => some "the written document is not well-formed for the reference reader"
  | some t =>
    if xml.any (fun c => c < 32 && c != 9 && c != 10 && c != 13) then
      some "the written document contains a control character that XML 1.0 cannot represent"
    else if !nodeTextsOk t then some "the written document contains a raw `<` or an `&` that is not a predefined entity"
    else if writeDoc t = xml ∨ hasBlankLine xml then none
    else some "re-writing the tree read by the reference reader gives other bytes"


/-! ### RFC 8181 messages described field by field (`pubx`) -/

def unhx (s : String) : Option (List Nat) := if s = "e" then some [] else hexB s
def parseTag (s : String) : Option (Option (List Nat)) := if s = "~" then some none else (unhx s).map some

def parsePdu (e : String) : Option Rpki.PubMsg.Pdu :=
  match e.splitOn "," with
  | ["P", t, u, c] => do some (.publish (← parseTag t) (← unhx u) (← unhx c))
  | ["U", t, u, c, h] => do some (.update (← parseTag t) (← unhx u) (← unhx c) (← unhx h))
  | ["W", t, u, h] => do some (.withdraw (← parseTag t) (← unhx u) (← unhx h))
  | _ => none

def parseMsg (toks : List String) : Option Rpki.PubMsg.Msg :=
  match toks with
  | ["lq"] => some .listQuery
  | ["ok"] => some .success
  | ["delta", es] => if es = "-" then some (.delta []) else ((es.splitOn ";").mapM parsePdu).map .delta
  | ["lr", es] =>
    if es = "-" then some (.listReply []) else
    ((es.splitOn ";").mapM fun (e : String) => match e.splitOn "," with
      | [u, h] => do some (⟨← unhx u, ← unhx h⟩ : Rpki.PubMsg.ListEl)
      | _ => none).map .listReply
  | ["er", cs] => if cs = "-" then some (.errors []) else ((cs.splitOn ";").mapM String.toNat?).map .errors
  | _ => none

def hxOut (b : List Nat) : String := if b.isEmpty then "e" else toHex (b.map UInt8.ofNat)
def showTag : Option (List Nat) → String
  | none => "~"
  | some t => hxOut t

def describePdu : Rpki.PubMsg.Pdu → String
  | .publish t u c => s!"P,{showTag t},{hxOut u},{hxOut c}"
  | .update t u c h => s!"U,{showTag t},{hxOut u},{hxOut c},{hxOut h}"
  | .withdraw t u h => s!"W,{showTag t},{hxOut u},{hxOut h}"

def joinOr (l : List String) : String := if l.isEmpty then "-" else ";".intercalate l

/-- the same grammar as the op line, with `:` between the two tokens -/
def describe : Rpki.PubMsg.Msg → String
  | .listQuery => "lq"
  | .success => "ok"
  | .delta es => s!"delta:{joinOr (es.map describePdu)}"
  | .listReply es => s!"lr:{joinOr (es.map fun e => s!"{hxOut e.uri},{hxOut e.hash}")}"
  | .errors cs => s!"er:{joinOr (cs.map toString)}"

def handlePubx (toks : List String) (impl : String) : Verdict :=
  match parseMsg toks with
  | none => badOp "pubx args"
  | some m =>
    let doc := Rpki.PubMsg.write m
    -- the reference reader on the model's document; the property wants the message itself back, except for the
    -- two representation choices `norm` names (absent tag, error reply without reports)
    let modelBack := match Rpki.PubMsg.read doc with | some b => describe b | none => "err"
    let want := describe (Rpki.PubMsg.norm m)
    { model := some s!"{hexN doc} {modelBack}",
      oracle :=
        match impl.splitOn " " with
        | [h, back] =>
          (match hexB h with
          | none => some "unreadable"
          | some x =>
            if x ≠ doc then some "the document written for an API-made publication message is not the RFC 8181 document for its fields (element or attribute names, order, namespace, version, escaping or Base64)"
            else if back = "err" then some "the library rejects the document it wrote for an API-made message"
            else if back ≠ want then some s!"the written publication message parses back to other field values"
            else none)
        | _ => if impl = "write-err" then some "writing failed" else some "unreadable result" }


/-! ### RFC 8183 messages (`idx`) -/

def parseOpt (s : String) : Option (Option (List Nat)) := if s = "~" then some none else (unhx s).map some

def parseIdx (toks : List String) : Option Rpki.IdxMsg.Msg :=
  match toks with
  | ["creq", h, t, c] => do some (.childRequest (← unhx h) (← parseOpt t) (← unhx c))
  | ["presp", p, ch, u, t, c] => do some (.parentResponse (← unhx p) (← unhx ch) (← unhx u) (← parseOpt t) (← unhx c))
  | ["preq", h, t, c] => do some (.publisherRequest (← unhx h) (← parseOpt t) (← unhx c))
  | ["rresp", h, u, b, n, t, c] => do some (.repositoryResponse (← unhx h) (← unhx u) (← unhx b) (← parseOpt n) (← parseOpt t) (← unhx c))
  | _ => none

def describeIdx : Rpki.IdxMsg.Msg → String
  | .childRequest h t c => s!"creq:{hxOut h}:{showTag t}:{hxOut c}"
  | .parentResponse p ch u t c => s!"presp:{hxOut p}:{hxOut ch}:{hxOut u}:{showTag t}:{hxOut c}"
  | .publisherRequest h t c => s!"preq:{hxOut h}:{showTag t}:{hxOut c}"
  | .repositoryResponse h u b n t c => s!"rresp:{hxOut h}:{hxOut u}:{hxOut b}:{showTag n}:{showTag t}:{hxOut c}"

def handleIdx (toks : List String) (impl : String) : Verdict :=
  match parseIdx toks with
  | none => badOp "idx args"
  | some m =>
    let doc := Rpki.IdxMsg.write m
    let modelBack := match Rpki.IdxMsg.read doc with | some b => describeIdx b | none => "err"
    let want := describeIdx m
    { model := some s!"{hexN doc} {modelBack}",
      oracle :=
        match impl.splitOn " " with
        | [h, back] =>
          (match hexB h with
          | none => some "unreadable"
          | some x =>
            if x ≠ doc then some "the document written for an API-made RFC 8183 message is not the RFC 8183 document for its fields (element or attribute names, namespace, version, escaping or Base64)"
            else if back = "err" then some "the library rejects the RFC 8183 document it wrote for an API-made message"
            else if back ≠ want then some "the written RFC 8183 message parses back to other field values"
            else none)
        | _ => some "unreadable result" }


/-! ### RFC 6492 messages (`prvx`) -/

open Rpki.Chain in
def parseBlks (shiftV4 : Bool) (s : String) : Option (List Blk) :=
  if s = "-" then some [] else
  (s.splitOn "/").mapM fun (b : String) =>
    match b.splitOn "-" with
    | [l, h] => match l.toNat?, h.toNat? with
      | some l, some h => if shiftV4 then some ⟨l * 2 ^ 96, h * 2 ^ 96 + (2 ^ 96 - 1)⟩ else some ⟨l, h⟩
      | _, _ => none
    | _ => none

def asSet (s : String) := (parseBlks false s).map (Rpki.Chain.fromIter 4294967295)
def v4Set (s : String) := (parseBlks true s).map (Rpki.Chain.fromIter (2 ^ 128 - 1))
def v6Set (s : String) := (parseBlks false s).map (Rpki.Chain.fromIter (2 ^ 128 - 1))

def optSet (f : String → Option (List Rpki.Chain.Blk)) (s : String) : Option (Option (List Rpki.Chain.Blk)) :=
  if s = "*" then some none else (f s).map some

def parseLimit (a v4 v6 : String) : Option Rpki.ProvMsg.Limit := do
  some ⟨← optSet asSet a, ← optSet v4Set v4, ← optSet v6Set v6⟩

def parseIssued (s : String) : Option Rpki.ProvMsg.Issued :=
  match s.splitOn "~" with
  | [u, a, v4, v6, c] => do some ⟨← unhx u, ← parseLimit a v4 v6, ← unhx c⟩
  | _ => none

def parseClass (s : String) : Option Rpki.ProvMsg.Class :=
  match s.splitOn "," with
  | [name, url, a, v4, v6, na, issued, issuer] => do
    let is ← if issued = "-" then some [] else (issued.splitOn "+").mapM parseIssued
    let t ← na.toInt?.bind Driver.C14.civilOf
    some ⟨← unhx name, ← unhx url, ⟨← asSet a, ← v4Set v4, ← v6Set v6⟩, t, is, ← unhx issuer⟩
  | _ => none

def errText (st : Nat) : Option String :=
  [(1101, "already processing request"), (1102, "version number error"), (1103, "unrecognized request type"),
   (1104, "request scheduled for processing"), (1201, "request - no such resource class"),
   (1202, "request - no resources allocated in resource class"), (1203, "request - badly formed certificate request"),
   (1204, "request - already used key in request"), (1301, "revoke - no such resource class"), (1302, "revoke - no such key"),
   (2001, "Internal Server Error - Request not performed")].lookup st

def parseProv (toks : List String) : Option Rpki.ProvMsg.Msg :=
  match toks with
  | s :: r :: kind :: rest => do
    let s ← unhx s
    let r ← unhx r
    let p : Rpki.ProvMsg.Payload ← match kind, rest with
      | "list", [] => some .list
      | "listr", [cs] => (if cs = "-" then some [] else (cs.splitOn ";").mapM parseClass).map .listResponse
      | "issuer", [c] => (parseClass c).map .issueResponse
      | "issue", [q] => (match q.splitOn "," with
          | [name, a, v4, v6, csr] => do some (.issue (← unhx name) (← parseLimit a v4 v6) (← unhx csr))
          | _ => none)
      | "revoke", [q] => (match q.splitOn "," with | [n, k] => do some (.revoke (← unhx n) (← unhx k)) | _ => none)
      | "revoker", [q] => (match q.splitOn "," with | [n, k] => do some (.revokeResponse (← unhx n) (← unhx k)) | _ => none)
      | "err", [st] => do
          let st ← st.toNat?
          let t ← errText st
          some (.error st (some (Rpki.PubMsg.s t)))
      | _, _ => none
    some ⟨s, r, p⟩
  | _ => none

def handleProv (toks : List String) (impl : String) : Verdict :=
  match parseProv toks with
  | none => badOp "prvx args"
  | some m =>
    let doc := Rpki.ProvMsg.write m
    { model := some s!"{hexN doc} same",
      oracle :=
        match impl.splitOn " " with
        | [h, back] =>
          (match hexB h with
          | none => some "unreadable"
          | some x =>
            if x ≠ doc then some "the document written for an API-made provisioning message is not the RFC 6492 document for its fields (element or attribute names and order, namespace, version, resource-set text, time, Base64)"
            else if back = "err" then some "the library rejects the RFC 6492 document it wrote for an API-made message"
            else if back ≠ "same" then some "the written provisioning message parses back to an unequal message"
            else if Rpki.ProvMsg.read x ≠ some m then some "the reference reader does not read the written RFC 6492 document back as the message that was built"
            else none)
        | _ => some "unreadable result" }

def handle (toks : List String) (impl : String) : Verdict :=
  match toks with
  | "pubx" :: rest => handlePubx rest impl
  | "idx" :: rest => handleIdx rest impl
  | "prvx" :: rest => handleProv rest impl
  | ["xml", kind, origin, _] =>
    if impl = "panic" then { oracle := some s!"the {kind} parser or writer panicked" }
    else if impl = "err" then
      { oracle := if origin = "api1" ∨ origin = "api0" then some "the document the library wrote for an API-made message is rejected by its own parser" else none }
    else match impl.splitOn " " with
    | ["ok", xml1, same, idem, org] =>
      match hexB xml1 with
      | none => badOp "hex"
      | some x =>
        let api := org = "api1" ∨ org = "api0"
        { oracle :=
            if org = "api0" then some "an API-made message is not parsed back to an equal message"
            else if same ≠ "same" then some s!"a decoded {kind} message, written again, does not parse back to an equal message ({same})"
            else if api ∧ idem ≠ "idem" then some "writing the parsed-back API-made message gives other bytes than the first writing"
            else docCheck x }
    | _ => { oracle := some "unreadable result" }
  | _ => badOp "unknown op"

end Driver.C11
