import Driver.Common
import Rpki.Model.Rrdp
import Rpki.Model.XmlDoc
namespace Driver.C09
open Driver Rpki.Xml Rpki.Rrdp

def hexN (b : List Nat) : String := toHex (b.map UInt8.ofNat)
def hexB (s : String) : Option (List Nat) := (parseHex s).map (·.map UInt8.toNat)

def uuidText (b : List Nat) : List Nat :=
  let h := hexOf b
  h.take 8 ++ [45] ++ (h.drop 8).take 4 ++ [45] ++ (h.drop 12).take 4 ++ [45] ++ (h.drop 16).take 4 ++ [45] ++ h.drop 20

def parseElem (s : String) : Option Elem :=
  match s.splitOn "," with
  | ["P", u, d] => match hexB u, hexB d with | some u, some d => some (.publish u d) | _, _ => none
  | ["U", u, h, d] => match hexB u, hexB h, hexB d with | some u, some h, some d => some (.update u h d) | _, _, _ => none
  | ["W", u, h] => match hexB u, hexB h with | some u, some h => some (.withdraw u h) | _, _ => none
  | _ => none

def parseDelta (s : String) : Option DeltaRef :=
  match s.splitOn "," with
  | [n, u, h] => match n.toNat?, hexB u, hexB h with | some n, some u, some h => some ⟨n, u, h⟩ | _, _, _ => none
  | _ => none

def listOf {α} (f : String → Option α) (s : String) (sep : String) : Option (List α) :=
  if s = "-" then some [] else (s.splitOn sep).mapM f

/-- a line consisting of white space only -/
def hasBlankLine : List Nat → Bool
  | [] => false
  | 10 :: rest => (match rest.dropWhile (fun c => c = 32) with | 10 :: _ => true | _ => false) || hasBlankLine rest
  | _ :: rest => hasBlankLine rest

/-- the written document is well-formed for the reference reader and the generic writer model
reproduces it from the tree that was read -/
def docCheck (implHex : String) : Option String :=
  match hexB implHex with
  | none => some "unreadable"
  | some xml =>
    match Rpki.XmlDoc.parseDoc xml with
    | none => some "the written document is not well-formed for the reference reader"
    | some t =>
      -- an empty text line (object of length zero) is invisible to a trimming reader: skip the byte comparison then
      if Rpki.XmlDoc.writeDoc t = xml ∨ hasBlankLine xml then none
      else some "re-writing the tree read by the reference reader gives other bytes"

def showOutcome (o : Outcome) (kept : List Nat) : String :=
  match o with
  | .panic => "panic"
  | .ok b => s!"{b} {if kept.isEmpty then "-" else ",".intercalate (kept.map toString)}"

/-- consecutive, stated directly -/
def consecutive : List Nat → Bool
  | [] => true
  | [_] => true
  | a :: b :: rest => b == a + 1 && consecutive (b :: rest)

def isSorted : List Nat → Bool
  | [] => true
  | [_] => true
  | a :: b :: rest => a ≤ b && isSorted (b :: rest)

def handle (toks : List String) (impl : String) : Verdict :=
  match toks with
  | ["esc", mode, h] =>
    match hexB h with
    | none => badOp "hex"
    | some b =>
      let e := if mode = "attr" then escapeAttr b else escapePcdata b
      let implParts := impl.splitOn " "
      let implHex := implParts.headD ""
      let rt := implParts.getD 1 ""
      -- model result: the escaped octets; the reparse verdict is the implementation's own observation
      { model := some s!"{hexN e} {rt}",
        oracle :=
          match hexB implHex with
          | none => some "unreadable"
          | some out =>
            if unescapeAll out ≠ some b then some "escaped text does not un-escape to the original"
            else if rt = "differs" ∨ rt = "err" then some "an XML parser does not read the escaped text back as the original"
            else if mode = "attr" ∧ (out.contains 34 ∨ out.contains 60) then some "attribute value contains a raw quote or <"
            else if out.contains 60 then some "text contains a raw <"
            else none }
  | ["b64", "enc", h] =>
    match hexB h with
    | none => badOp "hex"
    | some b =>
      { model := some (hexN (b64Encode b)),
        oracle := match hexB impl with
          | some t => if xmlB64Decode t = some b then none else some "encoded text does not decode to the data"
          | none => some "unreadable" }
  | ["b64", "dec", h] =>
    match hexB h with
    | none => badOp "hex"
    | some t =>
      -- the base64 crate is more lenient/strict than a canonical decoder only in corner cases that are
      -- not part of the property; the oracle checks soundness: whatever is decoded re-encodes to the text
      { oracle :=
          if impl.startsWith "panic" then some "decoding Base64 text panicked"
          else if impl.startsWith "ok " then
            match hexB (impl.drop 3).toString with
            | some d => if b64Encode d = skipWs t then none else some "decoded data does not re-encode to the (whitespace-free) text"
            | none => some "unreadable"
          else if impl = "err" then (match xmlB64Decode t with
            | some _ => some "canonical padded Base64 text rejected" | none => none)
          else some "unreadable" }
  | ["notif", spec] =>
    match spec.splitOn ":" with
    | [sess, serial, su, sh, ds] =>
      match hexB sess, serial.toNat?, hexB su, hexB sh, listOf parseDelta ds ";" with
      | some sess, some serial, some su, some sh, some ds =>
        let xml := writeNotification ⟨uuidText sess, serial, su, sh, ds⟩
        { model := some s!"{hexN xml} same",
          oracle := if impl.endsWith " same" then docCheck ((impl.splitOn " ").headD "") else some "notification file does not parse back to an equal value" }
      | _, _, _, _, _ => badOp "spec"
    | _ => badOp "spec"
  | [kind, spec] =>
    if kind = "snap" ∨ kind = "delta" then
      match spec.splitOn ":" with
      | [sess, serial, es] =>
        match hexB sess, serial.toNat?, listOf parseElem es ";" with
        | some sess, some serial, some es =>
          let xml := writeFile (if kind = "snap" then sSnapshot else sDelta) (uuidText sess) serial es
          { model := some s!"{hexN xml} same",
            oracle := if impl.endsWith " same" then docCheck ((impl.splitOn " ").headD "") else some s!"{kind} file does not parse back to an equal value" }
        | _, _, _ => badOp "spec"
      | _ => badOp "spec"
    else badOp "unknown op"
  | ["chain", limit, serials] =>
    match listOf String.toNat? serials "," with
    | none => badOp "serials"
    | some ss =>
      let lim := if limit = "-" then none else limit.toNat?
      let kept := retained ss lim
      let o := sortAndVerify ss lim
      { model := some (showOutcome o kept),
        oracle :=
          if impl = "panic" then some "sort_and_verify_deltas panicked"
          else match impl.splitOn " " with
          | [b, k] =>
            match listOf String.toNat? k "," with
            | some k =>
              -- stated directly: the retained deltas are the newest `limit` of the sorted list, and the
              -- answer is whether they are consecutive
              if !isSorted k then some "retained deltas are not sorted"
              else if b = "true" ∧ !consecutive k then some "reports success although the retained serials are not consecutive"
              else if b = "false" ∧ consecutive k then some "reports a gap although the retained serials are consecutive"
              else if (match lim with | some l => k.length != min l ss.length | none => k.length != ss.length) then
                some "wrong number of retained deltas"
              else none
            | none => some "unreadable"
          | _ => some "unreadable" }
  | ["origins", b, s, ds] =>
    match hexB b, hexB s, listOf hexB ds "," with
    | some b, some s, some ds =>
      match Rpki.Uri.Https.fromBytes b, Rpki.Uri.Https.fromBytes s, ds.mapM (fun d => (Rpki.Uri.Https.fromBytes d).toOption) with
      | .ok b, .ok s, some ds =>
        let want := toString (hasMatchingOrigins b s ds)
        -- stated directly: every URI has the authority of the notification URI (case-insensitively)
        let auth (u : Rpki.Uri.Https) : List Nat := (u.authority).map Rpki.Uri.toLower
        let spec := toString ((s :: ds).all fun u => auth u == auth b)
        { model := some want, oracle := if impl = spec then none else some s!"origin check must say {spec}" }
      | _, _, _ => badOp "uri"
    | _, _, _ => badOp "hex"
  | ["bomb", _, _] =>
    match impl.splitOn " " with
    | [verdict, consumed, pfx, lim] =>
      match consumed.toNat?, pfx.toNat? with
      | some c, some p =>
        let limit := if lim = "h" then Rpki.Consts.rrdpMaxHeaderSize else Rpki.Consts.rrdpMaxFileSize
        { oracle :=
            if verdict = "panic" then some "parser panicked on an endless stream"
            else if verdict = "ok" then some "an endless stream was accepted"
            else if c > p + limit + 8192 then some s!"read {c} octets: more than the element limit {limit} plus one buffer beyond the start of the offending element ({p})"
            else none }
      | _, _ => badOp "numbers"
    | _ => badOp "bomb result"
  | ["rmut", file, lim, _] =>
    -- a document the library did not write: a value or an error, never a panic; a value survives being written again
    { oracle :=
        if impl = "panic" then some s!"the {file} parser panicked on a malformed document"
        else if impl = "err" then none
        else if impl = "ok oversized" then (if lim = "-" then some "a delta list reported as oversized although no limit was given" else none)
        else if impl.startsWith "ok rt-same" then none
        else some s!"a {file} document was accepted, but the accepted value, written by the library, does not parse back to an equal value ({impl})" }
  | ["notifbig", nd, ulen] =>
    { oracle := match impl.splitOn " " with
        | [len, rt] => if rt = "same" then none
            else some s!"a notification file written by the library ({nd} deltas, URIs of about {ulen} characters, {len} octets) does not parse back to an equal value: {rt}"
        | _ => some "unreadable result" }
  | _ => badOp "unknown op"

end Driver.C09
