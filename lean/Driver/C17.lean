import Driver.Common
import Rpki.Model.X509
import Rpki.Model.Instant
namespace Driver.C17
open Driver Rpki.X509

def hexN (b : Bytes) : String := toHex (b.map UInt8.ofNat)
def parseHexN (s : String) : Option Bytes := (parseHex s).map (·.map UInt8.toNat)

def showCivil (c : Civil) : String := s!"ok {c.y} {c.m} {c.d} {c.h} {c.mi} {c.s}"
def showTag : TimeTag → String | .utc => "utc" | .generalized => "gen"
def parseTag (s : String) : Option TimeTag := if s = "utc" then some .utc else if s = "gen" then some .generalized else none

def parseInt (s : String) : Option Int :=
  if s.startsWith "-" then (s.drop 1).toNat?.map (fun n => - (n : Int)) else s.toNat?.map (fun n => (n : Int))

def showV : Except VErr Unit → String
  | .ok _ => "ok" | .error .tooNew => "toonew" | .error .tooOld => "tooold"

/-- the fixed-width rendering the property demands -/
def render (tag : TimeTag) (c : Civil) : Bytes :=
  (match tag with | .utc => pad2 (c.y % 100) | .generalized => pad4 c.y)
    ++ pad2 c.m ++ pad2 c.d ++ pad2 c.h ++ pad2 c.mi ++ pad2 c.s ++ [90]

def decBoth (tag : TimeTag) (b : Bytes) : String :=
  match decodeTime tag b, decodeTimeOpt tag b with
  | some c, some c' => if c = c' then showCivil c else "decoders-disagree"
  | none, none => "err"
  | _, _ => "decoders-disagree"

/-- number of round-tripping (day, time-of-day) cases in the years `[y0, y1]` on the model -/
def sweep (y0 y1 : Nat) : Nat × Nat × Int := Id.run do
  let mut n := 0
  let mut bad := 0
  let mut tsum : Int := 0
  for y in [y0:y1+1] do
    for m in [1:13] do
      for d in [1:32] do
        for hms in [(0,0,0), (12,34,56), (23,59,59)] do
          let c : Civil := ⟨y, m, d, hms.1, hms.2.1, hms.2.2⟩
          if validCivil c then
            n := n + 1
            -- `Time::timestamp` of every case, summed modulo 2^64 (ties `Model/Instant.lean` to chrono)
            tsum := (tsum + unixOf c) % 18446744073709551616
            let (tag, bytes) := encodeVaried c
            if decodeTime tag bytes ≠ some c ∨ decodeTimeOpt tag bytes ≠ some c then bad := bad + 1
  return (n, bad, tsum)

def cmpStr (a b : Nat) : String := showOrd (some (compare a b))

def handle (toks : List String) (impl : String) : Verdict :=
  match toks with
  | ["enc", y, m, d, h, mi, s] =>
    match y.toNat?, m.toNat?, d.toNat?, h.toNat?, mi.toNat?, s.toNat? with
    | some y, some m, some d, some h, some mi, some s =>
      let c : Civil := ⟨y, m, d, h, mi, s⟩
      if ¬ validCivil c then badOp "not a calendar date" else
      let (tag, bytes) := encodeVaried c
      let rt := if decodeTime tag bytes = some c ∧ decodeTimeOpt tag bytes = some c then "ok" else "mismatch"
      let spec := s!"{if 1950 ≤ y ∧ y ≤ 2049 then "utc" else "gen"} {hexN (render (if 1950 ≤ y ∧ y ≤ 2049 then .utc else .generalized) c)} ok"
      { model := some s!"{showTag tag} {hexN bytes} {rt}",
        oracle := if impl = spec then none else some s!"spec says {spec}" }
    | _, _, _, _, _, _ => badOp "num"
  | ["dec", tag, hx] =>
    match parseTag tag, parseHexN hx with
    | some tag, some b =>
      let o : Option String :=
        match impl.splitOn " " with
        | ["ok", y, m, d, h, mi, s] =>
          match y.toNat?, m.toNat?, d.toNat?, h.toNat?, mi.toNat?, s.toNat? with
          | some y, some m, some d, some h, some mi, some s =>
            let c : Civil := ⟨y, m, d, h, mi, s⟩
            if ¬ validCivil c then some "accepted value is not a real calendar date/time"
            else if render tag c ≠ b then some "accepted a form other than the fixed-width all-digit Z-terminated rendering"
            else if tag = .utc ∧ ¬ (1950 ≤ y ∧ y ≤ 2049) then some "two-digit year pivot is not 50"
            else none
          | _, _, _, _, _, _ => some "unparseable"
        | ["err"] => if (validCivilOfRender tag b) then some "rejected a valid fixed-width form" else none
        | _ => some s!"unexpected result {impl}"
      { model := some (decBoth tag b), oracle := o }
    | _, _ => badOp "args"
  | ["sweep", y0, y1] =>
    match y0.toNat?, y1.toNat? with
    | some y0, some y1 =>
      let (n, bad, tsum) := sweep y0 y1
      { model := some s!"ok {n} {bad} {tsum}",
        oracle := if impl.startsWith s!"ok {n} 0 " then none else some s!"calendar says {n} cases, all must round-trip" }
    | _, _ => badOp "num"
  | ["yfd", years, ts] =>
    match parseInt years, parseInt ts with
    | some years, some ts =>
      (match civilOfUnix ts with
       | some c =>
         let r := yearsFromDate years c
         -- the documentation's statement, on the implementation's own answer: the same month, day (28 for a leap
         -- day) and time of day, `years` years away
         let want := s!"ok {(c.y : Int) + years} {c.m} {if c.d = 29 ∧ c.m = 2 then 28 else c.d} {c.h} {c.mi} {c.s} "
         { model := some s!"{showCivil r} {unixOf r}",
           oracle := if impl.startsWith want then none else some s!"years_from_date must give {want}" }
       | none => badOp "ts")
    | _, _ => badOp "num"
  | ["fromsecs", _] =>
    { oracle := if impl = "ordered=true length=true anchored=true from_duration=true" then none
                else some "Validity::from_secs must give an ordered window of the asked length that starts (forwards) or ends (backwards) now" }
  | ["validity", nb, na, now] =>
    -- `<n>+h` = n + 0.5 s: before notBefore iff n < notBefore; after notAfter iff n ≥ notAfter, i.e. the verdict at
    -- n for a window ending one second earlier
    let half := now.endsWith "+h"
    let now := if half then (now.dropEnd 2).toString else now
    match parseInt nb, (parseInt na).map (fun x => if half then x - 1 else x), parseInt now with
    | some nb, some na, some now =>
      let spec := if nb ≤ now ∧ now ≤ na then "ok" else if now < nb then "toonew" else "tooold"
      { model := some (showV (verifyAt ⟨nb, na⟩ now)),
        oracle := if (impl = "ok") = (spec = "ok") then none else some s!"window says {spec}" }
    | _, _, _ => badOp "num"
  | ["trim", nb1, na1, nb2, na2, now] =>
    match parseInt nb1, parseInt na1, parseInt nb2, parseInt na2, parseInt now with
    | some nb1, some na1, some nb2, some na2, some now =>
      let a : Validity := ⟨nb1, na1⟩; let b : Validity := ⟨nb2, na2⟩
      let r := showV (verifyAt (trim a b) now)
      let m := s!"{r} {showV (verifyAt a now)} {showV (verifyAt b now)}"
      let f := impl.splitOn " "
      let o : Option String :=
        match f with
        | [r, r1, r2] => if (r = "ok") = (r1 = "ok" ∧ r2 = "ok") then none else some "trim is not the intersection"
        | _ => some "unparseable"
      { model := some m, oracle := o }
    | _, _, _, _, _ => badOp "num"
  | ["sslice", hx] =>
    match parseHexN hx with
    | some b =>
      let m := match fromSlice b with
        | .ok a => s!"ok {hexN a}" | .error .empty => "err empty" | .error .long => "err long"
      let spec : String :=
        if b = [] then "err" else if toNatBE b < 2 ^ 159 ∧ b.length ≤ 20 then "ok" else "err"
      { model := some m,
        oracle := if impl.startsWith spec then none else some s!"spec says {spec}" }
    | none => badOp "hex"
  | ["sder", hx] =>
    match parseHexN hx with
    | some a =>
      if a.length ≠ 20 ∨ (fromArray a).toOption.isNone then badOp "not a serial" else
      let c := encodeContent a
      let rt := if decodeSerialContent c = some a then "ok" else "mismatch"
      -- oracle: minimal two's-complement non-negative form of the value
      let v := toNatBE a
      let minimal : Bool := c ≠ [] ∧ toNatBE c = v ∧ c.headD 0 < 128 ∧ (c.length = 1 ∨ ¬ (c.headD 0 = 0 ∧ c.getD 1 0 < 128))
      { model := some s!"{hexN c} {rt}",
        oracle := match impl.splitOn " " with
          | [ch, r] => match parseHexN ch with
            | some ic => if ic ≠ c ∨ ¬ minimal then some "DER content is not the minimal non-negative integer"
                         else if r ≠ "ok" then some "DER does not decode back to the serial" else none
            | none => some "unparseable"
          | _ => some "unparseable" }
    | none => badOp "hex"
  | ["sderdec", hx] =>
    match parseHexN hx with
    | some c =>
      { model := some (match decodeSerialContent c with | some a => s!"ok {hexN a}" | none => "err") }
    | none => badOp "hex"
  | ["sdec", hx] =>
    match parseHexN hx with
    | some a =>
      if a.length ≠ 20 ∨ (fromArray a).toOption.isNone then badOp "not a serial" else
      let d := encodeDec a
      let rt := if fromStr d = some a then "ok" else "mismatch"
      let specDigits : Bytes := if toNatBE a = 0 then [] else (Nat.toDigits 10 (toNatBE a)).map (·.toNat)
      { model := some s!"{hexN d} {rt}",
        oracle := if impl = s!"{hexN specDigits} ok" then none else some "decimal text is not the value / does not parse back" }
    | none => badOp "hex"
  | ["sfromstr", hx] =>
    match parseHexN hx with
    | some t =>
      let m := match fromStr t with | some a => s!"ok {hexN a}" | none => "err"
      let spec : String :=
        if t.all isDigit ∧ digitsVal t 0 < 2 ^ 159 then
          s!"ok {hexN ((List.range 20).map fun i => digitsVal t 0 / 256 ^ (19 - i) % 256)}"
        else "err"
      { model := some m, oracle := if impl = spec then none else some s!"spec says {spec}" }
    | none => badOp "hex"
  | ["scmp", ah, bh] =>
    match parseHexN ah, parseHexN bh with
    | some a, some b =>
      { model := some (showOrd (some (lexCmp a b))),
        oracle := if impl = cmpStr (toNatBE a) (toNatBE b) then none else some "serial order is not numeric order" }
    | _, _ => badOp "hex"
  | _ => badOp "unknown op"
where
  /-- is `b` exactly the rendering of some valid civil time (so that rejecting it would be wrong)? -/
  validCivilOfRender (tag : TimeTag) (b : Bytes) : Bool :=
    let n := match tag with | .utc => 13 | .generalized => 15
    if b.length ≠ n then false else
    if ¬ (b.dropLast.all isDigit ∧ b.getLast? = some 90) then false else
    let yl := n - 11
    let num (i k : Nat) := digitsVal ((b.drop i).take k) 0
    let y0 := num 0 yl
    let y := match tag with | .utc => if y0 ≥ 50 then 1900 + y0 else 2000 + y0 | .generalized => y0
    validCivil ⟨y, num yl 2, num (yl+2) 2, num (yl+4) 2, num (yl+6) 2, num (yl+8) 2⟩

end Driver.C17
