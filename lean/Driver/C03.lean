import Driver.Common
import Rpki.Model.Chain
import Rpki.Model.AsDer
import Rpki.Model.IpDer
import Rpki.Model.ResText
import Rpki.Model.ProvMsg
import Rpki.Model.ResSetOps
namespace Driver.C03
open Driver Rpki.Chain

def M32 : Nat := 4294967295
def M128 : Nat := 340282366920938463463374607431768211455

def parseBlocks (s : String) : Option (List Blk) :=
  if s = "-" then some [] else
  (s.splitOn ",").mapM fun b =>
    match b.splitOn "-" with
    | [a, c] => match a.toNat?, c.toNat? with | some a, some c => some ⟨a, c⟩ | _, _ => none
    | _ => none

/-- parse an implementation chain `lo-hi<tag>,…`, returning blocks and tags -/
def parseTagged (s : String) : Option (List (Blk × String)) :=
  if s = "-" then some [] else
  (s.splitOn ",").mapM fun b =>
    match b.splitOn "-" with
    | [a, c] =>
      let digits := (c.takeWhile Char.isDigit).toString
      let tag := (c.dropWhile Char.isDigit).toString
      match a.toNat?, digits.toNat? with | some a, some c => some (⟨a, c⟩, tag) | _, _ => none
    | _ => none

def asTag (b : Blk) : String := if b.lo = b.hi then "i" else "r"
def ipTag (b : Blk) : String := match intoPrefix 128 b.lo b.hi with | some l => s!"p{l}" | none => "r"

def showChain (tag : Blk → String) (c : List Blk) : String :=
  if c.isEmpty then "-" else ",".intercalate (c.map fun b => s!"{b.lo}-{b.hi}{tag b}")

def memb (c : List Blk) (x : Nat) : Bool := c.any fun b => b.lo ≤ x && x ≤ b.hi

/-- canonical form: bounds ordered and within the space, ascending, disjoint, not adjacent -/
def canon (M : Nat) : List Blk → Bool
  | [] => true
  | [b] => b.lo ≤ b.hi && b.hi ≤ M
  | a :: b :: rest => a.lo ≤ a.hi && a.hi + 1 < b.lo && canon M (b :: rest)

/-- probe points: every block end of every chain, and its neighbours -/
def probes (M : Nat) (cs : List (List Blk)) : List Nat :=
  (cs.flatten.flatMap fun b => [b.lo - 1, b.lo, b.lo + 1, b.hi - 1, b.hi, b.hi + 1]).filter (· ≤ M)

def checkSet (M : Nat) (tag : Blk → String) (impl : String) (inputs : List (List Blk)) (spec : Nat → Bool) : Option String :=
  match parseTagged impl with
  | none => some s!"unparseable result {impl}"
  | some tb =>
    let c := tb.map (·.1)
    if ¬ canon M c then some "result is not in canonical form (ascending, disjoint, non-adjacent, lower <= upper)"
    else if tb.any (fun (b, t) => t ≠ tag b) then some "a block is not in its canonical representation (single id / prefix)"
    else match (probes M (c :: inputs)).find? (fun x => memb c x ≠ spec x) with
      | some x => some s!"result does not denote the expected set: item {x}"
      | none => none

def famM (op : String) : Nat := if op.startsWith "as" then M32 else M128
def famTag (op : String) : Blk → String := if op.startsWith "as" then asTag else ipTag

def handle (toks : List String) (impl : String) : Verdict :=
  match toks with
  | ["limit", la, l4, l6, a, v4, v6] =>
    let opt (M : Nat) (s : String) : Option (Option (List Blk)) :=
      if s = "*" then some none else (parseBlocks s).map fun b => some (fromIter M b)
    match opt M32 la, opt M128 l4, opt M128 l6, parseBlocks a, parseBlocks v4, parseBlocks v6 with
    | some la, some l4, some l6, some a, some v4, some v6 =>
      let set : Rpki.ProvMsg.ResSet := ⟨fromIter M32 a, fromIter M128 v4, fromIter M128 v6⟩
      let lim : Rpki.ProvMsg.Limit := ⟨la, l4, l6⟩
      let m := match Rpki.ProvMsg.applyTo lim set with
        | none => "err"
        | some r => s!"ok {showChain asTag r.asn};{showChain ipTag r.v4};{showChain ipTag r.v6}"
      -- the property, on the mathematical sets: every limited type must lie inside the set and is then exactly the
      -- limit; an unlimited type is the set's own
      let inside (want have_ : List Blk) : Bool := want.all fun w => (probes M128 [want, have_]).all fun x => !(w.lo ≤ x && x ≤ w.hi) || memb have_ x
      let fits := (match la with | some w => inside w set.asn | none => true) && (match l4 with | some w => inside w set.v4 | none => true) &&
                  (match l6 with | some w => inside w set.v6 | none => true)
      let want := s!"ok {showChain asTag (la.getD set.asn)};{showChain ipTag (l4.getD set.v4)};{showChain ipTag (l6.getD set.v6)}"
      { model := some m,
        oracle := if impl = "err" then (if fits then some "a limit inside the entitled set was refused" else none)
                  else if !fits then some "a limit that exceeds the entitled set was applied"
                  else if impl ≠ want then some "the limited set is not the limit where one is given and the entitled set elsewhere"
                  else none }
    | _, _, _, _, _, _ => badOp "limit args"
  | ["ip-fmt", fam, a] =>
    match parseBlocks a with
    | none => badOp "blocks"
    | some bs =>
      let c := fromIter M128 bs
      let text := Rpki.ResText.fmtIp (fam = "4") (c.map Rpki.ResText.tagged)
      { model := some s!"{showChain ipTag c} {toHex (text.map UInt8.ofNat)}" }
  | ["as-fmt", a] =>
    match parseBlocks a with
    | none => badOp "blocks"
    | some bs =>
      let c := fromIter M32 bs
      { model := some s!"{showChain asTag c} {toHex ((Rpki.ResText.fmtAs c).map UInt8.ofNat)}" }
  | ["ip-der", fam, h] =>
    match (parseHex h).map (·.map UInt8.toNat) with
    | none => badOp "hex"
    | some b =>
      let W := if fam = "4" then 32 else 128
      let m := match Rpki.IpDer.decodeBlocks W b with
        | none => "err"
        | some c => s!"blocks {showChain ipTag c}"
      { model := some m,
        oracle := if impl.startsWith "blocks " then checkSet M128 ipTag (impl.drop 7).toString []
                    (fun x => (parseTagged (impl.drop 7).toString).any (fun tb => memb (tb.map (·.1)) x))
                  else none }
  | ["ip-enc", a] =>
    match parseBlocks a with
    | none => badOp "blocks"
    | some c =>
      let enc := Rpki.IpDer.encodeBlocks c
      { model := some (toHex (enc.map UInt8.ofNat) ++ " rt-same"),
        oracle := match impl.splitOn " " with
          | [h, rt] =>
            (match (parseHex h).map (·.map UInt8.toNat) with
            | none => some "unreadable"
            | some der =>
              if rt ≠ "rt-same" then some s!"the library's reader does not read back the IP blocks the library wrote ({rt})"
              else if Rpki.IpDer.decodeBlocks 128 der = some c then none
              else some "the encoded IP blocks do not decode back to the same set")
          | _ => some "unreadable result" }
  | ["as-der", h] =>
    match (parseHex h).map (·.map UInt8.toNat) with
    | none => badOp "hex"
    | some b =>
      let m := match Rpki.AsDer.decodeExt b with
        | none => "err"
        | some .inherit => "inherit"
        | some (.blocks c) => s!"blocks {showChain asTag c}"
        | some .missing => "odd"
      { model := some m,
        oracle := if impl.startsWith "blocks " then checkSet M32 asTag (impl.drop 7).toString []
                    (fun x => (parseTagged (impl.drop 7).toString).any (fun tb => memb (tb.map (·.1)) x))
                  else none }
  | ["as-enc", what] =>
    let claim : Option Claim := if what = "I" then some .inherit else (parseBlocks what).map .blocks
    match claim with
    | none => badOp "blocks"
    | some cl =>
      let enc := Rpki.AsDer.encodeExt cl
      { model := some (toHex (enc.map UInt8.ofNat) ++ (if what = "-" then " rt-differs" else " rt-same")),
        oracle := match impl.splitOn " " with
          | [h, rt] =>
            (match (parseHex h).map (·.map UInt8.toNat) with
            | none => some "unreadable"
            | some der =>
              -- `AsResources::blocks` of an empty set is the *missing* variant, which certificates express by
              -- omitting the extension; its stand-alone encoding reads back as an empty block list, not as missing
              if rt ≠ "rt-same" ∧ what ≠ "-" then some s!"the library's reader does not read back the AS resources the library wrote ({rt})"
              else if Rpki.AsDer.decodeExt der = some cl then none
              else some "the encoded AS resources extension does not decode back to the same set")
          | _ => some "unreadable result" }
  | ["as-parse", h] =>
    { model := (parseHex h).map fun t =>
        match Rpki.ResText.parseAsItems (t.map UInt8.toNat) with
        | none => "err"
        | some items =>
          -- an inverted range cannot be written in this grammar (`min > max` is refused)
          s!"ok {showChain asTag (fromIter M32 items)}",
      oracle := if impl.startsWith "ok-inverted" then some "text with lower bound above upper bound accepted"
                else if impl.startsWith "ok " then checkSet M32 asTag (impl.drop 3).toString [] (fun x => (parseTagged (impl.drop 3).toString).any (fun tb => memb (tb.map (·.1)) x))
                else none }
  | [op, bs] =>
    match parseBlocks bs with
    | none => badOp "blocks"
    | some blocks =>
      let M := famM op
      if op = "as-from" ∨ op = "ip-from" then
        if blocks.any (fun b => b.lo > b.hi ∨ b.hi > M) then badOp "inverted block" else
        { model := some (showChain (famTag op) (fromIter M blocks)),
          oracle := checkSet M (famTag op) impl [blocks] (memb blocks) }
      else if op = "as-count" then
        let total := (blocks.map fun b => b.hi - b.lo + 1).foldl (· + ·) 0
        { model := some (match asnCount blocks with | some n => s!"ok {n}" | none => "panic"),
          oracle := if impl = "panic" then some "asn_count panics"
                    else if total ≤ M32 ∧ impl ≠ s!"ok {total}" then some s!"count should be {total}" else none }
      else if op = "as-text" then
        { oracle := if impl = "ok" then none else some s!"text/serde form does not parse back to an equal set: {impl}" }
      else if op = "as-parse" then
        { oracle := if impl.startsWith "ok " then checkSet M32 asTag (impl.drop 3).toString [] (fun x => (parseTagged (impl.drop 3).toString).any (fun tb => memb (tb.map (·.1)) x))
                    else none }
      else badOp "unknown op"
  | ["ip-text", _, _] =>
    { oracle := if impl = "ok" then none else some s!"text/serde form does not parse back to an equal set: {impl}" }
  | ["ip-parse", fam, h] =>
    { model := (parseHex h).bind fun t =>
        match Rpki.ResText.parseIpItems (fam = "4") (t.map UInt8.toNat) with
        | none => some "err"
        | some items =>
          let bs := items.map Rpki.ResText.tblkBounds
          -- ranges written with the bounds the wrong way round are stored as written (listed finding): no model line
          if bs.any (fun b => b.lo > b.hi) then none
          else some s!"ok {showChain ipTag (fromIter M128 bs)}",
      oracle := if impl.startsWith "ok-inverted" then some "text with lower bound above upper bound accepted"
                else if impl.startsWith "ok " then checkSet M128 ipTag (impl.drop 3).toString [] (fun x => (parseTagged (impl.drop 3).toString).any (fun tb => memb (tb.map (·.1)) x))
                else none }
  | ["rset", op, aa, a4, a6, ba, b4, b6] =>
    match parseBlocks aa, parseBlocks a4, parseBlocks a6, parseBlocks ba, parseBlocks b4, parseBlocks b6 with
    | some aa0, some a40, some a60, some ba0, some b40, some b60 =>
      let a : Rpki.ProvMsg.ResSet := ⟨fromIter M32 aa0, fromIter M128 a40, fromIter M128 a60⟩
      let b : Rpki.ProvMsg.ResSet := ⟨fromIter M32 ba0, fromIter M128 b40, fromIter M128 b60⟩
      let show3 (s : Rpki.ProvMsg.ResSet) : String := s!"{showChain asTag s.asn};{showChain ipTag s.v4};{showChain ipTag s.v6}"
      -- the three families of an implementation result against three predicates on the mathematical sets
      let check3 (impl : String) (fa f4 f6 : Nat → Bool) : Option String :=
        match impl.splitOn ";" with
        | [ra, r4, r6] =>
          (checkSet M32 asTag ra [aa0, ba0] fa).orElse fun _ =>
          (checkSet M128 ipTag r4 [a40, b40] f4).orElse fun _ => checkSet M128 ipTag r6 [a60, b60] f6
        | _ => some "unreadable resource set"
      let sameSets : Bool := (probes M32 [aa0, ba0]).all (fun x => memb aa0 x == memb ba0 x) &&
        (probes M128 [a40, b40]).all (fun x => memb a40 x == memb b40 x) && (probes M128 [a60, b60]).all (fun x => memb a60 x == memb b60 x)
      let subset (M : Nat) (x y : List Blk) : Bool := (probes M [x, y]).all (fun p => !memb x p || memb y p)
      if op = "union" then
        { model := some (show3 (Rpki.ResSetOps.union a b)),
          oracle := check3 impl (fun x => memb aa0 x || memb ba0 x) (fun x => memb a40 x || memb b40 x) (fun x => memb a60 x || memb b60 x) }
      else if op = "inter" then
        { model := some (show3 (Rpki.ResSetOps.inter a b)),
          oracle := check3 impl (fun x => memb aa0 x && memb ba0 x) (fun x => memb a40 x && memb b40 x) (fun x => memb a60 x && memb b60 x) }
      else if op = "contains" then
        { model := some (showBool (Rpki.ResSetOps.contains a b)),
          oracle := if impl = showBool (subset M32 ba0 aa0 && subset M128 b40 a40 && subset M128 b60 a60) then none
                    else some "ResourceSet::contains differs from inclusion in every family" }
      else if op = "eq" then
        { model := some (showBool (a == b)),
          oracle := if impl = showBool sameSets then none else some "ResourceSet == differs from equality of the denoted sets" }
      else if op = "diff" then
        let d := Rpki.ResSetOps.diff a b
        { model := some s!"{show3 d.1}|{show3 d.2}|{showBool (Rpki.ResSetOps.diffIsEmpty d)}|{toHex ((Rpki.ResSetOps.diffDisplay d).map UInt8.ofNat)}",
          oracle := match impl.splitOn "|" with
            | [ad, rm, em, _] =>
              (check3 ad (fun x => memb aa0 x && !memb ba0 x) (fun x => memb a40 x && !memb b40 x) (fun x => memb a60 x && !memb b60 x)).orElse fun _ =>
              (check3 rm (fun x => memb ba0 x && !memb aa0 x) (fun x => memb b40 x && !memb a40 x) (fun x => memb b60 x && !memb a60 x)).orElse fun _ =>
              if em = showBool sameSets then none else some "ResourceDiff::is_empty differs from equality of the two sets"
            | _ => some "unreadable difference" }
      else if op = "text" then
        let flags := s!"{showBool (Rpki.ResSetOps.isEmpty a)} {showBool (!a.asn.isEmpty)}{showBool (!a.v4.isEmpty)}{showBool (!a.v6.isEmpty)}"
        -- the model reads its own three text forms back with its `from_strs`
        let rt := if Rpki.ResSetOps.fromStrs (Rpki.ResText.fmtAs a.asn) (Rpki.ProvMsg.fmtV4 a.v4) (Rpki.ProvMsg.fmtV6 a.v6) = some a then "rt-same" else "rt-differs"
        { model := some s!"{toHex ((Rpki.ResSetOps.display a).map UInt8.ofNat)} {rt} serde-same {flags}",
          oracle := match impl.splitOn " " with
            | [_, rt, sj, _, _] => if rt ≠ "rt-same" then some s!"the text forms of a resource set do not parse back to it ({rt})"
                                else if sj ≠ "serde-same" then some s!"the serde form of a resource set does not parse back to it ({sj})" else none
            | _ => some "unreadable" }
      else badOp "unknown rset op"
    | _, _, _, _, _, _ => badOp "blocks"
  | ["rset-has", aa, a4, a6, what, x, y] =>
    match parseBlocks aa, parseBlocks a4, parseBlocks a6, x.toNat?, y.toNat? with
    | some aa0, some a40, some a60, some x, some y =>
      let a : Rpki.ProvMsg.ResSet := ⟨fromIter M32 aa0, fromIter M128 a40, fromIter M128 a60⟩
      if what = "asn" then
        { model := some (showBool (Rpki.ResSetOps.containsAsn a x)),
          oracle := if impl = showBool (memb aa0 x) then none else some "contains_asn differs from membership" }
      else if what = "roa" then
        -- x = first address (aligned), y = prefix length in the 128-bit space
        let hi := x + 2 ^ (128 - y) - 1
        { model := some (showBool (Rpki.ResSetOps.containsRoa a x hi)),
          oracle := if impl = "true" ∧ !((probes M128 [[⟨x, hi⟩], a40, a60]).all fun p => !(x ≤ p && p ≤ hi) || memb a40 p || memb a60 p)
                    then some "a ROA address reported as contained has addresses outside both address sets" else none }
      else badOp "unknown rset-has"
    | _, _, _, _, _ => badOp "args"
  | ["as-has", a, x] =>
    match parseBlocks a, x.toNat? with
    | some a, some x =>
      let c := fromIter M32 a
      { model := some (showBool (containsItem c x)),
        oracle := if impl = showBool (memb a x) then none else some "membership differs from the mathematical set" }
    | _, _ => badOp "args"
  | [fop, op, a, b] =>
    if fop = "ip-block" then
      match parseBlocks op, parseBlocks b with
      | some c, some [blk] =>
        let ch := fromIter M128 c
        let spec := if a = "contains" then ch.any (fun r => r.lo ≤ blk.lo && blk.hi ≤ r.hi)
                    else ch.any (fun r => r.lo ≤ blk.hi && blk.lo ≤ r.hi)
        -- mathematical versions on the denotation
        let math := if a = "contains" then (probes M128 [[blk], c]).all (fun x => !(blk.lo ≤ x && x ≤ blk.hi) || memb c x)
                    else (probes M128 [[blk], c]).any (fun x => (blk.lo ≤ x && x ≤ blk.hi) && memb c x)
        { model := some (showBool spec),
          oracle := if impl = showBool math then none else some "block containment/intersection differs from the mathematical set" }
      | _, _ => badOp "args"
    else
    match parseBlocks a, parseBlocks b with
    | some a0, some b0 =>
      let M := famM fop
      let tag := famTag fop
      let a := fromIter M a0
      let b := fromIter M b0
      let pr := probes M [a0, b0]
      let subset (x y : List Blk) : Bool := (probes M [x, y]).all (fun p => !memb x p || memb y p)
      if op = "union" then
        { model := some (showChain tag (union M a b)), oracle := checkSet M tag impl [a0, b0] (fun x => memb a0 x || memb b0 x) }
      else if op = "inter" then
        { model := some (showChain tag (inter M a b)), oracle := checkSet M tag impl [a0, b0] (fun x => memb a0 x && memb b0 x) }
      else if op = "diff" then
        { model := some (showChain tag (difference a b)), oracle := checkSet M tag impl [a0, b0] (fun x => memb a0 x && !memb b0 x) }
      else if op = "contains" then
        { model := some (showBool (isEncompassed b a)),
          oracle := if impl = showBool (subset b0 a0) then none else some "contains differs from set inclusion" }
      else if op = "covered" then
        { model := some (showBool (isEncompassed b a)),
          oracle := if impl = showBool (subset b0 a0) then none else some "verify_covered differs from set inclusion" }
      else if op = "eq" then
        { model := some (showBool (chainEq a b)),
          oracle := if impl = showBool (pr.all (fun x => memb a0 x == memb b0 x)) then none else some "== differs from set equality" }
      else if op = "issued-refuse" then
        { model := some (if isEncompassed b a then s!"ok {showChain tag b}" else "err"),
          oracle := if subset b0 a0 then
                      (if impl.startsWith "ok " then checkSet M tag (impl.drop 3).toString [a0, b0] (memb b0) else some "covered claim refused")
                    else if impl = "err" then none else some "overclaiming certificate accepted under the refuse policy" }
      else if op = "issued-trim" then
        { model := some s!"ok {showChain tag (match trim M b a with | .ok () => b | .error r => r)}",
          oracle := if impl.startsWith "ok " then checkSet M tag (impl.drop 3).toString [a0, b0] (fun x => memb a0 x && memb b0 x)
                    else some "trim policy must not fail" }
      else if op = "issued-inherit" then
        { model := some s!"ok {showChain tag a}",
          oracle := if impl.startsWith "ok " then checkSet M tag (impl.drop 3).toString [a0] (memb a0) else some "inherit must yield the issuer's set" }
      else if op = "issued-missing" then
        { model := some "ok -", oracle := if impl = "ok -" then none else some "missing must yield the empty set" }
      else badOp "unknown op"
    | _, _ =>
      if fop = "to-prefixes" then
        match a.toNat?, b.toNat? with
        | some lo, some hi =>
          let W := if op = "4" then 32 else 128
          let (l, h) := if op = "4" then (lo / 2 ^ 96, hi / 2 ^ 96) else (lo, hi)
          let ps := toPrefixes W (2 * W + 2) l h
          let m := if ps.isEmpty then "-" else ",".intercalate (ps.map fun (a, n) => s!"{a}/{n}")
          -- oracle: aligned, consecutive from lo to hi
          let ip : Option (List (Nat × Nat)) := if impl = "-" then some [] else
            (impl.splitOn ",").mapM fun t => match t.splitOn "/" with
              | [a, n] => match a.toNat?, n.toNat? with | some a, some n => some (a, n) | _, _ => none
              | _ => none
          let o : Option String := match ip with
            | none => some "unparseable"
            | some l' =>
              let rec chk (cur : Nat) : List (Nat × Nat) → Option String
                | [] => if cur = h + 1 then none else some "prefixes do not end at the upper bound"
                | (a, n) :: rest =>
                  if n > W then some "prefix length out of range"
                  else if a ≠ cur then some "prefixes are not consecutive from the lower bound"
                  else if a % 2 ^ (W - n) ≠ 0 then some "prefix not aligned"
                  else if a + 2 ^ (W - n) - 1 > h then some "prefix exceeds the range"
                  else chk (a + 2 ^ (W - n)) rest
              if l ≤ h then chk l l' else (if l'.isEmpty then none else some "inverted range must give no prefixes")
          { model := some m, oracle := o }
        | _, _ => badOp "args"
      else badOp "blocks"
  | ["into-prefix", lo, hi] =>
    match lo.toNat?, hi.toNat? with
    | some lo, some hi =>
      let spec : Option Nat := (List.range 129).find? (fun n => lo % 2 ^ (128 - n) = 0 ∧ hi = lo + 2 ^ (128 - n) - 1)
      { model := some (showOpt toString (intoPrefix 128 lo hi)),
        oracle := if impl = showOpt toString spec then none else some s!"range is a prefix of length {spec}" }
    | _, _ => badOp "args"
  | _ => badOp "unknown op"

end Driver.C03
