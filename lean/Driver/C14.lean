import Driver.Common
import Driver.CertShow
import Rpki.Model.Manifest
import Rpki.Model.Sha
namespace Driver.C14
open Driver Rpki.Der Rpki.Manifest

def hexN (b : Bytes) : String := toHex (b.map UInt8.ofNat)
def parseHexN (s : String) : Option Bytes := (parseHex s).map (·.map UInt8.toNat)

def item (b : Bytes) : String := if b.isEmpty then "e" else hexN b
def joinItems (l : List Bytes) : String := if l.isEmpty then "-" else ";".intercalate (l.map item)

def parseItems (s : String) : Option (List Bytes) :=
  if s = "-" then some [] else
  (s.splitOn ";").mapM (fun x => if x = "e" then some [] else parseHexN x)

def pad (n w : Nat) : String :=
  let s := toString n
  String.ofList (List.replicate (w - s.length) '0') ++ s

def showCivil (c : Rpki.X509.Civil) : String :=
  pad c.y 4 ++ pad c.m 2 ++ pad c.d 2 ++ pad c.h 2 ++ pad c.mi 2 ++ pad c.s 2

/-- civil time of a unix timestamp (proleptic Gregorian; days-from-civil inverse) -/
def civilOf (ts : Int) : Option Rpki.X509.Civil :=
  let days := ts / 86400           -- Int division rounds toward zero for negatives: fix below
  let days := if ts % 86400 < 0 then days - 1 else days
  let secs := (ts - days * 86400).toNat
  let z := days + 719468
  let era := (if z ≥ 0 then z else z - 146096) / 146097
  let doe := (z - era * 146097).toNat
  let yoe := (doe - doe / 1460 + doe / 36524 - doe / 146096) / 365
  let y := (yoe : Int) + era * 400
  let doy := doe - (365 * yoe + yoe / 4 - yoe / 100)
  let mp := (5 * doy + 2) / 153
  let d := doy - (153 * mp + 2) / 5 + 1
  let m := if mp < 10 then mp + 3 else mp - 9
  let y := if m ≤ 2 then y + 1 else y
  if y < 0 ∨ y > 9999 then none
  else some ⟨y.toNat, m, d, secs / 3600, secs / 60 % 60, secs % 60⟩

/-- the property's own wording of a legal name: a non-dot prefix of letters, digits, `-`, `_`,
then one dot, then exactly three letters -/
def nameSpec (n : Bytes) : Bool :=
  let stem := n.takeWhile (· ≠ 46)
  let rest := n.drop stem.length
  stem.all (fun c => (48 ≤ c && c ≤ 57) || (65 ≤ c && c ≤ 90) || (97 ≤ c && c ≤ 122) || c == 45 || c == 95) &&
  match rest with
  | 46 :: ext => ext.length == 3 && ext.all (fun c => (65 ≤ c && c ≤ 90) || (97 ≤ c && c ≤ 122))
  | _ => false

def dirOf (base : Bytes) : Bytes := if base.getLast? = some 47 then base else base ++ [47]

def modelLine (content base : Bytes) : String :=
  match decodeContent content with
  | none => "err"
  | some m =>
    let head := s!"ok {m.len} {showCivil m.thisUpdate} {showCivil m.nextUpdate}"
    match m.iter with
    | none => s!"{head} panic panic panic"
    | some es =>
      let names := joinItems (es.map (·.name))
      let hashes := joinItems (es.map (·.hash))
      match Rpki.Uri.Rsync.fromBytes base with
      | .error _ => s!"{head} {names} {hashes} bad-base"
      | .ok b =>
        match iterUris m b with
        | none => s!"{head} {names} {hashes} panic"
        | some us => s!"{head} {names} {hashes} {joinItems (us.map (·.1.bytes))}"

/-- the property, evaluated on what the implementation reported -/
def oracle (base : Bytes) (impl : String) : Option String :=
  if impl = "err" then none
  else if impl = "panic" then some "decoding panicked"
  else match impl.splitOn " " with
  | ["ok", len, tu, nu, names, hashes, uris] =>
    if names = "panic" ∨ hashes = "panic" then some "iterating the file list of a decoded manifest panicked"
    else if uris = "panic" then some "resolving the file list against the base URI panicked"
    else match len.toNat?, parseItems names, parseItems uris with
    | some len, some ns, some us =>
      if ns.length ≠ len then some s!"len() = {len} but the iterator yields {ns.length} entries"
      else if tu > nu then some "thisUpdate after nextUpdate in a decoded manifest"
      else match ns.find? (fun n => !nameSpec n) with
      | some n => some s!"decoded manifest lists the name {item n} which is not an RFC 9286 file name"
      | none =>
        if us.length ≠ ns.length then some "iter_uris yields a different number of entries"
        else if (ns.zip us).all (fun (n, u) => u == dirOf base ++ n && !n.contains 47) then none
        else some "a resolved URI is not directly inside the base directory"
    | _, _, _ => some "unreadable result"
  | _ => some "unreadable result"

def handle (toks : List String) (impl : String) : Verdict :=
  match toks with
  | ["mft", c, b] =>
    match parseHexN c, parseHexN b with
    | some c, some b => { model := some (modelLine c b), oracle := oracle b impl }
    | _, _ => badOp "hex"
  | ["full", _, _, b] =>
    -- the CMS envelope is not modelled here: oracle only
    match parseHexN b with
    | some b => { oracle := oracle b impl }
    | _ => badOp "hex"
  | ["enc", num, this, next, files] =>
    match parseHexN num, this.toInt?, next.toInt? with
    | some num, some t, some n =>
      let entries : Option (List Entry) :=
        if files = "-" then some [] else
        (files.splitOn ";").mapM fun f => match f.splitOn ":" with
          | [a, b] => match parseHexN a, parseHexN b with | some a, some b => some ⟨a, b⟩ | _, _ => none
          | _ => none
      match entries, civilOf t, civilOf n with
      | some es, some tu, some nu =>
        let number := List.replicate (20 - num.length) 0 ++ num
        let enc := encodeContent number tu nu es
        -- the model encoder must reproduce the library's bytes, and the model decoder must read them back
        { model := some (hexN enc),
          oracle := match parseHexN impl with
            | none => some "unreadable"
            | some der => match decodeContent der with
              | none => some "the content written by ManifestContent::encode_ref is not accepted by the decoder"
              | some m =>
                if m.number ≠ number ∨ m.thisUpdate ≠ tu ∨ m.nextUpdate ≠ nu ∨ m.iter ≠ some es ∨ m.len ≠ es.length then
                  some "the decoded manifest content differs from the builder's inputs"
                else none }
      | _, _, _ => badOp "enc args"
    | _, _, _ => badOp "enc args"
  | ["hash", h, d] =>
    match parseHexN h, parseHexN d with
    | some h, some d =>
      let want := if hashVerify Rpki.Sha.sha256N h d then "ok" else "err"
      { model := some want,
        oracle := if impl = want then none else some s!"hash verification must say {want}" }
    | _, _ => badOp "hex"
  | ["cmsd", ty, h] =>
    match parseHexN h with
    | none => badOp "hex"
    | some b =>
      { model := some (Driver.CertShow.cmsLine ty b),
        oracle := if impl = "panic" then some "Manifest::decode or an accessor panicked" else none }
  | ["cmsdr", ty, h] =>
    match parseHexN h with
    | none => badOp "hex"
    | some b =>
      { model := some (Driver.CertShow.cmsLineM true ty b),
        oracle := if impl = "panic" then some "Manifest::decode(strict = false) or an accessor panicked" else none }
  | _ => badOp "unknown op"

end Driver.C14
