import Driver.Common
import Rpki.Model.Uri
namespace Driver.C12
open Driver Rpki.Uri

def hexN (b : Bytes) : String := toHex (b.map UInt8.ofNat)
def parseHexN (s : String) : Option Bytes := (parseHex s).map (·.map UInt8.toNat)

def showErr : Err → String
  | .invalidCharacters => "err chars" | .badUri => "err baduri" | .badScheme => "err scheme"
  | .dotSegments => "err dot" | .emptySegments => "err empty"

def showRsync (u : Rsync) : String :=
  s!"ok {u.moduleStart} {u.pathStart} {hexN u.authority} {hexN u.moduleName} {hexN u.path} {hexN u.canonicalModule}"

def showHttps (u : Https) : String := s!"ok {u.pathIdx} {hexN u.authority} {hexN u.path}"

def reparseR (v : Rsync) : String :=
  match Rsync.fromBytes v.bytes with
  | .ok v' => if v' = v then "same" else "differs"
  | .error _ => "invalid"

def reparseH (v : Https) : String :=
  match Https.fromBytes v.uri with
  | .ok v' => if v' = v then "same" else "differs"
  | .error _ => "invalid"

def stripSlash (p : Bytes) : Bytes := if endsWithSlash p then p.take (p.length - 1) else p

def field (impl : String) (i : Nat) : String := ((impl.splitOn " ")[i]?).getD ""

def handle (toks : List String) (impl : String) : Verdict :=
  match toks with
  | ["rsync", h] =>
    match parseHexN h with
    | some b =>
      let m := match Rsync.fromBytes b with | .ok u => showRsync u | .error e => showErr e
      -- oracle on the implementation's answer: accessors recompose to the text, characters and segments are legal
      let o : Option String :=
        if impl.startsWith "ok " then
          match parseHexN (field impl 3), parseHexN (field impl 4), parseHexN (field impl 5) with
          | some a, some md, some p =>
            if b.take 8 ++ a ++ [slash] ++ md ++ [slash] ++ p ≠ b then some "accessors do not recompose to the text"
            else if ¬ eqIgnoreCase (b.take 8) rsyncScheme then some "scheme"
            else if ¬ b.all isUriAscii then some "forbidden character accepted"
            else if a = [] ∨ md = [] ∨ a.contains slash ∨ md.contains slash then some "authority/module malformed"
            else
              let segs := split (b.drop 8)
              if (segs.dropLast.any (· = [])) ∨ segs.any (fun s => s = [dot] ∨ s = [dot, dot]) then some "empty or dot segment accepted"
              else
                -- the canonical module is the module URI itself up to the case of scheme and authority
                match parseHexN (field impl 6) with
                | some cm =>
                  let modUri := b.take 8 ++ a ++ [slash] ++ md ++ [slash]
                  if cm.length = modUri.length ∧ eqIgnoreCase (cm.take (8 + a.length)) (modUri.take (8 + a.length)) ∧
                     cm.drop (8 + a.length) = modUri.drop (8 + a.length) ∧ (cm.drop 8).take a.length = a.map toLower then none
                  else some "canonical_module is not the module with a lower-case authority"
                | none => some "unparseable"
          | _, _, _ => some "unparseable"
        else none
      { model := some m, oracle := o }
    | none => badOp "hex"
  | ["https", h] =>
    match parseHexN h with
    | some b =>
      let m := match Https.fromBytes b with | .ok u => showHttps u | .error e => showErr e
      let o : Option String :=
        if impl.startsWith "ok " then
          match parseHexN (field impl 2), parseHexN (field impl 3) with
          | some a, some p =>
            if b.take 8 ++ a ++ p ≠ b then some "accessors do not recompose to the text"
            else if ¬ eqIgnoreCase (b.take 8) httpsScheme then some "scheme"
            else if ¬ b.all isUriAscii then some "forbidden character accepted"
            else if a.contains slash ∨ (p ≠ [] ∧ p.head? ≠ some slash) then some "authority/path split wrong"
            else none
          | _, _ => some "unparseable"
        else none
      { model := some m, oracle := o }
    | none => badOp "hex"
  | ["rjoin", uh, ph] =>
    match (parseHexN uh).bind (fun b => (Rsync.fromBytes b).toOption), parseHexN ph with
    | some u, some p =>
      let m := match u.join p with
        | .ok v => s!"ok {hexN v.bytes} {reparseR v} {showBool (u.isParentOf v)}"
        | .error e => showErr e
      let o : Option String :=
        if impl.startsWith "ok " then
          if field impl 2 ≠ "same" then some "join result does not re-parse to an equal URI with the same parts"
          else if p ≠ [] ∧ field impl 3 ≠ "true" then some "join(base, p) is not beneath base"
          else none
        else none
      { model := some m, oracle := o }
    | _, _ => badOp "args"
  | ["rparent", uh] =>
    match (parseHexN uh).bind (fun b => (Rsync.fromBytes b).toOption) with
    | some u =>
      let m := match u.parent with
        | some v => s!"ok {hexN v.bytes} {reparseR v} {showBool (v.isParentOf u)}"
        | none => "none"
      let o : Option String :=
        if impl.startsWith "ok " then
          if field impl 2 ≠ "same" then some "parent does not re-parse to an equal URI"
          else if field impl 3 ≠ "true" then some "parent is not a parent of its child"
          else none
        else none
      { model := some m, oracle := o }
    | none => badOp "args"
  | ["rrel", uh, oh] =>
    match (parseHexN uh).bind (fun b => (Rsync.fromBytes b).toOption),
          (parseHexN oh).bind (fun b => (Rsync.fromBytes b).toOption) with
    | some u, some o =>
      let r := u.relativeTo o
      let rt : String := match r with
        | some p => if p = [] then "-" else
            (match o.join p with | .ok v => showBool (v.eq u && u.eq v) | .error _ => "false")
        | none => "-"
      let m := s!"{showOpt hexN r} {showBool (o.isParentOf u)} {rt}"
      -- oracle: empty path exactly for URIs equal up to one trailing slash; non-empty path joins back
      let su := stripSlash u.bytes; let so := stripSlash o.bytes
      let upToSlash : Bool :=
        su.length == so.length && eqIgnoreCase (su.take u.moduleStart) (so.take u.moduleStart)
          && su.drop u.moduleStart == so.drop u.moduleStart
      let implEmpty := field impl 0 = "+-"
      let orc : Option String :=
        if implEmpty ≠ upToSlash then some s!"relative_to reports the empty path but equal-up-to-slash is {upToSlash}"
        else if (field impl 0).startsWith "+" ∧ ¬ implEmpty ∧ field impl 2 ≠ "true" then some "joining the reported path does not give back the original"
        else if (field impl 1 = "true") ≠ ((field impl 0).startsWith "+" ∧ ¬ implEmpty) then some "is_parent_of disagrees with relative_to"
        else none
      { model := some m, oracle := orc }
    | _, _ => badOp "args"
  | ["req", uh, oh] =>
    match (parseHexN uh).bind (fun b => (Rsync.fromBytes b).toOption),
          (parseHexN oh).bind (fun b => (Rsync.fromBytes b).toOption) with
    | some u, some o =>
      let e1 := u.eq o; let e2 := o.eq u
      let m := s!"{showBool e1} {showBool e2} {showBool (u.hashKey == o.hashKey)}"
      -- spec: scheme and authority case-insensitively, everything else exactly
      let spec := eqIgnoreCase (u.bytes.take 8 ++ u.authority) (o.bytes.take 8 ++ o.authority)
        && u.moduleName == o.moduleName && u.path == o.path
      let orc : Option String :=
        if field impl 0 ≠ showBool spec then some s!"== should be {spec}"
        else if field impl 0 ≠ field impl 1 then some "== is not symmetric"
        else if spec ∧ field impl 2 ≠ "true" then some "equal URIs hash differently"
        else none
      { model := some m, oracle := orc }
    | _, _ => badOp "args"
  | ["rtriple", _, _, _] =>
    { oracle := if impl = "ok" then none else some s!"law violated on the implementation: {impl}" }
  | ["hjoin", uh, ph] =>
    match (parseHexN uh).bind (fun b => (Https.fromBytes b).toOption), parseHexN ph with
    | some u, some p =>
      let m := match u.join p with
        | .ok v => s!"ok {hexN v.uri} {reparseH v}"
        | .error e => showErr e
      let o : Option String :=
        if impl.startsWith "ok " ∧ field impl 2 ≠ "same" then some "join result does not re-parse to an equal URI with the same authority"
        else none
      { model := some m, oracle := o }
    | _, _ => badOp "args"
  | ["hdir", uh] =>
    match (parseHexN uh).bind (fun b => (Https.fromBytes b).toOption) with
    | some u =>
      let v := u.pathIntoDir
      let m := s!"ok {hexN v.uri} {reparseH v} {showBool u.pathIsDir} {showBool v.pathIsDir} {hexN u.canonicalAuthority}"
      let o : Option String :=
        if field impl 2 ≠ "same" then some "path_into_dir does not re-parse to an equal URI"
        else if field impl 4 ≠ "true" then some "the path after path_into_dir is not a directory path"
        else match parseHexN (field impl 1), parseHexN (field impl 5) with
          | some r, some ca =>
            if r ≠ u.uri ∧ r ≠ u.uri ++ [slash] then some "path_into_dir changed more than a trailing slash"
            else if ca.length ≠ u.authority.length ∨ ¬ eqIgnoreCase ca u.authority ∨ ca.any (fun c => 65 ≤ c ∧ c ≤ 90) then
              some "canonical_authority is not the authority in lower case"
            else none
          | _, _ => some "unparseable"
      { model := some m, oracle := o }
    | none => badOp "args"
  | ["racc", uh, xh] =>
    match (parseHexN uh).bind (fun b => (Rsync.fromBytes b).toOption), parseHexN xh with
    | some u, some x =>
      { model := some s!"ok {hexN u.canonicalAuthority} {showBool (endsWith u.path x)}",
        oracle := match parseHexN (field impl 1) with
          | some ca => if ca.length ≠ u.authority.length ∨ ¬ eqIgnoreCase ca u.authority ∨ ca.any (fun c => 65 ≤ c ∧ c ≤ 90) then
              some "canonical_authority is not the authority in lower case" else none
          | none => some "unparseable" }
    | _, _ => badOp "args"
  | ["hparent", uh] =>
    match (parseHexN uh).bind (fun b => (Https.fromBytes b).toOption) with
    | some u =>
      let m := match u.parent with
        | some v => s!"ok {hexN v.uri} {reparseH v}"
        | none => "none"
      let o : Option String :=
        if impl.startsWith "ok " ∧ field impl 2 ≠ "same" then some "parent does not re-parse to an equal URI"
        else none
      { model := some m, oracle := o }
    | none => badOp "args"
  | ["heq", uh, oh] =>
    match (parseHexN uh).bind (fun b => (Https.fromBytes b).toOption),
          (parseHexN oh).bind (fun b => (Https.fromBytes b).toOption) with
    | some u, some o =>
      let m := s!"{showBool (u.eq o)} {showBool (o.eq u)} {showBool (u.hashKey == o.hashKey)}"
      let spec := eqIgnoreCase (u.uri.take 8 ++ u.authority) (o.uri.take 8 ++ o.authority) && u.path == o.path
      let orc : Option String :=
        if field impl 0 ≠ showBool spec then some s!"== should be {spec}"
        else if field impl 0 ≠ field impl 1 then some "== is not symmetric"
        else if spec ∧ field impl 2 ≠ "true" then some "equal URIs hash differently"
        else none
      { model := some m, oracle := orc }
    | _, _ => badOp "args"
  | _ => badOp "unknown op"

end Driver.C12
