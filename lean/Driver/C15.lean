import Driver.Common
import Driver.C13
import Rpki.Model.Slurm
import Rpki.Model.JsonText
import Rpki.Model.JsonRead
import Rpki.Model.JsonPretty
namespace Driver.C15
open Driver Rpki.Slurm Rpki.Prefix

def hexN (b : Bytes) : String := toHex (b.map UInt8.ofNat)
def parseHexN (s : String) : Option Bytes := (parseHex s).map (·.map UInt8.toNat)

def keyName : Key → String
  | .slurmVersion => "slurmVersion" | .validationOutputFilters => "validationOutputFilters"
  | .locallyAddedAssertions => "locallyAddedAssertions" | .prefixFilters => "prefixFilters"
  | .bgpsecFilters => "bgpsecFilters" | .aspaFilters => "aspaFilters"
  | .prefixAssertions => "prefixAssertions" | .bgpsecAssertions => "bgpsecAssertions"
  | .aspaAssertions => "aspaAssertions" | .prefixK => "prefix" | .asn => "asn" | .comment => "comment"
  | .ski => "SKI" | .customerAsid => "customerAsid" | .maxPrefixLength => "maxPrefixLength"
  | .routerPublicKey => "routerPublicKey" | .customerAsn => "customerAsn" | .providerAsns => "providerAsns"
  | .other n => s!"x{n}"

def allKeys : List Key := [.slurmVersion, .validationOutputFilters, .locallyAddedAssertions, .prefixFilters,
  .bgpsecFilters, .aspaFilters, .prefixAssertions, .bgpsecAssertions, .aspaAssertions, .prefixK, .asn, .comment,
  .ski, .customerAsid, .maxPrefixLength, .routerPublicKey, .customerAsn, .providerAsns]

def parseKey (s : String) : Option Key :=
  match allKeys.find? (fun k => keyName k = s) with
  | some k => some k
  | none => if s.startsWith "x" then (s.drop 1).toNat?.map Key.other else none

def showPfxTok (p : Pfx) : String := s!"{if p.isV4 then "4" else "6"}/{if p.isV4 then p.bits / 2 ^ 96 else p.bits}/{p.len}"

partial def render : Json → String
  | .null => "n"
  | .num n => s!"N{n}"
  | .str s => s!"S{hexN s}"
  | .pfx p => s!"P{showPfxTok p}"
  | .bytes b => s!"B{hexN b}"
  | .bool b => if b then "T" else "F"
  | .arr l => "[" ++ ",".intercalate (l.map render) ++ "]"
  | .obj l => "{" ++ ",".intercalate (l.map fun (k, v) => keyName k ++ ":" ++ render v) ++ "}"

def isTokChar (c : Char) : Bool := c.isAlphanum || c = '/' || c = '-'

def takeTok (cs : List Char) : String × List Char :=
  (String.ofList (cs.takeWhile isTokChar), cs.dropWhile isTokChar)

mutual
partial def parseJson (cs : List Char) : Option (Json × List Char) :=
  match cs with
  | 'n' :: rest => some (.null, rest)
  | 'T' :: rest => some (.bool true, rest)
  | 'F' :: rest => some (.bool false, rest)
  | 'N' :: rest => let (t, r) := takeTok rest; t.toNat?.map fun n => (.num n, r)
  | 'S' :: rest => let (t, r) := takeTok rest; (parseHexN t).map fun b => (.str b, r)
  | 'B' :: rest => let (t, r) := takeTok rest; (parseHexN t).map fun b => (.bytes b, r)
  | 'P' :: rest => let (t, r) := takeTok rest; (Driver.C13.parsePfx t).map fun p => (.pfx p, r)
  | '[' :: ']' :: rest => some (.arr [], rest)
  | '[' :: rest => parseArr rest []
  | '{' :: '}' :: rest => some (.obj [], rest)
  | '{' :: rest => parseObj rest []
  | _ => none
partial def parseArr (cs : List Char) (acc : List Json) : Option (Json × List Char) :=
  match parseJson cs with
  | some (j, ',' :: rest) => parseArr rest (j :: acc)
  | some (j, ']' :: rest) => some (.arr (j :: acc).reverse, rest)
  | _ => none
partial def parseObj (cs : List Char) (acc : List (Key × Json)) : Option (Json × List Char) :=
  let (kt, r) := takeTok cs
  match parseKey kt, r with
  | some k, ':' :: r2 =>
    match parseJson r2 with
    | some (j, ',' :: rest) => parseObj rest ((k, j) :: acc)
    | some (j, '}' :: rest) => some (.obj ((k, j) :: acc).reverse, rest)
    | _ => none
  | _, _ => none
end

def parseTree (s : String) : Option Json :=
  match parseJson s.toList with
  | some (j, []) => some j
  | _ => none

def showPayload : Payload → String
  | .origin o => s!"O:{showPfxTok o.mlp.pfx}:{showOpt toString o.mlp.ml |>.replace "+" ""}:{o.asn}"
  | .routerKey k => s!"K:{hexN k.ski}:{k.asn}:{hexN k.info}"
  | .aspa a => s!"A:{a.customer}:{if a.providers.isEmpty then "-" else ",".intercalate (a.providers.map toString)}"

def parsePayload (s : String) : Option Payload :=
  match s.splitOn ":" with
  | ["O", p, ml, asn] =>
    match Driver.C13.parsePfx p, Driver.C13.parseMl ml, asn.toNat? with
    | some p, some ml, some a => some (.origin ⟨mlpSat p ml, a⟩)
    | _, _, _ => none
  | ["K", ski, asn, info] =>
    match parseHexN ski, asn.toNat?, parseHexN info with
    | some s, some a, some i => some (.routerKey ⟨s, a, i⟩)
    | _, _, _ => none
  | ["A", c, ps] =>
    match c.toNat?, Driver.C13.parseList ps with
    | some c, some ps => some (.aspa ⟨c, ps⟩)
    | _, _ => none
  | _ => none

/-- the statement's drop rule, written as an existence claim over the filter lists -/
def dropSpec (f : Filters) (p : Payload) : Bool :=
  match p with
  | .origin o =>
    f.pfs.any fun pf =>
      (pf.pfx.isSome || pf.asn.isSome) &&
      (match pf.pfx with | some q => (q.isV4 == o.mlp.pfx.isV4) && decide (q.lo ≤ o.mlp.pfx.lo) && decide (o.mlp.pfx.hi ≤ q.hi) | none => true) &&
      (match pf.asn with | some a => a == o.asn | none => true)
  | .routerKey k =>
    f.bgpsec.any fun bf =>
      (bf.ski.isSome || bf.asn.isSome) &&
      (match bf.ski with | some s => s == k.ski | none => true) &&
      (match bf.asn with | some a => a == k.asn | none => true)
  | .aspa a =>
    (f.aspa.getD []).any fun af => af.customer == some a.customer

def handle (toks : List String) (impl : String) : Verdict :=
  match toks with
  | ["json", t] =>
    match parseTree t with
    | some j =>
      match SlurmFile.fromJson j with
      | some f =>
        let out := render f.toJson
        -- oracle: whatever the implementation accepted must serialise to a tree that parses back to an equal file
        let o : Option String :=
          if impl.startsWith "ok " then
            match parseTree (impl.drop 3).toString with
            | some j' => match SlurmFile.fromJson j' with
              | some f' => if f' = f then none else some "serialised file parses back to a different file"
              | none => some "serialised file does not parse back"
            | none => some "unparseable result"
          else if impl.startsWith "roundtrip" ∨ impl.startsWith "pretty-roundtrip" then
            some "serialising the accepted file and parsing it back does not give an equal file"
          else none
        { model := some s!"ok {out}", oracle := o }
      | none => { model := some "err" }
    | none => badOp "tree"
  | ["jtext", t] =>
    match parseTree t with
    | some j =>
      match SlurmFile.fromJson j with
      | some f =>
        let text := Rpki.JsonText.fileText f
        -- oracle: the library's own text, read by the reference reader with typed leaves, is the file
        let o : Option String :=
          if impl.startsWith "ok " then
            match parseHexN (((impl.drop 3).toString.splitOn " ").headD "") with
            | some b => match Rpki.JsonText.readFile b with
              | some f' => if f' = f then none else some "the written text denotes a different file"
              | none => some "the written text is not read back as a file"
            | none => some "unparseable result"
          else none
        { model := some s!"ok {hexN text} {hexN (Rpki.JsonText.fileTextPretty f)}", oracle := o }
      | none => { model := some "err" }
    | none => badOp "tree"
  | ["jraw", hx] =>
    match parseHexN hx with
    | some b =>
      (match Rpki.JsonRead.readFile b with
       | some f =>
         let text := Rpki.JsonText.fileText f
         -- the statement on the implementation's own output: what it wrote must read back (reference reader) as
         -- the file the model read from the input
         let o : Option String :=
           if impl.startsWith "ok " then
             match parseHexN (impl.drop 3).toString with
             | some w => match Rpki.JsonText.readFile w with
               | some f' => if f' = f then none else some "the text written for the accepted file denotes a different file"
               | none => some "the text written for the accepted file is not read back as a file"
             | none => some "unparseable result"
           else none
         { model := some s!"ok {hexN text}", oracle := o }
       | none => { model := some "err" })
    | none => badOp "hex"
  | ["apiaspa", n] =>
    match n.toNat? with
    | some n =>
      -- the statement: a file the API builds serialises to a text that parses back to an equal file
      let want := if n ≤ Rpki.Consts.aspaMaxCount then "ok" else "build-err"
      { model := some want,
        oracle := if impl.startsWith "roundtrip" then some s!"a file built through the API with {n} ASPA providers does not come back from its own JSON text: {impl}"
                  else none }
    | none => badOp "n"
  | ["drop", ft, pt] =>
    match (parseTree ft).bind Filters.fromJson, parsePayload pt with
    | some f, some p =>
      { model := some (showBool (f.dropPayload p)),
        oracle := if impl = showBool (dropSpec f p) then none
                  else some s!"some filter of the item's kind matches: {dropSpec f p}" }
    | _, _ => badOp "args"
  | ["payloads", ast] =>
    match (parseTree ast).bind Assertions.fromJson with
    | some a =>
      let ps := a.payloads
      let m := if ps.isEmpty then "-" else ";".intercalate (ps.map showPayload)
      -- spec: one payload item per assertion, with exactly its fields, prefix - bgpsec - aspa
      let spec : List String :=
        a.pas.map (fun x => showPayload (.origin ⟨x.mlp, x.asn⟩)) ++
        a.bgpsec.map (fun x => showPayload (.routerKey ⟨x.ski, x.asn, x.key⟩)) ++
        (a.aspa.getD []).map (fun x => showPayload (.aspa ⟨x.customer, x.providers⟩))
      let specStr := if spec.isEmpty then "-" else ";".intercalate spec
      { model := some m,
        oracle := if impl = specStr then none else some "an assertion does not yield the payload item with exactly its fields" }
    | none => badOp "args"
  | ["new", ft, ast] =>
    match (parseTree ft).bind Filters.fromJson, (parseTree ast).bind Assertions.fromJson with
    | some f, some a => { model := some (toString (SlurmFile.new f a).version) }
    | _, _ => badOp "args"
  | _ => badOp "unknown op"

end Driver.C15
