import Driver.Common
import Driver.C16
import Driver.C13
import Driver.C12
import Driver.C17
import Driver.C15
import Driver.C07
import Driver.C08
import Driver.C06
import Driver.C03
import Driver.C14
import Driver.C01
import Driver.C02
import Driver.C10
import Driver.C09
import Driver.C04
import Driver.C11
import Driver.C05
open Driver

def dispatch (id : String) (toks : List String) (impl : String) : Verdict :=
  match id with
  | "C16" => Driver.C16.handle toks impl
  | "C13" => Driver.C13.handle toks impl
  | "C12" => Driver.C12.handle toks impl
  | "C17" => Driver.C17.handle toks impl
  | "C15" => Driver.C15.handle toks impl
  | "C07" => Driver.C07.handle toks impl
  | "C08" => Driver.C08.handle toks impl
  | "C06" => Driver.C06.handle toks impl
  | "C03" => Driver.C03.handle toks impl
  | "C14" => Driver.C14.handle toks impl
  | "C01" => Driver.C01.handle toks impl
  | "C02" => Driver.C02.handle toks impl
  | "C10" => Driver.C10.handle toks impl
  | "C09" => Driver.C09.handle toks impl
  | "C04" => Driver.C04.handle toks impl
  | "C11" => Driver.C11.handle toks impl
  | "C05" => Driver.C05.handle toks impl
  | _ => badOp "unknown property"

/-- Split `line` at the first occurrence of " => ". -/
def splitArrow (line : String) : Option (String × String) :=
  match line.splitOn " => " with
  | [] => none
  | [_] => none
  | a :: rest => some (a, " => ".intercalate rest)

partial def loop (h : IO.FS.Stream) (n m o e : Nat) : IO (Nat × Nat × Nat × Nat) := do
  let line ← h.getLine
  if line.isEmpty then return (n, m, o, e)
  let line := (line.dropEndWhile (fun c => c = '\n' || c = '\r')).toString
  if line.isEmpty then loop h n m o e else
  match splitArrow line with
  | none =>
    IO.println s!"E\t{line}\tno-arrow"
    loop h (n+1) m o (e+1)
  | some (op, impl) =>
    match op.splitOn " " with
    | id :: toks =>
      let v := dispatch id toks impl
      let mut m := m; let mut o := o; let mut e := e
      if let some why := v.bad then
        IO.println s!"E\t{line}\t{why}"
        e := e + 1
      if let some mr := v.model then
        if mr != impl then
          IO.println s!"M\t{line}\tmodel={mr}"
          m := m + 1
      if let some mr := v.mismatch then
        IO.println s!"M\t{line}\tmodel={mr}"
        m := m + 1
      if let some why := v.oracle then
        IO.println s!"O\t{line}\t{why}"
        o := o + 1
      loop h (n+1) m o e
    | [] =>
      IO.println s!"E\t{line}\tempty"
      loop h (n+1) m o (e+1)

def main : IO UInt32 := do
  let stdin ← IO.getStdin
  let (n, m, o, e) ← loop stdin 0 0 0 0
  IO.println s!"STATS lines={n} M={m} O={o} E={e}"
  return 0
