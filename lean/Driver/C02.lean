import Driver.Common
import Driver.C03
import Driver.C01
import Rpki.Model.SigObj
import Rpki.Model.Sha
import Rpki.Model.Manifest
import Rpki.Model.Roa
import Rpki.Gen.Consts
import Rpki.Model.CmsDer
import Rpki.Gen.BerModel
import Driver.CertShow
namespace Driver.C02
open Driver Rpki.Chain Rpki.Cert Rpki.SigObj

def hexB (s : String) : Option (List Nat) := (parseHex s).map (·.map UInt8.toNat)

structure ObjRaw where
  dec : Bool
  obj : Obj
  extra : String

def parseObj (s : String) (ee : Facts) : Option ObjRaw :=
  match s.splitOn ":" with
  | dec :: ct :: content :: attrs :: sid :: sigkey :: siginput :: rest =>
    match hexB ct, hexB content, hexB attrs, hexB sid, hexB siginput with
    | some ct, some content, some attrs, some sid, some siginput =>
      some { dec := dec = "1", extra := ":".intercalate rest,
             obj := { attrs := attrs, contentType := ct, content := content, sid := sid,
                      sigKeyOk := sigkey = "1", sigInput := siginput, ee := ee } }
    | _, _, _, _, _ => none
  | _ => none

def parseRanges (s : String) : Option (List RoaAddr) :=
  (Driver.C03.parseBlocks s).map (·.map fun b => ⟨b.lo, b.hi⟩)

def digest := Rpki.Sha.sha256N

def modelLine (ty : String) (now : Int) (crlOk : Bool) (o : ObjRaw) (issuer : RC) (eeDec : Bool) : String :=
  if !o.dec ∨ !eeDec then "err" else
  let ok : Bool :=
    if ty = "so" then (validateAt digest o.obj issuer now).isSome
    else if ty = "mft" then
      (Rpki.Manifest.decodeContent o.obj.content).isSome && (validateAt digest o.obj issuer now).isSome
    else if ty = "sop" then (validateAt digest o.obj issuer now).isSome && crlOk
    else if ty = "roa" then
      -- the address ranges come from the model's own reading of the eContent, not from the generator's facts
      match Rpki.CmsDer.roaRanges o.obj.content with
      | some (r4, r6) => roaProcess digest o.obj r4 r6 issuer now crlOk
      | none => false
    else if ty = "aspa" then
      match Rpki.Roa.decodeAspa Rpki.Consts.aspaObjMaxLen o.obj.content with
      | some a => aspaProcess digest o.obj a.customer issuer now crlOk
      | none => false
    else false
  if ok then "ok" else "err"

/-- the property, stated on the ground-truth facts (no model functions except SHA-256 and the DER
length rule, both written independently here) -/
def derSetOf (attrs : List Nat) : List Nat := Rpki.Der.tlv 0x31 attrs

def memBlocks (bs : List Blk) (x : Nat) : Bool := bs.any fun b => b.lo ≤ x && x ≤ b.hi

/-- ROA prefixes inside the EE certificate's validated IP resources; ASPA customer inside its AS
resources, with no IP resources and no inheritance -/
def coverage (ty : String) (o : ObjRaw) (raws : List Driver.C01.Raw) : Option String :=
  let chain := raws.reverse
  let inside (M : Nat) (sel : Driver.C01.Raw → Driver.C01.RawRes) (r : RoaAddr) : Bool :=
    let eff := Driver.C01.effective sel chain
    let pts := (Driver.C03.probes M [Driver.C01.allBlocks sel chain]).filter (fun x => r.lo ≤ x && x ≤ r.hi)
    (r.lo :: r.hi :: pts).all eff
  if ty = "roa" then
    match o.extra.splitOn ";" with
    | [_, r4, r6] =>
      match parseRanges r4, parseRanges r6 with
      | some r4, some r6 =>
        if r4.any (fun r => !inside maxV4 (·.r4) r) then some "ROA accepted although an IPv4 prefix lies outside the EE certificate's validated resources"
        else if r6.any (fun r => !inside maxV6 (·.r6) r) then some "ROA accepted although an IPv6 prefix lies outside the EE certificate's validated resources"
        else none
      | _, _ => some "unreadable ROA facts"
    | _ => some "unreadable ROA facts"
  else if ty = "aspa" then
    match o.extra.toNat?, raws.getLast? with
    | some c, some ee =>
      if !Driver.C01.effective (·.ra) chain c then some "ASPA accepted although the customer AS is outside the EE certificate's AS resources"
      else match ee.r4, ee.r6, ee.ra with
        | .missing, .missing, .blocks _ => none
        | _, _, .inherit => some "ASPA accepted with inherited AS resources"
        | _, _, _ => some "ASPA accepted although the EE certificate carries IP resources"
    | _, _ => some "unreadable ASPA facts"
  else none

def oracle (ty : String) (now : Int) (crlOk : Bool) (o : ObjRaw) (raws : List Driver.C01.Raw) (impl : String) :
    Option String :=
  if impl = "panic" then some "validation panicked"
  else if impl = "ok EE=refused" then
    some "accepted although the embedded EE certificate does not validate as an EE certificate under the same issuer (Cert::validate_ee_at refuses it)"
  else if impl ≠ "ok" then none
  else if ty = "roa" ∧ (Rpki.Roa.decodeContent o.obj.content).isNone then
    some "ROA accepted although its eContent is not a well-formed RouteOriginAttestation (version, families, lengths and maxLength within the family)"
  else if ty = "aspa" ∧ (Rpki.Roa.decodeAspa Rpki.Consts.aspaObjMaxLen o.obj.content).isNone then
    some "ASPA accepted although its eContent is not a well-formed ASProviderAttestation (version 1, providers ascending, distinct, without the customer)"
  else
    let ee := o.obj.ee
    -- digest attribute
    match parseAttrs true o.obj.attrs with
    | none => some "accepted although the signed attributes are not exactly one content-type, message-digest and signing-time"
    | some (ct, md, _) =>
      if ct ≠ o.obj.contentType then some "accepted although the content-type attribute differs from eContentType"
      else if md ≠ digest o.obj.content then some "accepted although the message-digest attribute is not the SHA-256 of the content"
      else if !o.obj.sigKeyOk then some "accepted although the signature was not made with the EE certificate's key"
      else if o.obj.sigInput ≠ derSetOf o.obj.attrs then some "accepted although the signature is not over the DER SET OF encoding of the signed attributes"
      else if o.obj.sid ≠ ee.ski then some "accepted although the signer identifier differs from the EE certificate's subject key identifier"
      else if !crlOk ∧ ty ≠ "so" ∧ ty ≠ "mft" then some "accepted although the CRL callback rejected the EE certificate"
      else
        -- the EE certificate must validate under the issuer (C01 oracle on the chain + EE)
        match Driver.C01.oracle now "ee" raws "ok - - -" with
        | some why => if why.startsWith "IPv" ∨ why.startsWith "AS " then coverage ty o raws else some s!"EE certificate: {why}"
        | none => coverage ty o raws

/-- acceptance side: an object from the independent encoder that meets every condition must be accepted -/
def mustAccept (ty : String) (now : Int) (crlOk : Bool) (o : ObjRaw) (issuer : RC) (eeDec : Bool) : Bool :=
  o.dec && eeDec && o.obj.sigInput == derSetOf o.obj.attrs && modelLine ty now crlOk
    { o with obj := { o.obj with sigInput := (encodeVerify o.obj.attrs).getD [] } } issuer eeDec == "ok"

def handle (toks : List String) (impl : String) : Verdict :=
  match toks with
  | ["cmsd", ty, h] =>
    match hexB h with
    | none => badOp "hex"
    | some b =>
      { model := some (Driver.CertShow.cmsLine ty b),
        oracle := if impl = "panic" then some "SignedObject / Roa / Aspa / Manifest ::decode or an accessor panicked" else none }
  | ty0 :: now :: crl :: objf :: rest =>
    -- `sor` / `roar`: the same objects decoded in relaxed (BER) mode, the content possibly in several segments
    let ty := if ty0 = "sor" then "so" else if ty0 = "roar" then "roa" else ty0
    let factToks := rest.takeWhile (· ≠ "|")
    match Driver.C01.parseInt now, factToks.mapM (Driver.C01.parseFacts false) with
    | some now, some raws =>
      match raws.getLast?, Driver.C01.issuerChain raws.dropLast with
      | some eeRaw, some issuer =>
        match parseObj objf eeRaw.facts with
        | none => badOp "objfacts"
        | some o =>
          let crlOk := crl = "1"
          -- strict (DER) operations: the model reads the whole object from its octets (`CmsDer.decodeSigObj`:
          -- envelope, embedded certificate, signed attributes); what stays an input are the two verdicts of the
          -- signature primitive and the octets the signature was made over
          let objHex := ((rest.dropWhile (· ≠ "|")).drop 1).getLast?
          let strictOp := ty0 ≠ "sor" ∧ ty0 ≠ "roar"
          let m :=
            if strictOp then
              match objHex.bind hexB with
              | none => "bad-op"
              | some ob =>
                match Rpki.CmsDer.decodeSigObj ob with
                | none => "err"
                | some d =>
                  let ob' := Rpki.CmsDer.toObj d o.obj.sigKeyOk o.obj.sigInput eeRaw.facts.sigOk
                  modelLine ty now crlOk { o with dec := true, obj := ob' } issuer true
            else
              -- relaxed (BER) operations: the mode-parametrized model at ber = true reads the object; the relaxed
              -- validation inspects the EE certificate's names in the relaxed way
              match objHex.bind hexB with
              | none => "bad-op"
              | some ob =>
                match Rpki.CmsDer.decodeSigObjM true ob with
                | none => "err"
                | some d =>
                  let ob' : Obj := { attrs := d.attrs, contentType := d.contentType, content := d.content, sid := d.sid,
                                     sigKeyOk := o.obj.sigKeyOk, sigInput := o.obj.sigInput,
                                     ee := Rpki.CertDer.toFactsM true d.cert false false eeRaw.facts.sigOk }
                  modelLine ty now crlOk { o with dec := true, obj := ob' } issuer true
          let orc := oracle ty now crlOk o raws impl
          let orc := match orc with
            | some w => some w
            | none =>
              if impl = "err" ∧ mustAccept ty now crlOk o issuer eeRaw.dec then
                some "an object that meets every condition (digest, signature over the DER SET OF, signer id, valid EE certificate, coverage) was rejected"
              else none
          { model := some m, oracle := orc }
      | _, _ => badOp "issuer chain invalid on the model"
    | _, _ => badOp "facts"
  | _ => badOp "unknown op"

end Driver.C02
