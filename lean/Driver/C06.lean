import Driver.Common
import Rpki.Model.RtrSession
namespace Driver.C06
open Driver Rpki.RtrSession

def parseItem (s : String) : Option Item :=
  let k := (s.take 1).toString
  let r := (s.drop 1).toString
  if k = "o" then r.toNat?.map .origin
  else if k = "k" then r.toNat?.map .key
  else if k = "a" then
    match r.splitOn "." with
    | [c, p] => match c.toNat?, p.toNat? with | some c, some p => some (.aspa c p) | _, _ => none
    | _ => none
  else none

def showItem (w : Bool) : Item → String
  | .origin i => s!"o{i}" | .key i => s!"k{i}"
  | .aspa c p => if w then s!"a{c}" else s!"a{c}.{p}"

/-- canonical order of the harness' sets: origins, keys, aspas, each ascending -/
def itemKey : Item → Nat × Nat × Nat
  | .origin i => (0, i, 0) | .key i => (1, i, 0) | .aspa c p => (2, c, p)

def lexLt (a b : Nat × Nat × Nat) : Bool :=
  a.1 < b.1 || (a.1 == b.1 && (a.2.1 < b.2.1 || (a.2.1 == b.2.1 && a.2.2 < b.2.2)))

def insertSorted (x : Item) : List Item → List Item
  | [] => [x]
  | y :: ys => if x == y then y :: ys else if lexLt (itemKey x) (itemKey y) then x :: y :: ys else y :: insertSorted x ys

def sortSet (l : List Item) : List Item := l.foldl (fun acc x => insertSorted x acc) []

structure Sim where
  src : Src
  client : Client
  stepped : Bool
  queued : Nat       -- Serial Notify PDUs waiting in the client's inbox
  newSession : Nat
  failed : Bool
  /-- the source publishes its next version right after handing out a snapshot or a diff -/
  race : Bool := false

def showUpd (u : Update) : String :=
  if u.isEmpty then "-" else ",".intercalate (u.map fun (a, x) =>
    match a with | .announce => "+" ++ showItem false x | .withdraw => "-" ++ showItem true x)

def simEvent (cap : Nat) (s : Sim) (e : String) : Sim × Option String :=
  if s.failed then (s, none) else
  if e = "s" then
    -- the client first waits for a Serial Notify (or its refresh timer) unless this is its first step
    let q := if s.stepped then s.queued - 1 else s.queued
    if q > 0 then ({ s with failed := true }, some "fail") else
    match clientStep s.client cap s.src with
    | .fail => ({ s with failed := true }, some "fail")
    | .ok c' reset upd =>
      let st := match c'.state with | some (a, b) => s!"{a}.{b}" | none => "-"
      -- a racing source has moved on by one version (origin 11 toggled) once the data was handed out; the client
      -- holds what it was given, named by the End of Data
      let src' := if s.race then
          s.src.update true (if s.src.cur.contains (.origin 11) then s.src.cur.filter (· != .origin 11)
                             else sortSet (.origin 11 :: s.src.cur))
        else s.src
      ({ s with client := c', stepped := true, queued := 0, src := src' },
       some s!"ok:r{if reset then 1 else 0}:{st}:{c'.refresh}:{showUpd upd}:good")
  else if e = "n" then ({ s with queued := s.queued + 1 }, none)
  else if e.startsWith "t" then
    match (e.drop 1).toString.toNat? with
    | some n => ({ s with src := { s.src with refresh := n } }, none)
    | none => ({ s with failed := true }, some "bad-op")
  else if e = "r1" then ({ s with race := true }, none)
  else if e = "r0" then ({ s with race := false }, none)
  else if e = "ns" then ({ s with src := s.src.newSession s.newSession, newSession := s.newSession + 1 }, none)
  else if e.startsWith "u" then
    let keep := (e.drop 1).take 1 == "1"
    let items := (e.drop 3).toString
    let set := if items = "-" then some [] else (items.splitOn ",").mapM parseItem
    match set with
    | some set => ({ s with src := s.src.update keep (sortSet set) }, none)
    | none => ({ s with failed := true }, some "bad-op")
  else ({ s with failed := true }, some "bad-op")

def handle (toks : List String) (impl : String) : Verdict :=
  match toks with
  | "case" :: init :: cap :: state0 :: evs =>
    match init.toNat? with
    | some init =>
      let capN : Nat := if cap = "-" then 255 else cap.toNat?.getD 255
      let session0 := 7; let serial0 := 4294967294
      let src : Src := ⟨session0, serial0, [.origin 0, .key 0, .aspa 0 1], [], 1800⟩
      let st0 : Option (Nat × Nat) :=
        if state0 = "none" then none else if state0 = "cur" then some (session0, serial0)
        else if state0 = "stale" then some (session0, 12345) else some (99, serial0)
      let client : Client := ⟨st0, none, min init Rpki.Consts.rtrMaxVersion, 3600⟩
      let (_, outs) := evs.foldl (fun (acc : Sim × List String) e =>
        let (s', o) := simEvent capN acc.1 e
        (s', match o with | some x => acc.2 ++ [x] | none => acc.2)) (⟨src, client, false, 0, 8, false, false⟩, [])
      let m := if outs.isEmpty then "-" else " ".intercalate outs
      { model := some m,
        oracle := if (impl.splitOn "BAD").length > 1 then
            some s!"after a completed step the client does not hold the server's data/state/timing: {impl}"
          else none }
    | none => badOp "args"
  | _ => badOp "unknown op"

end Driver.C06
