import Driver.Common
import Driver.CertShow
namespace Driver.C04
open Driver

/-- allowed peak heap for an input of `len` octets -/
def allowance (len : Nat) : Nat := 64 * len + 1048576

def handle (toks : List String) (impl : String) : Verdict :=
  match toks with
  | ["dec", entry, h] =>
    let len := if h = "-" then 0 else h.length / 2
    { oracle :=
        if impl = "panic@decode" then some s!"decoding entry point {entry} panicked"
        else if impl = "panic@access" then some s!"an accessor of a value decoded by {entry} panicked"
        else if impl = "panic@reencode" then some s!"re-encoding a value decoded by {entry} panicked"
        else if impl = "panic" then some "panicked"
        else if impl = "hang" then some s!"decoding entry point {entry} did not return"
        else if impl = "skipped-after-hangs" then none
        else match impl.splitOn " " with
          | [v, peak] =>
            match peak.toNat? with
            | some p =>
              if v ≠ "ok" ∧ v ≠ "err" then some "unreadable result"
              else if p > allowance len then some s!"peak heap {p} octets for an input of {len} octets (allowance {allowance len})"
              else none
            | none => some "unreadable result"
          | _ => some "unreadable result" }
  | ["certd", h] =>
    -- the Lean certificate decoder on the same octets: accept/reject, every field, the ten inspections
    match (parseHex h).map (·.map UInt8.toNat) with
    | none => badOp "hex"
    | some b =>
      { model := some (Driver.CertShow.certLine b),
        oracle := if impl = "panic" then some "Cert::decode or an accessor of the decoded certificate panicked" else none }
  | ["cmsd", ty, h] =>
    match (parseHex h).map (·.map UInt8.toNat) with
    | none => badOp "hex"
    | some b =>
      { model := some (Driver.CertShow.cmsLine ty b),
        oracle := if impl = "panic" then some "SignedObject / Roa / Aspa / Manifest ::decode or an accessor panicked" else none }
  | ["crld", h] =>
    match (parseHex h).map (·.map UInt8.toNat) with
    | none => badOp "hex"
    | some b =>
      { model := some (Driver.CertShow.crlLine b),
        oracle := if impl = "panic" then some "Crl::decode or an accessor of the decoded CRL panicked" else none }
  | ["idcd", h] =>
    match (parseHex h).map (·.map UInt8.toNat) with
    | none => badOp "hex"
    | some b =>
      { model := some (Driver.CertShow.idcLine b),
        oracle := if impl = "panic" then some "IdCert::decode or an accessor panicked" else none }
  | ["smsgd", h] =>
    match (parseHex h).map (·.map UInt8.toNat) with
    | none => badOp "hex"
    | some b =>
      { model := some (Driver.CertShow.smsgLine b),
        oracle := if impl = "panic" then some "SignedMessage::decode or an accessor panicked" else none }
  | ["cmsdr", ty, h] =>
    -- the `strict = false` entry points decode in BER mode: the mode-parametrized model at ber = true
    match (parseHex h).map (·.map UInt8.toNat) with
    | none => badOp "hex"
    | some b =>
      { model := some (Driver.CertShow.cmsLineM true ty b),
        oracle := if impl = "panic" then some "SignedObject / Roa / Aspa / Manifest ::decode(strict = false) or an accessor panicked" else none }
  | ["smsgdr", h] =>
    match (parseHex h).map (·.map UInt8.toNat) with
    | none => badOp "hex"
    | some b =>
      { model := some (Driver.CertShow.smsgLineM true b),
        oracle := if impl = "panic" then some "SignedMessage::decode(strict = false) or an accessor panicked" else none }
  | ["csrd", ty, h] =>
    match (parseHex h).map (·.map UInt8.toNat) with
    | none => badOp "hex"
    | some b =>
      { model := some (Driver.CertShow.csrLine ty b),
        oracle := if impl = "panic" then some "Csr::decode or an accessor panicked" else none }
  | ["rtad", h] =>
    match (parseHex h).map (·.map UInt8.toNat) with
    | none => badOp "hex"
    | some b =>
      { model := some (Driver.CertShow.rtaLine b),
        oracle := if impl = "panic" then some "Rta::decode or an accessor panicked" else none }
  | ["tald", h] =>
    match (parseHex h).map (·.map UInt8.toNat) with
    | none => badOp "hex"
    | some b =>
      { model := some (Driver.CertShow.talLine b),
        oracle := if impl = "panic" then some "Tal::read_named or an accessor panicked" else none }
  | ["keyd", h] =>
    match (parseHex h).map (·.map UInt8.toNat) with
    | none => badOp "hex"
    | some b =>
      { model := some (Driver.CertShow.keyLine b),
        oracle := if impl = "panic" then some "PublicKey::decode or an accessor panicked" else none }
  | _ => badOp "unknown op"

end Driver.C04
