import Driver.Common
import Driver.CertShow
namespace Driver.C04
open Driver

/-- allowed peak heap for an input of `len` octets -/
def allowance (len : Nat) : Nat := 64 * len + 1048576

/-- accept / reject of the entry point `entry` according to the octet-level decoder models -/
def decModel (entry : String) (b : List Nat) : Option Bool :=
  if entry = "cert" then some (Rpki.CertDer.decodeCert b).isSome
  else if entry = "crl" then some (Rpki.CrlDer.decodeCrl b).isSome
  else if entry = "mft" ∨ entry = "roa" ∨ entry = "aspa" then some (Rpki.CmsDer.decodeTyped entry b).isSome
  else if entry = "so" then some (Rpki.CmsDer.decodeSigObj b).isSome
  else if entry = "mftr" then some (Rpki.CmsDer.decodeTypedM true "mft" b).isSome
  else if entry = "roar" then some (Rpki.CmsDer.decodeTypedM true "roa" b).isSome
  else if entry = "aspar" then some (Rpki.CmsDer.decodeTypedM true "aspa" b).isSome
  else if entry = "sor" then some (Rpki.CmsDer.decodeSigObjM true b).isSome
  else if entry = "rta" ∨ entry = "rtar" then some (Rpki.RtaDer.decodeRta b).isSome
  else if entry = "tal" then some (Rpki.Tal.decodeTal b).isSome
  else if entry = "key" then some (Rpki.Tal.decodeKey b).isSome
  else if entry = "csr" then some (Rpki.CsrDer.decodeCsr false b).isSome
  else if entry = "bcsr" then some (Rpki.CsrDer.decodeCsr true b).isSome
  else if entry = "idcert" then some (Rpki.SigMsgDer.decodeIdCert b).isSome
  else if entry = "sigmsg" then some (Rpki.SigMsgDer.decodeSigMsg b).isSome
  else if entry = "sigmsgr" then some (Rpki.SigMsgDer.decodeSigMsgM true b).isSome
  else none

def handle (toks : List String) (impl : String) : Verdict :=
  match toks with
  | ["dec", entry, h] =>
    let len := if h = "-" then 0 else h.length / 2
    -- every `dec` case is also put to the decoder model of its entry point: accept / reject must agree
    let implAccept : Option Bool :=
      if impl.startsWith "ok " ∨ impl = "panic@access" ∨ impl = "panic@reencode" then some true
      else if impl.startsWith "err " then some false else none
    let modelAccept : Option Bool := match (parseHex h).map (·.map UInt8.toNat) with
      | some b => decModel entry b | none => none
    { mismatch := match implAccept, modelAccept with
        | some a, some m => if a = m then none else some s!"the decoder model of {entry} says {if m then "accept" else "reject"}"
        | _, _ => none,
      oracle :=
        if impl = "panic@decode" then some s!"decoding entry point {entry} panicked"
        else if impl = "panic@access" then some s!"an accessor of a value decoded by {entry} panicked"
        else if impl = "panic@reencode" then some s!"re-encoding a value decoded by {entry} panicked"
        else if impl = "panic" then some "panicked"
        else if impl = "hang" then some s!"decoding entry point {entry} did not return"
        else if impl = "skipped-after-hangs" then none
        else match impl.splitOn " " with
          | [v, peak] =>
            match peak.toNat? with
            | some p =>
              if v ≠ "ok" ∧ v ≠ "err" then some "unreadable result"
              else if p > allowance len then some s!"peak heap {p} octets for an input of {len} octets (allowance {allowance len})"
              else none
            | none => some "unreadable result"
          | _ => some "unreadable result" }
  | ["certd", h] =>
    -- the Lean certificate decoder on the same octets: accept/reject, every field, the ten inspections
    match (parseHex h).map (·.map UInt8.toNat) with
    | none => badOp "hex"
    | some b =>
      { model := some (Driver.CertShow.certLine b),
        oracle := if impl = "panic" then some "Cert::decode or an accessor of the decoded certificate panicked" else none }
  | ["cmsd", ty, h] =>
    match (parseHex h).map (·.map UInt8.toNat) with
    | none => badOp "hex"
    | some b =>
      { model := some (Driver.CertShow.cmsLine ty b),
        oracle := if impl = "panic" then some "SignedObject / Roa / Aspa / Manifest ::decode or an accessor panicked" else none }
  | ["crld", h] =>
    match (parseHex h).map (·.map UInt8.toNat) with
    | none => badOp "hex"
    | some b =>
      { model := some (Driver.CertShow.crlLine b),
        oracle := if impl = "panic" then some "Crl::decode or an accessor of the decoded CRL panicked" else none }
  | ["idcd", h] =>
    match (parseHex h).map (·.map UInt8.toNat) with
    | none => badOp "hex"
    | some b =>
      { model := some (Driver.CertShow.idcLine b),
        oracle := if impl = "panic" then some "IdCert::decode or an accessor panicked" else none }
  | ["smsgd", h] =>
    match (parseHex h).map (·.map UInt8.toNat) with
    | none => badOp "hex"
    | some b =>
      { model := some (Driver.CertShow.smsgLine b),
        oracle := if impl = "panic" then some "SignedMessage::decode or an accessor panicked" else none }
  | ["cmsdr", ty, h] =>
    -- the `strict = false` entry points decode in BER mode: the mode-parametrized model at ber = true
    match (parseHex h).map (·.map UInt8.toNat) with
    | none => badOp "hex"
    | some b =>
      { model := some (Driver.CertShow.cmsLineM true ty b),
        oracle := if impl = "panic" then some "SignedObject / Roa / Aspa / Manifest ::decode(strict = false) or an accessor panicked" else none }
  | ["smsgdr", h] =>
    match (parseHex h).map (·.map UInt8.toNat) with
    | none => badOp "hex"
    | some b =>
      { model := some (Driver.CertShow.smsgLineM true b),
        oracle := if impl = "panic" then some "SignedMessage::decode(strict = false) or an accessor panicked" else none }
  | ["csrd", ty, h] =>
    match (parseHex h).map (·.map UInt8.toNat) with
    | none => badOp "hex"
    | some b =>
      { model := some (Driver.CertShow.csrLine ty b),
        oracle := if impl = "panic" then some "Csr::decode or an accessor panicked" else none }
  | ["rtad", h] =>
    match (parseHex h).map (·.map UInt8.toNat) with
    | none => badOp "hex"
    | some b =>
      { model := some (Driver.CertShow.rtaLine b),
        oracle := if impl = "panic" then some "Rta::decode or an accessor panicked" else none }
  | ["tald", h] =>
    match (parseHex h).map (·.map UInt8.toNat) with
    | none => badOp "hex"
    | some b =>
      { model := some (Driver.CertShow.talLine b),
        oracle := if impl = "panic" then some "Tal::read_named or an accessor panicked" else none }
  | ["keyd", h] =>
    match (parseHex h).map (·.map UInt8.toNat) with
    | none => badOp "hex"
    | some b =>
      { model := some (Driver.CertShow.keyLine b),
        oracle := if impl = "panic" then some "PublicKey::decode or an accessor panicked" else none }
  | _ => badOp "unknown op"

end Driver.C04
