import Driver.Common
import Driver.C03
import Rpki.Model.Cert
import Rpki.Model.CertDer
import Driver.CertShow
namespace Driver.C01
open Driver Rpki.Chain Rpki.Cert

def T0 : Int := 1750000000

def parseInt (s : String) : Option Int :=
  if s.startsWith "-" then (s.drop 1).toNat?.map (fun n => - (n : Int)) else s.toNat?.map (fun n => (n : Int))

inductive RawRes | missing | inherit | blocks (b : List Blk)

def parseRes (s : String) : Option RawRes :=
  if s = "M" then some .missing else if s = "I" then some .inherit
  else (Driver.C03.parseBlocks s).map .blocks

structure Raw where
  facts : Facts
  dec : Bool
  r4 : RawRes
  r6 : RawRes
  ra : RawRes

def toClaim (M : Nat) : RawRes → Claim
  | .missing => .missing
  | .inherit => .inherit
  | .blocks b => .blocks (fromIter M b)

def hexB (s : String) : Option (List Nat) := (parseHex s).map (·.map UInt8.toNat)

def parseFacts (router : Bool) (s : String) : Option Raw :=
  match s.splitOn ":" with
  | [sig, dec, nb, na, ski, kid, aki, bc, ku, eku, crl, aia, rep, mft, so, ntf, trim, v4, v6, asn, alg] =>
    match parseInt nb, parseInt na, hexB ski, hexB kid, parseRes v4, parseRes v6, parseRes asn with
    | some nb, some na, some ski, some kid, some r4, some r6, some ra =>
      let aki := if aki = "N" then some none else (hexB aki).map some
      match aki with
      | none => none
      | some aki =>
        let wf (r : RawRes) (M : Nat) : Bool := match r with
          | .blocks b => b.all (fun x => x.lo ≤ x.hi && x.hi ≤ M) | _ => true
        if ¬ (wf r4 maxV4 ∧ wf r6 maxV6 ∧ wf ra maxAs) then none else
        some {
          facts := {
            sigOk := sig = "1", keyAlgOk := (if router then alg = "e" else alg = "r"), validity := ⟨nb, na⟩, ski := ski, keyId := kid, aki := aki,
            basicCa := if bc = "T" then some true else if bc = "F" then some false else none,
            kuCa := ku = "c", eku := eku = "1", crl := crl = "1", aia := aia = "1", caRepo := rep = "1",
            mft := mft = "1", signedObj := so = "1", notify := ntf = "1", trim := trim = "1",
            v4 := toClaim maxV4 r4, v6 := toClaim maxV6 r6, asn := toClaim maxAs ra },
          dec := dec = "1", r4 := r4, r6 := r6, ra := ra }
    | _, _, _, _, _, _, _ => none
  | _ => none

def showBlocks (c : List Blk) : String :=
  if c.isEmpty then "-" else ",".intercalate (c.map fun b => s!"{b.lo}-{b.hi}")

def showRC (r : RC) : String := s!"ok {showBlocks r.v4} {showBlocks r.v6} {showBlocks r.asn}"

/-- the issuing chain on the model -/
def issuerChain : List Raw → Option RC
  | [] => none
  | ta :: rest =>
    if !ta.dec then none else
    match validateTa ta.facts T0 with
    | none => none
    | some rc => rest.foldlM (fun rc r => if !r.dec then none else validateCa r.facts rc T0) rc

def modelLine (now : Int) (kind : String) (raws : List Raw) : String :=
  match raws.getLast?, raws.dropLast with
  | none, _ => "bad-op"
  | some leaf, issuers =>
    if !leaf.dec then "err"
    else if kind = "ta" then
      match validateTa leaf.facts now with | some r => showRC r | none => "err"
    else match issuerChain issuers with
      | none => "issuer-invalid"
      | some rc =>
        if kind = "ca" then (match validateCa leaf.facts rc now with | some r => showRC r | none => "err")
        else if kind = "ee" then (match validateEe leaf.facts rc now with | some r => showRC r | none => "err")
        else if kind = "dee" then (match validateDetachedEe leaf.facts rc now with | some r => showRC r | none => "err")
        else if kind = "rt" then (if validateRouter leaf.facts rc now then "ok" else "err")
        else "bad-op"

/-! ### the property as stated, on sets (no chain algorithms) -/

def memRaw (r : List Blk) (x : Nat) : Bool := r.any fun b => b.lo ≤ x && x ≤ b.hi

/-- effective resources of one family down the issuing chain, as a predicate -/
def effective (sel : Raw → RawRes) : List Raw → Nat → Bool
  | [], _ => false
  | [ta], x => (match sel ta with | .blocks b => memRaw b x | _ => false)
  | c :: up, x =>
    match sel c with
    | .missing => false
    | .inherit => effective sel up x
    | .blocks b => if c.facts.trim then memRaw b x && effective sel up x else memRaw b x

def allBlocks (sel : Raw → RawRes) (raws : List Raw) : List Blk :=
  raws.flatMap fun r => match sel r with | .blocks b => b | _ => []

def checkFamily (name : String) (M : Nat) (sel : Raw → RawRes) (chain : List Raw) (implBlocks : List Blk) : Option String :=
  -- chain: certificate under test first, then its issuers up to the TA
  let pts := Driver.C03.probes M [allBlocks sel chain, implBlocks]
  match chain with
  | [] => none
  | leaf :: up =>
    let issuerEff := effective sel up
    if ¬ Driver.C03.canon M implBlocks then some s!"{name} resources of the result are not canonical"
    else if up ≠ [] ∧ pts.any (fun x => memRaw implBlocks x && !issuerEff x) then
      some s!"{name} resources of the validated certificate are not a subset of the issuer's"
    else
      let want : Nat → Bool := effective sel chain
      match pts.find? (fun x => memRaw implBlocks x != want x) with
      | some x => some s!"{name} resources differ from the expected set at {x}"
      | none =>
        match sel leaf with
        | .blocks b =>
          if up ≠ [] ∧ !leaf.facts.trim ∧ pts.any (fun x => memRaw b x && !issuerEff x) then
            some s!"a no-overclaim certificate claiming {name} resources outside the issuer was accepted"
          else none
        | _ => none

def oracle (now : Int) (kind : String) (raws : List Raw) (impl : String) : Option String :=
  if (impl.splitOn " ALT=").length > 1 then
    some s!"two public entry points for the same validation disagree: validate_*_at against {((impl.splitOn " ALT=").drop 1).headD ""}"
  else if impl = "err" ∨ impl = "issuer-invalid" then none
  else if impl = "panic" then some "validation panicked"
  else match raws.getLast? with
  | none => none
  | some leaf =>
    let f := leaf.facts
    let issuers := raws.dropLast
    if !f.sigOk then some "accepted although the signature does not verify under the issuer's key"
    else if now < f.validity.nb ∨ now > f.validity.na then some "accepted outside the validity window"
    else if f.ski ≠ f.keyId then some "accepted although the subject key identifier is not the hash of the key"
    else if kind != "ta" && (match issuers.getLast? with
        | some i => f.aki != some i.facts.ski | none => true) then
      some "accepted although the authority key identifier differs from the issuer's subject key identifier"
    else if kind == "ta" && (match leaf.r4, leaf.r6, leaf.ra with
        | .inherit, _, _ => true | _, .inherit, _ => true | _, _, .inherit => true | _, _, _ => false) then
      some "trust anchor with inherited resources accepted"
    else
      let chain := raws.reverse
      if kind = "rt" then
        (match leaf.ra with
         | .blocks b =>
           let eff := effective (·.ra) chain.tail
           if !f.trim ∧ (Driver.C03.probes maxAs [allBlocks (·.ra) chain]).any (fun x => memRaw b x && !eff x) then
             some "router certificate claiming AS resources outside the issuer was accepted"
           else none
         | _ => none)
      else match impl.splitOn " " with
      | ["ok", a, b, c] =>
        match Driver.C03.parseBlocks a, Driver.C03.parseBlocks b, Driver.C03.parseBlocks c with
        | some a, some b, some c =>
          (checkFamily "IPv4" maxV4 (·.r4) chain a).orElse fun _ =>
          (checkFamily "IPv6" maxV6 (·.r6) chain b).orElse fun _ =>
          checkFamily "AS" maxAs (·.ra) chain c
        | _, _, _ => some "unreadable result"
      | _ => some "unreadable result"

def handle (toks : List String) (impl : String) : Verdict :=
  match toks with
  | "v" :: now :: kind :: rest =>
    let factToks := rest.takeWhile (· ≠ "|")
    let n := factToks.length
    let parsed := (factToks.zipIdx).mapM fun (t, i) => parseFacts (kind = "rt" && i + 1 = n) t
    -- `<n>+h` is the instant n + 0.5 s. Certificate times are whole seconds, so `n + 0.5 < notBefore` iff
    -- `n < notBefore` and `n + 0.5 > notAfter` iff `n > notAfter - 1`: the same verdict as evaluating at `n`
    -- a certificate whose notAfter is one second earlier.
    let half := now.endsWith "+h"
    let now := if half then (now.dropEnd 2).toString else now
    let parsed := if !half then parsed else parsed.map fun raws =>
      match raws.reverse with
      | last :: rest => (({ last with facts := { last.facts with validity := { last.facts.validity with na := last.facts.validity.na - 1 } } }) :: rest).reverse
      | [] => raws
    -- the model's side no longer takes the generator's facts: every certificate is decoded from its octets by
    -- `CertDer.decodeCert` (fields, key identifier = SHA-1 of the key bits, name inspection, resources); only
    -- the verdict "the signature verifies under the issuer's key" stays an input
    let ders := (rest.dropWhile (· ≠ "|")).drop 1
    match parseInt now, parsed with
    | some now, some raws =>
      if raws.isEmpty then badOp "no facts" else
      if ders.length ≠ raws.length then badOp "facts and certificates differ in number" else
      let fromBytes : List Raw := (raws.zip ders).zipIdx.map fun ((r, h), i) =>
        match (hexB h).bind Rpki.CertDer.decodeCert with
        | some d =>
          let f := Rpki.CertDer.toFacts d (kind = "rt" && i + 1 = n) true r.facts.sigOk
          let f := if half ∧ i + 1 = n then { f with validity := { f.validity with na := f.validity.na - 1 } } else f
          { r with facts := f, dec := true }
        | none => { r with dec := false }
      let m := modelLine now kind fromBytes
      let o := match oracle now kind raws impl with
        | some w => some w
        | none =>
          if impl = "err" ∧ m ≠ "err" ∧ m ≠ "issuer-invalid" ∧ m ≠ "bad-op" then
            some "a certificate that meets every condition of the statement (signature, time inside the inclusive window, key identifiers, profile, covered resources) was rejected"
          else none
      { model := some m, oracle := o }
    | _, _ => badOp "facts"
  | ["certd", h] =>
    match hexB h with
    | none => badOp "hex"
    | some b =>
      { model := some (Driver.CertShow.certLine b),
        oracle := if impl = "panic" then some "Cert::decode or an accessor of the decoded certificate panicked" else none }
  | _ => badOp "unknown op"

end Driver.C01
