import Driver.Common
import Driver.C13
import Rpki.Model.RtrServer
namespace Driver.C08
open Driver Rpki.RtrServer Rpki.Rtr Rpki.Consts

def hexN (b : Bytes) : String := toHex (b.map UInt8.ofNat)
def parseHexN (s : String) : Option Bytes := (parseHex s).map (·.map UInt8.toNat)

def showOut : Out → String
  | .data v s sr full => s!"D{v}.{s}.{sr}.{if full then "f" else "d"}"
  | .cacheReset v => s!"R{v}"
  | .error v c h => s!"E{v}.{c}.{hexN h}"
  | .serialNotify v s sr => s!"N{v}.{s}.{sr}"

def parseSrc (s : String) : Option Src :=
  match s.splitOn ":" with
  | [r, se, sr, kn] =>
    match se.toNat?, sr.toNat?, Driver.C13.parseList kn with
    | some se, some sr, some kn => some ⟨r = "1", se, sr, kn⟩
    | _, _, _ => none
  | _ => none

def parseEvent (s : String) : Option Event :=
  if s = "n" then some .notify
  else if s = "e" then some .eof
  else if s.startsWith "c" then (parseHexN (s.drop 1).toString).map .chunk
  else none

def showOuts (l : List String) : String := if l.isEmpty then "-" else " ".intercalate l

def handle (toks : List String) (impl : String) : Verdict :=
  match toks with
  | "case" :: src :: evs =>
    match parseSrc src, evs.mapM parseEvent with
    | some src, some evs =>
      let outs := run src Conn.init evs
      let m := showOuts (outs.map showOut)
      -- oracle: the implementation's responses, notifications removed, are the answers to the
      -- concatenated bytes; notifications only sit between responses
      let spec := showOuts ((serve src (chunksOf evs)).map showOut)
      let implToks := if impl = "-" then [] else impl.splitOn " "
      let implResp := showOuts (implToks.filter (fun t => ¬ t.startsWith "N"))
      let structural := implToks.find? (fun t => t.startsWith "NOTIFY-INSIDE" ∨ t.startsWith "NESTED" ∨ t.startsWith "STRAY"
        ∨ t.startsWith "TRUNCATED" ∨ t.startsWith "TRAILING" ∨ t.startsWith "UNFINISHED" ∨ t.startsWith "RESET-INSIDE" ∨ t.startsWith "ERROR-INSIDE")
      { model := some m,
        oracle := match structural with
          | some t => some s!"malformed response stream: {t}"
          | none => if implResp = spec then none
                    else some s!"responses are not a function of the concatenated bytes: expected {spec}" }
    | _, _ => badOp "args"
  | _ => badOp "unknown op"

end Driver.C08
