/-
  `TbsCert::encode_ref` (`src/repository/cert.rs`) and the encoders it calls (`encode_extension`,
  `Validity::encode`, `PublicKey::encode_ref`, `IpResources::encode_extension`,
  `AsResources::encode_extension`, `uri::…::encode_general_name`): the to-be-signed octets written from
  the fields of a certificate.  `Proofs/CertEncLemmas.lean` shows that `CertDer.decodeTbs` reads them back.
-/
import Rpki.Model.CertDer
namespace Rpki.CertEnc
open Rpki.Der Rpki.CertDer Rpki.Chain Rpki.Consts

/-- `encode_extension(oid, critical, content)` -/
def encExt (oid : Bytes) (critical : Bool) (value : Bytes) : Bytes :=
  tlv tagSeq (tlv tagOid oid ++ (if critical then tlv tagBool [255] else []) ++ tlv tagOctetString value)

/-- the content octets of one Extension SEQUENCE (what `CertDer.extension` is applied to) -/
def extBody (oid : Bytes) (critical : Bool) (value : Bytes) : Bytes :=
  tlv tagOid oid ++ (if critical then tlv tagBool [255] else []) ++ tlv tagOctetString value

/-- `encode_general_name`: `[6]` IA5String -/
def gn (u : Bytes) : Bytes := tlv 0x86 u

def timeTlv (c : X509.Civil) : Bytes :=
  let t := X509.encodeVaried c
  tlv (match t.1 with | .utc => tagUtcTime | .generalized => tagGenTime) t.2

/-- one family of the IP resources extension -/
def ipFamilyEnc (afi : Bytes) : Claim → Bytes
  | .missing => []
  | .inherit => tlv tagSeq (tlv tagOctetString afi ++ tlv tagNull [])
  | .blocks c => tlv tagSeq (tlv tagOctetString afi ++ IpDer.encodeBlocks c)

def accessDescription (oid : Bytes) : Option Bytes → Bytes
  | some u => tlv tagSeq (tlv tagOid oid ++ gn u)
  | none => []

/-- the contents of the Extension SEQUENCEs `encode_ref` writes, in its order -/
def extItems (d : Decoded) : List Bytes :=
  (match d.basicCa with
    | some ca => [extBody oidBasicConstraints true (tlv tagSeq (if ca then tlv tagBool [255] else []))]
    | none => []) ++
  [extBody oidSubjectKeyId false (tlv tagOctetString d.ski)] ++
  (match d.aki with
    | some k => [extBody oidAuthorityKeyId false (tlv tagSeq (tlv 0x80 k))]
    | none => []) ++
  [extBody oidKeyUsage true (match d.keyUsage with
    | .ca => tlv tagBitString [1, 6]
    | .ee => tlv tagBitString [7, 128])] ++
  (match d.eku with
    | some _ => [extBody oidExtKeyUsage false (tlv tagSeq d.ekuContent)]
    | none => []) ++
  (match d.crlUri with
    | some u => [extBody oidCrlDistributionPoints false (tlv tagSeq (tlv tagSeq (tlv 0xA0 (tlv 0xA0 (gn u)))))]
    | none => []) ++
  (match d.caIssuer with
    | some u => [extBody oidAuthorityInfoAccess false (tlv tagSeq (tlv tagSeq (tlv tagOid oidAdCaIssuers ++ gn u)))]
    | none => []) ++
  (if d.sia.caRepository.isSome ∨ d.sia.rpkiManifest.isSome ∨ d.sia.signedObject.isSome ∨ d.sia.rpkiNotify.isSome then
    [extBody oidSubjectInfoAccess false (tlv tagSeq (
      accessDescription oidAdCaRepository d.sia.caRepository ++ accessDescription oidAdRpkiManifest d.sia.rpkiManifest ++
      accessDescription oidAdSignedObject d.sia.signedObject ++ accessDescription oidAdRpkiNotify d.sia.rpkiNotify))]
   else []) ++
  [extBody oidCertificatePolicies true
    (tlv tagSeq (tlv tagSeq (tlv tagOid (if d.trim then oidCpResourcesV2 else oidCpResources))))] ++
  (if Cert.isPresent d.v4 ∨ Cert.isPresent d.v6 then
    [extBody (if d.trim then oidIpAddrBlockV2 else oidIpAddrBlock) true
      (tlv tagSeq (ipFamilyEnc [0, 1] d.v4 ++ ipFamilyEnc [0, 2] d.v6))]
   else []) ++
  (if Cert.isPresent d.asn then
    [extBody (if d.trim then oidAsIdsV2 else oidAsIds) true (AsDer.encodeExt d.asn)]
   else [])

/-- the AlgorithmIdentifier `x509_encode` always writes: with the NULL parameter -/
def sigAlgEnc : Bytes := tlv tagSeq (tlv tagOid oidSha256WithRsa ++ tlv tagNull [])

/-- `PublicKey::encode_ref` -/
def publicKeyEnc (alg : KeyAlg) (unused : Nat) (bits : Bytes) : Bytes :=
  tlv tagSeq ((match alg with
      | .rsa => tlv tagSeq (tlv tagOid oidRsaEncryption ++ tlv tagNull [])
      | .ecP256 => tlv tagSeq (tlv tagOid oidEcPublicKey ++ tlv tagOid oidSecp256r1)) ++
    tlv tagBitString (unused :: bits))

/-- `TbsCert::encode_ref` -/
def encodeTbs (d : Decoded) : Bytes :=
  tlv tagSeq (
    tlv 0xA0 (tlv tagInt [2]) ++
    tlv tagInt (X509.encodeContent d.serial) ++
    sigAlgEnc ++
    d.issuer ++
    tlv tagSeq (timeTlv d.notBefore ++ timeTlv d.notAfter) ++
    d.subject ++
    publicKeyEnc d.keyAlg d.keyUnused d.keyBits ++
    tlv 0xA3 (tlv tagSeq (((extItems d).map (tlv tagSeq)).flatten)))

end Rpki.CertEnc
