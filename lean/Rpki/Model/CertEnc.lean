/-
  `TbsCert::encode_ref` (`src/repository/cert.rs`) and the encoders it calls (`encode_extension`,
  `Validity::encode`, `PublicKey::encode_ref`, `IpResources::encode_extension`,
  `AsResources::encode_extension`, `uri::…::encode_general_name`): the to-be-signed octets written from
  the fields of a certificate.  `Proofs/CertEncLemmas.lean` shows that `CertDer.decodeTbs` reads them back.
-/
import Rpki.Model.CertDer
namespace Rpki.CertEnc
open Rpki.Der Rpki.CertDer Rpki.Chain Rpki.Consts

/-- `encode_extension(oid, critical, content)` -/
def encExt (oid : Bytes) (critical : Bool) (value : Bytes) : Bytes :=
  tlv tagSeq (tlv tagOid oid ++ (if critical then tlv tagBool [255] else []) ++ tlv tagOctetString value)

/-- the content octets of one Extension SEQUENCE (what `CertDer.extension` is applied to) -/
def extBody (oid : Bytes) (critical : Bool) (value : Bytes) : Bytes :=
  tlv tagOid oid ++ (if critical then tlv tagBool [255] else []) ++ tlv tagOctetString value

/-- `encode_general_name`: `[6]` IA5String -/
def gn (u : Bytes) : Bytes := tlv 0x86 u

def timeTlv (c : X509.Civil) : Bytes :=
  let t := X509.encodeVaried c
  tlv (match t.1 with | .utc => tagUtcTime | .generalized => tagGenTime) t.2

/-- the content of one IPAddressFamily SEQUENCE (`encode_family`), none for a missing family -/
def famBody (afi : Bytes) : Claim → Option Bytes
  | .missing => none
  | .inherit => some (tlv tagOctetString afi ++ tlv tagNull [])
  | .blocks c => some (tlv tagOctetString afi ++ IpDer.encodeBlocks c)

/-- the contents of the IPAddressFamily SEQUENCEs: IPv4 first -/
def ipItems (v4 v6 : Claim) : List Bytes := (famBody [0, 1] v4).toList ++ (famBody [0, 2] v6).toList

/-- the content of one AccessDescription SEQUENCE -/
def adBody (oid u : Bytes) : Bytes := tlv tagOid oid ++ gn u

/-- the contents of the AccessDescription SEQUENCEs of the SIA, in the order `encode_ref` writes them -/
def siaItems (s : Sia) : List Bytes :=
  (s.caRepository.toList.map (adBody oidAdCaRepository)) ++ (s.rpkiManifest.toList.map (adBody oidAdRpkiManifest)) ++
  (s.signedObject.toList.map (adBody oidAdSignedObject)) ++ (s.rpkiNotify.toList.map (adBody oidAdRpkiNotify))

/-- the concatenated encodings of a list of SEQUENCE contents -/
def seqs (items : List Bytes) : Bytes := ((items.map (tlv tagSeq)).flatten)

def bcBody (ca : Bool) : Bytes :=
  extBody oidBasicConstraints true (tlv tagSeq (if ca then tlv tagBool [255] else []))
def skiBody (k : Bytes) : Bytes := extBody oidSubjectKeyId false (tlv tagOctetString k)
def akiBody (k : Bytes) : Bytes := extBody oidAuthorityKeyId false (tlv tagSeq (tlv 0x80 k))
/-- `KeyUsage::encode` -/
def kuValue : KeyUsage → Bytes
  | .ca => tlv tagBitString [1, 6]
  | .ee => tlv tagBitString [7, 128]
def kuBody (ku : KeyUsage) : Bytes := extBody oidKeyUsage true (kuValue ku)
def ekuBody (content : Bytes) : Bytes := extBody oidExtKeyUsage false (tlv tagSeq content)
def crlBody (u : Bytes) : Bytes :=
  extBody oidCrlDistributionPoints false (tlv tagSeq (tlv tagSeq (tlv 0xA0 (tlv 0xA0 (gn u)))))
def aiaBody (u : Bytes) : Bytes :=
  extBody oidAuthorityInfoAccess false (tlv tagSeq (tlv tagSeq (tlv tagOid oidAdCaIssuers ++ gn u)))
def siaBody (s : Sia) : Bytes := extBody oidSubjectInfoAccess false (tlv tagSeq (seqs (siaItems s)))
def cpBody (trim : Bool) : Bytes :=
  extBody oidCertificatePolicies true (tlv tagSeq (tlv tagSeq (tlv tagOid (if trim then oidCpResourcesV2 else oidCpResources))))
def ipBody (trim : Bool) (v4 v6 : Claim) : Bytes :=
  extBody (if trim then oidIpAddrBlockV2 else oidIpAddrBlock) true (tlv tagSeq (seqs (ipItems v4 v6)))
def asBody (trim : Bool) (asn : Claim) : Bytes :=
  extBody (if trim then oidAsIdsV2 else oidAsIds) true (AsDer.encodeExt asn)

def siaPresent (s : Sia) : Bool :=
  s.caRepository.isSome || s.rpkiManifest.isSome || s.signedObject.isSome || s.rpkiNotify.isSome

/-- the contents of the Extension SEQUENCEs `encode_ref` writes, in its order -/
def extItems (d : Decoded) : List Bytes :=
  (d.basicCa.map bcBody).toList ++
  [skiBody d.ski] ++
  (d.aki.map akiBody).toList ++
  [kuBody d.keyUsage] ++
  (d.eku.map fun _ => ekuBody d.ekuContent).toList ++
  (d.crlUri.map crlBody).toList ++
  (d.caIssuer.map aiaBody).toList ++
  (if siaPresent d.sia then [siaBody d.sia] else []) ++
  [cpBody d.trim] ++
  (if Cert.isPresent d.v4 || Cert.isPresent d.v6 then [ipBody d.trim d.v4 d.v6] else []) ++
  (if Cert.isPresent d.asn then [asBody d.trim d.asn] else [])

/-- the AlgorithmIdentifier `x509_encode` always writes: with the NULL parameter -/
def sigAlgEnc : Bytes := tlv tagSeq (tlv tagOid oidSha256WithRsa ++ tlv tagNull [])

/-- `PublicKey::encode_ref` -/
def publicKeyEnc (alg : KeyAlg) (unused : Nat) (bits : Bytes) : Bytes :=
  tlv tagSeq ((match alg with
      | .rsa => tlv tagSeq (tlv tagOid oidRsaEncryption ++ tlv tagNull [])
      | .ecP256 => tlv tagSeq (tlv tagOid oidEcPublicKey ++ tlv tagOid oidSecp256r1)) ++
    tlv tagBitString (unused :: bits))

/-- `TbsCert::encode_ref` -/
def encodeTbs (d : Decoded) : Bytes :=
  tlv tagSeq (
    tlv 0xA0 (tlv tagInt [2]) ++
    tlv tagInt (X509.encodeContent d.serial) ++
    sigAlgEnc ++
    d.issuer ++
    tlv tagSeq (timeTlv d.notBefore ++ timeTlv d.notAfter) ++
    d.subject ++
    publicKeyEnc d.keyAlg d.keyUnused d.keyBits ++
    tlv 0xA3 (tlv tagSeq (seqs (extItems d))))

/-- `SignedData::encode_ref` around the to-be-signed octets: the certificate as `Cert::to_captured` writes it -/
def encodeCert (d : Decoded) (signature : Bytes) : Bytes :=
  tlv tagSeq (encodeTbs d ++ sigAlgEnc ++ tlv tagBitString (0 :: signature))

end Rpki.CertEnc
