/-
  Resource certificate validation (`src/repository/cert.rs`): `validate_{ta,ca,ee,router}_at`
  = `inspect_*` followed by `verify_*_at`.

  A certificate enters the model as the record of facts the decoder extracted (`Facts`).  The
  cryptographic verdict `sigOk` is an input: "the signature verifies over the signed octets under
  the key of the certificate passed as issuer (its own key for a trust anchor)".
-/
import Rpki.Model.Chain
import Rpki.Model.X509
namespace Rpki.Cert
open Rpki.Chain

abbrev Bytes := List Nat

structure Facts where
  /-- the signature verifies under the issuer's (TA: own) key -/
  sigOk : Bool
  /-- outer signatureAlgorithm equals the one inside the TBS -/
  algMatch : Bool := true
  /-- issuer / subject names pass `Name::inspect_rpki` (router: `inspect_router`) -/
  namesOk : Bool := true
  /-- the public key algorithm is allowed for this kind -/
  keyAlgOk : Bool := true
  validity : X509.Validity
  ski : Bytes
  /-- SHA-1 of the subjectPublicKey bits -/
  keyId : Bytes
  aki : Option Bytes
  basicCa : Option Bool
  kuCa : Bool
  eku : Bool
  /-- EKU contains the BGPsec router purpose -/
  ekuRouter : Bool := true
  crl : Bool
  aia : Bool
  caRepo : Bool
  mft : Bool
  signedObj : Bool
  notify : Bool
  trim : Bool
  v4 : Claim
  v6 : Claim
  asn : Claim
deriving Repr

/-- the validated certificate as the caller sees it -/
structure RC where
  ski : Bytes
  v4 : List Blk
  v6 : List Blk
  asn : List Blk
deriving Repr, DecidableEq

def maxV4 : Nat := 2 ^ 32 - 1
def maxV6 : Nat := 2 ^ 128 - 1
def maxAs : Nat := 2 ^ 32 - 1

/-- `inspect_basics` -/
def inspectBasics (f : Facts) : Bool :=
  f.algMatch && f.namesOk && f.keyAlgOk && f.ski == f.keyId && !f.eku

/-- `inspect_ca_basics` -/
def inspectCaBasics (f : Facts) : Bool :=
  f.basicCa == some true && f.kuCa && f.caRepo && f.mft && !f.signedObj

/-- `inspect_issued` -/
def inspectIssued (f : Facts) : Bool := f.crl

def inspectTa (f : Facts) : Bool :=
  inspectBasics f && inspectCaBasics f &&
  (match f.aki with | some a => a == f.ski | none => true) && !f.crl && !f.aia

def inspectCa (f : Facts) : Bool := inspectBasics f && inspectCaBasics f && inspectIssued f

def inspectEe (f : Facts) : Bool :=
  inspectBasics f && inspectIssued f && f.basicCa.isNone && !f.kuCa && !f.caRepo && !f.mft && f.signedObj

def inspectDetachedEe (f : Facts) : Bool :=
  inspectBasics f && inspectIssued f && f.basicCa.isNone && !f.kuCa && !f.caRepo && !f.mft

def isPresent : Claim → Bool | .missing => false | _ => true

def inspectRouter (f : Facts) : Bool :=
  f.algMatch && f.namesOk && f.keyAlgOk && f.basicCa.isNone && f.ski == f.keyId && !f.kuCa &&
  f.eku && f.ekuRouter && f.crl && !(f.caRepo || f.mft || f.signedObj || f.notify) &&
  !(isPresent f.v4 || isPresent f.v6) && isPresent f.asn && f.asn != .inherit

def validityOk (f : Facts) (now : Int) : Bool :=
  match X509.verifyAt f.validity now with | .ok _ => true | .error _ => false

/-- `verify_issuer_claim` -/
def issuerClaim (f : Facts) (issuer : RC) : Bool :=
  (match f.aki with | some a => a == issuer.ski | none => false) && f.aia

/-- `IpBlocks::from_resources` / `AsBlocks::from_resources` -/
def fromResources : Claim → Option (List Blk)
  | .missing => some []
  | .inherit => none
  | .blocks c => some c

/-- `verify_ta_at` after `inspect_ta` -/
def validateTa (f : Facts) (now : Int) : Option RC :=
  if !inspectTa f then none
  else if !validityOk f now then none
  else match fromResources f.v4, fromResources f.v6, fromResources f.asn with
    | some a, some b, some c => if f.sigOk then some ⟨f.ski, a, b, c⟩ else none
    | _, _, _ => none

/-- `verify_resources` -/
def verifyResources (f : Facts) (issuer : RC) : Option RC :=
  match verifyIssued maxV4 issuer.v4 f.v4 f.trim,
        verifyIssued maxV6 issuer.v6 f.v6 f.trim,
        verifyIssued maxAs issuer.asn f.asn f.trim with
  | some a, some b, some c => some ⟨f.ski, a, b, c⟩
  | _, _, _ => none

/-- `verify_ca_at` = `verify_ee_at`: validity, issuer claim, signature, resources -/
def verifyIssuedCert (f : Facts) (issuer : RC) (now : Int) : Option RC :=
  if !validityOk f now then none
  else if !issuerClaim f issuer then none
  else if !f.sigOk then none
  else verifyResources f issuer

def validateCa (f : Facts) (issuer : RC) (now : Int) : Option RC :=
  if !inspectCa f then none else verifyIssuedCert f issuer now

def validateEe (f : Facts) (issuer : RC) (now : Int) : Option RC :=
  if !inspectEe f then none else verifyIssuedCert f issuer now

def validateDetachedEe (f : Facts) (issuer : RC) (now : Int) : Option RC :=
  if !inspectDetachedEe f then none else verifyIssuedCert f issuer now

/-- `validate_router_at`: only the AS resources are checked, nothing is returned -/
def validateRouter (f : Facts) (issuer : RC) (now : Int) : Bool :=
  if !inspectRouter f then false
  else if !validityOk f now then false
  else if !issuerClaim f issuer then false
  else if !f.sigOk then false
  else (verifyIssued maxAs issuer.asn f.asn f.trim).isSome

end Rpki.Cert
