/-
`SlurmFile::from_str` on octets (src/slurm.rs over serde_json): a model of serde_json's *reader* as far
as a SLURM file can tell — white space between tokens, the literals, strings with every escape of
RFC 8259 (`\"`, `\\`, `\/`, `\b`, `\f`, `\n`, `\r`, `\t`, `\uXXXX` with surrogate pairs; a lone surrogate
and an unescaped control character are errors), numbers by the RFC's grammar, arrays and objects
without trailing commas, and nothing but white space after the value — followed by the typed leaves
(`JsonText.retype`) and the field deserialisers of `Model/Slurm.lean`.

Numbers other than non-negative integer literals (a sign, a fraction, an exponent) are returned as the
leaf `.bool false`: no SLURM field accepts such a number (every numeric field is an unsigned integer)
and no SLURM field is a boolean, so the field deserialisers refuse both alike, and a position that is
ignored (an unknown member of a struct without `deny_unknown_fields`) tolerates both alike.  The input
is a `&str`, i.e. valid UTF-8; the model does not look at the encoding of octets above 127.
-/
import Rpki.Model.JsonText
namespace Rpki.JsonRead
open Rpki.Slurm Rpki.JsonText

def isWs (c : Nat) : Bool := c = 32 || c = 10 || c = 13 || c = 9

def skipWs : Bytes → Bytes
  | [] => []
  | c :: r => if isWs c then skipWs r else c :: r

/-- UTF-8 of a code point below 0x110000 -/
def utf8 (cp : Nat) : Bytes :=
  if cp < 128 then [cp]
  else if cp < 2048 then [192 + cp / 64, 128 + cp % 64]
  else if cp < 65536 then [224 + cp / 4096, 128 + cp / 64 % 64, 128 + cp % 64]
  else [240 + cp / 262144, 128 + cp / 4096 % 64, 128 + cp / 64 % 64, 128 + cp % 64]

/-- four hexadecimal digits -/
def hex4 : Bytes → Option (Nat × Bytes)
  | a :: b :: c :: d :: r =>
    (match ResText.hexVal a, ResText.hexVal b, ResText.hexVal c, ResText.hexVal d with
     | some w, some x, some y, some z => some (w * 4096 + x * 256 + y * 16 + z, r)
     | _, _, _, _ => none)
  | _ => none

/-- what follows `\u`: the code point (a surrogate pair combined) and the rest -/
def readU (r : Bytes) : Option (Nat × Bytes) :=
  match hex4 r with
  | none => none
  | some (n1, r1) =>
    if 56320 ≤ n1 ∧ n1 ≤ 57343 then none                -- lone trailing surrogate
    else if 55296 ≤ n1 ∧ n1 ≤ 56319 then
      (match r1 with
       | 92 :: 117 :: r2 =>
         (match hex4 r2 with
          | some (n2, r3) =>
            if 56320 ≤ n2 ∧ n2 ≤ 57343 then some (65536 + (n1 - 55296) * 1024 + (n2 - 56320), r3) else none
          | none => none)
       | _ => none)
    else some (n1, r1)

/-- a string after its opening quote -/
def readStr : Nat → Bytes → Bytes → Option (Bytes × Bytes)
  | 0, _, _ => none
  | _ + 1, [], _ => none
  | f + 1, c :: r, acc =>
    if c = 34 then some (acc.reverse, r)
    else if c = 92 then
      match r with
      | [] => none
      | e :: r2 =>
        if e = 34 then readStr f r2 (34 :: acc) else if e = 92 then readStr f r2 (92 :: acc)
        else if e = 47 then readStr f r2 (47 :: acc)
        else if e = 98 then readStr f r2 (8 :: acc) else if e = 102 then readStr f r2 (12 :: acc)
        else if e = 110 then readStr f r2 (10 :: acc) else if e = 114 then readStr f r2 (13 :: acc)
        else if e = 116 then readStr f r2 (9 :: acc)
        else if e = 117 then
          (match readU r2 with
           | some (cp, r3) => readStr f r3 ((utf8 cp).reverse ++ acc)
           | none => none)
        else none
    else if c < 32 then none
    else readStr f r (c :: acc)

def digits (b : Bytes) : Bytes := b.takeWhile ResText.isDigit

def stripMinus : Bytes → Bool × Bytes
  | 45 :: r => (true, r)
  | b => (false, b)

/-- an optional fraction: `.` and at least one digit -/
def readFrac : Bytes → Option (Bool × Bytes)
  | 46 :: r2 => let fd := digits r2; if fd = [] then none else some (true, r2.drop fd.length)
  | r1 => some (false, r1)

/-- an optional exponent: `e` or `E`, an optional sign, at least one digit -/
def readExp : Bytes → Option (Bool × Bytes)
  | [] => some (false, [])
  | c :: r4 =>
    if c = 101 ∨ c = 69 then
      let r5 := match r4 with | 43 :: r => r | 45 :: r => r | _ => r4
      let ed := digits r5
      if ed = [] then none else some (true, r5.drop ed.length)
    else some (false, c :: r4)

/-- a number by the grammar of RFC 8259: `some (some n)` a non-negative integer literal, `some none`
any other number, with what follows -/
def readNum (b : Bytes) : Option (Option Nat × Bytes) :=
  let p := stripMinus b
  let ds := digits p.2
  if ds = [] then none
  else if ds.length > 1 ∧ ds.head? = some 48 then none        -- leading zero
  else
    match readFrac (p.2.drop ds.length) with
    | none => none
    | some fr =>
      match readExp fr.2 with
      | none => none
      | some ex =>
        if p.1 ∨ fr.1 ∨ ex.1 then some (none, ex.2)
        else some (some (ds.foldl (fun acc x => acc * 10 + (x - 48)) 0), ex.2)

/-- member names: the schema's own, anything else is "some other member" (`x-<n>` is the model writer's
spelling of `other n`, see `JsonText.keyOfName`) -/
def keyOf (name : Bytes) : Key := (keyOfName name).getD (.other 0)

mutual
def readVal : Nat → Bytes → Option (Json × Bytes)
  | 0, _ => none
  | f + 1, b =>
    match skipWs b with
    | [] => none
    | c :: r =>
      if c = 110 then (dropPrefix [117, 108, 108] r).map fun r' => (.null, r')
      else if c = 116 then (dropPrefix [114, 117, 101] r).map fun r' => (.bool true, r')
      else if c = 102 then (dropPrefix [97, 108, 115, 101] r).map fun r' => (.bool false, r')
      else if c = 34 then (readStr (r.length + 1) r []).map fun (s, r') => (.str s, r')
      else if c = 91 then
        (match skipWs r with
         | 93 :: r' => some (.arr [], r')
         | _ => (readElems f r []).map fun (l, r') => (.arr l, r'))
      else if c = 123 then
        (match skipWs r with
         | 125 :: r' => some (.obj [], r')
         | _ => (readMembers f r []).map fun (l, r') => (.obj l, r'))
      else if c = 45 ∨ ResText.isDigit c then
        (readNum (c :: r)).map fun (n, r') => (match n with | some v => .num v | none => .bool false, r')
      else none
def readElems : Nat → Bytes → List Json → Option (List Json × Bytes)
  | 0, _, _ => none
  | f + 1, b, acc =>
    match readVal f b with
    | some (v, r) =>
      (match skipWs r with
       | 44 :: r' => readElems f r' (v :: acc)
       | 93 :: r' => some ((v :: acc).reverse, r')
       | _ => none)
    | none => none
def readMembers : Nat → Bytes → List (Key × Json) → Option (List (Key × Json) × Bytes)
  | 0, _, _ => none
  | f + 1, b, acc =>
    match skipWs b with
    | 34 :: b1 =>
      (match readStr (b1.length + 1) b1 [] with
       | some (name, b2) =>
         (match skipWs b2 with
          | 58 :: b3 =>
            (match readVal f b3 with
             | some (v, r) =>
               (match skipWs r with
                | 44 :: r' => readMembers f r' ((keyOf name, v) :: acc)
                | 125 :: r' => some (((keyOf name, v) :: acc).reverse, r')
                | _ => none)
             | none => none)
          | _ => none)
       | none => none)
    | _ => none
end

/-- `serde_json::from_str`: one value, then nothing but white space -/
def readText (b : Bytes) : Option Json :=
  match readVal (b.length + 1) b with
  | some (j, r) => if skipWs r = [] then some j else none
  | none => none

/-- `SlurmFile::from_str` -/
def readFile (b : Bytes) : Option SlurmFile :=
  (readText b).bind fun j => SlurmFile.fromJson (retype .top j)

end Rpki.JsonRead
