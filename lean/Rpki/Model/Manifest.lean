/-
  Manifest content (`src/repository/manifest.rs`): `FileAndHash::validate_file_name`,
  `skip_opt_in` / `take_opt_from`, `ManifestContent::take_from` (entry counting, thisUpdate ≤
  nextUpdate), `FileListIter`, `iter_uris`, `ManifestHash::verify`.
-/
import Rpki.Model.Der
import Rpki.Model.X509
import Rpki.Model.Uri
import Rpki.Gen.Consts
namespace Rpki.Manifest
open Rpki.Der

/-- `u8::is_ascii_alphabetic` -/
def isAlpha (c : Nat) : Bool := (65 ≤ c && c ≤ 90) || (97 ≤ c && c ≤ 122)
/-- `u8::is_ascii_alphanumeric` -/
def isAlnum (c : Nat) : Bool := isAlpha c || (48 ≤ c && c ≤ 57)
/-- `valid_rfc9286_character` -/
def validChar (c : Nat) : Bool := c = 45 || c = 95 || isAlnum c

/-- the `while let Some((c, tail)) = n.split_first()` loop: `none` for an invalid character,
otherwise what is left after the first dot (or nothing) -/
def scanStem : Bytes → Option Bytes
  | [] => some []
  | c :: tail =>
    if c = 46 then some tail
    else if !validChar c then none
    else scanStem tail

/-- `FileAndHash::validate_file_name`; `mftExtLen` is read from the source -/
def validName (name : Bytes) : Bool :=
  match scanStem name with
  | none => false
  | some n => n.length = Rpki.Consts.mftExtLen && n.all isAlpha

structure Entry where
  name : Bytes
  hash : Bytes
deriving DecidableEq, Repr

/-- `BitString::from_content` (DER): content = unused-bits octet followed by the bits -/
def bitStringTake (c : Bytes) : Option (Nat × Bytes) :=
  match c with
  | [] => none
  | unused :: bits =>
    if unused > 7 then none
    else if bits = [] ∧ unused > 0 then none
    else if unused > 0 then
      match bits.getLast? with
      | some last => if last % 2 ^ unused ≠ 0 then none else some (unused, bits)
      | none => some (unused, bits)
    else some (unused, bits)

/-- `BitString::skip_content` (DER): the same checks, written on the remaining-length arithmetic -/
def bitStringSkip (c : Bytes) : Bool :=
  match c with
  | [] => false
  | unused :: bits =>
    if unused > 7 then false
    else if bits.length = 0 then (if unused > 0 then false else true)
    else
      let last := (bits.drop (bits.length - 1)).headD 0
      if unused > 0 then (if last % 2 ^ unused ≠ 0 then false else true) else true

/-- `Ia5String::take_from`: a primitive with the IA5String tag whose octets are all ASCII -/
def takeIa5 (b : Bytes) : Option (Bytes × Bytes) :=
  match takePrim tagIa5 b with
  | none => none
  | some (c, r) => if c.all (· < 128) then some (c, r) else none

/-- the closure of `take_opt_from` on the content of one entry's SEQUENCE -/
def takeEntryBody (c : Bytes) : Option Entry :=
  match takeIa5 c with
  | none => none
  | some (file, r) =>
    if !validName file then none
    else match takePrim tagBitString r with
      | none => none
      | some (bc, r') =>
        match bitStringTake bc with
        | none => none
        | some (_, bits) => if r' = [] then some ⟨file, bits⟩ else none

/-- the closure of `skip_opt_in` -/
def skipEntryBody (c : Bytes) : Bool :=
  match takeIa5 c with
  | none => false
  | some (file, r) =>
    if !validName file then false
    else match takePrim tagBitString r with
      | none => false
      | some (bc, r') => bitStringSkip bc && r' = []

/-- `FileAndHash::take_opt_from` -/
def takeOptEntry (b : Bytes) : Take Entry :=
  match takeOptCons tagSeq b with
  | .absent => .absent
  | .bad => .bad
  | .ok c rest => match takeEntryBody c with
    | none => .bad
    | some e => .ok e rest

/-- `FileAndHash::skip_opt_in` -/
def skipOptEntry (b : Bytes) : Take Unit :=
  match takeOptCons tagSeq b with
  | .absent => .absent
  | .bad => .bad
  | .ok c rest => if skipEntryBody c then .ok () rest else .bad

/-- the counting loop in `ManifestContent::take_from` over the content of the fileList SEQUENCE;
the enclosing `take_sequence` demands that nothing is left (`absent` with data left is an error).
Fuel = number of octets (every entry consumes at least two). -/
def countLoop : Nat → Bytes → Nat → Option Nat
  | 0, b, n => if b = [] then some n else none
  | fuel + 1, b, n =>
    match skipOptEntry b with
    | .absent => if b = [] then some n else none
    | .bad => none
    | .ok () rest => countLoop fuel rest (n + 1)

/-- `FileListIter`: `none` = the `unwrap()` inside `next` panics -/
def iterLoop : Nat → Bytes → Option (List Entry)
  | 0, _ => some []
  | fuel + 1, b =>
    match takeOptEntry b with
    | .absent => some []
    | .bad => none
    | .ok e rest => (iterLoop fuel rest).map (e :: ·)

structure Content where
  number : Bytes            -- 20-octet serial
  thisUpdate : X509.Civil
  nextUpdate : X509.Civil
  fileList : Bytes          -- captured content of the fileList SEQUENCE
  len : Nat
deriving Repr

def Content.iter (m : Content) : Option (List Entry) := iterLoop m.fileList.length m.fileList

/-- `Time::take_from`: UTCTime or GeneralizedTime -/
def takeTime (b : Bytes) : Option (X509.Civil × Bytes) :=
  match takeOptPrim tagUtcTime b with
  | .ok c r => (X509.decodeTime .utc c).map (·, r)
  | .bad => none
  | .absent =>
    match takeOptPrim tagGenTime b with
    | .ok c r => (X509.decodeTime .generalized c).map (·, r)
    | _ => none

/-- calendar order = order of the instants for valid dates -/
def civilKey (c : X509.Civil) : Nat :=
  ((((c.y * 13 + c.m) * 32 + c.d) * 24 + c.h) * 60 + c.mi) * 61 + c.s

def sha256Oid : Bytes := [96, 134, 72, 1, 101, 3, 4, 2, 1]

/-- optional `[0] EXPLICIT` version, which must be `INTEGER 0` -/
def takeVersion (c : Bytes) : Option Bytes :=
  match takeOptCons 0xA0 c with
  | .absent => some c
  | .bad => none
  | .ok vc r => if vc = [2, 1, 0] then some r else none

/-- the fields after the version -/
def decodeFields (c1 : Bytes) : Option Content :=
  match takePrim tagInt c1 with
  | none => none
  | some (sc, c2) =>
  match X509.decodeSerialContent sc with
  | none => none
  | some number =>
  match takeTime c2 with
  | none => none
  | some (tu, c3) =>
  match takeTime c3 with
  | none => none
  | some (nu, c4) =>
  match takePrim tagOid c4 with
  | none => none
  | some (oid, c5) =>
  if oid ≠ sha256Oid then none
  else if civilKey tu > civilKey nu then none
  else match takeCons tagSeq c5 with
    | none => none
    | some (fl, c6) =>
      if c6 ≠ [] then none
      else match countLoop fl.length fl 0 with
        | none => none
        | some n => some ⟨number, tu, nu, fl, n⟩

/-- `ManifestContent::take_from` inside `Mode::Der.decode`.  The top-level source is unbounded for
bcder, so octets after the outer SEQUENCE are not looked at. -/
def decodeContent (b : Bytes) : Option Content :=
  match takeCons tagSeq b with
  | none => none
  | some (c, _) =>
    match takeVersion c with
    | none => none
    | some c1 => decodeFields c1

/-! ### encoding (`ManifestContent::new` + `encode_ref`, `FileAndHash::encode_ref`) -/

/-- `Time::encode_generalized_time` -/
def genTime (c : X509.Civil) : Bytes :=
  X509.pad4 c.y ++ X509.pad2 c.m ++ X509.pad2 c.d ++ X509.pad2 c.h ++ X509.pad2 c.mi ++ X509.pad2 c.s ++ [90]

/-- `FileAndHash::encode_ref`: SEQUENCE { IA5String file, BIT STRING hash (no unused bits) } -/
def encodeEntry (e : Entry) : Bytes := tlv tagSeq (tlv tagIa5 e.name ++ tlv tagBitString (0 :: e.hash))

/-- the captured file list of `ManifestContent::new` -/
def encodeFileList (es : List Entry) : Bytes := (es.map encodeEntry).flatten

/-- `ManifestContent::encode_ref` (version omitted, both times as GeneralizedTime) -/
def encodeContent (number : Bytes) (thisUpdate nextUpdate : X509.Civil) (es : List Entry) : Bytes :=
  tlv tagSeq (
    tlv tagInt (X509.encodeContent number) ++
    tlv tagGenTime (genTime thisUpdate) ++
    tlv tagGenTime (genTime nextUpdate) ++
    tlv tagOid sha256Oid ++
    tlv tagSeq (encodeFileList es))

/-- `iter_uris`: `none` = the `unwrap()` on `join` panics -/
def iterUris (m : Content) (base : Uri.Rsync) : Option (List (Uri.Rsync × Bytes)) :=
  match m.iter with
  | none => none
  | some es => es.mapM (fun e => match base.join e.name with
      | .ok u => some (u, e.hash)
      | .error _ => none)

/-- `ManifestHash::verify` with the digest function as a parameter -/
def hashVerify (digest : Bytes → Bytes) (hash data : Bytes) : Bool := hash = digest data

end Rpki.Manifest
