/-
  RFC 6492 provisioning ("up-down") protocol messages (`src/ca/provisioning.rs`): the message values
  the public constructors build and the XML document `Message::write_xml` writes for them, as a tree
  of the generic document model.  Element and attribute names, the namespace, the version, the
  payload type names and the order of the children of `<class>` (`certificate*` then `issuer`) are
  those of RFC 6492 section 3; resource sets are written in the text form of `Model/ResText.lean`,
  certificates and requests in Base64, subject key identifiers in unpadded URL-safe Base64.
-/
import Rpki.Model.PubMsg
import Rpki.Model.ResText
import Rpki.Model.X509
namespace Rpki.ProvMsg
open Rpki.Xml Rpki.XmlDoc Rpki.Chain
open Rpki.PubMsg (s lookup)

def ns : Bytes := s "http://www.apnic.net/specs/rescerts/up-down/"
def version : Bytes := s "1"

/-- canonical chains; IPv4 addresses in the upper 32 bits of the 128-bit space -/
structure ResSet where
  asn : List Blk
  v4 : List Blk
  v6 : List Blk
deriving Repr, DecidableEq

/-- `RequestResourceLimit`: each resource type absent (everything entitled) or an explicit set -/
structure Limit where
  asn : Option (List Blk)
  v4 : Option (List Blk)
  v6 : Option (List Blk)
deriving Repr, DecidableEq

structure Issued where
  url : Bytes
  limit : Limit
  cert : Bytes
deriving Repr, DecidableEq

structure Class where
  name : Bytes
  url : Bytes
  res : ResSet
  notAfter : X509.Civil
  issued : List Issued
  issuer : Bytes
deriving Repr, DecidableEq

inductive Payload where
  | list
  | listResponse (cs : List Class)
  | issue (name : Bytes) (limit : Limit) (csr : Bytes)
  | issueResponse (c : Class)
  | revoke (name ski : Bytes)
  | revokeResponse (name ski : Bytes)
  | error (status : Nat) (description : Option Bytes)
deriving Repr, DecidableEq

structure Msg where
  sender : Bytes
  recipient : Bytes
  payload : Payload
deriving Repr, DecidableEq

def typeName : Payload → Bytes
  | .list => s "list"
  | .listResponse _ => s "list_response"
  | .issue .. => s "issue"
  | .issueResponse _ => s "issue_response"
  | .revoke .. => s "revoke"
  | .revokeResponse .. => s "revoke_response"
  | .error .. => s "error_response"

/-- unpadded URL-safe Base64 (`base64::Slurm`) -/
def b64Url (d : Bytes) : Bytes :=
  ((b64Encode d).filter (· ≠ 61)).map fun c => if c = 43 then 45 else if c = 47 then 95 else c

/-- `to_rfc3339_opts(SecondsFormat::Secs, true)` for the years 0000 … 9999 -/
def rfc3339 (c : X509.Civil) : Bytes :=
  X509.pad4 c.y ++ [45] ++ X509.pad2 c.m ++ [45] ++ X509.pad2 c.d ++ [84] ++
  X509.pad2 c.h ++ [58] ++ X509.pad2 c.mi ++ [58] ++ X509.pad2 c.s ++ [90]

def fmtV4 (c : List Blk) : Bytes := ResText.fmtIp true (c.map ResText.tagged)
def fmtV6 (c : List Blk) : Bytes := ResText.fmtIp false (c.map ResText.tagged)

def limitAttrs (l : Limit) : List (Bytes × Bytes) :=
  (match l.asn with | some c => [(s "req_resource_set_as", ResText.fmtAs c)] | none => []) ++
  (match l.v4 with | some c => [(s "req_resource_set_ipv4", fmtV4 c)] | none => []) ++
  (match l.v6 with | some c => [(s "req_resource_set_ipv6", fmtV6 c)] | none => [])

def b64Text (d : Bytes) : Option Nodes := some (.cons (.text (b64Encode d)) .nil)

def issuedNode (i : Issued) : Node :=
  .elem (s "certificate") ([(s "cert_url", escapeAttr i.url)] ++ limitAttrs i.limit) (b64Text i.cert)

def classNode (c : Class) : Node :=
  .elem (s "class")
    [(s "class_name", escapeAttr c.name), (s "cert_url", escapeAttr c.url),
     (s "resource_set_as", ResText.fmtAs c.res.asn), (s "resource_set_ipv4", fmtV4 c.res.v4),
     (s "resource_set_ipv6", fmtV6 c.res.v6), (s "resource_set_notafter", rfc3339 c.notAfter)]
    (some (Nodes.ofList (c.issued.map issuedNode ++ [.elem (s "issuer") [] (b64Text c.issuer)])))

def keyNode (name ski : Bytes) : Node :=
  .elem (s "key") [(s "class_name", escapeAttr name), (s "ski", b64Url ski)] none

def body : Payload → List Node
  | .list => []
  | .listResponse cs => cs.map classNode
  | .issue name l csr => [.elem (s "request") ([(s "class_name", escapeAttr name)] ++ limitAttrs l) (b64Text csr)]
  | .issueResponse c => [classNode c]
  | .revoke n k => [keyNode n k]
  | .revokeResponse n k => [keyNode n k]
  | .error st d =>
    [.elem (s "status") [] (some (.cons (.text (ResText.decimal st)) .nil))] ++
    (match d with | some t => [.elem (s "description") [] (some (.cons (.text t) .nil))] | none => [])

def toTree (m : Msg) : Node :=
  .elem (s "message")
    [(s "xmlns", ns), (s "version", version), (s "sender", escapeAttr m.sender),
     (s "recipient", escapeAttr m.recipient), (s "type", typeName m.payload)]
    (some (Nodes.ofList (body m.payload)))

def write (m : Msg) : Bytes := writeDoc (toTree m)

/-! ### `RequestResourceLimit::apply_to` -/

def Limit.isEmpty (l : Limit) : Bool := l.asn.isNone && l.v4.isNone && l.v6.isNone

/-- one resource type: the set's own blocks when the limit says nothing, the limit's blocks when
the set holds all of them, failure otherwise -/
def pick (limit : Option (List Blk)) (have_ : List Blk) : Option (List Blk) :=
  match limit with
  | none => some have_
  | some want => if isEncompassed want have_ then some want else none

/-- `apply_to`: `none` is `Err(Error::limit(..))` -/
def applyTo (l : Limit) (s : ResSet) : Option ResSet :=
  if l.isEmpty then some s
  else match pick l.asn s.asn with
    | none => none
    | some a => match pick l.v4 s.v4 with
      | none => none
      | some b => match pick l.v6 s.v6 with
        | none => none
        | some c => some ⟨a, b, c⟩

/-! ### reading a tree back (reference reader for the documents written above) -/

def readAs (v : Bytes) : Option (List Blk) := ResText.parseAs v
def readIp (v4 : Bool) (v : Bytes) : Option (List Blk) :=
  (ResText.parseIpItems v4 v).bind fun items =>
    let bs := items.map ResText.tblkBounds
    if bs.all (fun b => b.lo ≤ b.hi) then some (fromIter (2 ^ 128 - 1) bs) else none

def two (a b : Nat) : Option Nat :=
  if 48 ≤ a ∧ a ≤ 57 ∧ 48 ≤ b ∧ b ≤ 57 then some ((a - 48) * 10 + (b - 48)) else none

/-- `YYYY-MM-DDTHH:MM:SSZ` -/
def readTime : Bytes → Option X509.Civil
  | [y1, y2, y3, y4, 45, m1, m2, 45, d1, d2, 84, h1, h2, 58, i1, i2, 58, s1, s2, 90] =>
    match two y1 y2, two y3 y4, two m1 m2, two d1 d2, two h1 h2, two i1 i2, two s1 s2 with
    | some ya, some yb, some m, some d, some h, some mi, some s => some ⟨ya * 100 + yb, m, d, h, mi, s⟩
    | _, _, _, _, _, _, _ => none
  | _ => none

/-- unpadded URL-safe Base64 back to octets -/
def unB64Url (v : Bytes) : Option Bytes :=
  let std := v.map fun c => if c = 45 then 43 else if c = 95 then 47 else c
  let pad := match std.length % 4 with | 2 => [61, 61] | 3 => [61] | _ => []
  b64Decode (std ++ pad)

def readB64 : Option Nodes → Option Bytes
  | some .nil => some []
  | some (.cons (.text t) .nil) => xmlB64Decode t
  | _ => none

def optRead (name : String) (f : Bytes → Option (List Blk)) (attrs : List (Bytes × Bytes)) : Option (Option (List Blk)) :=
  match lookup (s name) attrs with
  | none => some none
  | some v => (f v).map some

def readLimit (attrs : List (Bytes × Bytes)) : Option Limit :=
  match optRead "req_resource_set_as" readAs attrs, optRead "req_resource_set_ipv4" (readIp true) attrs,
        optRead "req_resource_set_ipv6" (readIp false) attrs with
  | some a, some b, some c => some ⟨a, b, c⟩
  | _, _, _ => none

def attrText (name : String) (attrs : List (Bytes × Bytes)) : Option Bytes := (lookup (s name) attrs).bind unescapeAll

def readIssued : Node → Option Issued
  | .elem name attrs body =>
    if name ≠ s "certificate" then none else
    match attrText "cert_url" attrs, readLimit attrs, readB64 body with
    | some u, some l, some c => some ⟨u, l, c⟩
    | _, _, _ => none
  | .text _ => none

/-- the children of `<class>`: `certificate*` then one `issuer` -/
def readClassKids : List Node → Option (List Issued × Bytes)
  | [] => none
  | [.elem name [] body] => if name = s "issuer" then (readB64 body).map fun c => ([], c) else none
  | k :: rest =>
    match readIssued k, readClassKids rest with
    | some i, some (is, c) => some (i :: is, c)
    | _, _ => none

def readClass : Node → Option Class
  | .elem name attrs (some kids) =>
    if name ≠ s "class" then none else
    match attrText "class_name" attrs, attrText "cert_url" attrs,
          (lookup (s "resource_set_as") attrs).bind readAs, (lookup (s "resource_set_ipv4") attrs).bind (readIp true),
          (lookup (s "resource_set_ipv6") attrs).bind (readIp false), (lookup (s "resource_set_notafter") attrs).bind readTime,
          readClassKids kids.toList with
    | some n, some u, some a, some v4, some v6, some t, some (is, c) => some ⟨n, u, ⟨a, v4, v6⟩, t, is, c⟩
    | _, _, _, _, _, _, _ => none
  | _ => none

def readKey : Node → Option (Bytes × Bytes)
  | .elem name attrs none =>
    if name ≠ s "key" then none else
    match attrText "class_name" attrs, (lookup (s "ski") attrs).bind unB64Url with
    | some n, some k => some (n, k)
    | _, _ => none
  | _ => none

def readDecimal (t : Bytes) : Option Nat :=
  if t = [] ∨ !t.all ResText.isDigit then none else some (t.foldl (fun acc c => acc * 10 + (c - 48)) 0)

def readPayload (ty : Bytes) (ks : List Node) : Option Payload :=
  if ty = s "list" then (if ks = [] then some .list else none)
  else if ty = s "list_response" then (ks.mapM readClass).map .listResponse
  else if ty = s "issue" then
    (match ks with
     | [.elem name attrs body] =>
       if name ≠ s "request" then none else
       (match attrText "class_name" attrs, readLimit attrs, readB64 body with
        | some n, some l, some c => some (.issue n l c)
        | _, _, _ => none)
     | _ => none)
  else if ty = s "issue_response" then
    (match ks with
     | [k] => (readClass k).bind fun c => if c.issued.length = 1 then some (.issueResponse c) else none
     | _ => none)
  else if ty = s "revoke" then
    (match ks with | [k] => (readKey k).map fun (n, sk) => .revoke n sk | _ => none)
  else if ty = s "revoke_response" then
    (match ks with | [k] => (readKey k).map fun (n, sk) => .revokeResponse n sk | _ => none)
  else if ty = s "error_response" then
    (match ks with
     | [.elem n1 [] (some (.cons (.text st) .nil))] =>
       if n1 = s "status" then (readDecimal st).map fun v => .error v none else none
     | [.elem n1 [] (some (.cons (.text st) .nil)), .elem n2 [] (some (.cons (.text d) .nil))] =>
       if n1 = s "status" ∧ n2 = s "description" then (readDecimal st).map fun v => .error v (some d) else none
     | _ => none)
  else none

def ofTree : Node → Option Msg
  | .elem name attrs (some kids) =>
    if name ≠ s "message" ∨ lookup (s "xmlns") attrs ≠ some ns ∨ lookup (s "version") attrs ≠ some version then none else
    match attrText "sender" attrs, attrText "recipient" attrs, lookup (s "type") attrs with
    | some sn, some rc, some ty => (readPayload ty kids.toList).map fun p => ⟨sn, rc, p⟩
    | _, _, _ => none
  | _ => none

def read (doc : Bytes) : Option Msg := (parseDoc doc).bind ofTree

end Rpki.ProvMsg
