/-
  RFC 6492 provisioning ("up-down") protocol messages (`src/ca/provisioning.rs`): the message values
  the public constructors build and the XML document `Message::write_xml` writes for them, as a tree
  of the generic document model.  Element and attribute names, the namespace, the version, the
  payload type names and the order of the children of `<class>` (`certificate*` then `issuer`) are
  those of RFC 6492 section 3; resource sets are written in the text form of `Model/ResText.lean`,
  certificates and requests in Base64, subject key identifiers in unpadded URL-safe Base64.
-/
import Rpki.Model.PubMsg
import Rpki.Model.ResText
import Rpki.Model.X509
namespace Rpki.ProvMsg
open Rpki.Xml Rpki.XmlDoc Rpki.Chain
open Rpki.PubMsg (s lookup)

def ns : Bytes := s "http://www.apnic.net/specs/rescerts/up-down/"
def version : Bytes := s "1"

/-- canonical chains; IPv4 addresses in the upper 32 bits of the 128-bit space -/
structure ResSet where
  asn : List Blk
  v4 : List Blk
  v6 : List Blk
deriving Repr, DecidableEq

/-- `RequestResourceLimit`: each resource type absent (everything entitled) or an explicit set -/
structure Limit where
  asn : Option (List Blk)
  v4 : Option (List Blk)
  v6 : Option (List Blk)
deriving Repr, DecidableEq

structure Issued where
  url : Bytes
  limit : Limit
  cert : Bytes
deriving Repr, DecidableEq

structure Class where
  name : Bytes
  url : Bytes
  res : ResSet
  notAfter : X509.Civil
  issued : List Issued
  issuer : Bytes
deriving Repr, DecidableEq

inductive Payload where
  | list
  | listResponse (cs : List Class)
  | issue (name : Bytes) (limit : Limit) (csr : Bytes)
  | issueResponse (c : Class)
  | revoke (name ski : Bytes)
  | revokeResponse (name ski : Bytes)
  | error (status : Nat) (description : Option Bytes)
deriving Repr, DecidableEq

structure Msg where
  sender : Bytes
  recipient : Bytes
  payload : Payload
deriving Repr, DecidableEq

def typeName : Payload → Bytes
  | .list => s "list"
  | .listResponse _ => s "list_response"
  | .issue .. => s "issue"
  | .issueResponse _ => s "issue_response"
  | .revoke .. => s "revoke"
  | .revokeResponse .. => s "revoke_response"
  | .error .. => s "error_response"

/-- unpadded URL-safe Base64 (`base64::Slurm`) -/
def b64Url (d : Bytes) : Bytes :=
  ((b64Encode d).filter (· ≠ 61)).map fun c => if c = 43 then 45 else if c = 47 then 95 else c

/-- `to_rfc3339_opts(SecondsFormat::Secs, true)` for the years 0000 … 9999 -/
def rfc3339 (c : X509.Civil) : Bytes :=
  X509.pad4 c.y ++ [45] ++ X509.pad2 c.m ++ [45] ++ X509.pad2 c.d ++ [84] ++
  X509.pad2 c.h ++ [58] ++ X509.pad2 c.mi ++ [58] ++ X509.pad2 c.s ++ [90]

def fmtV4 (c : List Blk) : Bytes := ResText.fmtIp true (c.map ResText.tagged)
def fmtV6 (c : List Blk) : Bytes := ResText.fmtIp false (c.map ResText.tagged)

def limitAttrs (l : Limit) : List (Bytes × Bytes) :=
  (match l.asn with | some c => [(s "req_resource_set_as", ResText.fmtAs c)] | none => []) ++
  (match l.v4 with | some c => [(s "req_resource_set_ipv4", fmtV4 c)] | none => []) ++
  (match l.v6 with | some c => [(s "req_resource_set_ipv6", fmtV6 c)] | none => [])

def b64Text (d : Bytes) : Option Nodes := some (.cons (.text (b64Encode d)) .nil)

def issuedNode (i : Issued) : Node :=
  .elem (s "certificate") ([(s "cert_url", escapeAttr i.url)] ++ limitAttrs i.limit) (b64Text i.cert)

def classNode (c : Class) : Node :=
  .elem (s "class")
    [(s "class_name", escapeAttr c.name), (s "cert_url", escapeAttr c.url),
     (s "resource_set_as", ResText.fmtAs c.res.asn), (s "resource_set_ipv4", fmtV4 c.res.v4),
     (s "resource_set_ipv6", fmtV6 c.res.v6), (s "resource_set_notafter", rfc3339 c.notAfter)]
    (some (Nodes.ofList (c.issued.map issuedNode ++ [.elem (s "issuer") [] (b64Text c.issuer)])))

def keyNode (name ski : Bytes) : Node :=
  .elem (s "key") [(s "class_name", escapeAttr name), (s "ski", b64Url ski)] none

def body : Payload → List Node
  | .list => []
  | .listResponse cs => cs.map classNode
  | .issue name l csr => [.elem (s "request") ([(s "class_name", escapeAttr name)] ++ limitAttrs l) (b64Text csr)]
  | .issueResponse c => [classNode c]
  | .revoke n k => [keyNode n k]
  | .revokeResponse n k => [keyNode n k]
  | .error st d =>
    [.elem (s "status") [] (some (.cons (.text (ResText.decimal st)) .nil))] ++
    (match d with | some t => [.elem (s "description") [] (some (.cons (.text t) .nil))] | none => [])

def toTree (m : Msg) : Node :=
  .elem (s "message")
    [(s "xmlns", ns), (s "version", version), (s "sender", escapeAttr m.sender),
     (s "recipient", escapeAttr m.recipient), (s "type", typeName m.payload)]
    (some (Nodes.ofList (body m.payload)))

def write (m : Msg) : Bytes := writeDoc (toTree m)

end Rpki.ProvMsg
