/-
  The readers of the DER model with bcder's decoding mode as a parameter (`ber = true`: `Mode::Ber`, what the
  `strict = false` entry points use; `ber = false`: `Mode::Der`).  These are all the places where bcder asks
  for the mode: the length octets (`Length::take_from`), indefinite-length constructed values
  (`Constructed::process_next_value`), BOOLEAN (`Primitive::to_bool`), the unused bits of a BIT STRING
  (`BitString::from_content`) and constructed OCTET STRINGs (`OctetString::from_content`).
  `Gen/BerModel.lean` is the rest of the decoder model rewritten over these readers by `tools/gen_ber_model.py`.
-/
import Rpki.Model.Skip
import Rpki.Model.Manifest
namespace Rpki.Der

/-- `Length::take_from`, definite forms: in BER mode the long forms need not be minimal -/
def readLenM (ber : Bool) : Bytes → Option (Nat × Bytes)
  | [] => none
  | n :: r =>
    if n < 128 then some (n, r)
    else if n = 0x81 then
      match r with
      | a :: r' => if ber ∨ a > 127 then some (a, r') else none
      | _ => none
    else if n = 0x82 then
      match r with
      | a :: b :: r' => let l := a * 256 + b; if ber ∨ l > 255 then some (l, r') else none
      | _ => none
    else if n = 0x83 then
      match r with
      | a :: b :: c :: r' =>
        let l := a * 65536 + b * 256 + c; if ber ∨ l > 0xFFFF then some (l, r') else none
      | _ => none
    else if n = 0x84 then
      match r with
      | a :: b :: c :: d :: r' =>
        let l := a * 16777216 + b * 65536 + c * 256 + d
        if ber ∨ l > 0xFFFFFF then some (l, r') else none
      | _ => none
    else none

end Rpki.Der

namespace Rpki.CertDer
open Rpki.Der

def readLenXM (ber : Bool) (b : Bytes) : Option (Len × Bytes) :=
  match b with
  | 0x80 :: r => some (.indefinite, r)
  | _ => (readLenM ber b).map fun (n, r) => (.definite n, r)

/-- `skip_opt` with the mode's length rule -/
def skipLoopM (ber : Bool) : Nat → Bytes → List Frame → Option Bytes
  | 0, _, _ => none
  | fuel + 1, cur, st =>
    match takeTagAny cur with
    | none => none
    | some (t, r) =>
      match readLenXM ber r with
      | none => none
      | some (len, r') =>
        let next (c : Bytes) (s : List Frame) : Option Bytes :=
          match post c s with
          | .done rest => some rest
          | .more c' s' => skipLoopM ber fuel c' s'
          | .fail => none
        if !isCons t then
          if t = 0 then
            match len, st with
            | .definite 0, .indefinite :: st' => next r' st'
            | _, _ => none
          else
            match len with
            | .definite n => if r'.length < n then none else next (r'.drop n) st
            | .indefinite => none
        else
          match len with
          | .definite n => if r'.length < n then none else next (r'.take n) (.definite (r'.drop n) :: st)
          | .indefinite => skipLoopM ber fuel r' (.indefinite :: st)

def skipOneM (ber : Bool) (b : Bytes) : Option Bytes := skipLoopM ber (b.length + 1) b []

def skipAllM (ber : Bool) : Nat → Bytes → Bool
  | 0, b => b = []
  | fuel + 1, b => if b = [] then true else
    match skipOneM ber b with
    | none => false
    | some rest => skipAllM ber fuel rest

/-- the children of an indefinite-length value up to its end-of-contents octets, and what follows them -/
def indefBodyM (ber : Bool) : Nat → Bytes → Option (Bytes × Bytes)
  | 0, _ => none
  | fuel + 1, cur =>
    match cur with
    | [] => none
    | 0 :: r =>
      match readLenXM ber r with
      | some (.definite 0, r') => some ([], r')
      | _ => none
    | _ =>
      match skipOneM ber cur with
      | none => none
      | some rest' =>
        (indefBodyM ber fuel rest').map fun (c, rest) => (cur.take (cur.length - rest'.length) ++ c, rest)

end Rpki.CertDer

namespace Rpki.Der
open Rpki.CertDer

/-- one value: identifier octet, content octets, what follows, and whether the length was indefinite.  Definite
length in both modes; in BER mode a constructed value may have the indefinite form, whose content ends at the
matching end-of-contents -/
def readTlvIM (ber : Bool) (b : Bytes) : Option (Nat × Bytes × Bytes × Bool) :=
  match b with
  | [] => none
  | t :: r =>
    if t % 32 = 31 then none
    else match readLenXM ber r with
      | none => none
      | some (.definite l, r') => if r'.length < l then none else some (t, r'.take l, r'.drop l, false)
      | some (.indefinite, r') =>
        if !ber ∨ !isCons t then none
        else (indefBodyM ber (r'.length + 1) r').map fun (c, rest) => (t, c, rest, true)

def readTlvM (ber : Bool) (b : Bytes) : Option (Nat × Bytes × Bytes) :=
  (readTlvIM ber b).map fun (t, c, rest, _) => (t, c, rest)

/-- `take_opt_constructed_if`: content, whether the length was indefinite; rest -/
def takeOptConsIM (ber : Bool) (tag : Nat) (b : Bytes) : Take (Bytes × Bool) :=
  match b with
  | [] => .absent
  | t :: _ =>
    if t % 32 = 31 then .bad
    else if tagNoCons t ≠ tagNoCons tag then .absent
    else if !isCons t then .bad
    else match readTlvIM ber b with
      | none => .bad
      | some (_, c, rest, i) => .ok (c, i) rest

def takeOptConsM (ber : Bool) (tag : Nat) (b : Bytes) : Take Bytes :=
  match takeOptConsIM ber tag b with
  | .absent => .absent
  | .bad => .bad
  | .ok (c, _) rest => .ok c rest

/-- the primitive leaves of a constructed OCTET STRING (`take_constructed_ber`): every nested value must be an
OCTET STRING, primitive or constructed -/
def octetLeavesM (ber : Bool) : Nat → Bytes → Option Bytes
  | 0, b => if b = [] then some [] else none
  | fuel + 1, b =>
    match b with
    | [] => some []
    | t :: _ =>
      if t % 32 = 31 then none
      else if tagNoCons t ≠ tagOctetString then none
      else match readTlvM ber b with
        | none => none
        | some (_, c, rest) =>
          match (if isCons t then octetLeavesM ber fuel c else some c), octetLeavesM ber fuel rest with
          | some a, some r => some (a ++ r)
          | _, _ => none

/-- `take_opt_primitive_if` / `take_opt_value_if` with a content reader for a primitive value; where the content
reader is `OctetString::from_content` (OCTET STRING, the `[0]` of a signer identifier, and the restricted strings
PrintableString and UTF8String, which bcder reads as octet strings first) the constructed form is admitted in BER mode -/
def takeOptPrimM (ber : Bool) (tag : Nat) (b : Bytes) : Take Bytes :=
  match b with
  | [] => .absent
  | t :: _ =>
    if t % 32 = 31 then .bad
    else if tagNoCons t ≠ tag then .absent
    else if isCons t then
      if ber ∧ (tag = tagOctetString ∨ tag = 0x80 ∨ tag = 0x13 ∨ tag = 0x0C) then
        match readTlvM ber b with
        | none => .bad
        | some (_, c, rest) =>
          match octetLeavesM ber c.length c with
          | some v => .ok v rest
          | none => .bad
      else .bad
    else match readTlvM ber b with
      | none => .bad
      | some (_, c, rest) => .ok c rest

def takeConsM (ber : Bool) (tag : Nat) (b : Bytes) : Option (Bytes × Bytes) :=
  match takeOptConsM ber tag b with
  | .ok c r => some (c, r)
  | _ => none

def takePrimM (ber : Bool) (tag : Nat) (b : Bytes) : Option (Bytes × Bytes) :=
  match takeOptPrimM ber tag b with
  | .ok c r => some (c, r)
  | _ => none

end Rpki.Der

namespace Rpki.Manifest
open Rpki.Der

/-- `BitString::from_content`: the unused bits must be zero in DER mode only -/
def bitStringTakeM (ber : Bool) (c : Bytes) : Option (Nat × Bytes) :=
  match c with
  | [] => none
  | unused :: bits =>
    if unused > 7 then none
    else if bits = [] ∧ unused > 0 then none
    else if unused > 0 ∧ !ber then
      match bits.getLast? with
      | some last => if last % 2 ^ unused ≠ 0 then none else some (unused, bits)
      | none => some (unused, bits)
    else some (unused, bits)

end Rpki.Manifest

namespace Rpki.CertDer
open Rpki.Der

/-- `take_opt_bool`: one octet; DER admits 0x00 and 0xFF, BER reads every non-zero octet as true -/
def takeOptBoolM (ber : Bool) (b : Bytes) : Take Bool :=
  match takeOptPrimM ber tagBool b with
  | .absent => .absent
  | .bad => .bad
  | .ok c r =>
    match c with
    | [x] => if ber then .ok (x != 0) r else if x = 0 then .ok false r else if x = 255 then .ok true r else .bad
    | _ => .bad

end Rpki.CertDer
