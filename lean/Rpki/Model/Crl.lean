/-
  CRL revocation list (`src/repository/crl.rs`): `CrlEntry::{take_opt_from, encode}`,
  `RevokedCertificates::{take_from (capture), contains, iter, from_iter}`.
-/
import Rpki.Model.Der
import Rpki.Model.X509
import Rpki.Model.Manifest
namespace Rpki.Crl
open Rpki.Der

structure Entry where
  serial : Bytes            -- 20-octet serial number
  date : X509.Civil
deriving DecidableEq, Repr

/-- `CrlEntry::take_opt_from`: an optional SEQUENCE { serial INTEGER, revocationDate Time } -/
def takeOptEntry (b : Bytes) : Take Entry :=
  match takeOptCons tagSeq b with
  | .absent => .absent
  | .bad => .bad
  | .ok c rest =>
    match takePrim tagInt c with
    | none => .bad
    | some (sc, c1) =>
      match X509.decodeSerialContent sc with
      | none => .bad
      | some serial =>
        match Manifest.takeTime c1 with
        | none => .bad
        | some (date, c2) => if c2 = [] then .ok ⟨serial, date⟩ rest else .bad

/-- `CrlEntry::encode`: the time as `encode_varied` writes it -/
def encodeEntry (e : Entry) : Bytes :=
  let t := X509.encodeVaried e.date
  tlv tagSeq (tlv tagInt (X509.encodeContent e.serial) ++
    tlv (match t.1 with | .utc => tagUtcTime | .generalized => tagGenTime) t.2)

/-- the captured list: content of the `revokedCertificates` SEQUENCE (`from_iter`) -/
def encodeList (es : List Entry) : Bytes := (es.map encodeEntry).flatten

/-- `RevokedCertificates::take_from`: the counting pass (`while take_opt_from(cons)?.is_some()`) -/
def capture (b : Bytes) : Option Nat := capturePass takeOptEntry (fun _ => true) b.length b 0

/-- `RevokedCertificates::iter` collected; `none` = the `unwrap()` fails -/
def entries (b : Bytes) : Option (List Entry) := iteratePass takeOptEntry b.length b

/-- `RevokedCertificates::contains`: walk the captured list until the serial is found;
`none` = one of the `unwrap()`s fails -/
def containsLoop : Nat → Bytes → Bytes → Option Bool
  | 0, _, _ => some false
  | fuel + 1, b, serial =>
    match takeOptEntry b with
    | .absent => some false
    | .bad => none
    | .ok e rest => if e.serial = serial then some true else containsLoop fuel rest serial

def contains (b serial : Bytes) : Option Bool := containsLoop b.length b serial

end Rpki.Crl
