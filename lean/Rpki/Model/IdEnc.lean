/-
  `TbsIdCert::encode_ref` and `IdCert::encode_ref` (`src/ca/idcert.rs`).  `Proofs/IdEncLemmas.lean` shows that
  `SigMsgDer.decodeTbsId` / `decodeIdCert` read them back.
-/
import Rpki.Model.SigMsgDer
import Rpki.Model.CertEnc
namespace Rpki.IdEnc
open Rpki.Der Rpki.CertDer Rpki.SigMsgDer Rpki.CertEnc Rpki.Consts

/-- the extensions `TbsIdCert::encode_ref` writes, in its order: basic constraints (critical) when set, subject
key identifier, authority key identifier when set -/
def idExtItems (d : IdCertD) : List Bytes :=
  (d.basicCa.map bcBody).toList ++ [skiBody d.ski] ++ (d.aki.map akiBody).toList

/-- `TbsIdCert::encode_ref` -/
def encodeTbsId (d : IdCertD) : Bytes :=
  tlv tagSeq (
    tlv 0xA0 (tlv tagInt [2]) ++
    tlv tagInt (X509.encodeContent d.serial) ++
    sigAlgEnc ++
    d.issuer ++
    tlv tagSeq (timeTlv d.notBefore ++ timeTlv d.notAfter) ++
    d.subject ++
    publicKeyEnc d.keyAlg d.keyUnused d.keyBits ++
    tlv 0xA3 (tlv tagSeq (seqs (idExtItems d))))

/-- `SignedData::encode_ref` around it: the identity certificate as `IdCert::to_captured` writes it -/
def encodeIdCert (d : IdCertD) (signature : Bytes) : Bytes :=
  tlv tagSeq (encodeTbsId d ++ sigAlgEnc ++ tlv tagBitString (0 :: signature))

end Rpki.IdEnc
