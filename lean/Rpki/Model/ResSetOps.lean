/-
  `ResourceSet` (src/repository/resources/set.rs): three canonical chains — AS numbers, IPv4 (in the upper 32 bits
  of the 128-bit space, as the library keeps them), IPv6 — and the operations that work on all three at once.
  Tied to the library by the `rset` / `rset-has` operations of C03.
-/
import Rpki.Model.Chain
import Rpki.Model.ResText
import Rpki.Model.ProvMsg
namespace Rpki.ResSetOps
open Rpki.Chain Rpki.ProvMsg

def M32 : Nat := 4294967295
def M128 : Nat := 2 ^ 128 - 1

/-- `ResourceSet::union` -/
def union (a b : ResSet) : ResSet := ⟨Chain.union M32 a.asn b.asn, Chain.union M128 a.v4 b.v4, Chain.union M128 a.v6 b.v6⟩

/-- `ResourceSet::intersection` -/
def inter (a b : ResSet) : ResSet := ⟨Chain.inter M32 a.asn b.asn, Chain.inter M128 a.v4 b.v4, Chain.inter M128 a.v6 b.v6⟩

/-- `ResourceSet::difference`: what `a` has and `b` lacks ("added"), what `b` has and `a` lacks ("removed") -/
def diff (a b : ResSet) : ResSet × ResSet :=
  (⟨difference a.asn b.asn, difference a.v4 b.v4, difference a.v6 b.v6⟩,
   ⟨difference b.asn a.asn, difference b.v4 a.v4, difference b.v6 a.v6⟩)

def isEmpty (a : ResSet) : Bool := a.asn.isEmpty && a.v4.isEmpty && a.v6.isEmpty

/-- `ResourceDiff::is_empty` -/
def diffIsEmpty (d : ResSet × ResSet) : Bool := isEmpty d.1 && isEmpty d.2

/-- `ResourceSet::contains` -/
def contains (a b : ResSet) : Bool := isEncompassed b.asn a.asn && isEncompassed b.v4 a.v4 && isEncompassed b.v6 a.v6

/-- `ResourceSet::contains_asn`: the chain holding just that number must be contained -/
def containsAsn (a : ResSet) (x : Nat) : Bool := isEncompassed [⟨x, x⟩] a.asn

/-- `ResourceSet::contains_roa_address`: a ROA address carries no family, so both address chains are asked for a
block that covers its 128-bit range -/
def containsRoa (a : ResSet) (lo hi : Nat) : Bool :=
  (a.v4.any fun r => r.lo ≤ lo && hi ≤ r.hi) || (a.v6.any fun r => r.lo ≤ lo && hi ≤ r.hi)

def str (x : String) : List Nat := x.toUTF8.toList.map UInt8.toNat

/-- `ResourceSet: Display` -/
def display (a : ResSet) : List Nat :=
  str "asn: '" ++ ResText.fmtAs a.asn ++ str "', ipv4: '" ++ fmtV4 a.v4 ++ str "', ipv6: '" ++ fmtV6 a.v6 ++ str "'"

def displayPart (a : ResSet) : List Nat :=
  (if a.asn.isEmpty then [] else str " asn: " ++ ResText.fmtAs a.asn) ++
  (if a.v4.isEmpty then [] else str " ipv4: " ++ fmtV4 a.v4) ++
  (if a.v6.isEmpty then [] else str " ipv6: " ++ fmtV6 a.v6)

/-- `ResourceDiff: Display` -/
def diffDisplay (d : ResSet × ResSet) : List Nat :=
  (if diffIsEmpty d then str "<no changes in resources>" else []) ++
  (if !isEmpty d.1 then str "Added:" ++ displayPart d.1 ++ (if !isEmpty d.2 then str " " else []) else []) ++
  (if !isEmpty d.2 then str "Removed:" ++ displayPart d.2 else [])

/-- `ResourceSet::from_strs`: the three text forms, each read by its own parser -/
def fromStrs (asn v4 v6 : List Nat) : Option ResSet :=
  match readAs asn, readIp true v4, readIp false v6 with
  | some a, some b, some c => some ⟨a, b, c⟩
  | _, _, _ => none

end Rpki.ResSetOps
