/-
  RRDP (`src/rrdp.rs`) and the byte budget of the XML reader (`src/xml/decode.rs`):
  `BufReadCounter`, `sort_and_verify_deltas`, `has_matching_origins`, and the three `write_xml`.
-/
import Rpki.Model.Xml
import Rpki.Model.Uri
import Rpki.Gen.Consts
namespace Rpki.Rrdp
open Rpki.Xml

/-! ### the read budget -/

structure Counter where
  trip : Nat
  limit : Nat
deriving Repr, DecidableEq

def u64Max : Nat := 2 ^ 64 - 1

/-- `BufReadCounter::fill_buf`: refused once the trip is over a non-zero limit -/
def Counter.fillOk (c : Counter) : Bool := !(c.limit > 0 && c.trip > c.limit)

/-- `BufReadCounter::consume` (saturating) -/
def Counter.consume (c : Counter) (amt : Nat) : Counter := { c with trip := min (c.trip + amt) u64Max }

/-- `Reader::reset_and_limit` -/
def Counter.resetAndLimit (_ : Counter) (limit : Nat) : Counter := ⟨0, limit⟩

inductive Op
  | fill (avail : Nat)     -- `fill_buf` offering `avail` octets
  | consume (amt : Nat)
  | reset (limit : Nat)
deriving Repr

/-- state of a run: the counter, the size of the last successful fill, octets pulled since the last
reset, and whether a fill has been refused (after which the parser stops reading) -/
structure Run where
  c : Counter
  lastFill : Nat
  pulled : Nat
  refused : Bool
deriving Repr

/-- one step under the `BufRead` contract: a consume never exceeds the last successful fill -/
def step (r : Run) : Op → Run
  | .fill avail => if r.refused then r else if r.c.fillOk then { r with lastFill := avail } else { r with refused := true }
  | .consume amt =>
    if r.refused then r else
    let a := min amt r.lastFill
    { r with c := r.c.consume a, pulled := r.pulled + a, lastFill := r.lastFill - a }
  | .reset limit => { c := r.c.resetAndLimit limit, lastFill := r.lastFill, pulled := 0, refused := false }

def run (r : Run) (ops : List Op) : Run := ops.foldl step r

/-! ### delta chain -/

/-- insertion into an ascending list (stable after equal keys), the effect of `sort_by_key` on serials -/
def insertSorted (x : Nat) : List Nat → List Nat
  | [] => [x]
  | y :: ys => if x < y then x :: y :: ys else y :: insertSorted x ys

def sortSerials : List Nat → List Nat
  | [] => []
  | x :: xs => insertSorted x (sortSerials xs)

/-- the deltas kept after the optional limit: the newest `limit` ones -/
def retained (serials : List Nat) (limit : Option Nat) : List Nat :=
  let s := sortSerials serials
  match limit with
  | some l => if l < s.length then s.drop (s.length - l) else s
  | none => s

inductive Outcome | ok (b : Bool) | panic
deriving Repr, DecidableEq

/-- the `for delta in &deltas[1..]` loop; `rrdpDeltaCheckedAdd` (read from the source) tells whether
`last_seen + 1` is computed with a checked addition or may overflow (panic in checked builds) -/
def chainLoop : Nat → List Nat → Outcome
  | _, [] => .ok true
  | last, d :: rest =>
    if Rpki.Consts.rrdpDeltaCheckedAdd then
      (if last < u64Max ∧ last + 1 = d then chainLoop d rest else .ok false)
    else if last = u64Max then .panic
    else if last + 1 ≠ d then .ok false else chainLoop d rest

/-- `NotificationFile::sort_and_verify_deltas` on the serial numbers -/
def sortAndVerify (serials : List Nat) (limit : Option Nat) : Outcome :=
  match retained serials limit with
  | [] => .ok true
  | first :: rest => chainLoop first rest

/-- consecutive serial numbers -/
def Consecutive : List Nat → Prop
  | [] => True
  | [_] => True
  | a :: b :: rest => b = a + 1 ∧ Consecutive (b :: rest)

/-! ### origins -/

/-- `Https::eq_authority` -/
def eqAuthority (a b : Uri.Https) : Bool := Uri.eqIgnoreCase a.authority b.authority

/-- `NotificationFile::has_matching_origins` -/
def hasMatchingOrigins (base snapshot : Uri.Https) (deltas : List Uri.Https) : Bool :=
  if !eqAuthority base snapshot then false
  else if deltas.any (fun d => !eqAuthority base d) then false
  else true

/-! ### files -/

def ns : Bytes := [104,116,116,112,58,47,47,119,119,119,46,114,105,112,101,46,110,101,116,47,114,112,107,105,47,114,114,100,112]
def sNotification : Bytes := [110,111,116,105,102,105,99,97,116,105,111,110]
def sSnapshot : Bytes := [115,110,97,112,115,104,111,116]
def sDelta : Bytes := [100,101,108,116,97]
def sPublish : Bytes := [112,117,98,108,105,115,104]
def sWithdraw : Bytes := [119,105,116,104,100,114,97,119]
def sXmlns : Bytes := [120,109,108,110,115]
def sVersion : Bytes := [118,101,114,115,105,111,110]
def sSessionId : Bytes := [115,101,115,115,105,111,110,95,105,100]
def sSerial : Bytes := [115,101,114,105,97,108]
def sUri : Bytes := [117,114,105]
def sHash : Bytes := [104,97,115,104]

def decimal (n : Nat) : Bytes := (toString n).toUTF8.toList.map UInt8.toNat

def hexDigit (n : Nat) : Nat := if n < 10 then 48 + n else 87 + n
def hexOf (b : Bytes) : Bytes := b.flatMap fun x => [hexDigit (x / 16), hexDigit (x % 16)]

structure DeltaRef where
  serial : Nat
  uri : Bytes
  hash : Bytes
deriving Repr, DecidableEq

/-- `session` is the hyphenated lower-case text of the UUID -/
structure Notification where
  session : Bytes
  serial : Nat
  snapshotUri : Bytes
  snapshotHash : Bytes
  deltas : List DeltaRef
deriving Repr, DecidableEq

def headAttrs (session : Bytes) (serial : Nat) : List (Bytes × Bytes) :=
  [(sXmlns, ns), (sVersion, [49]), (sSessionId, session), (sSerial, decimal serial)]

/-- `NotificationFile::write_xml` -/
def writeNotification (n : Notification) : Bytes :=
  element 0 sNotification (headAttrs n.session n.serial) (.children (
    element 1 sSnapshot [(sUri, n.snapshotUri), (sHash, hexOf n.snapshotHash)] .empty ::
    n.deltas.map fun d =>
      element 1 sDelta [(sSerial, decimal d.serial), (sUri, d.uri), (sHash, hexOf d.hash)] .empty))

inductive Elem
  | publish (uri : Bytes) (data : Bytes)
  | update (uri : Bytes) (hash : Bytes) (data : Bytes)
  | withdraw (uri : Bytes) (hash : Bytes)
deriving Repr, DecidableEq

def writeElem : Elem → Bytes
  | .publish uri data => element 1 sPublish [(sUri, uri)] (.text (b64Encode data))
  | .update uri hash data => element 1 sPublish [(sUri, uri), (sHash, hexOf hash)] (.text (b64Encode data))
  | .withdraw uri hash => element 1 sWithdraw [(sUri, uri), (sHash, hexOf hash)] .empty

/-- `Snapshot::write_xml` / `Delta::write_xml` -/
def writeFile (root : Bytes) (session : Bytes) (serial : Nat) (elems : List Elem) : Bytes :=
  element 0 root (headAttrs session serial) (.children (elems.map writeElem))

end Rpki.Rrdp
