/-
  Certificate revocation lists on the wire (`src/repository/crl.rs`): `Crl::decode` =
  `SignedData::from_constructed` + `TbsCertList::take_from` on the captured octets + the comparison of
  the two algorithm identifiers; `RevokedCertificates::take_from` (capture), the two extensions.
-/
import Rpki.Model.CertDer
import Rpki.Model.Crl
namespace Rpki.CrlDer
open Rpki.Der Rpki.CertDer Rpki.Consts

structure CrlD where
  issuer : Bytes
  thisUpdate : X509.Civil
  nextUpdate : X509.Civil
  /-- the captured content of the revokedCertificates SEQUENCE (empty when the field is absent) -/
  revoked : Bytes
  aki : Bytes
  number : Bytes
  tbs : Bytes
  signature : Bytes
deriving Repr

structure CrlExts where
  aki : Option Bytes := none
  number : Option Bytes := none
deriving Repr

/-- the value of one CRL extension (decoded in DER mode from the octets of the extension value) -/
def crlExtValue (e : CrlExts) (id v : Bytes) : Option CrlExts :=
  if id = oidAuthorityKeyId then
    if e.aki.isSome then none
    else match takeCons tagSeq v with
      | none => none
      | some (ac, _) =>
        match takePrim 0x80 ac with
        | some (k, r) => if keyIdOk k ∧ r = [] then some { e with aki := some k } else none
        | none => none
  else if id = oidCrlNumber then
    if e.number.isSome then none
    else match takePrim tagInt v with
      | none => none
      | some (nc, _) =>
        match X509.decodeSerialContent nc with
        | some n => some { e with number := some n }
        | none => none
  else none

/-- one CRL extension; the criticality flag is read and ignored -/
def crlExtension (e : CrlExts) (c : Bytes) : Option CrlExts :=
  match takeOid c with
  | none => none
  | some (id, r0) =>
    let r1 : Option Bytes := match takeOptBool r0 with
      | .absent => some r0 | .bad => none | .ok _ r => some r
    match r1 with
    | none => none
    | some r1 =>
      match takePrim tagOctetString r1 with
      | none => none
      | some (v, r2) => if r2 ≠ [] then none else crlExtValue e id v

/-- `RevokedCertificates::take_from`: an optional SEQUENCE whose content is captured after the counting
pass; the captured octets and what follows -/
def takeRevoked (b : Bytes) : Option (Bytes × Bytes) :=
  match takeOptCons tagSeq b with
  | .absent => some ([], b)
  | .bad => none
  | .ok c rest => match Crl.capture c with
    | some _ => some (c, rest)
    | none => none

/-- `TbsCertList::take_from` on the captured octets -/
def decodeTbsCrl (raw : Bytes) : Option (Bool × CrlD) :=
  match takeCons tagSeq raw with
  | none => none
  | some (c, _) =>
    match takePrim tagInt c with
    | none => none
    | some (vi, r0) =>
      if vi ≠ [1] then none else
      match takeSigAlg r0 with
      | none => none
      | some (innerParam, r1) =>
        match takeName r1 with
        | none => none
        | some (issuer, r2) =>
          match Manifest.takeTime r2 with
          | none => none
          | some (thisUpdate, r3) =>
            match Manifest.takeTime r3 with
            | none => none
            | some (nextUpdate, r4) =>
              match takeRevoked r4 with
              | none => none
              | some (revoked, r5) =>
                match takeCons 0xA0 r5 with
                | none => none
                | some (xc, r6) =>
                  if r6 ≠ [] then none else
                  match takeCons tagSeq xc with
                  | none => none
                  | some (xs, xr) =>
                    if xr ≠ [] then none else
                    match foldCons tagSeq crlExtension xs.length xs {} with
                    | none => none
                    | some e =>
                      match e.aki, e.number with
                      | some aki, some number =>
                        some (innerParam, { issuer, thisUpdate, nextUpdate, revoked, aki, number, tbs := raw, signature := [] })
                      | _, _ => none

/-- `Crl::from_constructed` on the content of the CRL SEQUENCE -/
def crlInner (c : Bytes) : Option CrlD :=
  if c = [] then none else
  match skipOne c with
  | none => none
  | some r1 =>
    let raw := c.take (c.length - r1.length)
    match takeSigAlg r1 with
    | none => none
    | some (outerParam, r2) =>
      match takeBitString r2 with
      | none => none
      | some (_, sig, r3) =>
        if r3 ≠ [] then none else
        match decodeTbsCrl raw with
        | none => none
        | some (innerParam, d) => if innerParam ≠ outerParam then none else some { d with signature := sig }

/-- `Crl::take_from`: one CRL and what follows it -/
def takeCrl (b : Bytes) : Option (CrlD × Bytes) :=
  match takeCons tagSeq b with
  | none => none
  | some (c, rest) => (crlInner c).map (·, rest)

/-- `Crl::decode` -/
def decodeCrl (b : Bytes) : Option CrlD := (takeCrl b).map (·.1)

end Rpki.CrlDer
