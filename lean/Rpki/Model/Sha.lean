/-
  SHA-256 and SHA-1 (FIPS 180-4), written from the standard.  These are *reference* functions for
  the oracles (manifest hashes, message digests, key identifiers): the implementation's digests
  come from aws-lc and are compared against these on every case that mentions a digest.
-/
namespace Rpki.Sha

def k256 : Array UInt32 := #[
  0x428a2f98, 0x71374491, 0xb5c0fbcf, 0xe9b5dba5, 0x3956c25b, 0x59f111f1, 0x923f82a4, 0xab1c5ed5,
  0xd807aa98, 0x12835b01, 0x243185be, 0x550c7dc3, 0x72be5d74, 0x80deb1fe, 0x9bdc06a7, 0xc19bf174,
  0xe49b69c1, 0xefbe4786, 0x0fc19dc6, 0x240ca1cc, 0x2de92c6f, 0x4a7484aa, 0x5cb0a9dc, 0x76f988da,
  0x983e5152, 0xa831c66d, 0xb00327c8, 0xbf597fc7, 0xc6e00bf3, 0xd5a79147, 0x06ca6351, 0x14292967,
  0x27b70a85, 0x2e1b2138, 0x4d2c6dfc, 0x53380d13, 0x650a7354, 0x766a0abb, 0x81c2c92e, 0x92722c85,
  0xa2bfe8a1, 0xa81a664b, 0xc24b8b70, 0xc76c51a3, 0xd192e819, 0xd6990624, 0xf40e3585, 0x106aa070,
  0x19a4c116, 0x1e376c08, 0x2748774c, 0x34b0bcb5, 0x391c0cb3, 0x4ed8aa4a, 0x5b9cca4f, 0x682e6ff3,
  0x748f82ee, 0x78a5636f, 0x84c87814, 0x8cc70208, 0x90befffa, 0xa4506ceb, 0xbef9a3f7, 0xc67178f2]

def rotr (x : UInt32) (n : UInt32) : UInt32 := (x >>> n) ||| (x <<< (32 - n))
def rotl (x : UInt32) (n : UInt32) : UInt32 := (x <<< n) ||| (x >>> (32 - n))

/-- message padding: 0x80, zeros, 64-bit big-endian bit length -/
def pad (msg : List UInt8) : Array UInt8 := Id.run do
  let len := msg.length
  let mut a : Array UInt8 := msg.toArray
  a := a.push 0x80
  while a.size % 64 ≠ 56 do
    a := a.push 0
  let bits := len * 8
  for i in [0:8] do
    a := a.push (UInt8.ofNat (bits / 2 ^ (8 * (7 - i)) % 256))
  return a

def word (a : Array UInt8) (i : Nat) : UInt32 :=
  (a[i]!.toUInt32 <<< 24) ||| (a[i+1]!.toUInt32 <<< 16) ||| (a[i+2]!.toUInt32 <<< 8) ||| a[i+3]!.toUInt32

def wordBytes (w : UInt32) : List UInt8 :=
  [(w >>> 24).toUInt8, (w >>> 16).toUInt8, (w >>> 8).toUInt8, w.toUInt8]

def sha256 (msg : List UInt8) : List UInt8 := Id.run do
  let data := pad msg
  let mut h : Array UInt32 := #[0x6a09e667, 0xbb67ae85, 0x3c6ef372, 0xa54ff53a,
                                0x510e527f, 0x9b05688c, 0x1f83d9ab, 0x5be0cd19]
  for blk in [0:data.size / 64] do
    let mut w : Array UInt32 := Array.replicate 64 0
    for t in [0:16] do
      w := w.set! t (word data (blk * 64 + 4 * t))
    for t in [16:64] do
      let x := w[t-15]!
      let y := w[t-2]!
      let s0 := rotr x 7 ^^^ rotr x 18 ^^^ (x >>> 3)
      let s1 := rotr y 17 ^^^ rotr y 19 ^^^ (y >>> 10)
      w := w.set! t (w[t-16]! + s0 + w[t-7]! + s1)
    let mut a := h[0]!
    let mut b := h[1]!
    let mut c := h[2]!
    let mut d := h[3]!
    let mut e := h[4]!
    let mut f := h[5]!
    let mut g := h[6]!
    let mut hh := h[7]!
    for t in [0:64] do
      let s1 := rotr e 6 ^^^ rotr e 11 ^^^ rotr e 25
      let ch := (e &&& f) ^^^ ((~~~ e) &&& g)
      let t1 := hh + s1 + ch + k256[t]! + w[t]!
      let s0 := rotr a 2 ^^^ rotr a 13 ^^^ rotr a 22
      let maj := (a &&& b) ^^^ (a &&& c) ^^^ (b &&& c)
      let t2 := s0 + maj
      hh := g; g := f; f := e; e := d + t1; d := c; c := b; b := a; a := t1 + t2
    h := #[h[0]! + a, h[1]! + b, h[2]! + c, h[3]! + d, h[4]! + e, h[5]! + f, h[6]! + g, h[7]! + hh]
  return h.toList.flatMap wordBytes

def sha1 (msg : List UInt8) : List UInt8 := Id.run do
  let data := pad msg
  let mut h : Array UInt32 := #[0x67452301, 0xEFCDAB89, 0x98BADCFE, 0x10325476, 0xC3D2E1F0]
  for blk in [0:data.size / 64] do
    let mut w : Array UInt32 := Array.replicate 80 0
    for t in [0:16] do
      w := w.set! t (word data (blk * 64 + 4 * t))
    for t in [16:80] do
      w := w.set! t (rotl (w[t-3]! ^^^ w[t-8]! ^^^ w[t-14]! ^^^ w[t-16]!) 1)
    let mut a := h[0]!
    let mut b := h[1]!
    let mut c := h[2]!
    let mut d := h[3]!
    let mut e := h[4]!
    for t in [0:80] do
      let (f, k) : UInt32 × UInt32 :=
        if t < 20 then ((b &&& c) ||| ((~~~ b) &&& d), 0x5A827999)
        else if t < 40 then (b ^^^ c ^^^ d, 0x6ED9EBA1)
        else if t < 60 then ((b &&& c) ||| (b &&& d) ||| (c &&& d), 0x8F1BBCDC)
        else (b ^^^ c ^^^ d, 0xCA62C1D6)
      let tmp := rotl a 5 + f + e + k + w[t]!
      e := d; d := c; c := rotl b 30; b := a; a := tmp
    h := #[h[0]! + a, h[1]! + b, h[2]! + c, h[3]! + d, h[4]! + e]
  return h.toList.flatMap wordBytes

def sha256N (msg : List Nat) : List Nat := (sha256 (msg.map UInt8.ofNat)).map UInt8.toNat
def sha1N (msg : List Nat) : List Nat := (sha1 (msg.map UInt8.ofNat)).map UInt8.toNat

end Rpki.Sha
