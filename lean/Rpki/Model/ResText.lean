/-
  Text form of resource sets (`Display` of `AsBlocks`, `Ipv4Blocks`, `Ipv6Blocks`, as used in the
  RFC 6492 `resource_set_*` attributes, in JSON and in logs): `src/repository/resources/asres.rs`
  (`Asn`, `AsRange`, `AsBlocks`), `ipres.rs` (`Prefix::fmt_v4/fmt_v6`, `AddressRange::fmt_v4/fmt_v6`,
  `IpBlocksForFamily`) on top of the standard library's `Ipv4Addr` / `Ipv6Addr` display, which is
  modelled here from its documentation (RFC 5952: lower-case hexadecimal without leading zeros, the
  first longest run of two or more zero groups written as `::`, IPv4-mapped addresses in mixed form).
  Addresses are 128-bit naturals; IPv4 addresses live in the upper 32 bits.
-/
import Rpki.Model.Chain
namespace Rpki.ResText
open Rpki.Chain

abbrev Bytes := List Nat

def decAux : Nat → Nat → Bytes → Bytes
  | 0, _, acc => acc
  | fuel + 1, n, acc => if n < 10 then (48 + n) :: acc else decAux fuel (n / 10) ((48 + n % 10) :: acc)
/-- decimal digits -/
def decimal (n : Nat) : Bytes := decAux (n + 1) n []

def hexDigit (v : Nat) : Nat := if v < 10 then 48 + v else 87 + v
def hexAux : Nat → Nat → Bytes → Bytes
  | 0, _, acc => acc
  | fuel + 1, n, acc => if n < 16 then hexDigit n :: acc else hexAux fuel (n / 16) (hexDigit (n % 16) :: acc)
/-- `{:x}` -/
def hexLower (n : Nat) : Bytes := hexAux (n + 1) n []

/-- `Ipv4Addr` display of a 32-bit value -/
def fmtV4 (a : Nat) : Bytes :=
  decimal (a / 2 ^ 24 % 256) ++ [46] ++ decimal (a / 2 ^ 16 % 256) ++ [46] ++ decimal (a / 2 ^ 8 % 256) ++ [46] ++ decimal (a % 256)

def groups (a : Nat) : List Nat := (List.range 8).map fun i => a / 2 ^ (16 * (7 - i)) % 65536

/-- the first longest run of zero groups: (start, length) -/
def longestZeros : List Nat → Nat → Nat → Nat → Nat → Nat → Nat × Nat
  | [], _, _, _, ls, ll => (ls, ll)
  | g :: rest, i, cs, cl, ls, ll =>
    if g = 0 then
      let cs' := if cl = 0 then i else cs
      let cl' := cl + 1
      if cl' > ll then longestZeros rest (i + 1) cs' cl' cs' cl' else longestZeros rest (i + 1) cs' cl' ls ll
    else longestZeros rest (i + 1) 0 0 ls ll

def joinColon : List Nat → Bytes
  | [] => []
  | [g] => hexLower g
  | g :: rest => hexLower g ++ [58] ++ joinColon rest

/-- `Ipv6Addr` display of a 128-bit value -/
def fmtV6 (a : Nat) : Bytes :=
  if a / 2 ^ 32 = 0xffff then [58, 58, 102, 102, 102, 102, 58] ++ fmtV4 (a % 2 ^ 32)
  else
    let gs := groups a
    let (st, len) := longestZeros gs 0 0 0 0 0
    if len > 1 then joinColon (gs.take st) ++ [58, 58] ++ joinColon (gs.drop (st + len))
    else joinColon gs

/-- a block as the chain stores it: a prefix (address, length) or a range -/
inductive TBlk where
  | pfx (addr len : Nat)
  | range (lo hi : Nat)
deriving Repr, DecidableEq

def fmtAddr (v4 : Bool) (a : Nat) : Bytes := if v4 then fmtV4 (a / 2 ^ 96) else fmtV6 a

/-- `IpBlock::fmt_v4` / `fmt_v6` -/
def fmtBlock (v4 : Bool) : TBlk → Bytes
  | .pfx a len => fmtAddr v4 a ++ (if len = (if v4 then 32 else 128) then [] else [47] ++ decimal len)
  | .range lo hi => if lo = hi then fmtAddr v4 lo else fmtAddr v4 lo ++ [45] ++ fmtAddr v4 hi

def joinComma : List Bytes → Bytes
  | [] => []
  | [b] => b
  | b :: rest => b ++ [44, 32] ++ joinComma rest

/-- `IpBlocksForFamily: Display` -/
def fmtIp (v4 : Bool) (bs : List TBlk) : Bytes := joinComma (bs.map (fmtBlock v4))

/-- the variant a canonical chain stores for a block: a prefix whenever the range is one -/
def tagged (b : Blk) : TBlk :=
  match intoPrefix 128 b.lo b.hi with
  | some len => .pfx b.lo len
  | none => .range b.lo b.hi

/-- `AsBlocks: Display`: `AS<n>` for a single number, `AS<min>-AS<max>` for a range -/
def fmtAsBlock (b : Blk) : Bytes :=
  if b.lo = b.hi then [65, 83] ++ decimal b.lo else [65, 83] ++ decimal b.lo ++ [45, 65, 83] ++ decimal b.hi

def fmtAs (bs : List Blk) : Bytes := joinComma (bs.map fmtAsBlock)

end Rpki.ResText
